/-
Model of the configuration-update protocol of the lunar engine (core Lean only), AFTER the repairs
F08a–F08e (see fixes/F08*.patch):

* `config/gateway_file_system.go`   — `FileSystemOperation` (Backup / Restore / CleanAll / Save*,
  `storeFileOnDisk`).  `Restore` iterates `backup.GetDiff(currentSnapshot.md5)` — every backed-up
  file whose content changed or which disappeared gets its BACKED-UP content back — and then removes
  the files that were not there when the backup was taken (F08a).  `storeFileOnDisk` removes the
  file before anything that can fail.  `SaveMetricsConfig` writes the user metrics path, the one
  backup and clean-up cover (F08d).
* `routing/handling_data_manager.go` — `handleConfiguration`, `handleApplyFlows` (now with the same
  backup / restore / reload-again path as `/configuration`, F08b; both `return` after answering
  405 to a non-PUT request, F08e), `reloadFlows`, `initializeStreams` (`rd.stream = stream` only
  AFTER `stream.Initialize()` succeeded, F08c; the `verif` yield point sits just before the
  assignment: a transaction arriving there is served by the engine that is still published).
* `streams/config/flows_payload.utils.go` — `ParsePayload` (base64), `SavePayloadContentToDisk`
  (flows, quotas, path params, gateway config, metrics — in that order), `CleanUpGatewayDirectories`.

Still open (F08f): a reload that fails AFTER the switch (HAProxy update, metrics reload) is
answered 422 and rolled back, but between the switch and the end of the rollback reload traffic
is served by the rejected configuration.

The file system is a finite map path → bytes (association list, first binding wins).  MD5 is
modelled as the identity (an injective function).  YAML decoding / flow validation / metrics
loading are predicates of the environment (`Env`), as are the injected faults (`plan`: which
primitive step fails) and the orders in which Go iterates its maps (order of the item list,
`cleanOrder`, `restoreOrder`).
-/
namespace LunarVerif.C08

/-- The paths `FileSystemOperation` knows about, plus the built-in metrics file. -/
inductive Path
  | flow (name : String)      -- <LUNAR_PROXY_FLOW_DIRECTORY>/name
  | quota (name : String)     -- <LUNAR_PROXY_QUOTAS_DIRECTORY>/name
  | pparam (name : String)    -- <LUNAR_FLOWS_PATH_PARAM_DIR>/name
  | gateway                   -- LUNAR_PROXY_CONFIG
  | userMetrics               -- LUNAR_PROXY_METRICS_CONFIG
  | defaultMetrics            -- LUNAR_PROXY_METRICS_CONFIG_DEFAULT (not in the scope of the backup)
deriving DecidableEq, Repr

abbrev Bytes := String
abbrev Disk := List (Path × Bytes)

namespace Disk
def get : Disk → Path → Option Bytes
  | [], _ => none
  | (q, c) :: rest, p => if q = p then some c else get rest p

/-- `os.Remove` (a missing file is not an error). -/
def remove (d : Disk) (p : Path) : Disk := d.filter (fun e => decide (e.1 ≠ p))

/-- create + write. -/
def write (d : Disk) (p : Path) (c : Bytes) : Disk := (p, c) :: remove d p

def keys (d : Disk) : List Path := d.map (·.1)

/-- No path is bound twice. -/
def WF (d : Disk) : Prop := (keys d).Nodup
end Disk

/-- Inside one of the three directories (`fs.directories`). -/
def Path.inDirs : Path → Bool
  | .flow _ | .quota _ | .pparam _ => true
  | _ => false

/-- In the scope of `FileSystemOperation` (three directories + gateway config + USER metrics file). -/
def Path.covered : Path → Bool
  | .defaultMetrics => false
  | _ => true

/-- The stream engine pointer `rd.stream`: an engine initialised from a disk snapshot
    (`uninit`: no engine yet — only before the first load). -/
inductive Engine
  | ready (snap : Disk)
  | uninit
deriving Repr

/-- What a transaction is served with: the flow file content the engine loaded for `p`
    (`none` = no flow applies). -/
def Engine.probe : Engine → Path → Option Bytes
  | .ready s, p => s.get p
  | .uninit, _ => none

/-- Primitive steps that can be made to fail. `r` = reload round (1 = after the save, 2 = after the restore). -/
inductive Step
  | backupRead                 -- any read of `Backup()`
  | cleanRemove (p : Path)     -- `cleanUpFile` of `CleanAll` (apply_flows)
  | save (item : Path)         -- `storeFileOnDisk` for the payload item `item` (mkdir / create / write)
  | saveUnlink (item : Path)   -- the `cleanUpFile` at the top of that `storeFileOnDisk` (its error is ignored)
  | validate (r : Nat)         -- dry run
  | initialize (r : Nat)       -- `stream.Initialize()`
  | haproxy (r : Nat)          -- `ManageHAProxyEndpoints`
  | metrics (r : Nat)          -- `ReloadMetricsConfig`
  | restoreRead                -- any read of the snapshot taken by `Restore()`
  | restoreStore (p : Path)    -- `storeFileOnDisk` inside `Restore()`
  | restoreUnlink (p : Path)   -- the ignored `cleanUpFile` at the top of that `storeFileOnDisk`
deriving DecidableEq, Repr

structure Env where
  plan : Step → Bool                    -- injected faults
  validates : Disk → Bool               -- verdict of the dry run on a disk
  metricsOk : Disk → Bool               -- the effective metrics file loads
  hasEndpoints : Disk → Bool            -- the engine asks HAProxy to manage at least one endpoint
  cleanOrder : List Path                -- order in which `CleanAll` ranges over `fs.files`
  restoreOrder : List Path → List Path  -- order in which `Restore()` ranges over the backup's diff

structure Item where
  path : Path                  -- `userMetrics` designates the `metrics` field of the payload
  content : Option Bytes       -- `none` = not valid base64
deriving Repr, DecidableEq

inductive Body
  | badJson
  | null
  | payload (items : List Item)
deriving Repr

inductive Endpoint | configuration | applyFlows
deriving DecidableEq, Repr

structure Req where
  ep : Endpoint
  methodPut : Bool
  body : Body
  gate : Bool      -- a transaction arrives at the yield point just before `rd.stream = stream`
deriving Repr

inductive Phase | busy | method | decode | nodata | backup | parse | cleanup | save | reload | ok
deriving DecidableEq, Repr

structure State where
  disk : Disk
  engine : Engine
deriving Repr

structure Result where
  status : Nat
  phase : Phase
  disk : Disk
  engine : Engine
  mid : List Engine     -- engine serving the transactions that arrive at the switch points
deriving Repr

/-- `ParsePayload`: every item must be valid base64. -/
def parse : List Item → Option (List (Path × Bytes))
  | [] => some []
  | i :: rest =>
    match i.content, parse rest with
    | some c, some ps => some ((i.path, c) :: ps)
    | _, _ => none

/-- The `_ = fs.cleanUpFile(filePath)` at the top of `storeFileOnDisk`: it may fail, nobody looks. -/
def unlinked (unlinkFails : Bool) (d : Disk) (p : Path) : Disk :=
  if unlinkFails then d else d.remove p

/-- `storeFileOnDisk`: unlink (may fail, ignored), then mkdir / `os.Create` (create-TRUNCATE) / write.
    After a successful store the file holds exactly the new bytes whatever the unlink did; a failure
    of the second half leaves the file removed — or untouched, if the unlink had failed too. -/
def store (unlinkFails fault : Bool) (d : Disk) (p : Path) (c : Bytes) : Disk × Bool :=
  if fault then (unlinked unlinkFails d p, false) else ((unlinked unlinkFails d p).write p c, true)

/-- `SavePayloadContentToDisk`: stops at the first failure. -/
def saveAll (env : Env) : Disk → List (Path × Bytes) → Disk × Bool
  | d, [] => (d, true)
  | d, (p, c) :: rest =>
    let r := store (env.plan (.saveUnlink p)) (env.plan (.save p)) d p c
    if r.2 then saveAll env r.1 rest else (r.1, false)

/-- `createFileSystemBackUp` (content; the md5 table is the same data). -/
def snapshot (d : Disk) : Disk := d.filter (fun e => e.1.covered)

/-- First loop of `Restore()`: for every backed-up path whose current content differs (or which is
    gone), store the backed-up content; stops at the first failure. -/
def storeBackAll (env : Env) (backup : Disk) : Disk → List Path → Disk × Bool
  | d, [] => (d, true)
  | d, p :: rest =>
    match backup.get p with
    | none => storeBackAll env backup d rest
    | some c =>
      if d.get p = some c then storeBackAll env backup d rest
      else
        let r := store (env.plan (.restoreUnlink p)) (env.plan (.restoreStore p)) d p c
        if r.2 then storeBackAll env backup r.1 rest else (r.1, false)

/-- `Restore()`: write back what changed, then remove what was added (second loop, not reached
    when a store fails). -/
def restore (env : Env) (backup d : Disk) : Disk × Bool :=
  if env.plan .restoreRead then (d, false)
  else
    let r := storeBackAll env backup d (env.restoreOrder backup.keys)
    if r.2 then
      (r.1.filter (fun e => !e.1.covered || (backup.get e.1).isSome), true)
    else r

structure Reload where
  engine : Engine
  mid : List Engine
  ok : Bool

/-- `reloadFlows` = dry run; `initializeStreams` (Initialize, switch, HAProxy); metrics reload. -/
def reload (env : Env) (r : Nat) (gate : Bool) (d : Disk) (e : Engine) (mid : List Engine) : Reload :=
  if env.plan (.validate r) || !env.validates d then ⟨e, mid, false⟩
  else if env.plan (.initialize r) then ⟨e, mid, false⟩      -- the previous engine keeps serving
  else
    -- yield point: the new engine is built, the previous one still published
    let mid := if gate then mid ++ [e] else mid
    -- rd.stream = stream
    if env.plan (.haproxy r) && env.hasEndpoints d then ⟨.ready d, mid, false⟩
    else if env.plan (.metrics r) || !env.metricsOk d then ⟨.ready d, mid, false⟩
    else ⟨.ready d, mid, true⟩

/-- Everything after `ParsePayload`, given the tree `d1` the saves start from (`st.disk` for
    `/configuration`, the cleaned tree for `/apply_flows`). -/
def saveAndReload (env : Env) (st : State) (req : Req) (backup d1 : Disk)
    (parsed : List (Path × Bytes)) : Result :=
  let s := saveAll env d1 parsed
  if !s.2 then
    ⟨500, .save, (restore env backup s.1).1, st.engine, []⟩
  else
    let r1 := reload env 1 req.gate s.1 st.engine []
    if r1.ok then ⟨200, .ok, s.1, r1.engine, r1.mid⟩
    else
      let d2 := (restore env backup s.1).1
      let r2 := reload env 2 req.gate d2 r1.engine r1.mid
      ⟨422, .reload, d2, r2.engine, r2.mid⟩

def handleConfiguration (env : Env) (st : State) (req : Req) : Result :=
  if !req.methodPut then ⟨405, .method, st.disk, st.engine, []⟩
  else
  match req.body with
  | .badJson => ⟨400, .decode, st.disk, st.engine, []⟩
  | .null => ⟨400, .nodata, st.disk, st.engine, []⟩
  | .payload items =>
    if env.plan .backupRead then ⟨500, .backup, st.disk, st.engine, []⟩
    else
      match parse items with
      | none => ⟨400, .parse, st.disk, st.engine, []⟩
      | some parsed => saveAndReload env st req (snapshot st.disk) st.disk parsed

/-- `CleanAll`, second half: `cleanUpFile` over `fs.files`. -/
def cleanFiles (env : Env) : Disk → List Path → Disk × Bool
  | d, [] => (d, true)
  | d, p :: rest =>
    if env.plan (.cleanRemove p) then (d, false) else cleanFiles env (d.remove p) rest

/-- `CleanAll`: the three directories, then the two files. -/
def cleanAll (env : Env) (d : Disk) : Disk × Bool :=
  cleanFiles env (d.filter (fun e => !e.1.inDirs)) env.cleanOrder

def handleApplyFlows (env : Env) (st : State) (req : Req) : Result :=
  if !req.methodPut then ⟨405, .method, st.disk, st.engine, []⟩
  else
  match req.body with
  | .badJson => ⟨400, .decode, st.disk, st.engine, []⟩
  | .null => ⟨400, .nodata, st.disk, st.engine, []⟩
  | .payload items =>
    if env.plan .backupRead then ⟨500, .backup, st.disk, st.engine, []⟩
    else
      match parse items with
      | none => ⟨400, .parse, st.disk, st.engine, []⟩
      | some parsed =>
        let c := cleanAll env st.disk
        if !c.2 then ⟨500, .cleanup, (restore env (snapshot st.disk) c.1).1, st.engine, []⟩
        else saveAndReload env st req (snapshot st.disk) c.1 parsed

def handle (env : Env) (st : State) (req : Req) : Result :=
  match req.ep with
  | .configuration => handleConfiguration env st req
  | .applyFlows => handleApplyFlows env st req

def Result.state (r : Result) : State := ⟨r.disk, r.engine⟩

/-! ### Two overlapping pushes

`handlingLock.TryLock()` is the FIRST statement of both handlers and is released by a deferred
`Unlock()`: everything a handler reads or writes (the backup snapshot included) happens inside the
critical section. A push that arrives while another one is inside is answered 226 and touches
nothing; a push that arrives after the other one left runs on the state it left. Any interleaving
of the statements of two pushes is therefore one of the four schedules below. -/

/-- A push arriving while `busy` (another push holds `handlingLock`) is answered 226 IM Used. -/
def handleLocked (env : Env) (st : State) (busy : Bool) (req : Req) : Result :=
  if busy then ⟨226, .busy, st.disk, st.engine, []⟩ else handle env st req

inductive Sched
  | aThenB      -- A leaves its critical section before B calls TryLock
  | bThenA
  | aDuringB    -- A calls TryLock while B is inside (e.g. parked in its Backup)
  | bDuringA
deriving DecidableEq, Repr

structure TwoResult where
  ra : Result
  rb : Result
  final : State

def runTwo (env : Env) (st : State) (a b : Req) : Sched → TwoResult
  | .aThenB =>
    let ra := handle env st a
    let rb := handle env ra.state b
    ⟨ra, rb, rb.state⟩
  | .bThenA =>
    let rb := handle env st b
    let ra := handle env rb.state a
    ⟨ra, rb, ra.state⟩
  | .aDuringB =>
    let ra := handleLocked env st true a      -- refused, nothing touched
    let rb := handle env ra.state b
    ⟨ra, rb, rb.state⟩
  | .bDuringA =>
    let rb := handleLocked env st true b
    let ra := handle env rb.state a
    ⟨ra, rb, ra.state⟩

/-! ### What the proxy is told to manage

`config/update_endpoints.go` / `config/policies_accessor.go`: every engine switch of `initializeStreams`
sends a manage request for the endpoints of the new engine (`updateHAProxyEndpoints`: the request serial is
bumped and recorded for every endpoint named) and, when there was a previous engine, schedules the
un-manage of the endpoints the new engine no longer has (`ScheduleUnmanageHAProxyEndpoints`: the serial is
read WHEN THE UN-MANAGE IS SCHEDULED; `staleVersionTTL` = 30 s later `unmanageStaleHAProxyEndpoints` spares
every endpoint that a newer request registered again). An endpoint is identified by the configuration
file it comes from. -/

structure Registry where
  managed : List Path                 -- what HAProxy hands to the engine
  ser : List (Path × Nat)             -- `haproxyManagedSerial` (first binding wins)
  serial : Nat                        -- `haproxyRequestSerial`
  pending : List (List Path × Nat)    -- scheduled un-manages: endpoints, serial at scheduling time

def Registry.empty : Registry := ⟨[], [], 0, []⟩

def Registry.serOf (r : Registry) (e : Path) : Nat :=
  match r.ser.find? (fun x => decide (x.1 = e)) with
  | some x => x.2
  | none => 0

/-- `ManageHAProxyEndpoints` (all admin calls succeeding). -/
def Registry.manage (r : Registry) (eps : List Path) : Registry :=
  { r with serial := r.serial + 1,
           ser := eps.map (fun e => (e, r.serial + 1)) ++ r.ser,
           managed := eps ++ r.managed.filter (fun e => !eps.contains e) }

/-- `ScheduleUnmanageHAProxyEndpoints(EndpointsToUnmanage(prev, new))`. -/
def Registry.schedule (r : Registry) (prev new : List Path) : Registry :=
  let rm := prev.filter (fun e => !new.contains e)
  if rm.isEmpty then r else { r with pending := r.pending ++ [(rm, r.serial)] }

/-- One delayed un-manage firing. -/
def Registry.fire (r : Registry) (job : List Path × Nat) : Registry :=
  { r with managed := r.managed.filter (fun e => !(job.1.contains e && decide (r.serOf e ≤ job.2))) }

/-- The un-manage delay elapses: every scheduled job fires. -/
def Registry.tick (r : Registry) : Registry :=
  { (r.pending.foldl Registry.fire r) with pending := [] }

/-- One engine switch: manage the new endpoints, schedule the un-manage of the dropped ones. -/
def Registry.switch (r : Registry) (prev new : List Path) : Registry :=
  (r.manage new).schedule prev new

/-! ### Policies mode (`LUNAR_STREAMS_ENABLED` unset)

The configuration payload is ONE policies document: `POST /apply_policies` → `UpdateRawData` (unmarshal,
validate, build, `UpdatePoliciesData`: register the endpoints with the proxy and ONLY THEN make the new
policies the current version; then write `policies.yaml`) → `ReloadFromFile`. The two revert endpoints
publish policies that are already loaded. State: the label of the document on disk and the label of the
policies serving NEW transactions. -/

structure PState where
  disk : Nat
  run : Nat
deriving DecidableEq, Repr

inductive PPayload
  | label (k : Nat)    -- a valid policies document
  | invalid            -- not YAML / fails validation
deriving Repr

def applyPolicies (proxyRefuses : Bool) (st : PState) : PPayload → Nat × PState
  | .invalid => (422, st)
  | .label k => if proxyRefuses then (422, st) else (200, ⟨k, k⟩)

def revertPolicies (proxyRefuses : Bool) (st : PState) : Nat × PState :=
  (if proxyRefuses then 422 else 200, st)

end LunarVerif.C08
