import LunarVerif.Model.C10
/-
Plugin level (`services/remedies/strategy_based_queue_plugin.go`): `StrategyBasedQueuePlugin` keeps one
`DelayedPriorityQueue` per FULL `QueueKey{RemedyName, Strategy{WindowQuota, WindowSize}}`, created on
first use with that key's strategy (get-or-create under `queuesMutex`), and never removes one.  Keys
are natural numbers here (the driver encodes name index + 100·quota + 10000·window seconds); `cfgOf`
gives the configuration of a key.  The clock is shared by all queues.  Core Lean only.
-/
namespace LunarVerif.C10

structure Plugin where
  now    : Nat
  queues : List (Nat × State)   -- creation order

inductive PLabel
  | tick (d : Nat)               -- the shared clock moves
  | on (key : Nat) (l : Label)   -- a step of one thread of the queue of `key` (get-or-create first)
deriving Repr

def lookupQ (qs : List (Nat × State)) (k : Nat) : Option State :=
  match qs with
  | [] => none
  | (k', s) :: rest => if k' = k then some s else lookupQ rest k

def setQ (qs : List (Nat × State)) (k : Nat) (s : State) : List (Nat × State) :=
  match qs with
  | [] => [(k, s)]
  | (k', s') :: rest => if k' = k then (k, s) :: rest else (k', s') :: setQ rest k s

def tickQ (d : Nat) (qs : List (Nat × State)) : List (Nat × State) :=
  qs.map fun ks => (ks.1, { ks.2 with now := ks.2.now + d })

/-- One plugin step; `none` = the queue's step is not enabled. -/
def pstep (cfgOf : Nat → Cfg) (p : Plugin) : PLabel → Option Plugin
  | .tick d => some { now := p.now + d, queues := tickQ d p.queues }
  | .on k l =>
    let s := (lookupQ p.queues k).getD (init (cfgOf k) p.now)
    match step (cfgOf k) s l with
    | none => none
    | some (s', _) => some { p with queues := setQ p.queues k s' }

def prun (cfgOf : Nat → Cfg) : Plugin → List PLabel → Option Plugin
  | p, [] => some p
  | p, l :: ls => match pstep cfgOf p l with
    | none => none
    | some p' => prun cfgOf p' ls

/-- Final state of a single queue run (events dropped). -/
def runS (cfg : Cfg) (s : State) (ls : List Label) : Option State := (run cfg s ls).map (·.1)

/-- What the queue of `key` sees of a plugin schedule once it exists: every clock tick and its own steps. -/
def projQ (key : Nat) : List PLabel → List Label
  | [] => []
  | .tick d :: ls => .tick d :: projQ key ls
  | .on k l :: ls => if k = key then l :: projQ key ls else projQ key ls

end LunarVerif.C10
