/-
Model of the fixed-window quota of the lunar engine (core Lean only).

Code modelled (all under /repo/proxy/src/services/lunar-engine/streams):
  * `lunar-context/memory_state.go`  `memoryState.AtomicIncWindow`   (one critical section, `p.mutex`)
  * `resources/quota/fixed_strategy.go`
      `quota.Inc / quota.Allowed / quota.Dec`   (one critical section each, `q.mutex`)  ↦ `incLevel / allowedLevel / decLevel`
      `quota.refund`                            (one critical section, `q.mutex`)      ↦ `refundLevel`
      `fixedWindow.Inc (incChain) / Allowed / Dec` (walk up the parent chain)          ↦ `incChain / allowedChain / decChain`
  * `processors/limiter/limiter_processor.go`   `Execute` = `Inc` then `Allowed`       ↦ `limiter`

A *level* is one `quota` object: one per (quota id, group value).  Its state is the window start
(unix **seconds**, as stored under `<key> // _window_start`), the counter (`<key> // _counter`),
the per-request memo `allowedByReqID`, and the number shown by `GetCounter` (stored under
`<key>`, overwritten with the result of every `AtomicIncWindow`, i.e. with 0 after a refusal).

Time is `Nat` nanoseconds since the Unix epoch.  A request counts 1 (`fixed_window`) or the value of
the header named by `counter_value_path` (`fixed_window_custom_counter`, `costOf`).
Spill-over and monthly renewal are not modelled: in this tree `fixedWindow.monthlyRenewal` is never
assigned and the spill-over counter is never written, so both branches are unreachable.

The second half (`Sys`) is the interleaving semantics: in-flight API calls are threads whose atomic
steps are exactly the level operations above; a schedule is a list of `Act`.
-/
namespace LunarVerif.C01

abbrev QId := Nat
abbrev Grp := Nat   -- group value; 0 = the literal "default" (also used when the header is absent)
abbrev Rid := Nat
/-- The request's headers as far as quotas read them: header id ↦ numeric reading.  Id `i` is the
    group header `x-g<i>` (reading = group value); id `costKey i` is the counter-value header `x-c<i>`
    (reading = `parseCost` of its text).  An absent header has no entry. -/
abbrev Hdrs := List (Nat × Nat)

def costKey (i : Nat) : Nat := 1000000 + i

def nsPerSec : Nat := 1000000000

structure QuotaCfg where
  parent : Option QId
  max    : Nat
  win    : Nat          -- window length, ns
  gh     : Option Nat   -- index of the group-by header, `none` = ungrouped
  cc     : Option Nat := none
                        -- `fixed_window_custom_counter`: index of the header named by `counter_value_path`;
                        -- `none` = `fixed_window` (every request counts 1)
deriving Repr, DecidableEq

/-- Quota definitions; the id of a quota is its position. -/
structure Cfg where
  quotas : List QuotaCfg
deriving Repr

abbrev Key := QId × Grp

/-- `calculateContextKey`: the quota's *own* group-by header, "default" when unset or absent. -/
def groupOf (c : QuotaCfg) (h : Hdrs) : Grp :=
  match c.gh with
  | none => 0
  | some i => (h.lookup i).getD 0

/-- `extractCountF`: 1 for `fixed_window`; for a custom counter the parsed header value, 0 when the
    header is absent or its text is not a non-negative int64 (`quota.Inc`: "Failed to extract count"). -/
def costOf (c : QuotaCfg) (h : Hdrs) : Nat :=
  match c.cc with
  | none => 1
  | some i => (h.lookup (costKey i)).getD 0

/-- `strconv.ParseInt(raw, 10, 64)` followed by the sign test: optional `+`/`-`, at least one digit,
    digits only, within int64; a negative value or any parse error counts 0. -/
def parseCost (raw : String) : Nat :=
  let cs := raw.toList
  let (neg, ds) := match cs with
    | '-' :: rest => (true, rest)
    | '+' :: rest => (false, rest)
    | _ => (false, cs)
  if ds.isEmpty || !ds.all Char.isDigit then 0
  else
    let v := ds.foldl (fun acc d => acc * 10 + (d.toNat - 48)) 0
    if neg then 0 else if v ≤ 9223372036854775807 then v else 0

/-- `AssignQuotaLimitForPercentageAllocation`: the effective limit of an `allocation_percentage` child
    (int64 arithmetic, truncating division). -/
def effMax (parentMax pct : Nat) : Nat := parentMax * pct / 100

/-- The definition the loader builds for a percentage child: a copy of the parent's strategy (window,
    group-by header, counter path) with the effective limit. -/
def allocate (parentId : QId) (parent : QuotaCfg) (pct : Nat) : QuotaCfg :=
  { parent := some parentId, max := effMax parent.max pct, win := parent.win, gh := parent.gh, cc := parent.cc }

/-- The quota and its ancestors, nearest first (fuel = number of quotas). -/
def chainFuel (cfg : Cfg) : Nat → QId → List (QId × QuotaCfg)
  | 0, _ => []
  | n + 1, q =>
    match cfg.quotas[q]? with
    | none => []
    | some c => (q, c) :: (match c.parent with
                           | none => []
                           | some p => chainFuel cfg n p)

def chain (cfg : Cfg) (q : QId) : List (QId × QuotaCfg) := chainFuel cfg cfg.quotas.length q

/-! ### One level = one `quota` object -/

structure Lvl where
  start   : Option Nat          -- window start (seconds); `none` = key not stored yet
  counter : Nat
  memo    : List (Rid × Option Nat)
      -- `allowedByReqID` with `chargedByReqID`: `some c` = entry `true`, `c` counted for it; `none` = entry `false`
  shown   : Nat                 -- what `GetCounter` reports
deriving Repr, DecidableEq

def Lvl.init : Lvl := ⟨none, 0, [], 0⟩

inductive IncRes | already | increased | blocked
deriving Repr, DecidableEq

/-- `currentTime.Sub(windowStart)`; an absent start reads as "now". -/
def elapsed (l : Lvl) (t : Nat) : Nat :=
  match l.start with
  | none => 0
  | some s => t - s * nsPerSec

/-- `quota.Inc` (with `AtomicIncWindow` inlined) for a request that counts `cost`. -/
def incLevel (mx win : Nat) (l : Lvl) (r : Rid) (t : Nat) (cost : Nat) : Lvl × IncRes :=
  match l.memo.lookup r with
  | some _ => (l, .already)
  | none =>
    let restart := decide (win ≤ elapsed l t)          -- `currentTime.Sub(windowStart) >= windowSize`
    let base := if restart then 0 else l.counter
    if mx < base + cost then                             -- `incrBy > max - currentCounter`: nothing stored
      ({ l with memo := if restart then [] else (r, none) :: l.memo, shown := 0 }, .blocked)
    else
      let st := if restart then t / nsPerSec else (match l.start with | none => t / nsPerSec | some s => s)
      ({ start := some st, counter := base + cost,
         memo := (r, some cost) :: (if restart then [] else l.memo), shown := base + cost }, .increased)

/-- What is counted for `r` and still pending at this level (0 if nothing). -/
def pendingAmt (l : Lvl) (r : Rid) : Nat :=
  match l.memo.lookup r with
  | some (some c) => c
  | _ => 0

/-- `quota.Allowed`: read-and-delete. -/
def allowedLevel (l : Lvl) (r : Rid) : Lvl × Bool :=
  match l.memo.lookup r with
  | none => (l, false)
  | some v => ({ l with memo := l.memo.filter (fun e => e.1 != r) }, v.isSome)

/-- `quota.Dec`. -/
def decLevel (l : Lvl) (r : Rid) : Lvl :=
  { l with memo := l.memo.filter (fun e => e.1 != r) }

/-- `quota.refund`: give back what `Inc` counted for `r`, if it is still pending (entry `true`): the
    entry becomes `false`, the stored counter goes down by the amount counted, and so does the shown
    value when it is large enough. -/
def refundLevel (l : Lvl) (r : Rid) : Lvl × Bool :=
  match l.memo.lookup r with
  | some (some c) =>
    ({ l with counter := l.counter - c, memo := (r, none) :: l.memo.filter (fun e => e.1 != r),
              shown := if c ≤ l.shown then l.shown - c else l.shown }, true)
  | _ => (l, false)

/-! ### State of all levels, API calls as the code composes them -/

/-- Finite map from level keys to values with a default (the Go maps `quotaGroups` / the shared
    context): the newest binding of a key wins. -/
def KMap (α : Type) := List (Key × α)

def KMap.get {α : Type} (d : α) : KMap α → Key → α
  | [], _ => d
  | (k', v) :: rest, k => if k' = k then v else KMap.get d rest k

def KMap.set {α : Type} (m : KMap α) (k : Key) (v : α) : KMap α := (k, v) :: m

abbrev St := KMap Lvl

def St.init : St := []

/-- The level `k` (a level never touched is in its initial state). -/
def St.at (st : St) (k : Key) : Lvl := KMap.get Lvl.init st k

/-- `fixedWindow.incChain`: the parent is incremented only when the child answered `increased`; when
    the walk further up answers `blocked`, the count taken at this level is given back and `blocked`
    is passed down.  The answer for an empty chain is `increased` (nothing above objects). -/
def incChain (st : St) : List (QId × QuotaCfg) → Rid → Nat → Hdrs → St × IncRes
  | [], _, _, _ => (st, .increased)
  | (a, c) :: rest, r, t, h =>
    let k := (a, groupOf c h)
    let st' := st.set k (incLevel c.max c.win (st.at k) r t (costOf c h)).1
    match (incLevel c.max c.win (st.at k) r t (costOf c h)).2 with
    | .increased =>
      match (incChain st' rest r t h).2 with
      | .blocked =>
        ((incChain st' rest r t h).1.set k (refundLevel ((incChain st' rest r t h).1.at k) r).1, .blocked)
      | _ => ((incChain st' rest r t h).1, .increased)
    | res => (st', res)

/-- `fixedWindow.Allowed`: conjunction up the chain, stopping at the first `false`. -/
def allowedChain (st : St) : List (QId × QuotaCfg) → Rid → Hdrs → St × Bool
  | [], _, _ => (st, true)
  | (a, c) :: rest, r, h =>
    let k := (a, groupOf c h)
    let (l', b) := allowedLevel (st.at k) r
    let st' := st.set k l'
    if b then allowedChain st' rest r h else (st', false)

/-- `fixedWindow.Dec`: every level of the chain. -/
def decChain (st : St) : List (QId × QuotaCfg) → Rid → Hdrs → St
  | [], _, _ => st
  | (a, c) :: rest, r, h =>
    let k := (a, groupOf c h)
    decChain (st.set k (decLevel (st.at k) r)) rest r h

/-- The limiter processor: `Inc` then `Allowed` on the same quota. -/
def limiter (cfg : Cfg) (st : St) (q : QId) (r : Rid) (t : Nat) (h : Hdrs) : St × Bool :=
  allowedChain (incChain st (chain cfg q) r t h).1 (chain cfg q) r h

/-! ### API-level operations (what the correspondence harness issues, one at a time) -/

inductive Kind | inc | allowed | dec | req
deriving Repr, DecidableEq

structure Op where
  kind : Kind
  q    : QId
  r    : Rid
  t    : Nat
  h    : Hdrs
deriving Repr, DecidableEq

/-- Answer of an API call: `none` for calls that return nothing (`Inc`, `Dec`). -/
def apiStep (cfg : Cfg) (st : St) (o : Op) : St × Option Bool :=
  match o.kind with
  | .inc => ((incChain st (chain cfg o.q) o.r o.t o.h).1, none)
  | .allowed => ((allowedChain st (chain cfg o.q) o.r o.h).1, some (allowedChain st (chain cfg o.q) o.r o.h).2)
  | .dec => (decChain st (chain cfg o.q) o.r o.h, none)
  | .req => ((limiter cfg st o.q o.r o.t o.h).1, some (limiter cfg st o.q o.r o.t o.h).2)

/-- Run a sequence of API calls from the initial state; answers oldest first. -/
def apiRun (cfg : Cfg) : St → List Op → List (Option Bool)
  | _, [] => []
  | st, o :: os => let (st', a) := apiStep cfg st o; a :: apiRun cfg st' os

def apiFinal (cfg : Cfg) : St → List Op → St
  | st, [] => st
  | st, o :: os => apiFinal cfg (apiStep cfg st o).1 os

/-! ### Spill-over and monthly renewal, as the code has them today

A quota may declare the optional `spillover` block (accepted by validation only together with
`monthly_renewal` on the root of its tree).  `fixedWindow.monthlyRenewal` is never assigned from the
configuration, so `aligningMonthlyReset` never resets anything.  `quota.Inc` of a quota with the block
first reads the spill-over credit stored under `<key>_spilloverCount`: a positive credit is used up
(credit − 1, the request is let through without touching the window counter); otherwise `Inc` proceeds
as `incLevel`.  No code path ever *adds* to that credit (`quota.Reset`: "TODO: Implement spillover
reset"), so it is 0 from the start and stays 0: `incLevelFull` below is the code, `incLevelFull_zero`
says that with credit 0 it is `incLevel` and the credit stays 0.  The rest of the model therefore uses
`incLevel` for every quota, with or without the block. -/

/-- `quota.Inc` including the spill-over branch; `credit` is the value under `spilloverCountKey`. -/
def incLevelFull (withSpillover : Bool) (credit : Nat) (mx win : Nat) (l : Lvl) (r : Rid) (t : Nat) (cost : Nat) :
    (Lvl × IncRes) × Nat :=
  match l.memo.lookup r with
  | some _ => ((l, .already), credit)
  | none =>
    if withSpillover && decide (0 < credit) then
      (({ l with memo := (r, some 0) :: l.memo }, .increased), credit - 1)
    else (incLevel mx win l r t cost, credit)

/-! ### The engine: which quotas keep a live system flow

Every fixed-window quota contributes a `QuotaProcessorInc` to the system flow of its filter
(`getProcessors`); `Stream.attachSystemFlows` switches that processor off for every quota named by a user
flow and for all its ancestors (`getQuotaReferences` / `addParentsQuotaReferences`).  The processors that
stay live run, in the order the quotas were loaded (a root, then the internal limits of its tree in file
order), before the user flow's Limiter.  All quotas of a case share one filter. -/

/-- Is `a` the quota `q` itself or one of its ancestors? -/
def inChain (cfg : Cfg) (q a : QId) : Bool := (chain cfg q).any (fun p => p.1 == a)

/-- The root of the tree of `q` (the last element of its chain). -/
def rootId (cfg : Cfg) (q : QId) : QId :=
  match (chain cfg q).getLast? with
  | some p => p.1
  | none => q

/-- Quotas whose system-flow `QuotaProcessorInc` is live, in execution order, given the quotas named by
    user flows. -/
def liveOrder (cfg : Cfg) (refs : List QId) : List QId :=
  let ids := List.range cfg.quotas.length
  let roots := ids.filter (fun i => rootId cfg i == i)
  let order := roots.flatMap (fun rt => ids.filter (fun i => rootId cfg i == rt))
  order.filter (fun i => !(refs.any (fun q => inChain cfg q i)))

/-- A request through the engine on the URL of quota `q`: the live system-flow increments, then — if a
    user flow names `q` — the limiter. -/
def engineOps (cfg : Cfg) (refs : List QId) (q : QId) (r : Rid) (t : Nat) (h : Hdrs) : List Op :=
  (liveOrder cfg refs).map (fun a => ⟨.inc, a, r, t, h⟩) ++ (if refs.contains q then [⟨.req, q, r, t, h⟩] else [])

/-- State after the request and its verdict (`true` when no user flow, hence no limiter, handles it). -/
def engineReq (cfg : Cfg) (refs : List QId) (st : St) (q : QId) (r : Rid) (t : Nat) (h : Hdrs) : St × Bool :=
  let st' := apiFinal cfg st (engineOps cfg refs q r t h)
  let ans := if refs.contains q then
      (limiter cfg (apiFinal cfg st ((liveOrder cfg refs).map (fun a => ⟨.inc, a, r, t, h⟩))) q r t h).2
    else true
  (st', ans)

/-! ### Interleaving semantics: threads whose atomic steps are the level operations -/

/-- Event of the level API (`quota.Inc/Allowed/Dec` on one `quota` object). -/
inductive LEv
  | inc (k : Key) (r : Rid) (t : Nat) (cost : Nat) (res : IncRes)
  | allowed (k : Key) (r : Rid) (b : Bool) (amt : Nat)    -- `amt`: what had been counted for the request
  | dec (k : Key) (r : Rid)
  | refund (k : Key) (r : Rid) (done : Bool) (amt : Nat)
  | verdict (tid : Nat) (r : Rid) (q : QId) (b : Bool)
deriving Repr, DecidableEq

inductive Pc
  | inc (todo : List (QId × QuotaCfg)) (charged : List (QId × QuotaCfg)) (thenAllowed : Bool)
      -- walking up; `charged` = the levels that answered `increased` so far, nearest ancestor first
  | refund (todo : List (QId × QuotaCfg)) (thenAllowed : Bool)   -- unwinding after a `blocked` answer
  | allowed (todo : List (QId × QuotaCfg))
  | dec (todo : List (QId × QuotaCfg))
  | done (verdict : Option Bool)
deriving Repr, DecidableEq

structure Thread where
  r  : Rid
  q  : QId
  h  : Hdrs
  pc : Pc
deriving Repr, DecidableEq

inductive Act
  | spawn (kind : Kind) (q : QId) (r : Rid) (h : Hdrs)   -- a new API call arrives
  | step (tid : Nat)                                       -- thread `tid` performs its next atomic step
  | tick (d : Nat)                                         -- the clock advances by `d` ns
deriving Repr, DecidableEq

structure Sys where
  st      : St
  now     : Nat
  threads : List Thread
  log     : List LEv        -- most recent first

def Sys.init (t0 : Nat) : Sys := ⟨St.init, t0, [], []⟩

def spawnPc (cfg : Cfg) (kind : Kind) (q : QId) : Pc :=
  match kind with
  | .inc => .inc (chain cfg q) [] false
  | .req => .inc (chain cfg q) [] true
  | .allowed => .allowed (chain cfg q)
  | .dec => .dec (chain cfg q)

/-- Where a thread goes when its `Inc` walk is over. -/
def afterInc (cfg : Cfg) (q : QId) (thenA : Bool) : Pc :=
  if thenA then .allowed (chain cfg q) else .done none

/-- Continuation of the `Inc` walk after level `(a, c)` answered `res`. -/
def incNext (cfg : Cfg) (q : QId) (ac : QId × QuotaCfg) (res : IncRes)
    (rest charged : List (QId × QuotaCfg)) (thenA : Bool) : Pc :=
  match res with
  | .increased => (match rest with
                  | [] => afterInc cfg q thenA
                  | _ :: _ => .inc rest (ac :: charged) thenA)
  | .blocked => (match charged with
                | [] => afterInc cfg q thenA
                | _ :: _ => .refund charged thenA)
  | .already => afterInc cfg q thenA

def refundNext (cfg : Cfg) (q : QId) (rest : List (QId × QuotaCfg)) (thenA : Bool) : Pc :=
  match rest with
  | [] => afterInc cfg q thenA
  | _ :: _ => .refund rest thenA

/-- One atomic step of a thread.  Returns the new level state map, the new pc and the logged events. -/
def stepThread (cfg : Cfg) (st : St) (now : Nat) (tid : Nat) (th : Thread) : St × Pc × List LEv :=
  match th.pc with
  | .inc [] _ thenA => (st, afterInc cfg th.q thenA, [])
  | .inc ((a, c) :: rest) charged thenA =>
    let k := (a, groupOf c th.h)
    (st.set k (incLevel c.max c.win (st.at k) th.r now (costOf c th.h)).1,
     incNext cfg th.q (a, c) (incLevel c.max c.win (st.at k) th.r now (costOf c th.h)).2 rest charged thenA,
     [LEv.inc k th.r now (costOf c th.h) (incLevel c.max c.win (st.at k) th.r now (costOf c th.h)).2])
  | .refund [] thenA => (st, afterInc cfg th.q thenA, [])
  | .refund ((a, c) :: rest) thenA =>
    let k := (a, groupOf c th.h)
    (st.set k (refundLevel (st.at k) th.r).1, refundNext cfg th.q rest thenA,
     [LEv.refund k th.r (refundLevel (st.at k) th.r).2 (pendingAmt (st.at k) th.r)])
  | .allowed [] => (st, .done none, [])
  | .allowed ((a, c) :: rest) =>
    let k := (a, groupOf c th.h)
    let (l', b) := allowedLevel (st.at k) th.r
    if b then
      match rest with
      | [] => (st.set k l', .done (some true),
               [LEv.verdict tid th.r th.q true, LEv.allowed k th.r true (pendingAmt (st.at k) th.r)])
      | _ :: _ => (st.set k l', .allowed rest, [LEv.allowed k th.r true (pendingAmt (st.at k) th.r)])
    else (st.set k l', .done (some false),
          [LEv.verdict tid th.r th.q false, LEv.allowed k th.r false (pendingAmt (st.at k) th.r)])
  | .dec [] => (st, .done none, [])
  | .dec ((a, c) :: rest) =>
    let k := (a, groupOf c th.h)
    (st.set k (decLevel (st.at k) th.r), .dec rest, [LEv.dec k th.r])
  | .done v => (st, .done v, [])

def Sys.act (cfg : Cfg) (s : Sys) : Act → Sys
  | .spawn kind q r h => { s with threads := s.threads ++ [⟨r, q, h, spawnPc cfg kind q⟩] }
  | .tick d => { s with now := s.now + d }
  | .step tid =>
    match s.threads[tid]? with
    | none => s
    | some th =>
      let (st', pc', evs) := stepThread cfg s.st s.now tid th
      { s with st := st', threads := s.threads.set tid { th with pc := pc' }, log := evs ++ s.log }

/-- Run a schedule. -/
def Sys.run (cfg : Cfg) (s : Sys) (acts : List Act) : Sys := acts.foldl (Sys.act cfg) s

end LunarVerif.C01
