/-
Model of the flows-mode `Queue` processor
(`streams/processors/queue/{queue_processor,queue_request,queue_request_watcher}.go`,
`streams/lunar-context/shared_queue.go`, fixed-window quota of
`streams/resources/quota/fixed_strategy.go` + `lunar-context/memory_state.go:AtomicIncWindow`).
Core Lean only.

An interleaving transition system at critical-section granularity.  Threads:

* request threads (`Execute` → `enqueue`): `arrive` (NewRequest + `RequestWatcher.ReserveSlot`: the
  size test and the increment of the counter are ONE atomic step), `register`
  (`RequestWatcher.AddRequest`: both maps),
  `push` (`queue.Enqueue`), park on the WaitGroup, `wake` (Wait returns, result read, Execute
  returns), then the asynchronous `removeRequest`: `unwatch` (`RemoveFromWatchList`) and
  `heapRemove` (`queue.Remove`);
* the processing loop (`process`/`tryProcessQueueItems`/`processQueueItem`): `loopFire` (its 100 ms
  timer), then `loopStep`s: pop, GetRequest+StartProcessing, quota `Inc;Allowed(;Dec)`, on refusal
  `Enqueue` again — `memoryQueue.Enqueue` reuses the timestamp of the item's first enqueue
  (`firstEnqueuedAt`, dropped by `Remove`) — then `StopProcessing` and end of pass; on success
  `SetProcessedSuccess` (Done) and next pop;
* the TTL watcher (`manageTTLs`/`notifyExpiredRequests`): `wScan` (snapshot of expired ids),
  `wStep k` (k-th id of the snapshot — Go map order is arbitrary: GetRequest+StartProcessing, then
  `SetProcessedTimeout` (Done));
* shutdown: `cancel` (context cancelled); the next `loopFire` starts `drainQueue` →
  `RequestWatcher.StopAll`: for every entry of the map `StartProcessing` and, if it succeeds,
  `SetProcessedTimeout` (one step: nobody else touches a request in state `processing`).

Abstractions (all commute with the other threads' steps): the three critical sections of
`AddRequest`/`RemoveFromWatchList` (counter, request map, expiry map) are one step each; the quota is
touched by the loop thread only, so `Inc;Allowed;Dec` is one step; `Size()>0` and the dequeue are one
step.  The heap is a list, `pop` returns the minimum for (priority, timestamp); timestamps are a
global counter (the real ones are `time.Now().UnixNano()` taken under the queue mutex).  The
WaitGroup is an integer; Done below zero is the modelled panic.  Time is `Nat` milliseconds.
-/
namespace LunarVerif.C06

structure Cfg where
  size : Int    -- queue_size
  ttl  : Nat    -- ttl_seconds, in ms
  qmax : Int    -- fixed-window quota (the one `quota_id` names): max
  win  : Nat    -- ... window, in ms
  anc  : List (Int × Nat) := []   -- its ancestors in the quota tree (parent first, root last): (max, window ms)
  conc : Bool := false            -- the attached quota is a CONCURRENT quota (max = slots; no window; a slot is
                                  -- given back only by the response, which the scenarios never send)
deriving Repr

inductive RState | enqueued | processing | processed
deriving DecidableEq, Repr

inductive RResult | pending | timeout | success
deriving DecidableEq, Repr

/-- Program counter of a request thread. -/
inductive Pc
  | absent                     -- id not used yet
  | checked                    -- slot reserved (ReserveSlot), before AddRequest
  | rejected                   -- slot test failed: Execute returned `blocked`
  | registered                 -- AddRequest done, before queue.Enqueue
  | parked                     -- pushed; waiting on the WaitGroup
  | returned (allowed : Bool)  -- Execute returned; removeRequest goroutine not yet run
  | unwatched                  -- RemoveFromWatchList done
  | removed                    -- queue.Remove done
deriving DecidableEq, Repr

structure Req where
  prio    : Nat := 0
  arrival : Nat := 0           -- NewRequest timestamp; expireAt = arrival + ttl
  pc      : Pc := .absent
  st      : RState := .enqueued
  res     : RResult := .pending
  wg      : Int := 1           -- WaitGroup counter
  inMap   : Bool := false      -- in the watcher's maps
  firstAt : Option Nat := none -- memoryQueue.firstEnqueuedAt[id]
  dones   : Nat := 0           -- ghost: number of Done calls
  qok     : Bool := false      -- ghost: the last quota attempt for it succeeded
  pushed  : Bool := false      -- ghost: has been enqueued at least once
  pushTs  : Nat := 0           -- ghost: timestamp of its first enqueue (its place in arrival order)
deriving Repr

structure HItem where
  id   : Nat
  prio : Nat
  ts   : Nat
deriving DecidableEq, Repr

inductive LoopPc
  | idle                       -- parked on clock.After(100ms)
  | running                    -- top of `for p.queue.Size() > 0`
  | popped (id : Nat)          -- dequeued id; next GetRequest + StartProcessing
  | started (id : Nat)         -- owns id (state processing); next quota Inc;Allowed
  | refused (id : Nat)         -- quota refused; next queue.Enqueue
  | repushed (id : Nat)        -- next StopProcessing and end of pass
  | granted (id : Nat)         -- quota admitted; next SetProcessedSuccess
  | draining (todo : List Nat) -- StopAll iterating the map
  | exited
deriving DecidableEq, Repr

inductive WPc
  | idle
  | scanned (todo : List Nat)
  | holding (id : Nat) (todo : List Nat)  -- StartProcessing succeeded; next SetProcessedTimeout
deriving DecidableEq, Repr

/-- Observable events (ghost trace). -/
inductive Ev
  | queued (id prio t : Nat)        -- request parked in the queue (arrival instant t)
  | rejected (id t : Nat)           -- Execute returned `blocked` at once: no slot
  | pop (id : Nat)                  -- loop dequeued id
  | qtry (id : Nat) (ok : Bool)     -- quota Inc;Allowed for id answered ok
  | repush (id : Nat) (t : Nat)     -- loop enqueued id again (end of a refused attempt, instant t)
  | done (id : Nat) (ok : Bool) (t : Nat)  -- waiter signalled: ok = success, else timeout
  | ret (id : Nat) (allowed : Bool) -- Execute returned allowed / blocked
  | checked (id : Nat)              -- slot test passed (observable only through the gate after it)
  | unwatched (id : Nat)            -- RemoveFromWatchList done: slot given back
  | drain                           -- shutdown requested
  | panic                           -- negative WaitGroup counter
deriving DecidableEq, Repr

/-- State of one fixed window: stored window start (whole seconds, as `windowStart.Unix()`), count. -/
structure Win where
  winStart : Option Nat := none
  cnt      : Nat := 0
deriving DecidableEq, Repr

/-- State of the quota the processor is attached to and of its ancestors (parent first). -/
structure Quota where
  ws : List Win := []
deriving DecidableEq, Repr

structure St where
  now       : Nat
  count     : Int := 0          -- RequestWatcher.requestCount (reserved + registered slots)
  n         : Nat := 0          -- ids 0..n-1 are in use
  reqs      : Nat → Req := fun _ => {}
  heap      : List HItem := []
  seq       : Nat := 0          -- next heap timestamp
  loop      : LoopPc := .idle
  watcher   : WPc := .idle
  q         : Quota := {}
  cancelled : Bool := false
  panicked  : Bool := false
  drainSet  : List Nat := []    -- ghost: the entries of the map when StopAll started
  trace     : List Ev := []     -- most recent first

def St.init (t0 : Nat) : St := { now := t0 }

def St.upd (s : St) (i : Nat) (f : Req → Req) : St :=
  { s with reqs := fun j => if j = i then f (s.reqs j) else s.reqs j }

def St.emit (s : St) (e : Ev) : St := { s with trace := e :: s.trace }

/-- `memoryQueue.Enqueue`: the item keeps the timestamp of its first enqueue (until `Remove`). -/
def St.enq (s : St) (i : Nat) : St :=
  let ts := match (s.reqs i).firstAt with
    | some t => t
    | none => s.seq
  { (s.upd i fun r => { r with firstAt := some ts, pushed := true, pushTs := if r.pushed then r.pushTs else ts }) with
      heap := ⟨i, (s.reqs i).prio, ts⟩ :: s.heap, seq := s.seq + 1 }

/-- One fixed window at instant `now` (ms), `AtomicIncWindow`: window start defaults to now; restart when
`now - start ≥ window`; refuse when `count + 1 > max` (nothing stored); otherwise store
`start.Unix()` (whole seconds!) and the count. -/
def winTry (max : Int) (win : Nat) (w : Win) (now : Nat) : Win × Bool :=
  let ws := match w.winStart with
    | some s => s * 1000
    | none => now
  let restart := decide (win ≤ now - ws)
  let cur := if restart then 0 else w.cnt
  let ws' := if restart then now else ws
  if max < (cur : Int) + 1 then (w, false)
  else ({ winStart := some (ws' / 1000), cnt := cur + 1 }, true)

/-- `fixedWindow.incChain` along the quota tree, the attached quota first: each level counts the
request if it has room; when an ancestor has no room, the levels below give their count back
(`refund`; the window start they stored stays). -/
def chainTry : List (Int × Nat) → List Win → Nat → List Win × Bool
  | [], ws, _ => (ws, true)
  | (m, wn) :: rest, ws, now =>
    let x := ws.head?.getD {}
    let xs := ws.tail
    match winTry m wn x now with
    | (_, false) => (x :: xs, false)
    | (x', true) =>
      match chainTry rest xs now with
      | (xs', true) => (x' :: xs', true)
      | (xs', false) => ({ x' with cnt := x'.cnt - 1 } :: xs', false)

/-- `Inc;Allowed(;Dec)` of the attached quota at instant `now`: allowed iff every level has room. -/
def quotaTry (cfg : Cfg) (q : Quota) (now : Nat) : Quota × Bool :=
  if cfg.conc then
    -- concurrent quota (`AtomicSAddWithMaxValuesAllowed`): a slot while fewer than `max` are held
    let w := q.ws.head?.getD {}
    if cfg.qmax < (w.cnt : Int) + 1 then (q, false) else (⟨[{ w with cnt := w.cnt + 1 }]⟩, true)
  else
  let r := chainTry ((cfg.qmax, cfg.win) :: cfg.anc) q.ws now
  (⟨r.1⟩, r.2)

/-- `PriorityQueue.Less`. -/
def hle (a b : HItem) : Bool :=
  if a.prio = b.prio then decide (a.ts ≤ b.ts) else decide (a.prio < b.prio)

def minItem : List HItem → Option HItem
  | [] => none
  | x :: xs => match minItem xs with
    | none => some x
    | some m => if hle x m then some x else some m

/-- `setSignal` after `result`/`state` were written: WaitGroup.Done; below zero panics. -/
def St.signal (s : St) (i : Nat) (res : RResult) : St :=
  let r := s.reqs i
  let s1 := s.upd i fun r => { r with res := res, st := .processed, wg := r.wg - 1, dones := r.dones + 1 }
  if r.wg - 1 < 0 then { (s1.emit .panic) with panicked := true }
  else s1.emit (.done i (res == .success) s.now)

def idsWhere (s : St) (p : Req → Bool) : List Nat :=
  (List.range s.n).filter fun i => p (s.reqs i)

def isDraining : LoopPc → Bool
  | .draining _ => true
  | _ => false

inductive Act
  | advance (d : Nat)
  | arrive (prio : Nat)
  | register (id : Nat)
  | push (id : Nat)
  | wake (id : Nat)
  | unwatch (id : Nat)
  | heapRemove (id : Nat)
  | loopFire
  | loopStep (k : Nat)      -- k only matters while draining (which map entry comes next)
  | wScan
  | wStep (k : Nat)
  | cancel
deriving DecidableEq, Repr

def stepLoop (cfg : Cfg) (s : St) (k : Nat) : St :=
  match s.loop with
  | .idle => s
  | .exited => s
  | .running =>
    match minItem s.heap with
    | none => { s with loop := .idle }
    | some m => ({ s with heap := s.heap.erase m, loop := .popped m.id }).emit (.pop m.id)
  | .popped i =>
    if (s.reqs i).inMap = true ∧ (s.reqs i).st = .enqueued then
      { (s.upd i fun r => { r with st := .processing }) with loop := .started i }
    else { s with loop := .running }
  | .started i =>
    let (q', ok) := quotaTry cfg s.q s.now
    (({ s with q := q', loop := if ok then .granted i else .refused i }).upd i
        fun r => { r with qok := ok }).emit (.qtry i ok)
  | .refused i => ({ (s.enq i) with loop := .repushed i }).emit (.repush i s.now)
  | .repushed i =>
    { (s.upd i fun r => { r with st := .enqueued }) with loop := .idle }
  | .granted i => { (s.signal i .success) with loop := .running }
  | .draining todo =>
    match todo[k]? with
    | none => if todo.isEmpty then { s with loop := .exited } else s
    | some i =>
      -- an entry of the map (always `inMap`: the read lock is held); StartProcessing arbitrates
      if (s.reqs i).inMap = true ∧ (s.reqs i).st = .enqueued then
        { (s.signal i .timeout) with loop := .draining (todo.eraseIdx k) }
      else { s with loop := .draining (todo.eraseIdx k) }

def stepWatcher (s : St) (k : Nat) : St :=
  match s.watcher with
  | .idle => s
  | .scanned todo =>
    match todo[k]? with
    | none => if todo.isEmpty then { s with watcher := .idle } else s
    | some i =>
      if (s.reqs i).inMap = true ∧ (s.reqs i).st = .enqueued then
        { (s.upd i fun r => { r with st := .processing }) with watcher := .holding i (todo.eraseIdx k) }
      else { s with watcher := .scanned (todo.eraseIdx k) }
  | .holding i todo => { (s.signal i .timeout) with watcher := .scanned todo }

def stepArrive (cfg : Cfg) (s : St) (prio : Nat) : St :=
  let i := s.n
  if s.count < cfg.size then
    ({ s with n := s.n + 1, count := s.count + 1,
              reqs := fun j => if j = i then { prio := prio, arrival := s.now, pc := .checked } else s.reqs j }).emit
      (.checked i)
  else
    ({ s with n := s.n + 1, reqs := fun j => if j = i then { prio := prio, arrival := s.now, pc := .rejected } else s.reqs j }).emit
      (.rejected i s.now)

def stepRegister (s : St) (i : Nat) : St :=
  if (s.reqs i).pc = .checked ∧ isDraining s.loop = false then
    s.upd i fun r => { r with pc := .registered, inMap := true }
  else s

def stepPush (s : St) (i : Nat) : St :=
  if (s.reqs i).pc = .registered then
    ((s.enq i).upd i fun r => { r with pc := .parked }).emit
      (.queued i (s.reqs i).prio (s.reqs i).arrival)
  else s

def stepWake (s : St) (i : Nat) : St :=
  if (s.reqs i).pc = .parked ∧ (s.reqs i).wg = 0 then
    (s.upd i fun r => { r with pc := .returned (r.res == .success) }).emit (.ret i ((s.reqs i).res == .success))
  else s

def isReturned : Pc → Bool
  | .returned _ => true
  | _ => false

def stepUnwatch (s : St) (i : Nat) : St :=
  if isReturned (s.reqs i).pc = true ∧ isDraining s.loop = false then
    ({ (s.upd i fun r => { r with pc := .unwatched, inMap := false }) with count := s.count - 1 }).emit
      (.unwatched i)
  else s

def stepHeapRemove (s : St) (i : Nat) : St :=
  if (s.reqs i).pc = .unwatched then
    { (s.upd i fun r => { r with pc := .removed, firstAt := none }) with heap := s.heap.eraseP fun h => h.id == i }
  else s

def stepLoopFire (s : St) : St :=
  if s.loop = .idle then
    if s.cancelled then
      { s with loop := .draining (idsWhere s fun r => r.inMap), drainSet := idsWhere s fun r => r.inMap }
    else { s with loop := .running }
  else s

def stepScan (cfg : Cfg) (s : St) : St :=
  if s.watcher = .idle then
    { s with watcher := .scanned (idsWhere s fun r => r.inMap && decide (r.arrival + cfg.ttl < s.now)) }
  else s

def stepCancel (s : St) : St :=
  if s.cancelled then s else ({ s with cancelled := true }).emit .drain

def stepCore (cfg : Cfg) (s : St) : Act → St
  | .advance d => { s with now := s.now + d }
  | .arrive prio => stepArrive cfg s prio
  | .register i => stepRegister s i
  | .push i => stepPush s i
  | .wake i => stepWake s i
  | .unwatch i => stepUnwatch s i
  | .heapRemove i => stepHeapRemove s i
  | .loopFire => stepLoopFire s
  | .loopStep k => stepLoop cfg s k
  | .wScan => stepScan cfg s
  | .wStep k => stepWatcher s k
  | .cancel => stepCancel s

/-- One step of one thread; an action that is not enabled leaves the state unchanged; after the
modelled panic nothing moves. -/
def step (cfg : Cfg) (s : St) (a : Act) : St :=
  if s.panicked then s else stepCore cfg s a

def run (cfg : Cfg) (s : St) (acts : List Act) : St := acts.foldl (step cfg) s

/-! ### Sequential macro-operations (what the correspondence harness drives, op for op)

Every macro-operation is a fixed list of thread actions computed from the state it starts in
(actions that are not enabled are no-ops, so over-long lists are harmless): a driver run IS a
schedule of the interleaving model, and every theorem over all schedules speaks about it. -/

/-- What follows a Done: every signalled waiter returns; unless removals are held back (gate
`queue.before-remove`) its `removeRequest` goroutine runs to completion. -/
def settleActs (hold : Bool) (n : Nat) : List Act :=
  (List.range n).flatMap fun i => if hold then [.wake i] else [.wake i, .unwatch i, .heapRemove i]

def repeatActs (acts : List Act) : Nat → List Act
  | 0 => []
  | k + 1 => acts ++ repeatActs acts k

inductive Op
  | arrive (prio : Nat)        -- one whole Execute call up to parking (or the immediate refusal)
  | arriveBegin (prio : Nat)   -- Execute call held at the gate after the slot test
  | arriveEnd (id : Nat)       -- ... released: registration and push
  | tick                       -- mock clock +100 ms; TTL watcher first; then one pass of the loop
  | holdRemove                 -- close the gate before removal
  | flushRemove                -- open it: all pending removals run
  | drain                      -- cancel the context; the loop's timer fires; StopAll
  | idle                       -- no time passes on the mock clock; the TTL watcher runs
  | tickHold                   -- like tick, but the loop stops at the gate before a re-push (if it gets there)
  | tickRelease                -- ... released: re-push, StopProcessing, end of pass; then the TTL watcher runs
  | advance (ms : Nat)         -- the mock clock moves while the loop stands at the gate (no loop timer pending)
  | arriveTick (prio : Nat)    -- a tick whose loop pass runs while an arriving request is inside `queue.Enqueue`
  | nudge (ms : Nat)           -- the clock moves by less than a tick: no timer fires, nobody is scheduled
  | tickAfter (ms : Nat)       -- a tick that completes a nudged interval: the clock moves by the REST of the 100 ms
deriving DecidableEq, Repr

structure Sim where
  s    : St
  hold : Bool := false
  gate : List Nat := []        -- ids held after the slot test, oldest first

/-- Loop steps (each followed by what follows a Done) until the loop is about to push a refused
request again (gate `queue.before-repush`) or its pass is over. -/
def loopUntilGate (cfg : Cfg) (hold : Bool) : Nat → St → List Act
  | 0, _ => []
  | fuel + 1, s =>
    match s.loop with
    | .refused _ => []
    | .idle => []
    | .exited => []
    | _ =>
      let a := Act.loopStep 0 :: settleActs hold s.n
      a ++ loopUntilGate cfg hold fuel (run cfg s a)

def tickPrefix (x : Sim) : List Act :=
  [.advance 100, .wScan] ++ repeatActs (.wStep 0 :: settleActs x.hold x.s.n) (2 * x.s.n + 2) ++ [.loopFire]

/-- First half of a tick: the clock moves, the TTL watcher handles what has expired. -/
def watcherActs (x : Sim) : List Act :=
  [.advance 100, .wScan] ++ repeatActs (.wStep 0 :: settleActs x.hold x.s.n) (2 * x.s.n + 2)

/-- Second half of a tick: the loop's timer fires and the loop runs one pass. -/
def loopActs (x : Sim) : List Act :=
  .loopFire :: repeatActs (.loopStep 0 :: settleActs x.hold x.s.n) (6 * (x.s.heap.length + 1) + 2)

/-- The schedule of one macro-operation started in `x`. -/
def opActs (cfg : Cfg) (x : Sim) : Op → List Act
  | .arrive p => [.arrive p, .register x.s.n, .push x.s.n]
  | .arriveBegin p => [.arrive p]
  | .arriveEnd i => [.register i, .push i]
  | .tick =>
    [.advance 100, .wScan] ++
    repeatActs (.wStep 0 :: settleActs x.hold x.s.n) (2 * x.s.n + 2) ++
    [.loopFire] ++
    repeatActs (.loopStep 0 :: settleActs x.hold x.s.n) (6 * (x.s.heap.length + 1) + 2)
  | .holdRemove => []
  | .flushRemove => settleActs false x.s.n
  | .drain =>
    [.cancel, .loopFire] ++ repeatActs (.loopStep 0 :: settleActs x.hold x.s.n) (x.s.n + 2) ++
    settleActs x.hold x.s.n
  | .idle => .wScan :: repeatActs (.wStep 0 :: settleActs x.hold x.s.n) (2 * x.s.n + 2)
  | .tickHold =>
    tickPrefix x ++ loopUntilGate cfg x.hold (6 * (x.s.heap.length + 1) + 2) (run cfg x.s (tickPrefix x))
  | .tickRelease =>
    repeatActs (.loopStep 0 :: settleActs x.hold x.s.n) 3 ++
    .wScan :: repeatActs (.wStep 0 :: settleActs x.hold x.s.n) (2 * x.s.n + 2)
  | .advance ms => [.advance ms]
  | .nudge ms => [.advance ms]
  | .tickAfter ms =>
    [.advance ms, .wScan] ++
    repeatActs (.wStep 0 :: settleActs x.hold x.s.n) (2 * x.s.n + 2) ++
    [.loopFire] ++
    repeatActs (.loopStep 0 :: settleActs x.hold x.s.n) (6 * (x.s.heap.length + 1) + 2)
  | .arriveTick p =>
    -- clock +100 ms and the watcher first, as in `tick`; then the arrival up to and including its
    -- `Enqueue` (the request is registered BEFORE it is published); then the loop's pass
    [.advance 100, .wScan] ++ repeatActs (.wStep 0 :: settleActs x.hold x.s.n) (2 * x.s.n + 2) ++
    [.arrive p, .register x.s.n, .push x.s.n, .loopFire] ++
    repeatActs (.loopStep 0 :: settleActs x.hold (x.s.n + 1)) (6 * (x.s.heap.length + 2) + 2)

def applyOp (cfg : Cfg) (x : Sim) (op : Op) : Sim :=
  let s' := run cfg x.s (opActs cfg x op)
  match op with
  | .arriveBegin _ => { x with s := s', gate := if (s'.reqs x.s.n).pc = .checked then x.gate ++ [x.s.n] else x.gate }
  | .arriveEnd _ => { x with s := s', gate := x.gate.drop 1 }
  | .holdRemove => { x with s := s', hold := true }
  | .flushRemove => { x with s := s', hold := false }
  | _ => { x with s := s' }

/-- The flat schedule of a list of macro-operations, and the state it leads to. -/
def schedule (cfg : Cfg) : Sim → List Op → List Act
  | _, [] => []
  | x, op :: rest => opActs cfg x op ++ schedule cfg (applyOp cfg x op) rest

def runOps (cfg : Cfg) (x : Sim) (ops : List Op) : Sim := ops.foldl (applyOp cfg) x

/-! ### Two Queue processors on one quota (two flows with the same `quota_id`)

Each processor has its own shared-queue object (`memoryState.NewQueue` returns a fresh queue per call),
its own watch list, loop and TTL watcher: two independent instances of the model; the only thing they
share is the quota, whose state is handed from one to the other between their steps (no invariant of
the model mentions the quota's state, so every theorem holds of each instance whatever the other does
to the quota). -/

structure Duo where
  a : Sim
  b : Sim
  q : Quota := {}      -- the state of the quota both draw on

/-- Both clocks move, both watchers run. -/
def Duo.watch (cfgA cfgB : Cfg) (d : Duo) : Duo :=
  { d with a := { d.a with s := run cfgA d.a.s (watcherActs d.a) },
           b := { d.b with s := run cfgB d.b.s (watcherActs d.b) } }

/-- One pass of processor A's loop on the quota as B left it (and vice versa). -/
def Duo.passA (cfgA : Cfg) (d : Duo) : Duo :=
  let a0 : Sim := { d.a with s := { d.a.s with q := d.q } }
  let s' := run cfgA a0.s (loopActs a0)
  { d with a := { a0 with s := s' }, q := s'.q }

def Duo.passB (cfgB : Cfg) (d : Duo) : Duo :=
  let b0 : Sim := { d.b with s := { d.b.s with q := d.q } }
  let s' := run cfgB b0.s (loopActs b0)
  { d with b := { b0 with s := s' }, q := s'.q }

/-! ### The shared queue alone (`memoryQueue`), driven directly by the harness (level L1) -/

/-- `memoryQueue`: the heap (as a list: `pop` = minimum for (score, timestamp)) and the
`firstEnqueuedAt` memo. -/
structure QSt where
  heap  : List HItem := []
  first : List (Nat × Nat) := []
  seq   : Nat := 0

def QSt.enq (q : QSt) (id prio : Nat) : QSt :=
  match q.first.lookup id with
  | some t => { q with heap := ⟨id, prio, t⟩ :: q.heap, seq := q.seq + 1 }
  | none => { heap := ⟨id, prio, q.seq⟩ :: q.heap, first := (id, q.seq) :: q.first, seq := q.seq + 1 }

/-- `DequeueIfValueRelevant`. -/
def QSt.deq (q : QSt) : QSt × Option Nat :=
  match minItem q.heap with
  | none => (q, none)
  | some m => ({ q with heap := q.heap.erase m }, some m.id)

/-- `Remove`: the first entry with that value, and the memo. -/
def QSt.rm (q : QSt) (id : Nat) : QSt :=
  { q with heap := q.heap.eraseP (fun h => h.id == id), first := q.first.filter fun e => e.1 != id }

end LunarVerif.C06
