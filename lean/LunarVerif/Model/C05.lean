import LunarVerif.Model.FlowExec
/-
C05 model: the LOADER (`streams.NewValidationStream(dir).Initialize()`, the call behind
`validate_flows`, `load_flows`, `/configuration` and the standalone flows-validator) as a function
from a configuration directory to  accept | reject:<class>  (| crash: never, see `load_terminates`), and the execution of
transactions on what was loaded.  Core Lean only.

Go sources mirrored (proxy/src/services/lunar-engine/streams unless noted):
  config/streams.validator.go   validateFlowRepresentation (name, filter url, non-empty connection lists,
                                connection ends, processor identifier, '.' in key, duplicate parameter keys)
  config/streams.utils.go       GetFlows (validation mode: any file error fails; duplicate flow name)
  streams.go                    Initialize: SetPathParams (url validity), CreateProcessor (definition
                                exists, required parameters), createFlows
  flow/flow_builder.go          build / buildFlow; WITH flow references: connectProcessorToFlow,
                                connectFlowToProcessor, incorporateFlow, foreignRoot,
                                connectProcessorToStream's "really connected to another flow" case  (`buildX`)
  flow/validations.go           validateFlow (shared `FlowGraph.validateDirection`: HasValidRoot, validateEdges
                                [vacuous: every built edge has a node or a stream], validateUnconnectedProcessors,
                                detectCircularConnections = path-cloned DFS from the ROOT'S EDGES ONLY)
  resources/quota/quota.validation.go, quota.utils.go, quota_loader.go, quota_resource.go
                                quota files: nil entries, struct tags, filter, spillover/monthly renewal,
                                one host per file and one file per host, strategy creation, internal limits
                                (`quotaCheck`)
  stream/stream.go, streams.go  execution (shared `FlowExec`)

A reference-free flow is built by the shared `FlowGraph.buildFlow` (the object of the C04/C05 theorems);
a flow with flow references by `buildX` below, which recurses like `incorporateFlow` and is bounded by
FUEL: running out of fuel models Go's unbounded recursion (`fatal error: stack overflow`).
-/
namespace LunarVerif.C05
open LunarVerif.FlowGraph LunarVerif.FlowExec

/-! ### configuration -/

/-- processor definition (registry YAML) -/
structure PDef where
  name : String
  outs : List OutDef
  required : List String := []
deriving DecidableEq, Repr, Inhabited

/-- one end of a YAML connection, flow references included; `nothing` = an empty `from:`/`to:` -/
inductive XEnd where
  | stream (name : String) (at_ : String)
  | proc (key : String) (cond : String)
  | flow (name : String) (at_ : String)
  | nothing
deriving DecidableEq, Repr, Inhabited

structure XConn where
  src : XEnd
  dst : XEnd
deriving DecidableEq, Repr, Inhabited

structure PInst where
  key : String
  ptype : String
  params : List (String × String) := []
deriving DecidableEq, Repr, Inhabited

structure XFlow where
  name : String
  url : Option String := some "verif.test/x"   -- none = no `filter:` at all
  procs : List PInst := []
  req : List XConn := []
  res : List XConn := []
  status : List Nat := []                      -- `filter.status_code`
deriving DecidableEq, Repr, Inhabited

def XFlow.conns (f : XFlow) : Dir → List XConn
  | .req => f.req
  | .res => f.res

/-- strategy of a quota / internal limit: the fields as written in the YAML (none = key absent) -/
structure Strat where
  kind : String := "missing"      -- fixed | custom | conc | hdr | none (`strategy: {}`) | missing
  max : Option Int := none
  int : Option Int := none
  unit : Option String := none
  spill : Option Int := none
  grp : Option String := none
  path : Option String := none
  mr : Option (Int × Int × Int × String) := none
  maxreq : Option Int := none
  exp : Option Int := none
  gc : Option Int := none
  alloc : Option Int := none
deriving DecidableEq, Repr, Inhabited

structure QEntry where
  null : Bool := false            -- a `~` list entry
  id : String := ""
  url : Option String := none     -- none = no `filter:`
  parent : Option String := none  -- internal limits: `parent_id`
  strat : Strat := {}
deriving DecidableEq, Repr, Inhabited

structure QFile where
  quotas : List QEntry := []
  internals : List QEntry := []
deriving DecidableEq, Repr, Inhabited

structure Cfg where
  pdefs : List PDef := []
  flows : List XFlow := []
  qfiles : List QFile := []
  /-- a file of the quotas directory that holds no YAML document (every line commented out, `---`, `~`, `null`,
      blank) or no `quotas` key: `DecodeYAML` yields the empty object, "quota part is missing" -/
  rawQuota : Bool := false
  /-- gateway_config.yaml that `ValidateGatewayConfig` cannot decode (no document although not empty; broken YAML) -/
  gatewayBad : Bool := false
deriving Repr, Inhabited

def findPDef (c : Cfg) (n : String) : Option PDef := c.pdefs.reverse.find? (·.name == n)

def Cfg.ptypes (c : Cfg) : List PType := c.pdefs.reverse.map fun p => ⟨p.name, p.outs⟩

/-! ### YAML-level validation (`validateFlowRepresentation`) -/

def endOk : XEnd → Bool
  | .stream n _ => n != ""
  | .proc k _ => k != ""
  | .flow n _ => n != ""
  | .nothing => false

def connsOk (cs : List XConn) : Bool :=
  !cs.isEmpty && cs.all fun c => endOk c.src && endOk c.dst

def nodupKeys : List String → Bool
  | [] => true
  | k :: ks => !ks.contains k && nodupKeys ks

/-- `validateProcessor`.  Its third check ("processor identifier cannot contain '.'") reads `Key`, which
    `GetFlows` only assigns AFTER this validation ran: it never fires, so it is not modelled (a dotted
    name in a connection means "processor created by another flow"; the generator produces no dots). -/
def procOk (p : PInst) : Bool :=
  p.ptype != "" && nodupKeys (p.params.map (·.1))

def flowYamlOk (f : XFlow) : Bool :=
  f.name != "" &&
  (match f.url with
   | none => false
   | some u => u != "") &&
  connsOk f.req && connsOk f.res && f.procs.all procOk

/-- `urltree` insertion of a filter URL ("URL part cannot be empty"); only the shapes the generator uses -/
def splitSlash : List Char → List Char → List (List Char)
  | [], cur => [cur.reverse]
  | c :: cs, cur => if c == '/' then cur.reverse :: splitSlash cs [] else splitSlash cs (c :: cur)

def urlOk (u : String) : Bool := (splitSlash u.toList []).all (· != [])

/-! ### processors (`CreateProcessor`) -/

def procCreate (c : Cfg) (p : PInst) : Option String :=
  match findPDef c p.ptype with
  | none => some "processor"
  | some d => if d.required.all (fun r => p.params.any (·.1 == r)) then none else some "param"

/-! ### quota files -/

def optPos (o : Option Int) : Bool :=   -- `required,gt=0`
  match o with
  | some v => v > 0
  | none => false

def optOmitOrPos (o : Option Int) : Bool :=   -- `omitempty,gt=0`
  match o with
  | some v => v == 0 || v > 0
  | none => true

def limitTagsOk (s : Strat) : Bool :=
  optPos s.max && optPos s.int &&
  (match s.unit with
   | some u => ["second", "minute", "hour", "day", "month"].contains u
   | none => false) &&
  (match s.spill with
   | some v => v > 0
   | none => true) &&
  (match s.mr with
   | some (d, h, m, tz) => d > 0 && d ≤ 31 && h ≥ 0 && h ≤ 23 && m ≥ 0 && m ≤ 59 && (tz == "UTC" || tz == "Local")
   | none => true)

/-- validator/v10 struct tags of one `QuotaConfig` -/
def stratTagsOk (s : Strat) : Bool :=
  s.kind != "missing" &&
  (match s.alloc with
   | some a => a > -1 && a ≤ 100
   | none => true) &&
  (if s.kind == "fixed" then limitTagsOk s
   else if s.kind == "custom" then limitTagsOk s && (match s.path with | some p => p != "" | none => false)
   else if s.kind == "conc" then optOmitOrPos s.exp && optOmitOrPos s.gc
   else true)

def entryTagsOk (internal : Bool) (q : QEntry) : Bool :=
  q.id != "" && stratTagsOk q.strat && (!internal || (match q.parent with | some p => p != "" | none => false))

/-- `ToSingleQuotaResourceDataList`: the internal limits attached to quota `q` (parent = the quota or an
    earlier attached internal limit), in file order -/
def attach (ids : List String) : List QEntry → List QEntry
  | [] => []
  | il :: rest =>
    if ids.contains (il.parent.getD "") then il :: attach (ids ++ [il.id]) rest else attach ids rest

def hasSpill (q : QEntry) : Bool := q.strat.kind == "fixed" && q.strat.spill.isSome

/-- `specificValidation` -/
def specificOk (q : QEntry) (ils : List QEntry) : Bool :=
  let should := hasSpill q || ils.any hasSpill
  !should || !(q.strat.kind == "fixed") || q.strat.mr.isSome

def hostOf (u : String) : List Char := (splitSlash u.toList []).headD []

/-- `quotaProviderValidator.Validate`'s `validateHost`; state = (file ↦ host, host ↦ file) -/
def hostStep (file : Nat) (st : List (Nat × List Char) × List (List Char × Nat)) (u : String) :
    Option (List (Nat × List Char) × List (List Char × Nat)) :=
  let h := hostOf u
  match st.1.find? (·.1 == file) with
  | some (_, h0) => if h0 != h then none else
      match st.2.find? (·.1 == h) with
      | some (_, f0) => if f0 != file then none else some st
      | none => some (st.1, st.2 ++ [(h, file)])
  | none =>
    match st.2.find? (·.1 == h) with
    | some (_, f0) => if f0 != file then none else some (st.1 ++ [(file, h)], st.2)
    | none => some (st.1 ++ [(file, h)], st.2 ++ [(h, file)])

def hostSteps (file : Nat) : List (Nat × List Char) × List (List Char × Nat) → List String →
    Option (List (Nat × List Char) × List (List Char × Nat))
  | st, [] => some st
  | st, u :: us =>
    match hostStep file st u with
    | none => none
    | some st' => hostSteps file st' us

/-- urls `validateHost` sees for one file: per quota its url, then the url of EVERY internal limit of the
    file that has a non-empty one -/
def hostUrls (f : QFile) : List String :=
  f.quotas.flatMap fun q => q.url.getD "" :: f.internals.filterMap fun il =>
    match il.url with
    | some u => if u != "" then some u else none
    | none => none

/-- effective strategy kind of an internal limit after `AssignQuotaLimitForPercentageAllocation` -/
def childKind (parentKind : String) (s : Strat) : String :=
  if s.alloc.getD 0 != 0 && (parentKind == "fixed" || parentKind == "custom") then parentKind else s.kind

/-- `quotaResource.init` for the attached internal limits: kinds known so far (id ↦ kind) -/
def initChildren (kinds : List (String × String)) : List QEntry → Option (List (String × String))
  | [] => some kinds
  | il :: rest =>
    match kinds.find? (·.1 == il.parent.getD "") with
    | none => none
    | some (_, pk) =>
      let k := childKind pk il.strat
      if k == "none" then none else initChildren (kinds ++ [(il.id, k)]) rest

/-- filter urls of the system flows one quota contributes (quota + attached internal limits; an internal
    limit without url inherits its parent's).  The header-based strategy has no system flow: its url is
    never inserted into the url tree, hence never checked. -/
def quotaUrls (q : QEntry) (ils : List QEntry) : List String :=
  let rec go (known : List (String × String × String)) : List QEntry → List String
    | [] => []
    | il :: rest =>
      let p := ((known.find? (·.1 == il.parent.getD "")).map (·.2)).getD ("", "")
      let u := match il.url with
        | some u => if u != "" then u else p.1
        | none => p.1
      let k := childKind p.2 il.strat
      (if k == "hdr" then [] else [u]) ++ go (known ++ [(il.id, u, k)]) rest
  (if q.strat.kind == "hdr" then [] else [q.url.getD ""]) ++ go [(q.id, q.url.getD "", q.strat.kind)] ils

inductive QRes where
  | ok (urls : List String)
  | reject
deriving DecidableEq, Repr, Inhabited

/-- parse + validate one quota file (`loadAndParseQuotaFiles` loop body).  Null list entries are refused
    first (fix of F05c: before `ToSingleQuotaResourceDataList` dereferences them), whether or not the file
    has quotas. -/
def fileCheck (f : QFile) : QRes :=
  if f.quotas.any (·.null) || f.internals.any (·.null) then .reject else
  if f.quotas.isEmpty then .ok [] else
  if !(f.quotas.all (entryTagsOk false) && f.internals.all (entryTagsOk true)) then .reject else
  if f.quotas.any (fun q => q.url.isNone) then .reject else
  if !(f.quotas.all fun q => specificOk q (attach [q.id] f.internals)) then .reject else .ok []

def filesCheck : Nat → List (Nat × List Char) × List (List Char × Nat) → List QFile → QRes
  | _, _, [] => .ok []
  | i, st, f :: fs =>
    match fileCheck f with
    | .reject => .reject
    | .ok _ =>
      match hostSteps i st (hostUrls f) with
      | none => .reject
      | some st' => filesCheck (i + 1) st' fs

/-! #### the quota tree of one quota (`resourceutils.QuotaTrie`) — ids may repeat -/

/-- a node of the quota tree: its id and the index of its parent node (the tree is the list of its nodes in
    insertion order; node 0 is the quota itself) -/
structure QNode where
  id : String
  parent : Option Nat
deriving DecidableEq, Repr, Inhabited

def firstIdx {α : Type} (p : α → Bool) : List α → Option Nat
  | [] => none
  | a :: l => if p a then some 0 else (firstIdx p l).map (· + 1)

/-- `QuotaNode.GetNode(id)`: the node ITSELF first, then its children, recursively — first match.  When all
    matches lie on one branch this is the shallowest = the earliest inserted one, whatever order Go's map of
    children is iterated in; for matches on sibling branches Go's answer depends on that order and "earliest
    inserted" is one of the possible answers. -/
def qresolve (t : List QNode) (id : String) : Option Nat := firstIdx (·.id == id) t

def hasChild (t : List QNode) (p : Nat) (id : String) : Bool :=
  t.any fun n => n.parent == some p && n.id == id

/-- `quotaResource.init`: every attached internal limit becomes a child of the node its `parent_id` resolves to;
    `none` = `AddNode` refused it ("internal limit with ID … already exists": same id twice under one node) -/
def treeAdd : List QNode → List QEntry → Option (List QNode)
  | t, [] => some t
  | t, il :: rest =>
    match qresolve t (il.parent.getD "") with
    | none => none
    | some p => if hasChild t p il.id then none else treeAdd (t ++ [⟨il.id, some p⟩]) rest

def treeOf (q : QEntry) (ils : List QEntry) : Option (List QNode) := treeAdd [⟨q.id, none⟩] ils

/-- one step of the loop of `Stream.addParentsQuotaReferences`: from the node `i` the id resolved to, to the
    node the id of its PARENT resolves to (`GetParentID` = the id of the actual parent node) -/
def walkStep (t : List QNode) (i : Nat) : Option Nat :=
  match (t[i]?).bind (·.parent) with
  | none => none
  | some p =>
    match t[p]? with
    | none => none
    | some pn => qresolve t pn.id

/-- the loop `for parentQuotaID != ""`; `true` = it ended, `false` = fuel exhausted (Go: it spins for ever) -/
def parentWalk (t : List QNode) : Nat → Nat → Bool
  | 0, _ => false
  | fuel + 1, i =>
    match walkStep t i with
    | none => true
    | some j => parentWalk t fuel j

/-- `addParentsQuotaReferences(quota_id)` on the tree that contains the id -/
def refWalkOk (t : List QNode) (id : String) : Bool :=
  match qresolve t id with
  | none => true
  | some i => parentWalk t (t.length + 1) i

/-- system-flow processor keys: `<id without dots>_QuotaProcessorInc` per filter; the same key twice for one
    filter is refused ("processor with the key … already exists").  Header-based limits have no system flow. -/
def procKeys (q : QEntry) (ils : List QEntry) : List (List Char × String) :=
  let rec go (known : List (String × String × String)) : List QEntry → List (List Char × String)
    | [] => []
    | il :: rest =>
      let p := ((known.find? (·.1 == il.parent.getD "")).map (·.2)).getD ("", "")
      let u := match il.url with
        | some u => if u != "" then u else p.1
        | none => p.1
      let k := childKind p.2 il.strat
      (if k == "hdr" then [] else [(il.id.toList.filter (· != '.'), u)]) ++ go (known ++ [(il.id, u, k)]) rest
  (if q.strat.kind == "hdr" then [] else [(q.id.toList.filter (· != '.'), q.url.getD "")]) ++
    go [(q.id, q.url.getD "", q.strat.kind)] ils

def nodupPairs : List (List Char × String) → Bool
  | [] => true
  | k :: ks => !ks.contains k && nodupPairs ks

/-- `loadQuotaResources`: strategy creation, quota tree and system-flow processors for every quota and its
    attached internal limits -/
def resourcesOk (fs : List QFile) : Bool :=
  (fs.all fun f => f.quotas.all fun q =>
    q.strat.kind != "none" && (initChildren [(q.id, q.strat.kind)] (attach [q.id] f.internals)).isSome &&
    (treeOf q (attach [q.id] f.internals)).isSome) &&
  nodupPairs (fs.flatMap fun f => f.quotas.flatMap fun q => procKeys q (attach [q.id] f.internals))

/-- the quota trees the loader built, in load order -/
def quotaTrees (fs : List QFile) : List (List QNode) :=
  fs.flatMap fun f => f.quotas.filterMap fun q => treeOf q (attach [q.id] f.internals)

/-- `Stream.getQuotaReferences`: for every processor parameter `quota_id` of every flow the parent walk on the
    (last) tree that contains the id; `true` = every walk ended -/
def walksOk (c : List QFile) (flows : List (List (String × String))) : Bool :=
  flows.all fun params => params.all fun kv =>
    kv.1 != "quota_id" ||
      (match (quotaTrees c).reverse.find? (fun t => (qresolve t kv.2).isSome) with
       | none => true
       | some t => refWalkOk t kv.2)

def allQuotaUrls (fs : List QFile) : List String :=
  fs.flatMap fun f => f.quotas.flatMap fun q => quotaUrls q (attach [q.id] f.internals)

/-- the whole quota side of `NewValidationStream`: `.ok urls` = loaded, with the filter urls of the
    system flows -/
def quotaCheck (fs : List QFile) : QRes :=
  match filesCheck 0 ([], []) fs with
  | .reject => .reject
  | .ok _ => if resourcesOk fs then .ok (allQuotaUrls fs) else .reject

/-! ### flow builder with flow references -/

inductive XErr where
  | build (e : BuildErr)
  | flowRef        -- "failed to incorporate flow": flow not found
  | refCycle       -- "circular flow reference detected"
  | foreignRoot    -- "foreign root node not found" / "root node not found for flow"
  | fuel           -- recursion bound exceeded (Go: unbounded recursion in incorporateFlow)
deriving DecidableEq, Repr, Inhabited

def XErr.str : XErr → String
  | .build e => e.str
  | .flowRef => "flowref"
  | .refCycle => "refcycle"
  | .foreignRoot => "foreignroot"
  | .fuel => "fuel"

/-- builder state: the direction under construction, for every node the flow it was created for
    (`flowGraphName`), and `flowBuilder.foreignRoot` -/
structure BS where
  g : DirGraph := {}
  owner : List (String × String) := []
  foreign : Option String := none
deriving DecidableEq, Repr, Inhabited

def findFlow (fs : List XFlow) (n : String) : Option XFlow := fs.reverse.find? (·.name == n)

def procsOf (fs : List XFlow) (n : String) : List (String × String) :=
  match findFlow fs n with
  | some f => f.procs.map fun p => (p.key, p.ptype)
  | none => []

def BS.ownerOf (s : BS) (k : String) : String := ((s.owner.find? (·.1 == k)).map (·.2)).getD ""

/-- `getOrCreateNode(currentFlowName, ref)` -/
def getOrCreateX (fs : List XFlow) (cur : String) (s : BS) (k : String) : Option BS :=
  match s.g.find k with
  | some _ => some s
  | none =>
    if (procsOf fs cur).any (·.1 == k)
    then some { s with g := { s.g with nodes := s.g.nodes ++ [⟨k, []⟩] }, owner := s.owner ++ [(k, cur)] }
    else none

def BS.addEdge (s : BS) (k : String) (e : Edge) : BS := { s with g := addEdgeTo s.g k e }

/-- `buildConnection(cur, flowDir, conn)` where `flowDir` belongs to flow `home`; `inc tgt s` is
    `incorporateFlow(tgt, flowDir)` run in builder state `s`. -/
def stepX (pts : List PType) (fs : List XFlow) (home : String) (d : Dir) (inc : String → BS → Except XErr BS)
    (cur : String) (s : BS) (c : XConn) : Except XErr BS :=
  let condOk : Bool :=
    match c.src with
    | .proc f cond => validateCondition pts (procsOf fs cur) d f cond
    | _ => true
  if !condOk then .error (.build .condition) else
  match c.src, c.dst with
  | .proc f cond, .proc t _ =>
    match getOrCreateX fs cur s f with
    | none => .error (.build .node)
    | some s1 =>
      match getOrCreateX fs cur s1 t with
      | none => .error (.build .node)
      | some s2 => .ok (s2.addEdge f ⟨cond, .node t⟩)
  | .stream _ at_, .proc t _ =>
    if at_ == "start" then
      match getOrCreateX fs cur s t with
      | none => .error (.build .node)
      | some s1 =>
        if s1.ownerOf t == home then .ok { s1 with g := { s1.g with root := some t } }
        else .ok { s1 with foreign := some t }
    else .error (.build .connection)
  | .flow src at_, .proc t _ =>
    if at_ == "end" then
      match getOrCreateX fs cur s t with
      | none => .error (.build .node)
      | some s1 =>
        match inc src { s1 with g := { s1.g with root := some t } } with
        | .error e => .error e
        | .ok s3 =>
          match s3.foreign with
          | none => .error .foreignRoot
          | some r => .ok { s3 with g := { s3.g with root := some r }, foreign := none }
    else .error (.build .connection)
  | .proc f cond, .stream n at_ =>
    if at_ == "end" then
      match getOrCreateX fs cur s f with
      | none => .error (.build .node)
      | some s1 =>
        if d == .req && s1.ownerOf f != home then
          match s1.g.root with
          | none => .error .foreignRoot
          | some r => .ok (s1.addEdge f ⟨cond, .node r⟩)
        else .ok (s1.addEdge f ⟨cond, .stream n at_⟩)
    else .error (.build .connection)
  | .proc f cond, .flow tgt at_ =>
    if at_ == "start" then
      match getOrCreateX fs cur s f with
      | none => .error (.build .node)
      | some s1 =>
        match inc tgt s1 with
        | .error e => .error e
        | .ok s2 =>
          match s2.foreign with
          | none => .error .foreignRoot
          | some r => .ok ({ s2 with foreign := none }.addEdge f ⟨cond, .node r⟩)
    else .error (.build .connection)
  | .stream _ _, .stream _ _ => .ok s
  | _, _ => .error (.build .connection)

/-- `buildConnections(cur, flowDir, conns)`; `stack` = the flows whose incorporation is in progress
    (`flowBuilder.incorporating`, fix of F05b): a reference to one of them, or to the flow the direction
    belongs to, is refused ("circular flow reference detected").  FUEL bounds the depth of the recursion;
    `buildX_noFuel` shows that `buildFuel` is never exhausted. -/
def buildX (pts : List PType) (fs : List XFlow) (home : String) (d : Dir) :
    Nat → List String → String → BS → List XConn → Except XErr BS
  | _, _, _, s, [] => .ok s
  | 0, _, _, _, _ :: _ => .error .fuel
  | fuel + 1, stack, cur, s, c :: cs =>
    let inc : String → BS → Except XErr BS := fun tgt s' =>
      match findFlow fs tgt with
      | none => .error .flowRef
      | some tf =>
        if stack.contains tgt || tgt == home then .error .refCycle
        else buildX pts fs home d fuel (tgt :: stack) tgt s' (tf.conns d)
    match stepX pts fs home d inc cur s c with
    | .error e => .error e
    | .ok s' => buildX pts fs home d fuel stack cur s' cs

/-- longest connection list of any flow -/
def maxConns (fs : List XFlow) : Nat := fs.foldl (fun m f => max m (max f.req.length f.res.length)) 0

/-- fuel given to `buildX` by the loader: enough for every configuration (`buildX_noFuel`): the nesting of
    incorporations is at most the number of flows, each level adds at most `maxConns` -/
def buildFuel (fs : List XFlow) : Nat := (fs.length + 1) * maxConns fs + 1

/-! ### reference-free flows go through the shared builder -/

def XEnd.base? : XEnd → Option End
  | .stream n a => some (.stream n a)
  | .proc k c => some (.proc k c)
  | _ => none

def XConn.base? (c : XConn) : Option Conn :=
  match c.src.base?, c.dst.base? with
  | some a, some b => some ⟨a, b⟩
  | _, _ => none

def XFlow.refFree (f : XFlow) : Bool := (f.req ++ f.res).all (·.base?.isSome)

def XFlow.rep (f : XFlow) : FlowRep :=
  ⟨f.name, f.procs.map fun p => (p.key, p.ptype), f.req.filterMap (·.base?), f.res.filterMap (·.base?)⟩

/-- `flowBuilder.buildFlow` for a flow with references; `foreign` is threaded through (it is a field of
    the builder, not of the flow) -/
def buildFlowX (pts : List PType) (fs : List XFlow) (f : XFlow) (foreign : Option String) :
    Except XErr (Flow × Option String) :=
  match buildX pts fs f.name .req (buildFuel fs) [] f.name { foreign := foreign } f.req with
  | .error e => .error e
  | .ok s1 =>
    match buildX pts fs f.name .res (buildFuel fs) [] f.name { foreign := s1.foreign } f.res with
    | .error e => .error e
    | .ok s2 =>
      match validateDirection .req s1.g with
      | .error e => .error (.build e)
      | .ok _ =>
        match validateDirection .res s2.g with
        | .error e => .error (.build e)
        | .ok _ =>
          if !s1.g.isDefined && !s2.g.isDefined then .error (.build .undefined)
          else .ok (⟨f.name, s1.g, s2.g⟩, s2.foreign)

def buildOne (pts : List PType) (fs : List XFlow) (f : XFlow) (foreign : Option String) :
    Except XErr (Flow × Option String) :=
  if f.refFree then
    match buildFlow pts f.rep with
    | .error e => .error (.build e)
    | .ok fl => .ok (fl, foreign)
  else buildFlowX pts fs f foreign

def buildAll (pts : List PType) (fs : List XFlow) : List XFlow → Option String → Except XErr (List Flow)
  | [], _ => .ok []
  | f :: rest, fo =>
    match buildOne pts fs f fo with
    | .error e => .error e
    | .ok (fl, fo') =>
      match buildAll pts fs rest fo' with
      | .error e => .error e
      | .ok fls => .ok (fl :: fls)

/-! ### the loader -/

inductive LoadRes where
  | accept (flows : List Flow)
  | reject (cls : String)
  | crash                      -- fuel exhausted (Go: stack overflow); never happens, see `load_terminates`
  | hang                       -- the parent-quota walk does not end; never happens, see `load_terminates`
deriving DecidableEq, Repr, Inhabited

def firstSome {α : Type} (f : α → Option String) : List α → Option String
  | [] => none
  | x :: xs => match f x with
    | some e => some e
    | none => firstSome f xs

/-- `NewValidationStream(dir).Initialize()` -/
def load (c : Cfg) : LoadRes :=
  if c.rawQuota then .reject "quota" else
  match quotaCheck c.qfiles with
  | .reject => .reject "quota"
  | .ok qurls =>
    if !c.flows.all flowYamlOk then .reject "yaml" else
    if !nodupKeys (c.flows.map (·.name)) then .reject "yaml" else
    if !walksOk c.qfiles (c.flows.flatMap fun f => f.procs.map (·.params)) then .hang else
    if !(qurls ++ c.flows.map fun f => f.url.getD "").all urlOk then .reject "url" else
    match firstSome (fun f => firstSome (procCreate c) f.procs) c.flows with
    | some e => .reject e
    | none =>
      match buildAll c.ptypes c.flows c.flows none with
      | .error .fuel => .crash
      | .error e => .reject e.str
      | .ok fls => if c.gatewayBad then .reject "gateway" else .accept fls

/-- depth a walk of a validated direction never exceeds: its number of nodes, plus one -/
def depthOf (g : DirGraph) : Nat := g.nodes.length + 1

/-- fuel for the walker: covers `depthOf` of every loaded direction (a deterministic oracle makes
    "deeper than the number of nodes" the same as "does not terminate") -/
def walkFuel (fls : List Flow) : Nat :=
  (fls.foldl (fun m f => max m (max (depthOf f.req) (depthOf f.res))) 0) + 1

def selected (fls : List Flow) : Selected := { user := fls }

/-- `filter.status_code` of the flow called `name` -/
def statusOf (c : Cfg) (name : String) : List Nat :=
  match c.flows.reverse.find? (·.name == name) with
  | some f => f.status
  | none => []

/-- the flows the filter tree selects for a RESPONSE-type stream (`isStatusCodeQualified`): no status filter, or
    the response's status is listed.  `status = none`: there is no response — the response walk of an early
    response; a status filter cannot be evaluated and the flow does not qualify (fix of F05e). -/
def respSel (c : Cfg) (fls : List Flow) (status : Option Nat) : List Flow :=
  fls.filter fun f =>
    (statusOf c f.name).isEmpty ||
      (match status with
       | some st => (statusOf c f.name).contains st
       | none => false)

/-- `Stream.executeReq` (no system flows here): every flow runs on the request; after a short-circuit the
    filter tree is asked again for the response-type stream, which has no response yet -/
def executeReq5 (all resFls : List Flow) (o : Oracle) (fuel : Nat) : TxnRes :=
  match runUserReq o fuel all with
  | (bt, sc, be) =>
    if be.isSome then { trace := bt, err := be } else
    match sc with
    | none => { trace := bt }
    | some _ =>
      let r := executeRes (selected resFls) o fuel sc
      { r with trace := bt ++ r.trace }

/-- a transaction of the harness: a request, or a response with status 200 -/
def runTxn (c : Cfg) (fls : List Flow) (o : Oracle) : Dir → TxnRes
  | .req => executeReq5 fls (respSel c fls none) o (walkFuel fls)
  | .res => transaction (selected (respSel c fls (some 200))) o (walkFuel fls) .res

/-- number of processor executions in a trace -/
def steps (t : List Event) : Nat :=
  (t.filter fun e => match e with | .exec _ _ _ _ => true | _ => false).length

end LunarVerif.C05
