import LunarVerif.Model.C09
/-
Interleaving model of CONCURRENT `OnRequest` calls, at critical-section granularity.  Core Lean only.

A thread is one `StrategyBasedThrottlingPlugin.OnRequest` call that resolves to a limiter request
(`Call`: key, window data, and the remedy name/allowance it registers in `definedQuotas`).  Its atomic steps are
the code's critical sections, in program order:

  A  plugin.mutex.Lock(); definedQuotas[name] = allowed; Unlock()                      (pc start → registered)
  B  RateLimitState.getLimiterState: state.mutex.Lock(); get-or-create the key's
     *singleRateLimitState; Unlock()                                                   (pc registered → located)
  C  singleRateLimitState.TryToIncrement: state.mutex.Lock() … defer Unlock(), the whole
     body incl. the clock read in ensureWindowIsUpdated                                (pc located → done)

(everything between the sections — `resolve`, `validateLimitKeys` — is thread-local).  That these sections
really are atomic is NOT proved here: it is the lock-coverage obligation `LunarVerif.C18.atomicity_facts`
(`Spec.C18.requiredCoverage` contains ("limit.RateLimitState","groupsStateByLimiter","mutex",["getLimiterState"])
and ("limit.singleRateLimitState","counter","mutex",["TryToIncrement"]) with the one-critical-section rule),
regenerated from the source on every C18 run.

A schedule is a list of (thread index, instant): the thread takes its next step at that instant; steps of
finished threads or unknown indices stutter.  Entries of the map are never removed, so "the pointer obtained in
B" is modelled as a key lookup in C.
-/
namespace LunarVerif.C09

section
variable {κ : Type} [DecidableEq κ]

structure Call (κ : Type) where
  key   : κ
  wd    : WindowData
  qname : String
  qval  : Int
deriving Repr

inductive Pc where
  | start | registered | located | done
deriving DecidableEq, Repr

structure Conc (κ : Type) where
  pcs    : List Pc                   -- program counter per thread
  quotas : List (String × Int)       -- plugin.definedQuotas
  st     : State κ                   -- RateLimitState.groupsStateByLimiter
  done   : List (Nat × Event κ)      -- (thread, its verdict) in the order of the C sections, most recent first

def initC (calls : List (Call κ)) : Conc κ := ⟨calls.map (fun _ => Pc.start), [], [], []⟩

/-- One atomic step of thread `i` at instant `t`. -/
def stepC (cap : CapFn) (calls : List (Call κ)) (c : Conc κ) (i t : Nat) : Conc κ :=
  match calls[i]?, c.pcs[i]? with
  | some call, some .start =>
    { c with pcs := c.pcs.set i .registered,
             quotas := (call.qname, call.qval) :: c.quotas.filter (fun p => p.1 != call.qname) }
  | some call, some .registered =>
    { c with pcs := c.pcs.set i .located,
             st := match find call.key c.st with
                   | some _ => c.st
                   | none => set call.key initKey c.st }
  | some call, some .located =>
    { c with pcs := c.pcs.set i .done,
             st := (stepL cap c.st ⟨call.key, t, call.wd⟩).1,
             done := (i, (stepL cap c.st ⟨call.key, t, call.wd⟩).2) :: c.done }
  | _, _ => c

def runC (cap : CapFn) (calls : List (Call κ)) : Conc κ → List (Nat × Nat) → Conc κ
  | c, [] => c
  | c, (i, t) :: rest => runC cap calls (stepC cap calls c i t) rest

/-- The observable history of a concurrent execution: verdicts in the order of the `TryToIncrement`
    critical sections, oldest first. -/
def history (c : Conc κ) : List (Event κ) := (c.done.map (·.2)).reverse

end
end LunarVerif.C09
