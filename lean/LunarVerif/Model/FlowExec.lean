import LunarVerif.Model.FlowGraph
/-
Shared model of the flow WALKER of the lunar engine (used by C04 and C05).  Core Lean only.

Go sources mirrored (proxy/src/services/lunar-engine/streams):
  stream/stream.go   Stream.ExecuteFlow   (recursive walk; `walk` / `walkEdges` below)
  streams.go         Stream.executeFlow   (`executeFlow`), executeReq (`executeReq`), executeRes (`executeRes`)

Processors are abstract: an *output oracle* gives, for (flow, processor key, direction), the output
the processor produces (name, whether its type is "response", whether it fails).  Recursion is bounded
by FUEL (depth of the call stack); running out of fuel is reported as the error `.fuel`
(in Go: unbounded recursion).
-/
namespace LunarVerif.FlowExec
open LunarVerif.FlowGraph

/-- What a processor execution returns. -/
structure Out where
  name : String := ""   -- ProcessorIO.Name (the condition name)
  early : Bool := false -- ProcessorIO.Type is "response" (on a request stream: early response)
  err : Bool := false   -- Execute returned an error
deriving DecidableEq, Repr, Inhabited

/-- flow name → processor key → direction → output. -/
abbrev Oracle := String → String → Dir → Out

inductive Event where
  | enter (flow : String) (d : Dir)                         -- executeFlow entered (SetContext)
  | exec (flow : String) (key : String) (d : Dir) (o : Out) -- a processor was executed
deriving DecidableEq, Repr, Inhabited

inductive ExecErr where
  | proc      -- a processor failed
  | respNode  -- "failed to get response node"
  | fuel      -- recursion bound exceeded (Go: does not terminate)
  | missing   -- edge to a node that does not exist (impossible for built graphs)
deriving DecidableEq, Repr, Inhabited

/-- Result of a (partial) walk: events, the short-circuit node returned, error. -/
structure WalkRes where
  trace : List Event := []
  sc : Option String := none
  err : Option ExecErr := none
deriving DecidableEq, Repr, Inhabited

/-- The `for _, edge := range node.GetEdges()` loop of `Stream.ExecuteFlow`.  `rec` is the recursive
    call; `sc` is the current value of `shortCircuitNode` (overwritten by every followed edge). -/
def walkEdges (rec : String → WalkRes) (name : String) : List Edge → Option String → WalkRes
  | [], sc => { sc := sc }
  | e :: es, sc =>
    match e.target with
    | .stream _ _ => walkEdges rec name es sc
    | .node t =>
      if e.cond == name then
        let r := rec t
        if r.err.isSome then r
        else if r.sc.isSome then r   -- a processor answered the request: the rest of the request path is skipped (fix F04b)
        else
          let rest := walkEdges rec name es r.sc
          { trace := r.trace ++ rest.trace, sc := rest.sc, err := rest.err }
      else walkEdges rec name es sc

/-- `Stream.ExecuteFlow(flow, apiStream, node, actions)` in direction `d`; `onReq` tells whether the
    API stream's type is still "request" (early responses are only recognised then). -/
def walk (f : Flow) (o : Oracle) (d : Dir) : Nat → String → WalkRes
  | 0, _ => { err := some .fuel }
  | fuel + 1, k =>
    match (f.dir d).find k with
    | none => { err := some .missing }
    | some n =>
      let out := o f.name k d
      let ev := Event.exec f.name k d out
      if out.err then { trace := [ev], err := some .proc }
      else if out.early && d == .req then
        match f.res.find k with
        | none => { trace := [ev], err := some .respNode }
        | some _ => { trace := [ev], sc := some k }
      else
        let r := walkEdges (walk f o d fuel) out.name n.edges none
        { r with trace := ev :: r.trace }

/-- `Stream.executeFlow(flow, apiStream, actions, startFromNode)`; the `enter` event is the
    `apiStream.SetContext` call that precedes every check.  (After the fixes F04a/F04d: with a
    short-circuit node the walk continues at that node's FIRST edge whether or not the direction has
    a root; no edge or an edge to the stream ends the walk.) -/
def executeFlow (f : Flow) (o : Oracle) (d : Dir) (fuel : Nat) (startFrom : Option String) : WalkRes :=
  let ent := Event.enter f.name d
  let g := f.dir d
  if !g.isDefined then { trace := [ent] } else
  let start : Option String :=
    match startFrom.bind g.find with
    | none => g.root                                -- no short-circuit (node): walk from the root, if any
    | some n =>
      match n.edges with
      | [] => none                                  -- no connection leaves the answering node: end of walk
      | e :: _ =>
        match e.target with
        | .stream _ _ => none                       -- first edge goes to the stream: end of walk
        | .node t => some t
  match start with
  | none => { trace := [ent] }
  | some k =>
    let w := walk f o d fuel k
    { w with trace := ent :: w.trace }

/-- Run a list of flows one after the other, stopping at the first error (system flows). -/
def runAll (o : Oracle) (d : Dir) (fuel : Nat) : List Flow → WalkRes
  | [] => {}
  | f :: fs =>
    let r := executeFlow f o d fuel none
    if r.err.isSome then r
    else
      let rest := runAll o d fuel fs
      { trace := r.trace ++ rest.trace, sc := none, err := rest.err }

/-- The user-flow loop of `executeReq`: stops (`break`) at the first flow that returns a short-circuit
    node; result `sc` = (flow name, node key). -/
def runUserReq (o : Oracle) (fuel : Nat) : List Flow → List Event × Option (String × String) × Option ExecErr
  | [] => ([], none, none)
  | f :: fs =>
    let r := executeFlow f o .req fuel none
    if r.err.isSome then (r.trace, none, r.err)
    else match r.sc with
      | some k => (r.trace, some (f.name, k), none)
      | none =>
        let (t, sc, e) := runUserReq o fuel fs
        (r.trace ++ t, sc, e)

/-- `shortCircuit != nil && shortCircuit.flow.GetName() == userFlow.GetName()` ⇒ start from the
    short-circuit node -/
def startFor (sc : Option (String × String)) (f : Flow) : Option String :=
  match sc with
  | some (fl, k) => if fl == f.name then some k else none
  | none => none

/-- The user-flow loop of `executeRes` over the (already reversed) list. -/
def runUserRes (o : Oracle) (fuel : Nat) (sc : Option (String × String)) : List Flow → WalkRes
  | [] => {}
  | f :: fs =>
    let r := executeFlow f o .res fuel (startFor sc f)
    if r.err.isSome then { r with sc := none }
    else
      let rest := runUserRes o fuel sc fs
      { trace := r.trace ++ rest.trace, sc := none, err := rest.err }

/-- The flows selected by the filter tree for a transaction, in the engine's order. -/
structure Selected where
  start : List Flow := []
  user : List Flow := []
  finish : List Flow := []
deriving Repr, Inhabited

/-- Result of a transaction: events, error, the short-circuit (flow, key) if any. -/
structure TxnRes where
  trace : List Event := []
  err : Option ExecErr := none
  sc : Option (String × String) := none
deriving DecidableEq, Repr, Inhabited

/-- `Stream.executeRes`. -/
def executeRes (s : Selected) (o : Oracle) (fuel : Nat) (sc : Option (String × String)) : TxnRes :=
  let a := runAll o .res fuel s.start.reverse
  if a.err.isSome then { trace := a.trace, err := a.err, sc := sc } else
  let b := runUserRes o fuel sc s.user.reverse
  if b.err.isSome then { trace := a.trace ++ b.trace, err := b.err, sc := sc } else
  let c := runAll o .res fuel s.finish.reverse
  { trace := a.trace ++ b.trace ++ c.trace, err := c.err, sc := sc }

/-- `Stream.executeReq`. -/
def executeReq (s : Selected) (o : Oracle) (fuel : Nat) : TxnRes :=
  let a := runAll o .req fuel s.start
  if a.err.isSome then { trace := a.trace, err := a.err } else
  let (bt, sc, be) := runUserReq o fuel s.user
  if be.isSome then { trace := a.trace ++ bt, err := be } else
  let c := runAll o .req fuel s.finish
  if c.err.isSome then { trace := a.trace ++ bt ++ c.trace, err := c.err } else
  match sc with
  | none => { trace := a.trace ++ bt ++ c.trace }
  | some _ =>
    let r := executeRes s o fuel sc
    { r with trace := a.trace ++ bt ++ c.trace ++ r.trace }

/-- `Stream.ExecuteFlow(apiStream, actions)` for a request / response transaction. -/
def transaction (s : Selected) (o : Oracle) (fuel : Nat) : Dir → TxnRes
  | .req => executeReq s o fuel
  | .res => executeRes s o fuel none

/-- Depth bound used by the drivers: a walk over an acyclic direction never nests deeper than its
    number of nodes. -/
def fuelFor (s : Selected) : Nat :=
  ((s.start ++ s.user ++ s.finish).map fun f => f.req.nodes.length + f.res.nodes.length).sum + 2

end LunarVerif.FlowExec
