/-
Shared model of the flow-graph BUILDER of the lunar engine (used by C04 and C05).  Core Lean only.

Go sources mirrored (proxy/src/services/lunar-engine/streams):
  flow/flow_builder.go      buildConnections / buildConnection / connect* (reference-free part)
  flow/flow_direction.go    getOrCreateNode, setAsRoot, IsDefined, HasValidRoot
  flow/flow_graph_node.go   addEdge (de-duplication)          flow/connection_edge.go  equal
  flow/validations.go       validateFlow / validateDirection / validateUnconnectedProcessors /
                            detectCircularConnections / dfsDetectCycles   (C05 owns the treatment of the
                            validator; cycle DFS from every node since the fix of F05a)
  types/processor.utils.go  ProcessorDefinition.CheckCondition

Representation choices
  * a direction's `nodes map[string]*FlowGraphNode` is an association list in creation order (the
    order is not observable in Go); edge targets are processor keys (Go: pointers into that map;
    nodes are never removed, so key lookup is the same thing);
  * `root *EntryPoint` is `Option String` (the key of the entry node); an entry point created by
    `connectStreamToProcessor` always carries a stream, so `HasValidRoot` = `root.isSome`;
  * flow references (`processor → flow`, `flow → processor`, `incorporateFlow`, `foreignRoot`) are
    NOT modelled (stage 2): a connection endpoint is a stream or a processor.  Consequently
    `node.flowGraphName = flowDir.flowName` always and `connectProcessorToStream` always produces a
    stream edge.
-/
namespace LunarVerif.FlowGraph

inductive Dir where
  | req | res
deriving DecidableEq, Repr, Inhabited

def Dir.str : Dir → String
  | .req => "req"
  | .res => "res"

/-- One end of a YAML connection.  `stream name at` (`at` is the literal YAML string: "start"/"end"),
    `proc key cond` (`cond` is only meaningful on the `from` side). -/
inductive End where
  | stream (name : String) (at_ : String)
  | proc (key : String) (cond : String)
deriving DecidableEq, Repr, Inhabited

structure Conn where
  src : End
  dst : End
deriving DecidableEq, Repr, Inhabited

/-- Target of a built edge. -/
inductive Target where
  | node (key : String)
  | stream (name : String) (at_ : String)
deriving DecidableEq, Repr, Inhabited

structure Edge where
  cond : String
  target : Target
deriving DecidableEq, Repr, Inhabited

structure Node where
  key : String
  edges : List Edge
deriving DecidableEq, Repr, Inhabited

/-- A built `FlowDirection`. -/
structure DirGraph where
  root : Option String := none
  nodes : List Node := []
deriving DecidableEq, Repr, Inhabited

/-- Declared output of a processor definition: name and stream type ("any" | "req" | "res"). -/
structure OutDef where
  name : String
  typ : String
deriving DecidableEq, Repr, Inhabited

/-- Processor definition (only what the builder looks at). -/
structure PType where
  name : String
  outs : List OutDef
deriving DecidableEq, Repr, Inhabited

/-- A flow representation: processors (key ↦ processor type name) and the two connection lists. -/
structure FlowRep where
  name : String
  procs : List (String × String)
  req : List Conn
  res : List Conn
deriving DecidableEq, Repr, Inhabited

def FlowRep.conns (f : FlowRep) : Dir → List Conn
  | .req => f.req
  | .res => f.res

inductive BuildErr where
  | condition    -- "invalid condition for processor"
  | node         -- "failed to build node" (processor instance not found)
  | connection   -- "invalid connection configuration"
  | root         -- "flow graph has no valid root node"
  | unconnected  -- "processor '..' is unconnected"
  | cycle        -- "circular connection detected"
  | undefined    -- "flow graph has no flow direction defined"
deriving DecidableEq, Repr, Inhabited

def BuildErr.str : BuildErr → String
  | .condition => "condition" | .node => "node" | .connection => "connection" | .root => "root"
  | .unconnected => "unconnected" | .cycle => "cycle" | .undefined => "undefined"

/-! ### graph primitives -/

def findNode (nodes : List Node) (k : String) : Option Node := nodes.find? (·.key == k)

def DirGraph.find (g : DirGraph) (k : String) : Option Node := findNode g.nodes k

/-- `FlowDirection.IsDefined`. -/
def DirGraph.isDefined (g : DirGraph) : Bool := !g.nodes.isEmpty

/-- `ExternalEdge.equal` + node comparison of `ConnectionEdge.equal` (conditions compared by the caller). -/
def Target.same : Target → Target → Bool
  | .stream n a, .stream n' a' => n == n' && a == a'
  | .node k, .node k' => k == k'
  | _, _ => false

/-- `ConnectionEdge.equal`. -/
def Edge.same (e e' : Edge) : Bool := e.cond == e'.cond && e.target.same e'.target

/-- `FlowGraphNode.addEdge`: append unless an equal edge is already there. -/
def addEdge (edges : List Edge) (e : Edge) : List Edge :=
  if edges.any (·.same e) then edges else edges ++ [e]

/-- `getOrCreateNode`: `none` = the processor instance does not exist ("failed to build node"). -/
def getOrCreate (procs : List (String × String)) (g : DirGraph) (k : String) : Option DirGraph :=
  match g.find k with
  | some _ => some g
  | none => if procs.any (·.1 == k) then some { g with nodes := g.nodes ++ [⟨k, []⟩] } else none

/-- add an edge to the node `k` (which exists). -/
def addEdgeTo (g : DirGraph) (k : String) (e : Edge) : DirGraph :=
  { g with nodes := g.nodes.map fun n => if n.key == k then { n with edges := addEdge n.edges e } else n }

/-- `ProcessorDefinition.CheckCondition`. -/
def checkCondition (pt : PType) (cond : String) (d : Dir) : Bool :=
  pt.outs.any fun o => (o.typ == "any" || o.typ == d.str) && o.name == cond

def findPType (pts : List PType) (n : String) : Option PType := pts.find? (·.name == n)

/-- `flowBuilder.validateCondition`: no definition found ⇒ nothing to check. -/
def validateCondition (pts : List PType) (procs : List (String × String)) (d : Dir) (k cond : String) : Bool :=
  match procs.find? (·.1 == k) with
  | none => true
  | some (_, ptn) =>
    match findPType pts ptn with
    | none => true
    | some pt => checkCondition pt cond d

/-- `flowBuilder.buildConnection` (reference-free cases). -/
def buildConnection (pts : List PType) (procs : List (String × String)) (d : Dir) (g : DirGraph) (c : Conn) :
    Except BuildErr DirGraph :=
  match c.src, c.dst with
  | .proc f cond, .proc t _ =>
    if !validateCondition pts procs d f cond then .error .condition else
    match getOrCreate procs g f with
    | none => .error .node
    | some g1 =>
      match getOrCreate procs g1 t with
      | none => .error .node
      | some g2 => .ok (addEdgeTo g2 f ⟨cond, .node t⟩)
  | .stream _ at_, .proc t _ =>
    if at_ == "start" then
      match getOrCreate procs g t with
      | none => .error .node
      | some g1 => .ok { g1 with root := some t }
    else .error .connection
  | .proc f cond, .stream n at_ =>
    if !validateCondition pts procs d f cond then .error .condition else
    if at_ == "end" then
      match getOrCreate procs g f with
      | none => .error .node
      | some g1 => .ok (addEdgeTo g1 f ⟨cond, .stream n at_⟩)
    else .error .connection
  | .stream _ _, .stream _ _ => .ok g

/-- `flowBuilder.buildConnections`. -/
def buildConnections (pts : List PType) (procs : List (String × String)) (d : Dir) :
    DirGraph → List Conn → Except BuildErr DirGraph
  | g, [] => .ok g
  | g, c :: cs =>
    match buildConnection pts procs d g c with
    | .error e => .error e
    | .ok g' => buildConnections pts procs d g' cs

/-! ### validation (simple version of validations.go) -/

/-- `validateUnconnectedProcessors`: every node has an edge or is the target of one.  (The root clause
    of the Go code adds nothing: it marks the root only when it has edges.) -/
def unconnectedOk (g : DirGraph) : Bool :=
  g.nodes.all fun n =>
    !n.edges.isEmpty || g.nodes.any fun m => m.edges.any fun e => e.target == .node n.key

def condKey (c : String) : String := if c == "" then "*" else c

/-- `dfsDetectCycles` with its path-cloned `visitedByCondition`; `true` = no cycle found.
    `visited` is the list of (condition, processor key) pairs on the current path.  Fuel bounds the
    recursion depth; every step adds a new pair, so `(#nodes + 1) * (#edges + 2)` is never exhausted. -/
def dfs (g : DirGraph) : Nat → List (String × String) → String → String → Bool
  | 0, _, _, _ => false
  | fuel + 1, visited, cur, cond =>
    let c := condKey cond
    if visited.contains (c, cur) then false else
    match g.find cur with
    | none => true
    | some n =>
      n.edges.all fun e =>
        match e.target with
        | .stream _ _ => true
        | .node t => dfs g fuel ((c, cur) :: visited) t e.cond

def edgeCount (g : DirGraph) : Nat := (g.nodes.map (·.edges.length)).sum

def dfsFuel (g : DirGraph) : Nat := (g.nodes.length + 1) * (edgeCount g + 2) + 1

/-- the DFS `detectCircularConnections` runs for the edges of one node `n` -/
def dfsFrom (g : DirGraph) (n : Node) : Bool :=
  n.edges.all fun e =>
    match e.target with
    | .stream _ _ => true
    | .node t => dfs g (dfsFuel g) [] t e.cond

/-- `detectCircularConnections` (after the fix of F05a): the DFS runs from the edges of EVERY node of the
    direction — every node can be the entry of a walk (the root, or the node that answered a request
    early) — whether or not the direction has a root. -/
def noCycleAnywhere (g : DirGraph) : Bool := g.nodes.all (dfsFrom g)

/-- `validateDirection`. -/
def validateDirection (d : Dir) (g : DirGraph) : Except BuildErr Unit :=
  if !g.isDefined then .ok () else
  if d == .req && g.root.isNone then .error .root else
  if !unconnectedOk g then .error .unconnected else
  if !noCycleAnywhere g then .error .cycle else .ok ()

/-- A built flow. -/
structure Flow where
  name : String
  req : DirGraph
  res : DirGraph
deriving DecidableEq, Repr, Inhabited

def Flow.dir (f : Flow) : Dir → DirGraph
  | .req => f.req
  | .res => f.res

/-- `flowBuilder.buildFlow` up to (not including) the filter-tree insertion. -/
def buildFlow (pts : List PType) (f : FlowRep) : Except BuildErr Flow :=
  match buildConnections pts f.procs .req {} f.req with
  | .error e => .error e
  | .ok rq =>
    match buildConnections pts f.procs .res {} f.res with
    | .error e => .error e
    | .ok rs =>
      match validateDirection .req rq with
      | .error e => .error e
      | .ok _ =>
        match validateDirection .res rs with
        | .error e => .error e
        | .ok _ =>
          if !rq.isDefined && !rs.isDefined then .error .undefined
          else .ok ⟨f.name, rq, rs⟩

/-- Some processor→processor cycle exists anywhere in the direction (conditions ignored).  The C04
    harness never executes such a configuration (an unreachable cycle entered from a short-circuit
    node is C05's finding F05a). -/
def reaches (g : DirGraph) : Nat → String → String → Bool
  | 0, _, _ => false
  | fuel + 1, a, b =>
    match g.find a with
    | none => false
    | some n => n.edges.any fun e =>
        match e.target with
        | .stream _ _ => false
        | .node t => t == b || reaches g fuel t b

def hasCycle (g : DirGraph) : Bool :=
  g.nodes.any fun n => reaches g (g.nodes.length + 1) n.key n.key

end LunarVerif.FlowGraph
