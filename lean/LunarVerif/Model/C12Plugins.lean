import LunarVerif.Model.C12
/-
Models of the two remedies that sit on `MemoryCache` (core Lean only):

  services/remedies/cache_plugin.go                      ↦ `cstep`   (CachingPlugin.OnResponse / OnRequest)
  services/remedies/response_based_throttling_plugin.go  ↦ `tstep`   (ResponseBasedThrottlingPlugin.…)

Both are parametric in the string type `σ` (the driver instantiates `σ := String`; witnesses use `Nat`).
What the Go code derives from strings is an INPUT of an operation here and is computed by the driver with
the string functions at the end of this file (`selectParams`, `calcSize`, `parseDecNs`):
  * `sel`     – the selected path parameters, in configuration order, empty values dropped.  The code hashes
                `strings.Join(["", …, strconv.Quote(name)+":"+strconv.Quote(value), …], ".")`; Go-quoted strings are
                self-delimiting, so this string determines `sel` and vice versa; SHA-256 is modelled as injective:
                the model keys on `sel` itself;
  * `bodyLen`, `sz` – `len(body)` and `calculateSize(key, value)` in bytes;
  * `Resp.raNs` – the configured Retry-After header parsed as a decimal number of seconds, in ns.

Caching  OnResponse: `len(body) > MaxRecordSizeBytes` → nothing; `Has(key)` → nothing; `WithMaxCacheSize(...)`;
         `Set(key, resp, TTLSeconds)` (error only logged).            key = (method, URL, hash(quoted sel)).
         OnRequest: `Get(key)`; hit → early response with the stored status/body/headers.
Throttle OnResponse: status ∉ RelevantStatuses → nothing; `Has(key)` → nothing; Retry-After missing /
         unparsable / type undefined → nothing; TTL = value (relative) or
         `value − float64(now.Unix()) − float64(now.Nanosecond())/1e9` (absolute, float64 seconds; `AbsTtl` below);
         `Set(key, resp{CreationTime: now}, TTL)`.   key = (method, URL).
         OnRequest: `Get(key)`; hit → (relative only) lapsed := now − CreationTime; `lapsed ≥ value` → NoOp,
         else header := value − lapsed; early response.
-/
namespace LunarVerif.C12

structure Resp (σ : Type) where
  id     : σ
  status : Nat
  body   : σ
  tag    : Option σ     -- header "X-Tag"
  ra     : Option σ     -- raw value of the configured Retry-After header
  raNs   : Option Int   -- … parsed (seconds → ns), `none` when it is not a decimal number
  raExact : Bool        -- the header arrived under EXACTLY the configured name (the code looks it up with `headers[name]`;
                        --   `false`: it arrived under a name that differs in letter case, e.g. lower-cased by utils.ParseHeaders)
  raDate : Option Int   -- the value read as an HTTP-date (IMF-fixdate), in ns; only the Spec looks at it: the code does
                        --   not parse dates (strconv.ParseFloat fails ⇒ the response is not stored)
deriving DecidableEq, Repr

/-- `CachedResponse` -/
structure Stored (σ : Type) where
  resp    : Resp σ
  created : Int
deriving DecidableEq, Repr

structure CKey (σ : Type) where
  m   : σ
  u   : σ
  sel : List (σ × σ)
deriving DecidableEq, Repr

/-- Retry-After of a replayed response: the stored header as is, or a recomputed number (ns). -/
inductive RaOut (σ : Type) where
  | raw (o : Option σ)
  | ns (n : Int)
deriving DecidableEq, Repr

/-- Operations of a plugin-level history (both remedies). -/
inductive POp (σ : Type) where
  | resp (m u : σ) (sel : List (σ × σ)) (r : Resp σ) (bodyLen sz : Nat)
  | req (m u : σ) (sel : List (σ × σ))
  | fire (i : Nat)
  | skip (d : Nat)
  | adv (d : Nat)
  | probe
deriving Repr

inductive POut (σ : Type) where
  | noop
  | early (status : Nat) (body : σ) (tag : Option σ) (ra : RaOut σ) (extra : Nat)   -- `extra`: replayed headers besides X-Tag / Retry-After
  | fired (r : FireRes)
  | advd (n : Nat)
  | unit
  | probed (tracked : Int) (held n pending : Nat)
deriving Repr

structure PRec (σ : Type) where
  t   : Int
  op  : POp σ
  out : POut σ

section
variable {σ : Type} [DecidableEq σ]

/-! ### caching remedy -/

structure CCfg where
  ttl      : Int    -- TTLSeconds in ns
  maxRec   : Nat    -- MaxRecordSizeBytes
  maxBytes : Int    -- MaxCacheSizeMegabytes in bytes
deriving Repr

abbrev CCache (σ : Type) := Cache (CKey σ) (Stored σ)

def cstep (cfg : CCfg) (c : CCache σ) : POp σ → CCache σ × POut σ
  | .resp m u sel r bodyLen sz =>
    if bodyLen > cfg.maxRec then (c, .noop)
    else if has c ⟨m, u, sel⟩ then (c, .noop)
    else
      ((set { c with sizeOn := true, max := cfg.maxBytes } ⟨m, u, sel⟩ ⟨r, c.now⟩ cfg.ttl sz).1, .noop)
  | .req m u sel =>
    match get c ⟨m, u, sel⟩ with
    | none => (c, .noop)
    | some s => (c, .early s.resp.status s.resp.body s.resp.tag (.raw s.resp.ra) 0)
  | .fire i => ((fire c i).1, .fired (fire c i).2)
  | .skip d => (skip c d, .unit)
  | .adv d => ((adv c d).1, .advd (adv c d).2)
  | .probe => (c, .probed c.tracked (heldSize c.entries) c.entries.length c.pending.length)

def crun (cfg : CCfg) (c : CCache σ) : List (POp σ) → List (PRec σ)
  | [] => []
  | op :: ops => { t := c.now, op := op, out := (cstep cfg c op).2 } :: crun cfg (cstep cfg c op).1 ops

/-! ### response-based throttling remedy -/

inductive RaType where
  | undef
  | abs
  | rel
deriving DecidableEq, Repr

structure TCfg where
  type     : RaType
  statuses : List Nat
deriving Repr

abbrev TCache (σ : Type) := Cache (σ × σ) (Stored σ)

def nsPerSec : Int := 1000000000

/-- TTL (ns) that `Set` derives for an absolute Retry-After `raNs` seen at instant `now`:
    `time.Duration(1e9 * (value − float64(now.Unix()) − float64(now.Nanosecond())/1e9))`.  The computation is in
    float64; the model takes it as a parameter (the driver uses `absTtlFloat`), theorems quantify over every
    function that never exceeds the exact difference unless it is non-positive (`AbsTtlOk`). -/
abbrev AbsTtl := Int → Int → Int

def AbsTtlOk (f : AbsTtl) : Prop := ∀ raNs now, f raNs now ≤ raNs - now ∨ f raNs now ≤ 0

/-- exact arithmetic instance -/
def absTtlExact : AbsTtl := fun raNs now => raNs - now

/-- The Go float64 operations repeated with Lean's `Float` (IEEE binary64; opaque to the kernel).
    `value` = whole seconds + fraction (exact for the dyadic fractions the generators use). -/
def absTtlFloat : AbsTtl := fun raNs now =>
  let value : Float := Float.ofInt (raNs / nsPerSec) + Float.ofInt (raNs % nsPerSec) / 1e9
  let ttl : Float := value - Float.ofInt (now / nsPerSec) - Float.ofInt (now % nsPerSec) / 1e9
  (1e9 * ttl).toInt64.toInt

-- build-time TESTS (compiled evaluation, not kernel theorems)
#guard absTtlFloat 1700000001000000000 1700000000500000000 == 500000000
#guard absTtlFloat 1700000001000000000 1700000000000000001 == 999999999
#guard absTtlFloat 1700000001500000000 1700000000249999999 ≤ 1250000001
#guard absTtlFloat 1700000000000000000 1700000000000000001 == 0 || absTtlFloat 1700000000000000000 1700000000000000001 == -1

/-- `normalizeRetryAfter` in ns. -/
def ttlOf (absTtl : AbsTtl) (cfg : TCfg) (now : Int) (raNs : Int) : Option Int :=
  match cfg.type with
  | .rel => some raNs
  | .abs => some (absTtl raNs now)
  | .undef => none

def tstep (absTtl : AbsTtl) (cfg : TCfg) (c : TCache σ) : POp σ → TCache σ × POut σ
  | .resp m u _ r _ _ =>
    if !cfg.statuses.contains r.status then (c, .noop)
    else if has c (m, u) then (c, .noop)
    else if !r.raExact then (c, .noop)                    -- `headers[RetryAfterHeader]` not found
    else
      match r.raNs.bind (ttlOf absTtl cfg c.now) with
      | none => (c, .noop)
      | some ttl => ((set c (m, u) ⟨r, c.now⟩ ttl 0).1, .noop)
  | .req m u _ =>
    match get c (m, u) with
    | none => (c, .noop)
    | some s =>
      match cfg.type with
      | .rel =>
        match s.resp.raNs with
        | none => (c, .noop)
        | some ra =>
          if c.now - s.created ≥ ra then (c, .noop)
          else (c, .early s.resp.status s.resp.body s.resp.tag (.ns (ra - (c.now - s.created))) 0)
      | _ => (c, .early s.resp.status s.resp.body s.resp.tag (.raw s.resp.ra) 0)
  | .fire i => ((fire c i).1, .fired (fire c i).2)
  | .skip d => (skip c d, .unit)
  | .adv d => ((adv c d).1, .advd (adv c d).2)
  | .probe => (c, .probed c.tracked (heldSize c.entries) c.entries.length c.pending.length)

def trun (absTtl : AbsTtl) (cfg : TCfg) (c : TCache σ) : List (POp σ) → List (PRec σ)
  | [] => []
  | op :: ops =>
    { t := c.now, op := op, out := (tstep absTtl cfg c op).2 } :: trun absTtl cfg (tstep absTtl cfg c op).1 ops

end

/-! ### string-level helpers used by the driver (mirrors of `extractHashedPathParams`, `calculateSize`,
    `strconv.ParseFloat` restricted to plain decimals) -/

/-- last binding wins, as in a Go map built by successive assignments -/
def lookupLast (k : String) (pp : List (String × String)) : Option String :=
  (pp.reverse.find? (fun p => p.1 == k)).map (·.2)

/-- `paths`: (isPathParamType, name) in configuration order. -/
def selectParams (paths : List (Bool × String)) (pp : List (String × String)) : List (String × String) :=
  paths.filterMap fun (isPP, name) =>
    if isPP then
      match lookupLast name pp with
      | some v => if v == "" then none else some (name, v)
      | none => none
    else none

/-- `calculateSize` in bytes (the hash is 64 hex characters; +4 status, +8 creation time). -/
def calcSize (m u id body : String) (hdrs : List (String × String)) : Nat :=
  m.utf8ByteSize + u.utf8ByteSize + 64 + id.utf8ByteSize + body.utf8ByteSize
    + (hdrs.map fun (k, v) => k.utf8ByteSize + v.utf8ByteSize).sum + 12

def digitsVal (cs : List Char) : Nat := cs.foldl (fun a c => a * 10 + (c.toNat - 48)) 0

/-- `[+-]? digits* ( '.' digits* )?` with at least one digit ↦ value in ns (fraction cut after 9 digits). -/
def parseDecNs (s : String) : Option Int :=
  let cs := s.toList
  let (neg, cs) := match cs with
    | '-' :: r => (true, r)
    | '+' :: r => (false, r)
    | r => (false, r)
  let ip := cs.takeWhile Char.isDigit
  let rest := cs.dropWhile Char.isDigit
  let fp? : Option (List Char) := match rest with
    | [] => some []
    | '.' :: r => if r.all Char.isDigit then some r else none
    | _ => none
  match fp? with
  | none => none
  | some fp =>
    if ip.isEmpty && fp.isEmpty then none
    else
      let frac9 := (fp ++ List.replicate 9 '0').take 9
      let v : Int := (digitsVal ip * 1000000000 + digitsVal frac9 : Nat)
      some (if neg then -v else v)

/-- days since 1970-01-01 of a civil date (proleptic Gregorian) -/
def daysFromCivil (y m d : Int) : Int :=
  let y := if m ≤ 2 then y - 1 else y
  let era := (if y ≥ 0 then y else y - 399) / 400
  let yoe := y - era * 400
  let mp := (m + 9) % 12
  let doy := (153 * mp + 2) / 5 + d - 1
  let doe := yoe * 365 + yoe / 4 - yoe / 100 + doy
  era * 146097 + doe - 719468

def monthOf (s : String) : Option Int :=
  (["Jan", "Feb", "Mar", "Apr", "May", "Jun", "Jul", "Aug", "Sep", "Oct", "Nov", "Dec"].idxOf? s).map fun i => (i : Int) + 1

def nat2 (s : String) (len : Nat) : Option Int :=
  if s.length == len && s.all Char.isDigit then s.toNat?.map Int.ofNat else none

/-- IMF-fixdate `Tue, 14 Nov 2023 22:13:21 GMT` ↦ ns since the epoch (the first format of `http.ParseTime`;
    the other two, RFC 850 and asctime, are not generated). -/
def parseHttpDate (s : String) : Option Int :=
  match s.splitOn " " with
  | [wd, dd, mon, yyyy, hms, "GMT"] =>
    if !(["Mon,", "Tue,", "Wed,", "Thu,", "Fri,", "Sat,", "Sun,"].contains wd) then none else
    match hms.splitOn ":" with
    | [hh, mm, ss] => do
      let d ← nat2 dd 2
      let mo ← monthOf mon
      let y ← nat2 yyyy 4
      let h ← nat2 hh 2
      let mi ← nat2 mm 2
      let sec ← nat2 ss 2
      if d < 1 || d > 31 || h > 23 || mi > 59 || sec > 59 then none
      else some ((daysFromCivil y mo d * 86400 + h * 3600 + mi * 60 + sec) * 1000000000)
    | _ => none
  | _ => none

#guard parseHttpDate "Tue, 14 Nov 2023 22:13:20 GMT" == some 1700000000000000000
#guard parseHttpDate "Thu, 01 Jan 1970 00:00:00 GMT" == some 0
#guard parseHttpDate "Tue, 14 Nov 2023" == none
#guard parseDecNs "Tue, 14 Nov 2023 22:13:20 GMT" == none
#guard parseDecNs "1.5" == some 1500000000
#guard parseDecNs "-2" == some (-2000000000)
#guard parseDecNs ".125" == some 125000000
#guard parseDecNs "3." == some 3000000000
#guard parseDecNs "." == none
#guard parseDecNs "1s" == none
#guard parseDecNs "" == none

end LunarVerif.C12
