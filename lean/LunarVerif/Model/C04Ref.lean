import LunarVerif.Model.C04
import LunarVerif.Model.FlowGraphRef
/-
C04 glue for configurations whose flows may REFERENCE other flows (`Model/FlowGraphRef.lean`).
`flowReps` — the map every reference is resolved in — holds the user flows that passed the YAML-level
validation and the system flows of the quotas.  The order in which flows are built does not enter the
construction of a flow (each `buildFlow` starts from a fresh `Flow`); it only decides the order of the flows
in the filter tree (`loadR … order`).
-/
namespace LunarVerif.C04
open LunarVerif.FlowGraph LunarVerif.FlowExec

structure FlowDeclR where
  kind : Kind
  rep : RFlowRep
deriving DecidableEq, Repr, Inhabited

structure CfgR where
  ptypes : List PType := []
  flows : List FlowDeclR := []
  quotas : List Quota := []
deriving Repr, Inhabited

def FlowDecl.toR (d : FlowDecl) : FlowDeclR := ⟨d.kind, d.rep.toR⟩

def Cfg.toR (c : Cfg) : CfgR := ⟨c.ptypes, c.flows.map FlowDecl.toR, c.quotas⟩

/-- the configuration as a reference-free one, when no flow has a reference -/
def CfgR.base? (c : CfgR) : Option Cfg :=
  (c.flows.mapM fun (d : FlowDeclR) => d.rep.base?.map fun r => (⟨d.kind, r⟩ : FlowDecl)).map fun fl =>
    { ptypes := c.ptypes, flows := fl, quotas := c.quotas }

def yamlOkR (d : FlowDeclR) : Bool :=
  d.kind != .user || (!d.rep.req.isEmpty && !d.rep.res.isEmpty)

def posR (order : List String) (n : String) : Nat := order.idxOf n

def insertByR (order : List String) (d : FlowDeclR) : List FlowDeclR → List FlowDeclR
  | [] => [d]
  | x :: xs => if posR order d.rep.name < posR order x.rep.name then d :: x :: xs else x :: insertByR order d xs

def sortByR (order : List String) : List FlowDeclR → List FlowDeclR
  | [] => []
  | d :: ds => insertByR order d (sortByR order ds)

/-- the declarations that take part: user flows that pass the YAML-level validation, then the system flows -/
def CfgR.decls (c : CfgR) : List FlowDeclR :=
  c.flows.filter yamlOkR ++ (sysDecls sysConns c.quotas).map FlowDecl.toR

/-- `flowReps` -/
def CfgR.reps (c : CfgR) : List RFlowRep := c.decls.map (·.rep)

def CfgR.fuel (c : CfgR) : Nat := c.decls.length + 1

structure LoadedR where
  flows : List (Kind × FlowR)
deriving Repr, Inhabited

def buildAllR (pts : List PType) (reps : List RFlowRep) (fuel : Nat) :
    List FlowDeclR → Except RefErr (List (Kind × FlowR))
  | [] => .ok []
  | d :: ds =>
    match buildFlowRef pts reps fuel d.rep with
    | .error e => .error e
    | .ok f =>
      match buildAllR pts reps fuel ds with
      | .error e => .error e
      | .ok fs => .ok ((d.kind, f) :: fs)

inductive LoadErrR where
  | yaml
  | build (e : RefErr)
deriving DecidableEq, Repr, Inhabited

def LoadErrR.str : LoadErrR → String
  | .yaml => "yaml"
  | .build e => e.str

/-- `Stream.Initialize` as far as flows are concerned, flow references allowed; `order` = build order. -/
def loadR (c : CfgR) (order : List String) : Except LoadErrR LoadedR :=
  let users := c.flows.filter (·.kind == .user)
  let okFlows := c.flows.filter yamlOkR
  if !users.isEmpty && (users.filter yamlOkR).isEmpty then .error .yaml else
  if !nodupNames (((sortByR order okFlows).filter (·.kind == .user)).map (·.rep.name)) then .error .yaml else
  match buildAllR (c.ptypes ++ sysPTypes) c.reps c.fuel
      (sortByR order okFlows ++ (sysDecls sysConns c.quotas).map FlowDecl.toR) with
  | .error e => .error (.build e)
  | .ok fs => .ok ⟨fs⟩

def LoadedR.toLoaded (l : LoadedR) : Loaded := ⟨l.flows.map fun p => (p.1, p.2.flow)⟩

def runTxnR (l : LoadedR) (o : Oracle) (d : Dir) : TxnRes :=
  transaction l.toLoaded.selected o (fuelFor l.toLoaded.selected) d

end LunarVerif.C04
