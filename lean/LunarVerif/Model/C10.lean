/-
Model of `utils/queue/in_memory_delayed_priority_queue.go` (`DelayedPriorityQueue`) AFTER the repairs
F10a (hand-off decided under the queue mutex) and F10b (Enqueue serves waiters first), as a labelled
transition system at critical-section granularity.  Core Lean only.

Threads and their steps (`Label`):
* environment          `tick d`     the clock moves forward by `d` ns (timers may fire late: a due
                                     timer is merely *enabled*, the schedule decides when it fires);
* enqueuer (new)       `enq p ttl`  `NewRequest` (timestamp = now) + the locked section of `Enqueue`:
                                     `ensureWindowIsUpdated`; `processQueueItems` (requests already waiting
                                     are served first); take a slot | reject (full) | push + count++;
                                     then UNLOCK.  A pushed request is now in the *gap* between the
                                     unlock and the `select` (hook point `dpq.unlocked-before-park`);
* enqueuer r           `park r`     r enters `select { <-doneCh ; <-clock.After(ttl) }`: if a hand-off is
                                     already buffered in doneCh it is taken at once, else r blocks
                                     (deadline = now + ttl, the timer is created here);
* TTL timer of r       `expire r`   enabled when r is parked and its deadline ≤ now: r leaves the
                                     select through the TTL case (it stays in the heap, not yet `expired`);
* enqueuer r           `finish r`   woken r re-takes the mutex, `requestCounts[prio]--`; in the TTL case it
                                     re-checks doneCh (a hand-off that arrived meanwhile wins: true), else
                                     sets `expired` and returns false;
* roll-over goroutine  `roll`       enabled when its timer (window end at the time it was armed) is due:
                                     locked: `ensureWindowIsUpdated`; `processQueueItems`: while the heap
                                     is non-empty and counter < quota: pop a minimum; skip it if `expired`,
                                     else send on its doneCh (capacity 1, each request is popped once: the
                                     send never blocks and does not depend on the waiter having parked),
                                     counter++.  Re-arming the timer is merged into this step.

Go fields ↦ model: `currentWindowEndTime` = `(widx+1)*win` (`updatedEnd.After(currentEnd)` ⇔
`now/win > widx` for `win > 0`); `currentWindowCounter` = `counter`; `queue` = `heap` (request ids
in insertion order; `container/heap` is abstracted to "pop returns a minimum for `Less`": priority,
then timestamp; among exact ties the model takes the earliest pushed — the correspondence check
keeps timestamps distinct); `requestCounts` is derived: number of requests per priority whose phase
is `waiting` (pushed and not yet finished); `Request.expired` ⇔ phase `retF`; "doneCh holds a
hand-off" ⇔ phase `gapDone` / `wokeDone` / `wokeTTLDone`.  Request ids are positions in `reqs`.
A popped request is handed off iff its phase is `eligible` (gap, parked, wokeTTL); on reachable
states every popped request is eligible or `retF`, exactly the code's `if req.expired { continue }`.
-/
namespace LunarVerif.C10

structure Cfg where
  quota : Nat   -- Strategy.WindowQuota
  win   : Nat   -- Strategy.WindowSize (ns), > 0
  size  : Nat   -- maxQueueSize passed to Enqueue (constant per queue, as in the plugin)
deriving Repr, DecidableEq

inductive Phase
  | passed            -- took a slot at once (Enqueue returned true)
  | full              -- rejected: queue full (Enqueue returned false)
  | gap               -- pushed, mutex released, not yet in `select`, no hand-off yet
  | gapDone           -- pushed, not yet in `select`, hand-off already buffered in doneCh
  | parked (dl : Nat) -- blocked in `select`, TTL timer due at `dl`
  | wokeDone          -- has the hand-off, has not yet decremented its count
  | wokeTTL           -- TTL case taken, has not yet re-taken the mutex, no hand-off yet
  | wokeTTLDone       -- TTL case taken, a hand-off arrived before it re-took the mutex
  | retT              -- returned true after waiting
  | retF              -- returned false after its TTL
deriving Repr, DecidableEq

/-- Counted in `requestCounts` (pushed and not yet finished). -/
def Phase.waiting : Phase → Bool
  | .gap | .gapDone | .parked _ | .wokeDone | .wokeTTL | .wokeTTLDone => true
  | _ => false

/-- Still waiting for its turn: pushed, not handed off, not yet marked expired. -/
def Phase.eligible : Phase → Bool
  | .gap | .parked _ | .wokeTTL => true
  | _ => false

/-- Effect of the hand-off (send on the buffered doneCh) on the receiver's phase. -/
def Phase.handoff : Phase → Phase
  | .gap => .gapDone
  | .parked _ => .wokeDone
  | .wokeTTL => .wokeTTLDone
  | ph => ph

def Phase.isParked : Phase → Bool
  | .parked _ => true
  | _ => false

structure Req where
  prio : Nat
  ts   : Nat     -- Request.timestamp (clock.Now() in NewRequest)
  ttl  : Nat
  ph   : Phase
deriving Repr, DecidableEq

/-- `PriorityQueue.Less`: smaller priority value first, then strictly earlier timestamp. -/
def keyLt (a b : Req) : Bool :=
  if a.prio = b.prio then decide (a.ts < b.ts) else decide (a.prio < b.prio)

inductive EnqRes | pass | full | push
deriving Repr, DecidableEq

inductive Label
  | tick (d : Nat)
  | enq (prio ttl : Nat)
  | park (r : Nat)
  | roll
  | expire (r : Nat)
  | finish (r : Nat)
deriving Repr, DecidableEq

/-- Observable events (what a harness around the real queue sees). -/
inductive Ev
  | tick (d : Nat)
  | enq (prio ttl : Nat) (res : EnqRes) (rel : List Nat)  -- rel: waiters served by this Enqueue
  | park (r : Nat)
  | roll (rel : List Nat)          -- requests handed off by this roll-over, in pop order
  | expire (r : Nat)
  | finish (r : Nat) (ok : Bool)   -- Enqueue returned `ok` after waiting
deriving Repr, DecidableEq

structure State where
  now     : Nat
  widx    : Nat        -- index of the current aligned window (currentWindowEndTime = (widx+1)*win)
  counter : Nat        -- currentWindowCounter
  heap    : List Nat   -- ids, insertion order
  reqs    : List Req
  rollDue : Nat        -- due instant of the roll-over goroutine's timer
deriving Repr, DecidableEq

def init (cfg : Cfg) (t0 : Nat) : State :=
  { now := t0, widx := t0 / cfg.win, counter := 0, heap := [], reqs := [],
    rollDue := (t0 / cfg.win + 1) * cfg.win }

def dummy : Req := ⟨0, 0, 0, .passed⟩

def getReq (reqs : List Req) (r : Nat) : Req := reqs.getD r dummy

def phaseOf (reqs : List Req) (r : Nat) : Phase := (getReq reqs r).ph

def setPhase (reqs : List Req) (r : Nat) (ph : Phase) : List Req :=
  reqs.set r { getReq reqs r with ph := ph }

/-- Sum of `requestCounts`. -/
def waitingCount (reqs : List Req) : Nat := reqs.countP (·.ph.waiting)

/-- `ensureWindowIsUpdated`: (widx, counter) after the update at instant `now`. -/
def windowUpdate (cfg : Cfg) (now widx counter : Nat) : Nat × Nat :=
  if widx < now / cfg.win then (now / cfg.win, 0) else (widx, counter)

/-- The minimum of the heap for `keyLt`, earliest pushed among ties (`best` = candidate so far). -/
def minOf (reqs : List Req) (best : Nat) : List Nat → Nat
  | [] => best
  | x :: xs => if keyLt (getReq reqs x) (getReq reqs best) then minOf reqs x xs else minOf reqs best xs

/-- `heap.Pop`. -/
def popMin (reqs : List Req) : List Nat → Option (Nat × List Nat)
  | [] => none
  | x :: xs => let m := minOf reqs x xs; some (m, (x :: xs).erase m)

structure Loop where
  heap    : List Nat
  reqs    : List Req
  counter : Nat
  rel     : List Nat
deriving Repr, DecidableEq

/-- `processQueueItems` (fuel = heap length on entry). -/
def rollLoop (cfg : Cfg) : Nat → Loop → Loop
  | 0, x => x
  | n + 1, x =>
    if x.counter < cfg.quota then
      match popMin x.reqs x.heap with
      | none => x
      | some (r, heap') =>
        if (phaseOf x.reqs r).eligible then
          -- buffered send: the hand-off is decided here, under the mutex
          rollLoop cfg n { heap := heap', reqs := setPhase x.reqs r (phaseOf x.reqs r).handoff,
                           counter := x.counter + 1, rel := x.rel ++ [r] }
        else
          -- `if req.expired { continue }`
          rollLoop cfg n { x with heap := heap' }
    else x

/-- One step of one thread; `none` = not enabled. -/
def step (cfg : Cfg) (s : State) : Label → Option (State × Ev)
  | .tick d => some ({ s with now := s.now + d }, .tick d)
  | .enq prio ttl =>
    let (w, c) := windowUpdate cfg s.now s.widx s.counter
    let l := rollLoop cfg s.heap.length ⟨s.heap, s.reqs, c, []⟩
    let mk (ph : Phase) : Req := ⟨prio, s.now, ttl, ph⟩
    if l.counter < cfg.quota then
      some ({ s with widx := w, counter := l.counter + 1, heap := l.heap, reqs := l.reqs ++ [mk .passed] },
            .enq prio ttl .pass l.rel)
    else if cfg.size ≤ waitingCount l.reqs then
      some ({ s with widx := w, counter := l.counter, heap := l.heap, reqs := l.reqs ++ [mk .full] },
            .enq prio ttl .full l.rel)
    else
      some ({ s with widx := w, counter := l.counter, heap := l.heap ++ [l.reqs.length],
                     reqs := l.reqs ++ [mk .gap] }, .enq prio ttl .push l.rel)
  | .park r =>
    match phaseOf s.reqs r with
    | .gap => some ({ s with reqs := setPhase s.reqs r (.parked (s.now + (getReq s.reqs r).ttl)) }, .park r)
    | .gapDone => some ({ s with reqs := setPhase s.reqs r .wokeDone }, .park r)
    | _ => none
  | .expire r =>
    match phaseOf s.reqs r with
    | .parked dl =>
      if dl ≤ s.now then some ({ s with reqs := setPhase s.reqs r .wokeTTL }, .expire r) else none
    | _ => none
  | .finish r =>
    match phaseOf s.reqs r with
    | .wokeDone => some ({ s with reqs := setPhase s.reqs r .retT }, .finish r true)
    | .wokeTTLDone => some ({ s with reqs := setPhase s.reqs r .retT }, .finish r true)
    | .wokeTTL => some ({ s with reqs := setPhase s.reqs r .retF }, .finish r false)
    | _ => none
  | .roll =>
    if s.rollDue ≤ s.now then
      let (w, c) := windowUpdate cfg s.now s.widx s.counter
      let l := rollLoop cfg s.heap.length ⟨s.heap, s.reqs, c, []⟩
      some ({ s with widx := w, counter := l.counter, heap := l.heap, reqs := l.reqs,
                     rollDue := (w + 1) * cfg.win }, .roll l.rel)
    else none

/-- Run a schedule; `none` if some step is not enabled.  Events oldest first. -/
def run (cfg : Cfg) : State → List Label → Option (State × List Ev)
  | s, [] => some (s, [])
  | s, l :: ls =>
    match step cfg s l with
    | none => none
    | some (s', e) =>
      match run cfg s' ls with
      | none => none
      | some (s'', es) => some (s'', e :: es)

/-- `Counts()`: (priority, count) for the priorities with a non-zero count, sorted by priority
    (`prios` = candidate priorities). -/
def countOf (reqs : List Req) (p : Nat) : Nat := reqs.countP (fun r => r.ph.waiting && r.prio == p)

end LunarVerif.C10
