/-
C18 (a): model of the per-flow transactional context that `streams.Stream.executeReq/executeRes`
share between ALL transactions of a flow.  Core Lean only.

Code facts mirrored (streams/flow/flow.go, lunar-context/lunar_context.go, streams/streams.go):
* a `Flow` owns ONE `lunarContext`; its `transactionalContext` is created once, in `NewFlow`
  (`WithTransactionalContext`), and set to `nil` by `CleanExecution`, which every
  `executeReq/executeRes` defers for every flow it ran — it is never re-created;
* processors reach it through `apiStream.GetContext().GetTransactionalContext()`.

A transaction executes three probe processors a → b → c; each does what the transaction's script
says: nothing, set the key, get the key, or (the interleaving witness) run ANOTHER transaction to
completion from inside the processor — a schedule in which the other transaction runs entirely
between two processors of this one.
-/
namespace LunarVerif.C18

inductive Act where
  | none
  | set (v : String)
  | get
  | nest (t : String)
deriving Repr, DecidableEq

structure Script where
  a : Act
  b : Act
  c : Act
deriving Repr, DecidableEq

abbrev Scripts := List (String × Script)

def scriptOf (ss : Scripts) (t : String) : Script :=
  match ss.find? (·.1 == t) with
  | some (_, s) => s
  | none => ⟨.none, .none, .none⟩

/-- The flow's transactional context: `none` = Go nil, `some none` = empty, `some (some v)` = key set. -/
abbrev TCtx := Option (Option String)

structure Obs where
  txn  : String
  slot : String
  kind : String      -- "none" | "set" | "get" | "nest" | "fuel"
  res  : String      -- set: "ok" | "nil-ctx";  get: "val:<v>" | "missing" | "nil-ctx"
deriving Repr, DecidableEq

/-- Run one processor slot; `nest` runs another transaction to completion (`none` = out of fuel). -/
def runActWith (nest : TCtx → String → Option (TCtx × List Obs)) (st : TCtx) (t slot : String)
    (a : Act) : TCtx × List Obs :=
  match a with
  | .none => (st, [⟨t, slot, "none", "-"⟩])
  | .set v =>
    match st with
    | none => (st, [⟨t, slot, "set", "nil-ctx"⟩])
    | some _ => (some (some v), [⟨t, slot, "set", "ok"⟩])
  | .get =>
    match st with
    | none => (st, [⟨t, slot, "get", "nil-ctx"⟩])
    | some none => (st, [⟨t, slot, "get", "missing"⟩])
    | some (some v) => (st, [⟨t, slot, "get", "val:" ++ v⟩])
  | .nest t' =>
    match nest st t' with
    | none => (st, [⟨t, slot, "fuel", "-"⟩])
    | some (st', obs) => (st', ⟨t, slot, "nest", t'⟩ :: obs)

/-- One whole `ExecuteFlow` of transaction `t`: processors a, b, c, then the deferred
    `CleanExecution` (transactional context := nil). -/
def runTxnWith (nest : TCtx → String → Option (TCtx × List Obs)) (ss : Scripts) (st : TCtx)
    (t : String) : TCtx × List Obs :=
  let s := scriptOf ss t
  let r1 := runActWith nest st t "a" s.a
  let r2 := runActWith nest r1.1 t "b" s.b
  let r3 := runActWith nest r2.1 t "c" s.c
  (none, r1.2 ++ r2.2 ++ r3.2)

/-- `fuel` bounds the nesting depth (the generator never nests deeper than the number of scripts). -/
def runTxn : Nat → Scripts → TCtx → String → TCtx × List Obs
  | 0, ss, st, t => runTxnWith (fun _ _ => none) ss st t
  | f + 1, ss, st, t => runTxnWith (fun st' t' => some (runTxn f ss st' t')) ss st t

/-- A fresh engine: `NewFlow` has just initiated the transactional context. -/
def fresh : TCtx := some none

/-- Top-level runs in order on one engine. -/
def runAll (fuel : Nat) (ss : Scripts) : TCtx → List String → List Obs
  | _, [] => []
  | st, t :: ts => let r := runTxn fuel ss st t; r.2 ++ runAll fuel ss r.1 ts

end LunarVerif.C18
