import LunarVerif.Model.C01
/-!
# C18 — metrics observation of a quota is invisible to the running transactions

`quotaResource.observeQuotaUsed` (the OpenTelemetry callback of the `quota_used` gauge, run by the metrics
reader goroutine) calls `GetQuotaGroupsCounters()` → `quota.GetCounter()`: under the quota's read lock it
reads the stored counter.  A transaction's verdict is pending in the quota between its `Inc` (the quota's
system flow at the start of the request) and its `Allowed` (the Limiter / Queue processor later in the flow);
a metrics read may fall anywhere in between.

The quota is the C01 level model (`LunarVerif.C01.Lvl`, `incLevel`, `allowedLevel`, `decLevel`); a read is
the identity on the state and answers the `shown` counter.
-/
namespace LunarVerif.C18.Observe
open LunarVerif.C01

structure Cfg where
  max : Nat
  win : Nat        -- ns
  deriving Repr

inductive Op
  | inc (r t : Nat)      -- `quota.Inc` of request `r` at instant `t` (ns); a fixed-window request counts 1
  | allowed (r : Nat)    -- `quota.Allowed`
  | dec (r : Nat)        -- `quota.Dec`
  | read                 -- `quota.GetCounter` (metrics observation)
  deriving Repr, DecidableEq

def Op.isRead : Op → Bool
  | .read => true
  | _ => false

inductive Ans
  | ok
  | verdict (b : Bool)
  | shown (n : Nat)
  deriving Repr, DecidableEq

def step (c : Cfg) (l : Lvl) : Op → Lvl × Ans
  | .inc r t => ((incLevel c.max c.win l r t 1).1, .ok)
  | .allowed r => ((allowedLevel l r).1, .verdict (allowedLevel l r).2)
  | .dec r => (decLevel l r, .ok)
  | .read => (l, .shown l.shown)

/-- the script's ops with their answers, oldest first -/
def run (c : Cfg) : Lvl → List Op → List (Op × Ans)
  | _, [] => []
  | l, o :: os => (o, (step c l o).2) :: run c (step c l o).1 os

def final (c : Cfg) : Lvl → List Op → Lvl
  | l, [] => l
  | l, o :: os => final c (step c l o).1 os

/-- does this step restart the quota's window?  (`Inc` of a request the quota has not seen, at an instant at
    or after the end of the stored window: `onWindowRestart()` replaces `allowedByReqID`) -/
def restarts (c : Cfg) (l : Lvl) : Op → Bool
  | .inc r t => (l.memo.lookup r).isNone && decide (c.win ≤ elapsed l t)
  | _ => false

/-- no step of the script restarts the window, and none is request `r`'s own `Allowed` / `Dec` -/
def quietFor (c : Cfg) (r : Nat) : Lvl → List Op → Bool
  | _, [] => true
  | l, o :: os => !restarts c l o && o != .allowed r && o != .dec r && quietFor c r (step c l o).1 os

/-- is the `Inc` of `r` at `t` counted within the limit? -/
def counted (c : Cfg) (l : Lvl) (r t : Nat) : Bool := (incLevel c.max c.win l r t 1).2 == .increased

def Ans.fmt : Ans → String
  | .ok => "ok"
  | .verdict b => toString b
  | .shown n => "c=" ++ toString n

end LunarVerif.C18.Observe
