/-
Model of `failsafe/state_change_watcher.go` (`StateChangeWatcher.run`), one loop iteration per
observation.  Core Lean only.

Go fields ↦ model fields (same names).  Virtual time is `Nat` nanoseconds.  `lastRunAt` and
`changeStart` start as Go's zero `time.Time`; `clock.Since(zero)` saturates to the maximal
`Duration`, which is ≥ every configurable period, so the zero time is modelled as `none`
("infinitely long ago").  `ConsecutiveN` is a Go `int` and may be ≤ 0.
-/
namespace LunarVerif.C20

structure Cfg where
  n        : Int   -- ConsecutiveN
  period   : Nat   -- MinStablePeriod (ns)
  interval : Nat   -- MinTimeBetweenCalls (ns)
  cooldown : Nat   -- CooldownPeriod (ns)
deriving Repr

structure W where
  now             : Nat          -- the clock
  lastRunAt       : Option Nat
  lastState       : Bool
  changeCount     : Nat
  changeStart     : Option Nat
  changeTriggered : Bool
  stable          : Bool         -- currentStableState
deriving Repr

def W.init (t0 : Nat) : W :=
  { now := t0, lastRunAt := none, lastState := true, changeCount := 0,
    changeStart := none, changeTriggered := false, stable := true }

/-- One observation: the predicate takes `latency` ns to answer `obs`. -/
structure Input where
  obs     : Bool
  latency : Nat
deriving Repr

/-- What an outside observer sees of one loop iteration. -/
structure Event where
  t     : Nat           -- instant at which the predicate answered
  obs   : Bool
  react : Option Bool   -- `some false` = OnChangeToFalse (unhealthy), `some true` = OnChangeToTrue
  rt    : Nat           -- instant at which the reaction callback ran (= t when there is none)
deriving Repr, DecidableEq

/-- `timeToWait := MinTimeBetweenCalls - Since(lastRunAt)`; waits only when positive. -/
def waitBefore (cfg : Cfg) (w : W) : Nat :=
  match w.lastRunAt with
  | none => 0
  | some l => cfg.interval - (w.now - l)

/-- `clock.Since(changeStart) >= MinStablePeriod`. -/
def stableLongEnough (cfg : Cfg) (changeStart : Option Nat) (now : Nat) : Bool :=
  match changeStart with
  | none => true
  | some c => decide (cfg.period ≤ now - c)

def step (cfg : Cfg) (w : W) (i : Input) : W × Event :=
  let t := w.now + waitBefore cfg w + i.latency
  if i.obs != w.lastState then
    ({ w with now := t, changeCount := 1, changeStart := some t, changeTriggered := false,
              lastState := i.obs, lastRunAt := some t },
     { t := t, obs := i.obs, react := none, rt := t })
  else
    let cnt := w.changeCount + 1
    if decide (cfg.n ≤ (cnt : Int)) && stableLongEnough cfg w.changeStart t
        && !w.changeTriggered && (i.obs != w.stable) then
      let after := if i.obs then t else t + cfg.cooldown
      ({ w with now := after, changeCount := cnt, stable := i.obs, changeTriggered := true,
                lastState := i.obs, lastRunAt := some after },
       { t := t, obs := i.obs, react := some i.obs, rt := t })
    else
      ({ w with now := t, changeCount := cnt, lastState := i.obs, lastRunAt := some t },
       { t := t, obs := i.obs, react := none, rt := t })

/-- Run a whole observation sequence; events oldest first. -/
def run (cfg : Cfg) : W → List Input → List Event
  | _, [] => []
  | w, i :: is => let (w', e) := step cfg w i; e :: run cfg w' is

end LunarVerif.C20
