/-
Model of the action-combination code of the lunar engine.  Core Lean only.

  actions/request_action_prioritize.go    ↦ `reqPrio`   (5×5 table, case by case)
  actions/response_action_prioritize.go   ↦ `respPrio`  (3×3 table)
  utils/headers_transformations.go        ↦ `merge` (MergeHeaders), `dumpHeaders` (DumpHeaders)
  actions/*_action_transformers.go        ↦ `encodeReq` / `encodeResp` (SPOE variables, in order)
  routing/messages_handler.go getSPOEReqActions / getSPOERespActions,
  runner/plugin_runner.go runOnRequest / runOnResponse
                                          ↦ `foldReq` / `foldResp` (left fold from a fresh NoOp)

Go `map[string]string` ↦ association list `Hdrs` read through `List.lookup` (first binding wins;
the driver only ever builds lists with distinct keys).  The object-level model `reqStepH` below
keeps a store of named action objects and an accumulator that is either a reference into the
store (the table returns `other` / its receiver) or a fresh value; since the repair of F07b no cell
of the table writes to an object it was given.
-/
namespace LunarVerif.C07

abbrev Hdrs := List (String × String)

/-- `utils.MergeHeaders(first, second)`: the bindings of `first` whose key is not in `second`,
    then all of `second`. -/
def merge (a b : Hdrs) : Hdrs := a.filter (fun p => (b.lookup p.1).isNone) ++ b

/-- `actions.ReqLunarAction` values. -/
inductive ReqAct where
  | noop
  | early (status : Int) (body : String) (h : Hdrs)            -- EarlyResponseAction
  | modHdr (h : Hdrs)                                           -- ModifyHeadersAction
  | modReq (h : Hdrs) (host path query body : String)           -- ModifyRequestAction
  | genReq (h : Hdrs) (rm : List String) (body : String)        -- GenerateRequestAction
deriving DecidableEq, Repr, Inhabited

/-- `actions.RespLunarAction` values. -/
inductive RespAct where
  | noop
  | modResp (h : Hdrs) (body : String) (status : Int)           -- ModifyResponseAction
  | retry (h : Hdrs)                                            -- RetryRequestAction
deriving DecidableEq, Repr, Inhabited

/-- `a.ReqPrioritize(o)`: receiver `a` is the accumulated action, `o` the next one.
    In the three `…× ModifyRequest` cases the Go code copies `Path/QueryParams/Host/Body` of `o`
    when they are non-empty into a struct whose fields are otherwise empty, i.e. it takes `o`'s
    fields as they are (the receiver's are dropped). -/
def reqPrio : ReqAct → ReqAct → ReqAct
  | .noop, o => o                                                -- NoOpAction.ReqPrioritize
  | .early s b h, _ => .early s b h                              -- EarlyResponseAction.ReqPrioritize
  | .modHdr h, o =>                                              -- ModifyHeadersAction.ReqPrioritize
    match o with
    | .early s b h2 => .early s b h2
    | .noop => .modHdr h
    | .modHdr h2 => .modHdr (merge h h2)
    | .modReq h2 host path q b => .modReq (merge h h2) host path q b
    | .genReq h2 rm b => .genReq (merge h h2) rm b
  | .modReq h host path q b, o =>                                -- ModifyRequestAction.ReqPrioritize
    match o with
    | .early s b2 h2 => .early s b2 h2
    | .noop => .modReq h host path q b
    | .modHdr h2 => .modReq (merge h h2) host path q b           -- a fresh struct (F07b repaired)
    | .modReq h2 host2 path2 q2 b2 => .modReq (merge h h2) host2 path2 q2 b2
    | .genReq h2 rm b2 => .genReq (merge h h2) rm b2
  | .genReq h rm b, o =>                                         -- GenerateRequestAction.ReqPrioritize
    match o with
    | .early s b2 h2 => .early s b2 h2
    | .noop => .genReq h rm b
    | .modHdr h2 => .modHdr (merge h h2)
    | .modReq h2 host2 path2 q2 b2 => .modReq (merge h h2) host2 path2 q2 b2
    | .genReq h2 rm2 b2 => .genReq (merge h h2) (rm ++ rm2) b2

/-- `a.RespPrioritize(o)`. -/
def respPrio : RespAct → RespAct → RespAct
  | .noop, o => o
  | .modResp h b s, o =>
    match o with
    | .noop => .modResp h b s
    | .modResp h2 _ _ => .modResp (merge h h2) b s               -- Body and Status of the RECEIVER
    | .retry h2 => .retry h2
  | .retry h, o =>
    match o with
    | .noop => .retry h
    | .modResp h2 b s => .modResp h2 b s
    | .retry h2 => .retry (merge h h2)

/-- The fold of `getSPOEReqActions` / `runOnRequest`. -/
def foldReq (as : List ReqAct) : ReqAct := as.foldl reqPrio .noop
/-- The fold of `getSPOERespActions` / `runOnResponse`. -/
def foldResp (as : List RespAct) : RespAct := as.foldl respPrio .noop

/-! ### SPOE encoding -/

/-- `utils.DumpHeaders` on characters: `strings.Join(pairs, "\n") + "\n"` with `pairs = k:v`. -/
def dumpChars : List (List Char × List Char) → List Char
  | [] => ['\n']
  | p :: ps => (p :: ps).flatMap fun kv => kv.1 ++ ':' :: kv.2 ++ ['\n']

/-- `isHeaderToken` on one byte: RFC 7230 `tchar` (non-ASCII characters are not). -/
def isTchar (c : Char) : Bool :=
  c.isAlphanum || "!#$%&'*+-.^_`|~".toList.contains c

/-- `utils.isHeaderToken`. -/
def validName (k : String) : Bool := k.toList != [] && k.toList.all isTchar

/-- `headerValueLineBreaks.Replace`: CR and LF removed. -/
def stripCRLF (v : String) : String :=
  String.ofList (v.toList.filter fun c => c != '\r' && c != '\n')

/-- What `DumpHeaders` keeps: entries whose name is a token, values without line breaks. -/
def sanitizeHdrs (h : Hdrs) : Hdrs :=
  (h.filter fun kv => validName kv.1).map fun kv => (kv.1, stripCRLF kv.2)

def dumpHeaders (h : Hdrs) : String :=
  String.ofList (dumpChars ((sanitizeHdrs h).map fun kv => (kv.1.toList, kv.2.toList)))

inductive Scope where
  | txn | req | res          -- action.ScopeTransaction / ScopeRequest / ScopeResponse
deriving DecidableEq, Repr

/-- Value of a SPOE variable with its Go dynamic type. -/
inductive SVal where
  | bool (b : Bool)
  | int (i : Int)
  | bytes (s : String)       -- []byte
  | str (s : String)
deriving DecidableEq, Repr

structure SVar where
  scope : Scope
  name  : String
  val   : SVal
deriving DecidableEq, Repr

/-- `ReqToSpoeActions` (variables in the order of the `SetVar` calls). -/
def encodeReq : ReqAct → List SVar
  | .noop => []
  | .early s b h =>
    [⟨.txn, "return_early_response", .bool true⟩, ⟨.txn, "status_code", .int s⟩,
     ⟨.txn, "response_body", .bytes b⟩, ⟨.txn, "response_headers", .str (dumpHeaders h)⟩]
  | .modHdr h => [⟨.req, "request_headers", .str (dumpHeaders h)⟩]
  | .modReq h host path q b =>
    [⟨.req, "modify_request", .bool true⟩, ⟨.req, "request_headers", .str (dumpHeaders h)⟩]
    ++ (if path != "" then [⟨.req, "request_path", .str path⟩] else [])
    ++ (if q != "" then [⟨.req, "request_query_params", .str q⟩] else [])
    ++ (if host != "" then [⟨.req, "request_host", .str host⟩] else [])
    ++ (if b != "" then [⟨.req, "request_body", .bytes b⟩] else [])
  | .genReq h _ b =>
    [⟨.req, "generate_request", .bool true⟩, ⟨.req, "request_headers", .str (dumpHeaders h)⟩,
     ⟨.req, "request_body", .bytes b⟩]

/-- `RespToSpoeActions`. -/
def encodeResp : RespAct → List SVar
  | .noop => []
  | .modResp h b s =>
    [⟨.res, "modify_response", .bool true⟩, ⟨.res, "response_headers", .str (dumpHeaders h)⟩,
     ⟨.res, "response_body", .str b⟩, ⟨.res, "status_code", .int s⟩]
  | .retry h =>
    [⟨.res, "retry_request", .bool true⟩, ⟨.res, "retry_headers", .str (dumpHeaders h)⟩]

/-! ### Object level (pointers): what the fold does to the action objects it is given -/

/-- Named action objects; `NoOpAction` implements both interfaces. -/
inductive Obj where
  | noop
  | req (a : ReqAct)
  | resp (a : RespAct)
deriving DecidableEq, Repr

def Obj.asReq : Obj → Option ReqAct
  | .noop => some .noop
  | .req a => some a
  | .resp _ => none

def Obj.asResp : Obj → Option RespAct
  | .noop => some .noop
  | .resp a => some a
  | .req _ => none

abbrev Store := List (String × Obj)

def Store.set (s : Store) (n : String) (o : Obj) : Store :=
  match s with
  | [] => [(n, o)]
  | (m, x) :: rest => if m == n then (n, o) :: rest else (m, x) :: Store.set rest n o

/-- The accumulated request action: a pointer to one of the given objects or a fresh struct. -/
inductive Acc where
  | ref (n : String)
  | val (a : ReqAct)
deriving DecidableEq, Repr

def Acc.get (s : Store) : Acc → Option ReqAct
  | .val a => some a
  | .ref n => (s.lookup n).bind Obj.asReq

/-- One iteration `prioritizedAction = prioritizedAction.ReqPrioritize(obj[n])` on objects: which
    pointer comes back.  No object is written to.  `none` when `n` does not name a request action. -/
def reqStepH (s : Store) (acc : Acc) (n : String) : Option Acc :=
  match acc.get s, (s.lookup n).bind Obj.asReq with
  | some a, some o =>
    match a, o with
    | .noop, _ => some (.ref n)                            -- returns `other`
    | .early .., _ => some acc                             -- returns the receiver
    | _, .early .. => some (.ref n)                        -- returns `other`
    | _, .noop => some acc                                 -- returns the receiver
    | a, o => some (.val (reqPrio a o))                    -- a fresh struct
  | _, _ => none

/-- Fold over object names, from a fresh `&NoOpAction{}`. -/
def foldReqH (s : Store) (acc : Acc) : List String → Option Acc
  | [] => some acc
  | n :: ns => match reqStepH s acc n with
    | some acc' => foldReqH s acc' ns
    | none => none

/-! ### Legacy (policies) mode: `runner.DispatchOnRequest` / `DispatchOnResponse`

The remedy plugins are the ENVIRONMENT of the fold: what each of them answers depends only on the
transaction arguments as the loop of `runOnRequest` / `runOnResponse` has updated them so far
(`action.Ensure…IsUpdated(&args)` runs before `…Prioritize`), never on the accumulated action.
`scriptReq` / `scriptResp` give the answers of the remedies the harness configures; the legacy
fold is then the same `foldReq` / `foldResp` over those answers. -/

inductive Remedy where
  | fixed (status : Int)                          -- fixed_response{status_code}
  | acct (tokens : Hdrs)                          -- account_orchestration, one account with these tokens
  | apikey (tokens : Hdrs)                        -- authentication, api_key account
  | oauth (secret : String)                       -- authentication, o_auth account {client_secret: secret}
  | retry (cooldown : Nat) (lo hi : Int)          -- retry{attempts 1, initial_cooldown_seconds, status lo..hi}
  | throttle (status : Int)                       -- concurrency_based_throttling{max_concurrent_requests 0, response_status_code}
  | cache                                         -- caching{ttl and sizes large}: one record (one URL)
deriving DecidableEq, Repr

def fixedBody : String := "{\"message\": \"GO Lunar\"}"
def fixedHdrs : Hdrs := [("powered-by", "Lunar Interventions Inc.")]
def retryAfterName : String := "x-lunar-retry-after"
def throttleBody : String := "Too many requests"
def throttleHdrs : Hdrs := [("content-type", "text/plain")]

/-- What the request-side plugins have seen/cached so far in one transaction. -/
structure ReqEnv where
  hdrs : Hdrs                       -- args.Headers (one shared map)
  apikey : Option Hdrs := none      -- APIKeyAuth.headers[endpoint]
  oauth : Option String := none     -- OAuth.bodies[endpoint]
  cache : Option (Int × String × Hdrs) := none   -- CachingPlugin.responseCache[key]: status, body, headers

/-- `X.EnsureRequestIsUpdated(&args)` on the header map of the arguments. -/
def ensureReq (H : Hdrs) : ReqAct → Hdrs
  | .modReq h host _ _ _ => merge (if host != "" then merge H [("Host", host)] else H) h
  | .modHdr h => merge H h
  | .genReq h rm _ => (merge H h).filter fun kv => !rm.contains kv.1
  | _ => H

/-- A Go map built by assigning the pairs in order. -/
def mapOf (l : Hdrs) : Hdrs := l.foldl (fun m kv => merge m [kv]) []

/-- `plugin.OnRequest(args, …)` of one remedy, then `action.EnsureRequestIsUpdated(&args)`.
    The OAuth answer carries `args.Headers` ITSELF as `HeadersToSet` (same map): its value is the
    map after its own `EnsureRequestIsUpdated` (which deletes `content-length` from it). -/
def answerReq (env : ReqEnv) : Remedy → ReqAct × ReqEnv
  | .fixed s =>
    (if env.hdrs.lookup "early-response" == some "true" then .early s fixedBody fixedHdrs else .noop, env)
  | .acct toks =>
    let hs := mapOf (toks.filter fun kv => env.hdrs.lookup kv.1 != some kv.2)
    if hs.isEmpty then (.noop, env)
    else (.modReq hs "" "" "" "", { env with hdrs := ensureReq env.hdrs (.modReq hs "" "" "" "") })
  | .apikey toks =>
    let cached := env.apikey.getD (mapOf toks)
    let env := { env with apikey := some cached }
    if cached.isEmpty then (.noop, env)
    else (.modReq cached "" "" "" "", { env with hdrs := ensureReq env.hdrs (.modReq cached "" "" "" "") })
  | .oauth sec =>
    let body := env.oauth.getD ("{\"client_secret\":\"" ++ sec ++ "\"}")
    let H := ensureReq env.hdrs (.genReq env.hdrs ["content-length"] body)
    (.genReq H ["content-length"] body, { env with hdrs := H, oauth := some body })
  | .retry .. => (.noop, env)
  | .throttle s => (.early s throttleBody throttleHdrs, env)   -- a FRESH header map per answer
  | .cache =>                                                   -- a hit answers the stored response
    match env.cache with
    | some (s, b, h) => (.early s b h, env)
    | none => (.noop, env)

/-- The answers of the remedies on the request side, in order. -/
def scriptReq (env : ReqEnv) : List Remedy → List ReqAct
  | [] => []
  | r :: rs => let (a, env') := answerReq env r; a :: scriptReq env' rs

/-- `plugin.OnResponse(args, …)` for a response whose status is `status`. -/
def answerResp (status : Int) : Remedy → RespAct
  | .retry n lo hi => if lo ≤ status ∧ status ≤ hi then .modResp [(retryAfterName, toString n)] "" 0 else .noop
  | _ => .noop

/-- The answers on the response side; a `ModifyResponseAction` answer is written into the arguments
    (`EnsureResponseIsUpdated`: status and body of the action) before the next remedy runs. -/
def scriptResp (status : Int) : List Remedy → List RespAct
  | [] => []
  | r :: rs =>
    let a := answerResp status r
    a :: scriptResp (match a with | .modResp _ _ s => s | _ => status) rs

/-- The plugin state after the request-leg answers (authentication caches). -/
def envAfterAnswers (env : ReqEnv) : List Remedy → ReqEnv
  | [] => env
  | r :: rs => envAfterAnswers (answerReq env r).2 rs

/-- `a.EnsureResponseIsUpdated(&args)` on the header map of the arguments. -/
def ensureRespHdrs (m : Hdrs) : RespAct → Hdrs
  | .modResp h2 _ _ => merge m h2
  | _ => m

/-- The response as the FIRST caching remedy of a response leg sees it (what it stores when its
    cache is empty): status, body and header map of the arguments, into which the earlier
    `ModifyResponseAction` answers of the leg have been written.  The plugin stores a COPY of the
    header map (F17b repaired): later edits of the leg do not reach the record. -/
def storeAt (status : Int) (body : String) (h : Hdrs) : List Remedy → Option (Int × String × Hdrs)
  | [] => none
  | .cache :: _ => some (status, body, h)
  | r :: rs =>
    match answerResp status r with
    | .modResp h2 b s => storeAt s b (merge h h2) rs
    | _ => storeAt status body h rs

/-- The cache after the response leg over a PROVIDER response (status, body, header map `h0`). -/
def cacheAfterLeg (cache : Option (Int × String × Hdrs)) (status : Int) (body : String) (h0 : Hdrs)
    (rs : List Remedy) : Option (Int × String × Hdrs) :=
  match cache with
  | some c => some c
  | none => storeAt status body h0 rs

/-- `runOnRequest` (`env` = the request's header map and what the plugins cached in earlier
    transactions). -/
def legacyFoldReq (env : ReqEnv) (rs : List Remedy) : ReqAct := foldReq (scriptReq env rs)

/-- `obtainModifiedEarlyResponse` (F07c repaired): the response-side remedies run on a synthetic
    response made of the early response's status, body and a COPY of its header map; every
    `ModifyResponseAction` writes its header edits into that copy, from which the early response
    is rebuilt; status and body stay those of the early response; the map a remedy handed out is
    not written to. -/
def rerunEarly (rs : List Remedy) : ReqAct → ReqAct
  | .early s b h =>
    .early s b ((scriptResp s rs).foldl ensureRespHdrs h)
  | a => a

/-- The action `DispatchOnRequest` encodes. -/
def legacyReq (env : ReqEnv) (rs : List Remedy) : ReqAct := rerunEarly rs (legacyFoldReq env rs)

/-- The action `DispatchOnResponse` encodes for a response with this status. -/
def legacyResp (status : Int) (rs : List Remedy) : RespAct := foldResp (scriptResp status rs)

/-- Plugin state after a whole `DispatchOnRequest`: the request-leg answers.  The response leg over
    an early answer runs on a response marked `GatewayGenerated` (F09g repaired): the caching
    remedy answers no-op without storing, so an answer the gateway produced itself — a cache hit
    included — is never (re-)stored. -/
def envAfter (env : ReqEnv) (rs : List Remedy) : ReqEnv := envAfterAnswers env rs

/-- Plugin state after `DispatchOnResponse` for a provider response. -/
def envAfterResp (env : ReqEnv) (status : Int) (body : String) (h0 : Hdrs) (rs : List Remedy) : ReqEnv :=
  { env with cache := cacheAfterLeg env.cache status body h0 rs }

end LunarVerif.C07
