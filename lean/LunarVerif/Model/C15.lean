/-
Model of the discovery aggregation of the aggregation-output-plugin
(`discovery/{aggregation,aggregation_combine,aggregation_converge,runner,persistence_utils,state}.go`,
`shared-model/discovery/{combine,input.model,utils}.go`).  Core Lean only.

* Go maps ↦ association lists; `upsert` is the loop body shared by `utils.Map.Combine`,
  `EndpointMapping.Combine` and the re-keying loop of `ConvergeAggregation`
  (`m[k] = v` when absent, `m[k] = m[k].Combine(v)` when present).
* `EndpointAgg` carries EXACT sums (`sumDur`, `sumTot`) where Go carries float32 means
  (`AverageDuration = sum / count`); the float rounding is compared in the harness within a tolerance.
* `lo.GroupBy` + `extractEndpointAgg` per group ↦ a left fold of one-record aggregates (`single`).
* The nested map `Consumers[tag][endpoint]` is flattened to a map keyed by `(tag, endpoint)`.
* Timestamps are `Nat` milliseconds; the persisted form (`"2006-01-02T15:04:05Z"`) keeps whole
  seconds: `persist` divides by 1000, `restore` multiplies by 1000 (Go's `time.Format`/`time.Parse`
  of that layout are trusted to be mutually inverse on whole seconds).
* The URL normaliser (assumed-path-parameter tree) is a PARAMETER (`Normaliser`); the executable
  transcription of the real tree is in `Model/C15Tree.lean`.
-/
namespace LunarVerif.C15

/-! ### Generic "Go map with Combine" -/
section Generic
variable {κ κ' α : Type} [DecidableEq κ]

/-- `m[k] = v` if absent, else `m[k] = m[k].Combine(v)`. -/
def upsert (comb : α → α → α) : List (κ × α) → κ → α → List (κ × α)
  | [], k, v => [(k, v)]
  | (k', a) :: rest, k, v =>
    if k' = k then (k', comb a v) :: rest else (k', a) :: upsert comb rest k v

/-- `utils.Map.Combine`: copy `A`, then upsert every entry of `B`. -/
def combineG (comb : α → α → α) (A B : List (κ × α)) : List (κ × α) :=
  B.foldl (fun m p => upsert comb m p.1 p.2) A

/-- Build a map from a list of (key, value): first occurrence sets, later ones combine. -/
def regroupG (comb : α → α → α) (l : List (κ × α)) : List (κ × α) := combineG comb [] l

/-- Apply a function to the keys (no merging). -/
def relabel (g : κ → κ') (M : List (κ × α)) : List (κ' × α) := M.map fun p => (g p.1, p.2)

/-- `m[k] = v` (plain Go map assignment: overwrite). -/
def assign : List (κ × α) → κ → α → List (κ × α)
  | [], k, v => [(k, v)]
  | (k', a) :: rest, k, v => if k' = k then (k', v) :: rest else (k', a) :: assign rest k v

def assignAll (l : List (κ × α)) : List (κ × α) := l.foldl (fun m p => assign m p.1 p.2) []
end Generic

/-! ### Records and aggregates -/

structure Rec where
  ts : Nat          -- Timestamp (ms)
  dur : Int         -- Duration (HAProxy logs -1 when the provider never answered)
  tot : Int         -- TotalDuration
  status : Nat      -- StatusCode
  method : String
  url : String
  interceptor : String
  consumer : String
  internal : Bool
deriving Repr, DecidableEq

/-- (method, url) -/
abbrev Key := String × String
/-- (consumer tag, endpoint) -/
abbrev CKey := String × Key
/-- (type, version) -/
abbrev IKey := String × String

structure EAgg where
  minT : Nat
  maxT : Nat
  count : Nat
  sumDur : Int     -- Go: AverageDuration * Count
  sumTot : Int     -- Go: AverageTotalDuration * Count
  status : List (Nat × Nat)
deriving Repr, DecidableEq

def addN (a b : Nat) : Nat := a + b

/-- `utils.Map[int, Count].Combine`. -/
def stCombine (a b : List (Nat × Nat)) : List (Nat × Nat) := combineG addN a b

/-- `EndpointAgg.Combine` (`utils.Min`: `if a < b then a else b`; `utils.Max`: `if a > b then a else b`). -/
def EAgg.combine (a b : EAgg) : EAgg :=
  { minT := if a.minT < b.minT then a.minT else b.minT
    maxT := if a.maxT > b.maxT then a.maxT else b.maxT
    count := a.count + b.count
    sumDur := a.sumDur + b.sumDur
    sumTot := a.sumTot + b.sumTot
    status := stCombine a.status b.status }

/-- `extractEndpointAgg` of a one-record group. -/
def single (r : Rec) : EAgg :=
  { minT := r.ts, maxT := r.ts, count := 1, sumDur := r.dur, sumTot := r.tot, status := [(r.status, 1)] }

abbrev EMap := List (Key × EAgg)
abbrev CMap := List (CKey × EAgg)
abbrev IMap := List (IKey × Nat)

structure Agg where
  endpoints : EMap := []
  consumers : CMap := []
  interceptors : IMap := []
deriving Repr

/-! ### String helpers (structural recursion on `List Char`, so that `decide` can evaluate them) -/

/-- `strings.Split(s, c)` for a one-character separator. -/
def splitCh (c : Char) : List Char → List (List Char)
  | [] => [[]]
  | x :: xs =>
    if x = c then [] :: splitCh c xs
    else match splitCh c xs with
      | h :: t => (x :: h) :: t
      | [] => [[x]]

/-- `strings.Split(s, ":::")`. -/
def splitDelim : List Char → List (List Char)
  | [] => [[]]
  | ':' :: ':' :: ':' :: rest => [] :: splitDelim rest
  | x :: xs =>
    match splitDelim xs with
    | h :: t => (x :: h) :: t
    | [] => [[x]]

/-- `accessLogToInterceptor`: exactly two `/`-separated parts, else unknown/unknown. -/
def interceptorOf (s : String) : IKey :=
  match splitCh '/' s.toList with
  | [a, b] => (String.ofList a, String.ofList b)
  | _ => ("unknown", "unknown")

/-- `accessLogToConsumerTag`. -/
def consumerOf (s : String) : String := if s = "" then "N/A" else s

/-- `accessLogToEndpoint` given the URL normaliser. -/
def keyOf (f : String → String) (r : Rec) : Key := (r.method, f r.url)

/-! ### Extraction, combination, re-keying -/

/-- Endpoint map of records whose keys have already been computed. -/
def extractKeyed {κ : Type} [DecidableEq κ] (l : List (κ × Rec)) : List (κ × EAgg) :=
  l.foldl (fun m p => upsert EAgg.combine m p.1 (single p.2)) []

def extractI (rs : List Rec) : IMap :=
  rs.foldl (fun m r => upsert Nat.max m (interceptorOf r.interceptor) r.ts) []

/-- `ExtractAggs` with a pure URL normaliser `f`. -/
def extractAgg (f : String → String) (rs : List Rec) : Agg :=
  { endpoints := extractKeyed (rs.map fun r => (keyOf f r, r))
    consumers := extractKeyed (rs.map fun r => ((consumerOf r.consumer, keyOf f r), r))
    interceptors := extractI rs }

/-- `Agg.Combine`. -/
def Agg.combine (a b : Agg) : Agg :=
  { endpoints := combineG EAgg.combine a.endpoints b.endpoints
    consumers := combineG EAgg.combine a.consumers b.consumers
    interceptors := combineG Nat.max a.interceptors b.interceptors }

def rekeyE (f : String → String) (M : EMap) : EMap :=
  regroupG EAgg.combine (relabel (fun k : Key => (k.1, f k.2)) M)

def rekeyC (f : String → String) (M : CMap) : CMap :=
  regroupG EAgg.combine (relabel (fun k : CKey => (k.1, (k.2.1, f k.2.2))) M)

/-- The re-keying part of `ConvergeAggregation` (interceptors untouched). -/
def Agg.rekey (f : String → String) (a : Agg) : Agg :=
  { endpoints := rekeyE f a.endpoints, consumers := rekeyC f a.consumers, interceptors := a.interceptors }

/-- Re-keying by an ARBITRARY function on whole keys (used for the conservation theorem). -/
def rekeyAny {κ : Type} [DecidableEq κ] (g : κ → κ) (M : List (κ × EAgg)) : List (κ × EAgg) :=
  regroupG EAgg.combine (relabel g M)

/-! ### Persistence (`ConvertToPersisted` / `ConvertFromPersisted`) -/

def dumpKey (k : Key) : String := k.1 ++ ":::" ++ k.2

/-- split at the FIRST `:::` -/
def splitFirstDelim : List Char → Option (List Char × List Char)
  | [] => none
  | ':' :: ':' :: ':' :: rest => some ([], rest)
  | x :: xs => (splitFirstDelim xs).map fun p => (x :: p.1, p.2)

/-- `parts := strings.SplitN(key, ":::", 2)`, `Endpoint{parts[0], parts[1]}` (Go panics on < 2 parts; a dumped
    key always has 2). -/
def restoreKey (s : String) : Key :=
  match splitFirstDelim s.toList with
  | some (a, b) => (String.ofList a, String.ofList b)
  | none => (s, "")

def toSec (a : EAgg) : EAgg := { a with minT := a.minT / 1000, maxT := a.maxT / 1000 }
def toMs (a : EAgg) : EAgg := { a with minT := a.minT * 1000, maxT := a.maxT * 1000 }

/-- The JSON document (times in whole seconds, endpoint keys `METHOD:::URL`). -/
structure Persisted where
  endpoints : List (String × EAgg) := []
  consumers : List ((String × String) × EAgg) := []
  interceptors : List (IKey × Nat) := []
deriving Repr

def persist (a : Agg) : Persisted :=
  { endpoints := assignAll (a.endpoints.map fun p => (dumpKey p.1, toSec p.2))
    consumers := assignAll (a.consumers.map fun p => ((p.1.1, dumpKey p.1.2), toSec p.2))
    interceptors := a.interceptors.map fun p => (p.1, p.2 / 1000) }

def restore (p : Persisted) : Agg :=
  { endpoints := assignAll (p.endpoints.map fun e => (restoreKey e.1, toMs e.2))
    consumers := assignAll (p.consumers.map fun e => ((e.1.1, restoreKey e.1.2), toMs e.2))
    interceptors := assignAll (p.interceptors.map fun e => (e.1, e.2 * 1000)) }

/-! ### The pipeline with an abstract normaliser -/

/-- What the aggregation needs from the URL tree. -/
structure Normaliser (τ : Type) where
  /-- tree after `NormalizeTree` inserted the batch's URLs (a URL the tree refuses is skipped) -/
  learn : τ → List String → τ
  /-- result of `NormalizeURL` -/
  norm : τ → String → String
  /-- convergence indication returned by `NormalizeTree` -/
  conv : τ → List String → Bool

/-- `filterOutInternalRecords`. -/
def external (batch : List Rec) : List Rec := batch.filter fun r => !r.internal

/-- One call of `discovery.Run` (= `GetUpdatedAggregations` + state update). -/
def step {τ : Type} (N : Normaliser τ) (T : τ) (A : Agg) (batch : List Rec) : τ × Agg :=
  if batch.isEmpty then (T, A) else
  let rs := external batch
  let urls := rs.map (·.url)
  let T' := N.learn T urls
  let A1 := if N.conv T urls then A.rekey (N.norm T') else A
  (T', A1.combine (extractAgg (N.norm T') rs))

/-- Plugin state: the learnt tree, the in-memory aggregation and the state file.  The file is rewritten by
    every successful non-empty `Run` (`UpdateAggregation`) and only then. -/
structure St (τ : Type) where
  tree : τ
  agg : Agg
  file : Persisted

/-- `InitializeState` on a missing file writes the empty aggregation. -/
def St.init {τ : Type} (T0 : τ) : St τ := ⟨T0, {}, persist {}⟩

def stepS {τ : Type} (N : Normaliser τ) (s : St τ) (batch : List Rec) : St τ :=
  if batch.isEmpty then s
  else
    let r := step N s.tree s.agg batch
    { tree := r.1, agg := r.2, file := persist r.2 }

/-- A `Run` whose `UpdateAggregation` could not write the state file (disk full, I/O error): the combined
    aggregation HAS been adopted in memory (`state.aggregation = aggregation` comes before the marshal and the
    write), the file keeps its old content and `Run` returns `ErrCouldNotDumpCombinedAgg`. -/
def stepNoDump {τ : Type} (N : Normaliser τ) (s : St τ) (batch : List Rec) : St τ :=
  if batch.isEmpty then s
  else
    let r := step N s.tree s.agg batch
    { tree := r.1, agg := r.2, file := s.file }

/-- A run is a sequence of batches (whose flush to the state file succeeds, or fails: `batchNoDump`) and
    restarts (the state file survives, the learnt tree and the in-memory aggregation do not). -/
inductive Seg where
  | batch (rs : List Rec)
  | batchNoDump (rs : List Rec)
  | restart
  /-- the background refresh (`periodicallyUpdateTree`) found a CHANGED policies file and swapped in a tree built
      from the known endpoints only: the learnt tree is lost, the aggregation and the file are untouched.
      (A tick that finds the file unchanged does nothing at all — it is not even a segment.) -/
  | treeReset
deriving Repr

def runSegs {τ : Type} (N : Normaliser τ) (T0 : τ) : St τ → List Seg → St τ
  | s, [] => s
  | s, Seg.batch rs :: rest => runSegs N T0 (stepS N s rs) rest
  | s, Seg.batchNoDump rs :: rest => runSegs N T0 (stepNoDump N s rs) rest
  | s, Seg.restart :: rest => runSegs N T0 { tree := T0, agg := restore s.file, file := s.file } rest
  | s, Seg.treeReset :: rest => runSegs N T0 { s with tree := T0 } rest

/-- Restart-free run over a list of batches. -/
def runBatches {τ : Type} (N : Normaliser τ) : τ × Agg → List (List Rec) → τ × Agg
  | s, [] => s
  | s, b :: rest => runBatches N (step N s.1 s.2 b) rest

end LunarVerif.C15
