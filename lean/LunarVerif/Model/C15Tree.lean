import LunarVerif.Model.C15
/-
EXECUTABLE-ONLY transcription of the assumed-path-parameter URL tree used by discovery
(`toolkit-core/urltree/{url_tree_insert,url_tree_lookup,url_tree_utils}.go`, `common/url_tree.go`,
`common/access_log_normalizer.go`) and of the tree-threading order of the Go pipeline
(`NormalizeURL` INSERTS the URL before looking it up, so the tree is mutated during extraction and
re-keying).  Nothing is proved about this file (`partial def`): it supplies the concrete normaliser
to the driver; the laws the proofs assume of a normaliser are TESTED on it.

Go map iteration order is replaced by insertion order.  It is observable in Go only through
`convergeNodesPaths` (`sampleValue := nodes[0].Value`, `wildcardChild = <last node>.WildcardChild`),
which the generators avoid making visible (see notes/C15.md).
-/
namespace LunarVerif.C15

structure Part where
  host : Bool
  val : String
deriving Repr, DecidableEq

inductive Node where
  | mk (consts : List (String × Node)) (param : Option (String × Node)) (wild : Option Node)
       (hasVal : Bool) (isHost : Bool) (amb : Bool)
deriving Inhabited

namespace Node
def consts : Node → List (String × Node) | mk c _ _ _ _ _ => c
def param : Node → Option (String × Node) | mk _ p _ _ _ _ => p
def wild : Node → Option Node | mk _ _ w _ _ _ => w
def hasVal : Node → Bool | mk _ _ _ v _ _ => v
def isHost : Node → Bool | mk _ _ _ _ h _ => h
/-- diagnostic only: `Value` of this node was copied from `nodes[0]` of a Go-map-ordered slice whose
    candidates disagree, i.e. the real value depends on map iteration order -/
def amb : Node → Bool | mk _ _ _ _ _ a => a
def leaf (host : Bool) : Node := mk [] none none false host false
def setConsts (n : Node) (c : List (String × Node)) : Node := mk c n.param n.wild n.hasVal n.isHost n.amb
def setParam (n : Node) (p : Option (String × Node)) : Node := mk n.consts p n.wild n.hasVal n.isHost n.amb
def setWild (n : Node) (w : Option Node) : Node := mk n.consts n.param w n.hasVal n.isHost n.amb
def setVal (n : Node) : Node := mk n.consts n.param n.wild true n.isHost false
end Node

def isTrimCh (c : Char) : Bool := c = '.' || c = '/'

/-- `strings.Trim(url, "./")` -/
def trimURLc (l : List Char) : List Char := ((l.dropWhile isTrimCh).reverse.dropWhile isTrimCh).reverse

def trimURL (s : String) : String := String.ofList (trimURLc s.toList)

/-- `splitURL` -/
def splitURL (u : String) : List Part :=
  match splitCh '/' (trimURLc u.toList) with
  | [] => []
  | h :: ps => (splitCh '.' h).map (fun x => ⟨true, String.ofList x⟩) ++ ps.map (fun x => ⟨false, String.ofList x⟩)

def isBrace (c : Char) : Bool := c = '{' || c = '}'

/-- `TryExtractPathParameter` -/
def tryParam (s : String) : Option String :=
  let l := s.toList
  if l.head? = some '{' && l.getLast? = some '}' then
    some (String.ofList ((l.dropWhile isBrace).reverse.dropWhile isBrace).reverse)
  else none

/-- `validateURL`: `true` = error (an empty part; `*` anywhere but in the last position) -/
def invalidURL (u : String) : Bool :=
  let ps := splitURL u
  ps.any (fun p => p.val = "") || (ps.dropLast.any fun p => p.val = "*")

def assumedName (i : Nat) : String := "_param_" ++ toString i

/-- group the constant children of the nodes by part, first-appearance order -/
def groupConsts (nodes : List Node) : List (String × List Node) :=
  nodes.foldl (fun acc n =>
    n.consts.foldl (fun acc pc =>
      match acc.lookup pc.1 with
      | some _ => acc.map fun e => if e.1 = pc.1 then (e.1, e.2 ++ [pc.2]) else e
      | none => acc ++ [(pc.1, [pc.2])]) acc) []

mutual
/-- the body of `convergeNodesPaths` after the `len(nodes) <= 1` early returns -/
partial def mergeNodes (nodes : List Node) (idx : Nat) (cands : List Node := nodes) : Node :=
  let sample := match nodes with | n :: _ => n.hasVal | [] => false
  let amb := cands.any (fun c => c.amb || c.hasVal != sample)
  let params := nodes.filterMap (·.param)
  let wild := match nodes.getLast? with | some n => n.wild | none => none
  let cc := (groupConsts nodes).map fun g => (g.1, convergeNodes g.2 idx)
  let pc := if params.isEmpty then none
            else some (assumedName (idx + 1), convergeNodes (params.map (·.2)) (idx + 1))
  Node.mk cc pc wild sample false amb

/-- `convergeNodesPaths` on non-nil nodes -/
partial def convergeNodes (nodes : List Node) (idx : Nat) : Node :=
  match nodes with
  | [] => Node.leaf false
  | [n] => n
  | _ => mergeNodes nodes idx
end

/-- `insertWithConvergenceIndication`, the loop over URL parts; returns (node, convergence, error).
    Mutations made before an error are kept (as in Go). -/
partial def insParts (thr : Nat) (declared : Bool) (n : Node) (parts : List Part) (ppc : Nat) :
    Node × Bool × Bool :=
  match parts with
  | [] => (n.setVal, false, false)
  | p :: rest =>
    if p.val = "*" then
      let (c, cv, er) := insParts thr declared (Node.leaf p.host) rest ppc
      (n.setWild (some c), cv, er)
    else match tryParam p.val with
    | some name =>
      match n.param with
      | some (nm, ch) =>
        if name ≠ nm then (n, false, true)
        else
          let (c, cv, er) := insParts thr declared ch rest ppc
          (n.setParam (some (nm, c)), cv, er)
      | none =>
        let (c, cv, er) := insParts thr declared (Node.leaf p.host) rest ppc
        (n.setParam (some (name, c)), cv, er)
    | none =>
      match n.consts.lookup p.val with
      | some ch =>
        let (c, cv, er) := insParts thr declared ch rest ppc
        (n.setConsts (n.consts.map fun e => if e.1 = p.val then (e.1, c) else e), cv, er)
      | none =>
        let pathOnly := n.consts.filter fun e => !e.2.isHost
        let hostOnly := n.consts.filter fun e => e.2.isHost
        if thr ≤ pathOnly.length then
          let ppc' := ppc + 1
          let nodes := pathOnly.map (·.2) ++ (match n.param with | some pc => [pc.2] | none => [])
          -- raw slice length is pathOnly.length + 1 ≥ 2 for thr ≥ 1, so Go never takes the early return
          let merged := if pathOnly.length + 1 ≤ 1 then convergeNodes nodes ppc' else mergeNodes nodes ppc' (if pathOnly.isEmpty then nodes else pathOnly.map (·.2))
          let (c, _, er) := insParts thr declared merged rest ppc'
          ((n.setConsts hostOnly).setParam (some (assumedName ppc', c)), true, er)
        else if !declared && n.param.isSome then
          match n.param with
          | some (nm, ch) =>
            let (c, cv, er) := insParts thr declared ch rest (ppc + 1)
            (n.setParam (some (nm, c)), cv, er)
          | none => (n, false, true)
        else
          let (c, cv, er) := insParts thr declared (Node.leaf p.host) rest ppc
          (n.setConsts (n.consts ++ [(p.val, c)]), cv, er)

structure Tree where
  thr : Nat
  root : Node
  /-- diagnostic: some lookup consulted a map-order-dependent `Value` (the real outcome is then not determined) -/
  nondet : Bool := false
deriving Inhabited

def Tree.new (thr : Nat) : Tree := ⟨thr, Node.leaf false, false⟩

/-- `InsertWithConvergenceIndication` / `InsertDeclaredURL`; returns (tree, convergence, error). -/
def Tree.insert (t : Tree) (declared : Bool) (u : String) : Tree × Bool × Bool :=
  if invalidURL u then (t, false, true)
  else
    let (r, cv, er) := insParts t.thr declared t.root (splitURL u) 0
    ({ t with root := r }, cv, er)

def delim (p : Part) : String := if p.host then "." else "/"

/-- `lookupNode` + `Lookup`: (Match, NormalizedURL).  `fw` = path of the last wildcard child passed on the way
    (a match through it reports the wildcard's own pattern). -/
def lookupLoop : Node → List Part → Option String → String → Bool × String
  | n, [], fw, path =>
    if n.amb && !n.wild.isSome && !fw.isSome then (n.hasVal, "\u0001" ++ trimURL path)   -- marker: ambiguous value consulted
    else if n.hasVal then (true, trimURL path)
    else match n.wild with
      | some w => (true, trimURL (path ++ (if w.isHost then "." else "/") ++ "*"))
      | none => match fw with
        | some wp => (true, trimURL wp)
        | none => (false, trimURL path)
  | n, p :: rest, fw, path =>
    let fw := match n.wild with
      | some w => if w.isHost = p.host then some (path ++ delim p ++ "*") else fw
      | none => fw
    match (match n.consts.lookup p.val with
           | some ch => if ch.isHost = p.host then some ch else none
           | none => none) with
    | some ch => lookupLoop ch rest fw (path ++ delim p ++ p.val)
    | none =>
      match (match n.param with
             | some (nm, ch) => if ch.isHost = p.host && p.val ≠ "" then some (nm, ch) else none
             | none => none) with
      | some (nm, ch) => lookupLoop ch rest fw (path ++ delim p ++ "{" ++ nm ++ "}")
      | none =>
        if (tryParam p.val).isSome then (false, trimURL path)
        else match fw with
          | some wp => (true, trimURL wp)
          | none => (false, trimURL path)

def Tree.lookupRaw (t : Tree) (u : String) : Bool × String := lookupLoop t.root (splitURL u) none ""

def Tree.lookup (t : Tree) (u : String) : Bool × String :=
  let (m, s) := t.lookupRaw u
  (m, if s.startsWith "\u0001" then (s.drop 1).toString else s)

/-- `common.NormalizeURL`: insert (error ignored), look up, fall back to the URL itself. -/
def Tree.normalizeURL (t : Tree) (u : String) : String × Tree :=
  let (t', _, _) := t.insert false u
  let (m, nu) := t'.lookup u
  let consulted := (t'.lookupRaw u).2.startsWith "\u0001"
  (if m then nu else u, { t' with nondet := t'.nondet || consulted })

/-- `common.NormalizeTree`: (tree, convergenceOccurred); a URL the tree refuses is logged and skipped
    (the convergence it may have caused before failing still counts). -/
def Tree.normalizeTree : Tree → List String → Tree × Bool
  | t, [] => (t, false)
  | t, u :: us =>
    let (t1, cv, _) := t.insert false u
    let (t2, cv2) := normalizeTree t1 us
    (t2, cv || cv2)

/-- `common.BuildTree`: `none` = error. -/
def buildTree (thr : Nat) (known : List String) : Option Tree :=
  known.foldl (fun ot u => match ot with
    | none => none
    | some t => let (t', _, er) := t.insert true u; if er then none else some t') (some (Tree.new thr))

/-! ### The Go pipeline with the tree threaded through every `NormalizeURL` call -/

def normAll (t : Tree) (urls : List String) : List String × Tree :=
  urls.foldl (fun (acc : List String × Tree) u =>
    let (nu, t') := acc.2.normalizeURL u
    (acc.1 ++ [nu], t')) ([], t)

/-- first-occurrence order of consumer tags (`lo.GroupBy`; Go then ranges over the map) -/
def tagsOf (rs : List Rec) : List String :=
  rs.foldl (fun acc r => if acc.contains (consumerOf r.consumer) then acc else acc ++ [consumerOf r.consumer]) []

/-- One `discovery.Run`: (tree, aggregation). -/
def stepT (t : Tree) (A : Agg) (batch : List Rec) : Tree × Agg :=
  if batch.isEmpty then (t, A) else
  let rs := external batch
  -- ConvergeAggregation
  let (t1, cv) := t.normalizeTree (rs.map (·.url))
  let (A1, t2) :=
    if cv then
      let (eu, ta) := normAll t1 (A.endpoints.map (·.1.2))
      let ends := regroupG EAgg.combine ((A.endpoints.zip eu).map fun p => ((p.1.1.1, p.2), p.1.2))
      let (cu, tb) := normAll ta (A.consumers.map (·.1.2.2))
      let cons := regroupG EAgg.combine ((A.consumers.zip cu).map fun p => ((p.1.1.1, (p.1.1.2.1, p.2)), p.1.2))
      ({ A with endpoints := ends, consumers := cons }, tb)
    else (A, t1)
  -- ExtractAggs: byEndpoint over all records, then per consumer group
  let (eu, t3) := normAll t2 (rs.map (·.url))
  let ends := extractKeyed ((rs.zip eu).map fun p => ((p.1.method, p.2), p.1))
  let (cons, t4) := (tagsOf rs).foldl (fun (acc : CMap × Tree) tag =>
      let grp := rs.filter fun r => consumerOf r.consumer = tag
      let (gu, t') := normAll acc.2 (grp.map (·.url))
      (acc.1 ++ extractKeyed ((grp.zip gu).map fun p => ((tag, (p.1.method, p.2)), p.1)), t')) (([] : CMap), t3)
  let newAgg : Agg := { endpoints := ends, consumers := cons, interceptors := extractI rs }
  (t4, A1.combine newAgg)

/-- The abstract `Normaliser` read off the concrete tree (pure: the mutated tree of `NormalizeURL` is dropped). -/
def treeNormaliser : Normaliser Tree :=
  { learn := fun t us => (t.normalizeTree us).1
    norm := fun t u => (t.normalizeURL u).1
    conv := fun t us => (t.normalizeTree us).2 }

end LunarVerif.C15
