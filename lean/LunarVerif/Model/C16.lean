/-
Model of `utils/obfuscation/obfuscate.go` (`Obfuscator.ObfuscateJSON`, `obfuscateJSON`,
`isCursorInExcludedPath`, `trimBodyPathPrefix` — as repaired by fixes/F16a.patch: exact comparison
of the cursor with the exclusion or with the exclusion minus its `$.request.body` /
`$.response.body` root; the former "exclusion ends with the cursor" rule is gone) and of the body path of the HAR collector
(`api_stream_obfuscator.go`: `obfuscateBody`, `filterBodyExclusions`).  Core Lean only.

Strings are `List Char` (Go strings are byte strings; the code only tests equality and prefixes by the
two ASCII roots, which agree on bytes and on code points for valid UTF-8).

JSON values mirror what `fastjson` hands to the walk: numbers keep their lexeme, STRING VALUES keep
their lexeme too (the text between the quotes, escapes untouched — fastjson parses a string lazily as
a raw string and marshals a raw string byte for byte; it is decoded, `unescape`, only when the walk
asks for its bytes to hash them), objects are *lists* of fields in document order (fastjson keeps
duplicate keys); field NAMES are decoded (the walk builds cursors from decoded names and the output
object re-encodes them).

The hash is a parameter `H : Str → Str` (the hasher of the `Obfuscator`); nothing is assumed about it.

Go parameter `onExcludedPath`: it is `false` at every call that reaches the `switch` (the function
returns `&raw` at the top as soon as it is true, and the recursive calls pass the value that was
just tested), so it is not carried in the model.
-/
namespace LunarVerif.C16

abbrev Str := List Char

inductive Json where
  | null
  | bool (b : Bool)
  | num (lex : Str)
  | str (lexeme : Str)
  | arr (xs : List Json)
  | obj (kvs : List (Str × Json))

/-! ### Equality test on JSON trees (`deriving DecidableEq` does not handle the nested type). -/
mutual
def Json.beq : Json → Json → Bool
  | .null, .null => true
  | .bool a, .bool b => a == b
  | .num a, .num b => a == b
  | .str a, .str b => a == b
  | .arr xs, .arr ys => beqList xs ys
  | .obj xs, .obj ys => beqFields xs ys
  | _, _ => false
def beqList : List Json → List Json → Bool
  | [], [] => true
  | x :: xs, y :: ys => x.beq y && beqList xs ys
  | _, _ => false
def beqFields : List (Str × Json) → List (Str × Json) → Bool
  | [], [] => true
  | (k, v) :: xs, (k', v') :: ys => k == k' && v.beq v' && beqFields xs ys
  | _, _ => false
end

/-- Which entry point: `raw` = `Obfuscator.ObfuscateJSON` called with the exclusion list as is
    (policy-mode HAR plugin: `request_body_paths` / `response_body_paths`); `req` / `resp` = the
    flow-mode HAR collector, which first keeps the exclusions starting with `$.request.body` /
    `$.response.body`. -/
inductive Side where
  | raw | req | resp
deriving DecidableEq, Repr

def reqPrefix : Str := "$.request.body".toList
def respPrefix : Str := "$.response.body".toList

/-- `filterBodyExclusions`: `strings.HasPrefix(exclusion, prefix)`. -/
def filterBodyExclusions (pre : Str) (ex : List Str) : List Str :=
  ex.filter (fun e => pre.isPrefixOf e)

def bodyExclusions : Side → List Str → List Str
  | .raw, ex => ex
  | .req, ex => filterBodyExclusions reqPrefix ex
  | .resp, ex => filterBodyExclusions respPrefix ex

/-- `trimBodyPathPrefix`: `"$.request.body.user.name"` ↦ `".user.name"` (first prefix that matches, in
    the order of `bodyPathPrefixes`; unchanged when none does). -/
def trimBodyPathPrefix (path : Str) : Str :=
  if reqPrefix.isPrefixOf path then path.drop reqPrefix.length
  else if respPrefix.isPrefixOf path then path.drop respPrefix.length
  else path

/-- `isCursorInExcludedPath`: some exclusion EQUALS the cursor, as written or minus its body root. -/
def isCursorInExcludedPath (cursor : Str) (ex : List Str) : Bool :=
  ex.any (fun path => path == cursor || trimBodyPathPrefix path == cursor)

/-- The exclusion test of the walk as a predicate on cursors. -/
def modelExcl (ex : List Str) : Str → Bool := fun c => isCursorInExcludedPath c ex

/-! ### Pre-image of a number: `strconv.FormatFloat(float64(lexeme), 'f', 2, 64)`.
Exact for lexemes `-?digits(.digits)?` with at most 15 digits (fastfloat's `float64(d)/10^k` is
then the correctly rounded double): nearest double (ties to even), then two decimals (ties to even on
the exact binary value, as `strconv` does). -/

def digitsVal (ds : Str) : Nat := ds.foldl (fun a c => a * 10 + (c.toNat - 48)) 0

/-- `n / d` rounded to nearest, ties to even (`d > 0`). -/
def divRoundEven (n d : Nat) : Nat :=
  let q := n / d
  let r := n % d
  if 2 * r < d then q else if d < 2 * r then q + 1 else if q % 2 == 0 then q else q + 1

/-- Nearest double to `n / d` (`n, d > 0`, normal range) as `(m, e)`, value `m * 2^e`. -/
def nearestDouble (n d : Nat) : Nat × Int :=
  let e0 : Int := (Nat.log2 n : Int) - (Nat.log2 d : Int) - 52
  let fl (e : Int) : Nat := if 0 ≤ e then n / (d * 2 ^ e.toNat) else (n * 2 ^ (-e).toNat) / d
  let e : Int := if 2 ^ 53 ≤ fl e0 then e0 + 1 else if fl e0 < 2 ^ 52 then e0 - 1 else e0
  let m := if 0 ≤ e then divRoundEven n (d * 2 ^ e.toNat) else divRoundEven (n * 2 ^ (-e).toNat) d
  (m, e)

def pad2 (n : Nat) : Str :=
  if n < 10 then '0' :: Nat.toDigits 10 n else Nat.toDigits 10 n

def numPre (lex : Str) : Str :=
  let neg := lex.head? == some '-'
  let body := if neg then lex.drop 1 else lex
  let ip := body.takeWhile (· != '.')
  let fp := (body.dropWhile (· != '.')).drop 1
  let n := digitsVal (ip ++ fp)
  let d := 10 ^ fp.length
  let cents : Nat :=
    if n == 0 then 0 else
      let (m, e) := nearestDouble n d
      if 0 ≤ e then m * 2 ^ e.toNat * 100 else divRoundEven (m * 100) (2 ^ (-e).toNat)
  (if neg then ['-'] else []) ++ Nat.toDigits 10 (cents / 100) ++ '.' :: pad2 (cents % 100)

/-! ### `unescapeStringBestEffort` (fastjson): the decoded value of a string lexeme. -/

def hexDigitVal (c : Char) : Option Nat :=
  if '0' ≤ c ∧ c ≤ '9' then some (c.toNat - 48)
  else if 'a' ≤ c ∧ c ≤ 'f' then some (c.toNat - 87)
  else if 'A' ≤ c ∧ c ≤ 'F' then some (c.toNat - 55)
  else none

def hex4Val : Str → Option Nat
  | [a, b, c, d] =>
    match hexDigitVal a, hexDigitVal b, hexDigitVal c, hexDigitVal d with
    | some w, some x, some y, some z => some (((w * 16 + x) * 16 + y) * 16 + z)
    | _, _, _, _ => none
  | _ => none

def isSurrogate (n : Nat) : Bool := 0xD800 ≤ n && n < 0xE000

/-- `utf16.DecodeRune`: a high surrogate followed by a low one, else U+FFFD. -/
def decodeSurrogates (hi lo : Nat) : Char :=
  if 0xD800 ≤ hi && hi < 0xDC00 && 0xDC00 ≤ lo && lo < 0xE000 then
    Char.ofNat (0x10000 + (hi - 0xD800) * 0x400 + (lo - 0xDC00))
  else Char.ofNat 0xFFFD

/-- `acc` is reversed.  `\" \\ \/ \b \f \n \r \t`, `\uXXXX` (surrogate pairs combined; a surrogate not
    followed by another `\u` escape, a short or non-hex `\u`, and unknown escapes are kept as written). -/
def unescapeAux : Nat → Str → Str → Str
  | 0, _, acc => acc.reverse
  | _, [], acc => acc.reverse
  | fuel + 1, '\\' :: e :: r, acc =>
    if e == '"' then unescapeAux fuel r ('"' :: acc)
    else if e == '\\' then unescapeAux fuel r ('\\' :: acc)
    else if e == '/' then unescapeAux fuel r ('/' :: acc)
    else if e == 'b' then unescapeAux fuel r (Char.ofNat 8 :: acc)
    else if e == 'f' then unescapeAux fuel r (Char.ofNat 12 :: acc)
    else if e == 'n' then unescapeAux fuel r ('\n' :: acc)
    else if e == 'r' then unescapeAux fuel r ('\r' :: acc)
    else if e == 't' then unescapeAux fuel r ('\t' :: acc)
    else if e == 'u' then
      match hex4Val (r.take 4) with
      | none => unescapeAux fuel r ('u' :: '\\' :: acc)
      | some x =>
        let r1 := r.drop 4
        if !(isSurrogate x) then unescapeAux fuel r1 (Char.ofNat x :: acc)
        else
          match r1 with
          | '\\' :: 'u' :: r2 =>
            match hex4Val (r2.take 4) with
            | some y => unescapeAux fuel (r2.drop 4) (decodeSurrogates x y :: acc)
            | none => unescapeAux fuel r1 ((r.take 4).reverse ++ 'u' :: '\\' :: acc)
          | _ => unescapeAux fuel r1 ((r.take 4).reverse ++ 'u' :: '\\' :: acc)
    else unescapeAux fuel r (e :: '\\' :: acc)
  | fuel + 1, ['\\'], acc => unescapeAux fuel [] acc
  | fuel + 1, c :: r, acc => unescapeAux fuel r (c :: acc)

def unescape (lexeme : Str) : Str := unescapeAux (lexeme.length + 1) lexeme []

/-- The bytes that are hashed for a primitive value (`StringBytes()` = the DECODED string). -/
def leafPre : Json → Str
  | .null => "null".toList
  | .bool true => "true".toList
  | .bool false => "false".toList
  | .num lex => numPre lex
  | .str s => unescape s
  | _ => []

/-- `Object.Get`: the first field with that key. -/
def getFirst (k : Str) : List (Str × Json) → Option Json
  | [] => none
  | (k', v) :: r => if k' == k then some v else getFirst k r

/-- `Object.Set`: replace the value of the first field with that key, else append. -/
def setKV (k : Str) (v : Json) : List (Str × Json) → List (Str × Json)
  | [] => [(k, v)]
  | (k', v') :: r => if k' == k then (k', v) :: r else (k', v') :: setKV k v r

/-- One iteration of the object loop of `obfuscateJSON`, seen from the already obfuscated fields
    `fs`: `out.Set(key, f(o.Get(key)))`. -/
def collapseStep (fs acc : List (Str × Json)) (k : Str) : List (Str × Json) :=
  match getFirst k fs with
  | some v => setKV k v acc
  | none => acc

/-- The object loop of `obfuscateJSON` seen from the already obfuscated fields `fs` (same keys, in
    order, duplicates included): `for key in getKeys(o) { out.Set(key, f(o.Get(key))) }`.
    Without duplicate keys this is the identity (`collapse_nodup` in `Proofs/C16.lean`). -/
def collapse (fs : List (Str × Json)) : List (Str × Json) :=
  (fs.map (·.1)).foldl (collapseStep fs) []

mutual
/-- The recursive walk of `obfuscateJSON`, with the exclusion test `E` on cursors as a parameter
    (`E = modelExcl excludedPaths` is the code). -/
def obfWith (H : Str → Str) (E : Str → Bool) (cursor : Str) : Json → Json
  | .arr xs =>
    if E cursor then .arr xs
    else .arr (obfListWith H E (cursor ++ ['[', ']']) xs)
  | .obj kvs =>
    if E cursor then .obj kvs
    else .obj (collapse (obfFieldsWith H E cursor kvs))
  | .null => if E cursor then .null else .str (H (leafPre .null))
  | .bool b => if E cursor then .bool b else .str (H (leafPre (.bool b)))
  | .num l => if E cursor then .num l else .str (H (leafPre (.num l)))
  | .str s => if E cursor then .str s else .str (H (leafPre (.str s)))
def obfListWith (H : Str → Str) (E : Str → Bool) (cursor : Str) : List Json → List Json
  | [] => []
  | x :: xs => obfWith H E cursor x :: obfListWith H E cursor xs
/-- every field obfuscated under its own cursor `cursor.key` (the value the Go loop computes for the
    first occurrence of each key is the first entry with that key of this list). -/
def obfFieldsWith (H : Str → Str) (E : Str → Bool) (cursor : Str) : List (Str × Json) → List (Str × Json)
  | [] => []
  | (k, v) :: r => (k, obfWith H E (cursor ++ '.' :: k) v) :: obfFieldsWith H E cursor r
end

/-- `obfuscateJSON(raw, arena, cursor, excludedPaths, false)`. -/
def obf (H : Str → Str) (ex : List Str) (cursor : Str) (v : Json) : Json :=
  obfWith H (modelExcl ex) cursor v

/-- `Obfuscator.ObfuscateJSON(raw, excludedPaths)` on a parsed document. -/
def obfuscateJSON (H : Str → Str) (ex : List Str) (doc : Json) : Json := obf H ex [] doc

/-- Body obfuscation of the given entry point (`obfuscateBody` for `req`/`resp`). -/
def obfuscateBody (H : Str → Str) (side : Side) (ex : List Str) (doc : Json) : Json :=
  obfuscateJSON H (bodyExclusions side ex) doc

/-- A body as the exporters receive it: JSON, or text that `fastjson` rejects (possibly empty). -/
inductive Input where
  | json (d : Json)
  | notJson (isEmpty : Bool)

/-- What the caller gets back.  `other` is never produced by the model (it stands for any other
    answer of an implementation: garbage, a panic). -/
inductive Outcome where
  | doc (out : Json)   -- an obfuscated JSON document
  | parseError         -- `ObfuscateJSON` returned an error (the policy-mode plugin then hashes the whole body)
  | whole              -- the HAR collector exported `H(body)` for the whole body
  | empty              -- the HAR collector exported the empty body unchanged
  | clear              -- the body was exported as is (obfuscation switched off in the settings that apply)
  | other

/-- `ObfuscateJSON` (`raw`) / `apiStreamObfuscator.obfuscateBody` (`req`, `resp`) on any body. -/
def run (H : Str → Str) (side : Side) (ex : List Str) : Input → Outcome
  | .json d => .doc (obfuscateBody H side ex d)
  | .notJson e =>
    match side with
    | .raw => .parseError
    | _ => if e then .empty else .whole

/-- One transaction through the flow-mode HAR collector (`harCollectorProcessor.generateHAR`): the
    request body and then the response body are obfuscated by ONE `apiStreamObfuscator` built from one
    exclusion list.  The obfuscator carries no state from the first body to the second: each body is
    treated by `obfuscateBody` with the filter of its own side. -/
def runTxn (H : Str → Str) (ex : List Str) (reqBody respBody : Input) : Outcome × Outcome :=
  (run H .req ex reqBody, run H .resp ex respBody)

/-- Several `ObfuscateJSON` calls (each with its own exclusion list and body) that overlap in time in
    any way — one started from inside another (re-entrant, e.g. from the hasher), or on concurrent
    goroutines.  The calls share nothing observable (the pooled parser / arena a call uses is its own
    until it returns): each answer is the function of that call's own arguments only. -/
def runMany (H : Str → Str) (calls : List (List Str × Input)) : List Outcome :=
  calls.map (fun c => run H .raw c.1 c.2)

/-! ### Policy mode (`runner.RunTask` → `getDiagnoses` → `HARGeneratorPlugin.OnTransaction`) -/

/-- One HAR-exporter diagnosis of the policies file: declared on the matching endpoint or globally,
    enabled or not, with ITS OWN obfuscation settings. -/
structure Diag where
  endpoint : Bool        -- declared under the endpoint (those come first), else global
  enabled : Bool         -- `diagnosis.enabled`
  obfuscate : Bool       -- `config.har_exporter.obfuscate.enabled`
  reqPaths : List Str    -- `…exclusions.request_body_paths`
  respPaths : List Str   -- `…exclusions.response_body_paths`

/-- `getDiagnoses`: the ENABLED diagnoses, endpoint ones first, each keeping its own settings. -/
def selectDiagnoses (ds : List Diag) : List Diag :=
  (ds.filter fun d => d.endpoint && d.enabled) ++ (ds.filter fun d => !d.endpoint && d.enabled)

/-- `HARGeneratorPlugin.extractBody` (after `ensureDecompressedBody`, which only undoes the transfer
    encoding: the body text is the decompressed one whatever its size). -/
def extractBody (H : Str → Str) (obfuscate : Bool) (paths : List Str) : Input → Outcome
  | .json d => if obfuscate then .doc (obfuscateBody H .raw paths d) else .clear
  | .notJson _ => if obfuscate then .whole else .clear

/-- One transaction in policy mode: one exported record (request body, response content) per selected
    diagnosis, in order. -/
def runPolicy (H : Str → Str) (ds : List Diag) (reqBody respBody : Input) : List (Outcome × Outcome) :=
  (selectDiagnoses ds).map fun d =>
    (extractBody H d.obfuscate d.reqPaths reqBody, extractBody H d.obfuscate d.respPaths respBody)

end LunarVerif.C16
