import LunarVerif.Model.Regex
import LunarVerif.Model.UrlTree
import LunarVerif.Model.C13
/-
Model for C14 — "traffic a flow or policy must see is always registered as managed".  Core Lean only.

  1. `formatURL` / `formatEndpoint` : the TEXT transformation of `config.HaproxyEndpointFormat`
     (update_endpoints.go:136-162), character by character:
        strings.ReplaceAll(url, ".", `\.`)                                  `replaceDots`
        HasSuffix "/*" ⇒ TrimSuffix + `(/.*)?`                              `stripWildSuffix`
        regexp `/\{[a-zA-Z0-9-_]+\}` .ReplaceAllString(…, "/[^/]+")         `replaceParams` (leftmost,
                                                                            non-overlapping, as a scanner)
        method + ":::" + formatted (+ "$" unless wildcard)
  2. `formatAST` : the INTENDED meaning of that expression for a pattern given as parts.
  3. Registration: flows mode (`buildHAProxyFlowsEndpointsRequest`, handling_data_manager.go:532-578 over
     `Stream.supportedFilters`, streams.go:142-165) and policy mode (`BuildHAProxyEndpointsRequest`).
  4. What the engine itself selects: flows mode = `streamfilter.FilterTree` (`AddFlow`, `GetFlow` =
     `urltree.Traversal`/`lookupFlow` + the method qualification of `filter_node.go`), policy mode =
     `EndpointPolicyTree` (the C13 model).  These reproduce the code as it is (F03a–d, F13a–d included).
  5. `managedB` : what the proxy's `is_managed` ACL computes (haproxy.cfg:177-178): manage-all, or some
     registered expression is found (unanchored) in `METHOD:::host/path`.
-/
namespace LunarVerif.C14
open LunarVerif.UrlTree LunarVerif.Regex

/-! ### 1. Text transformation -/

/-- `strings.ReplaceAll(url, ".", "\\.")` -/
def replaceDots : List Char → List Char
  | [] => []
  | c :: cs => if c = '.' then '\\' :: '.' :: replaceDots cs else c :: replaceDots cs

/-- `HasSuffix(s, "/*")` + `TrimSuffix`: `some prefix` when `s` ends with `/*`. -/
def stripWildSuffix : List Char → Option (List Char)
  | [] => none
  | c :: cs =>
    if c = '/' ∧ cs = ['*'] then some []
    else (stripWildSuffix cs).map (c :: ·)

/-- `[a-zA-Z0-9-_]` (Go parses `9-_` as the literals `-` and `_` after the range `0-9`). -/
def isNameChar (c : Char) : Bool := isAlnum c || c == '-' || c == '_'

/-- Scanner state of the path-parameter replacement. -/
inductive PState where
  | normal
  | slash                          -- "/" read
  | name (rev : List Char)         -- "/{" ++ rev.reverse read, all of them name characters

def paramRegex : List Char := ['/', '[', '^', '/', ']', '+']          -- `/[^/]+`

/-- `regexToFindPathParameters.ReplaceAllString(s, "/[^/]+")`. -/
def replaceParamsGo : PState → List Char → List Char
  | .normal, [] => []
  | .slash, [] => ['/']
  | .name rev, [] => '/' :: '{' :: rev.reverse
  | .normal, c :: cs => if c = '/' then replaceParamsGo .slash cs else c :: replaceParamsGo .normal cs
  | .slash, c :: cs =>
    if c = '{' then replaceParamsGo (.name []) cs
    else if c = '/' then '/' :: replaceParamsGo .slash cs
    else '/' :: c :: replaceParamsGo .normal cs
  | .name rev, c :: cs =>
    if isNameChar c then replaceParamsGo (.name (c :: rev)) cs
    else if c = '}' ∧ rev ≠ [] then paramRegex ++ replaceParamsGo .normal cs
    else
      -- no match starting at that "/": emit what was read and rescan from `c`
      ('/' :: '{' :: rev.reverse) ++
        (if c = '/' then replaceParamsGo .slash cs else c :: replaceParamsGo .normal cs)

def replaceParams (s : List Char) : List Char := replaceParamsGo .normal s

def wildcardRegex : List Char := ['(', '/', '.', '*', ')', '?']       -- `(/.*)?`

/-- The URL part of `HaproxyEndpointFormat` and its `hasWildcard`. -/
def formatURL (url : List Char) : List Char × Bool :=
  let u := replaceDots url
  match stripWildSuffix u with
  | some pre => (replaceParams (pre ++ wildcardRegex), true)
  | none => (replaceParams u, false)

def delimiter : List Char := [':', ':', ':']

/-- `HaproxyEndpointFormat(method, url, _).Endpoint` -/
def formatEndpoint (method url : List Char) : List Char :=
  let (f, wild) := formatURL url
  method ++ delimiter ++ f ++ (if wild then [] else ['$'])

/-- The subject string the proxy searches: `capture.req.method,concat(":::",txn.url)`. -/
def subject (method url : List Char) : List Char := method ++ delimiter ++ url

/-! ### 2. Patterns as parts: rendering and intended regex -/

def segChars : Seg → List Char
  | .lit s => s.toList
  | .par n => '{' :: (n.toList ++ ['}'])
  | .wild => ['*']

/-- Text of a pattern/URL given as parts: host labels joined by `.`, every path segment preceded by `/`. -/
def renderTail : List Part → List Char
  | [] => []
  | p :: ps => (if p.host then '.' else '/') :: (segChars p.seg ++ renderTail ps)

def render : List Part → List Char
  | [] => []
  | p :: ps => segChars p.seg ++ renderTail ps

def paramRe : Re := .plus (.cls true [('/', '/')])
def wildRe : Re := .opt (.group (.cat (.char '/') (.cat (.star .any) .eps)))

/-- Regex pieces of the parts after the first one. -/
def tailPieces : List Part → List Re
  | [] => []
  | p :: ps =>
    (match p.host, p.seg with
      | true, s => .char '.' :: (segChars s).map Re.char
      | false, .lit s => .char '/' :: s.toList.map Re.char
      | false, .par _ => [.char '/', paramRe]
      | false, .wild => [wildRe]) ++ tailPieces ps

def endsWild : List Part → Bool
  | [] => false
  | [p] => p.seg == .wild
  | _ :: ps => endsWild ps

/-- Intended meaning of the registered expression for `method` and pattern `P`. -/
def formatAST (method : List Char) (P : List Part) : Re :=
  match P with
  | [] => catList (method.map Re.char ++ delimiter.map Re.char ++ [.eol])
  | p :: ps =>
    catList (method.map Re.char ++ delimiter.map Re.char ++ (segChars p.seg).map Re.char ++ tailPieces ps
      ++ (if endsWild (p :: ps) then [] else [.eol]))

/-! ### 3. Registration -/

def defaultMethods : List String := ["GET", "POST", "PUT", "DELETE", "PATCH"]

structure Flow where
  name : String
  url : String
  methods : List String
deriving DecidableEq, Repr

/-- `Filter.GetSupportedMethods` -/
def Flow.supported (f : Flow) : List String := if f.methods.isEmpty then defaultMethods else f.methods

/-- `Filter.IsAnyURLAccepted` -/
def isAnyURL (url : String) : Bool := url == "" || url == "*" || url == ".*"

/-- Lexicographic order on character lists (bytewise order of `sort.Strings` on ASCII). -/
def leChars : List Char → List Char → Bool
  | [], _ => true
  | _ :: _, [] => false
  | a :: as, b :: bs => if a.toNat < b.toNat then true else if b.toNat < a.toNat then false else leChars as bs

def insertStr (a : String) : List String → List String
  | [] => [a]
  | b :: bs => if leChars a.toList b.toList then a :: b :: bs else b :: insertStr a bs

/-- `sort.Strings` -/
def sortStr : List String → List String
  | [] => []
  | a :: as => insertStr a (sortStr as)

/-- `ToComparable` restricted to what the flows of this model carry: URL and the sorted method list. -/
def Flow.key (f : Flow) : String × List String := (f.url, sortStr f.methods)

/-- One representative per key, in order of first... last occurrence (order is immaterial: map). -/
def dedup {α : Type} [DecidableEq α] : List α → List α
  | [] => []
  | a :: as => if a ∈ as then dedup as else a :: dedup as

def keyEntries (k : String × List String) : List (List Char) :=
  (if k.2.isEmpty then defaultMethods else k.2).map fun m => formatEndpoint m.toList k.1.toList

structure Policy where
  name : String
  method : String
  url : String
  enabled : Bool
deriving DecidableEq, Repr

inductive Cfg where
  | flows (fs : List Flow)
  | policies (ps : List Policy) (globalOn : Bool)
deriving Repr

/-- `ManageAll` of the request sent to the proxy. -/
def manageAll : Cfg → Bool
  | .flows fs => fs.any fun f => isAnyURL f.url
  | .policies _ g => g

/-- `ManagedEndpoints` (as a multiset; the Go side ranges over a map). -/
def registered : Cfg → List (List Char)
  | .flows fs => (dedup (fs.map Flow.key)).flatMap keyEntries
  | .policies ps _ => (ps.filter (·.enabled)).map fun p => formatEndpoint p.method.toList p.url.toList

/-! ### 5. The proxy's `is_managed` -/

def managedB (cfg : Cfg) (method url : String) : Bool :=
  manageAll cfg || (registered cfg).any fun e => exprSearch e (subject method.toList url.toList)

/-! ### 4a. Flows mode: the filter tree -/

structure FNode where
  flows : List Flow
  reqMethods : List String        -- `filterRequirements.methods`: those of the flow that created the node
deriving Repr

structure FTree where
  tree : Tree Nat := []
  nodes : List FNode := []
deriving Repr

inductive AddRes where
  | ok (t : FTree)
  | err                            -- `InsertDeclaredURL` failed
  | panic                          -- lookup matched a node without value: nil dereference in `AddFlow`

/-- `FilterTree.AddFlow` (user flows). -/
def addFlow (ft : FTree) (f : Flow) : AddRes :=
  let parts := splitURL f.url
  let r := lookupParts ft.tree parts
  if r.isMatch && renderParts r.norm == f.url then
    match r.value with
    | some i => .ok { ft with nodes := ft.nodes.modify i fun n => { n with flows := n.flows ++ [f] } }
    | none => .panic
  else
    match insertParts ft.tree parts ft.nodes.length true with
    | .error _ => .err
    | .ok t' => .ok ⟨t', ft.nodes ++ [⟨[f], f.methods⟩]⟩

/-- `wildcardChild.hasValue()` -/
def wildValue (res : Res Nat) : Option Nat :=
  match wildChild? res with
  | some (some v) => some v
  | _ => none

/-- The loop of `lookupFlow` (url_tree_flow_traversal.go) with its epilogue.  `index == lookUpLength` holds
    exactly when the loop reached the LAST part, whether it then moved into a child or broke out. -/
def flowGo (res : Res Nat) (acc : List Nat) : List Part → List Nat
  | [] => acc
  | u :: us =>
    let acc1 := match wildValue res with
      | some v => acc ++ [v]
      | none => acc
    let viaConst : Option (Res Nat) := match u.seg with
      | .lit s => if constFlag? res s = some u.host then some (step (.lit s) res) else none
      | _ => none
    let moved : Option (Res Nat) := match viaConst with
      | some r => some r
      | none => match parChild? res with
        | some (_, h) => if h = u.host then some (step .par res) else none
        | none => none
    match us with
    | [] =>
      let final := moved.getD res
      match nodeValue final, wildChild? final with
      | some v, none => acc1 ++ [v]
      | _, _ =>
        if u.host then
          match wildValue final with
          | some v => acc1 ++ [v]
          | none => acc1
        else acc1
    | _ :: _ =>
      match moved with
      | some r => flowGo r acc1 us
      | none => acc1

/-- `isMethodQualified` of a user flow on a node. -/
def methodOK (n : FNode) (f : Flow) (method : String) : Bool :=
  n.reqMethods.isEmpty || f.supported.contains method

/-- `FilterTree.GetFlow`: names of the user flows selected for a request. -/
def getFlow (ft : FTree) (method url : String) : List String :=
  (flowGo ft.tree [] (splitURL url)).flatMap fun i =>
    match ft.nodes[i]? with
    | some n => (n.flows.filter fun f => methodOK n f method).map (·.name)
    | none => []

/-! ### 4b. Policy mode: the endpoint policy tree (C13 model) -/

def Policy.endpoint (p : Policy) : C13.Endpoint :=
  ⟨p.method, p.url, splitURL p.url, [], [⟨p.name, p.enabled⟩]⟩

def buildPolicies (ps : List Policy) : Except C13.BuildErr C13.PTree := C13.build (ps.map Policy.endpoint)

/-- Names of the endpoint policies with an enabled plugin that the engine applies to the request. -/
def selectPolicies (pt : C13.PTree) (method url : String) : List String :=
  (C13.getDiagnoses pt ⟨[], []⟩ method (splitURL url)).1

end LunarVerif.C14
