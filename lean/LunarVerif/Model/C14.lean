import LunarVerif.Model.Regex
import LunarVerif.Model.UrlTree
import LunarVerif.Model.C13
import LunarVerif.Model.C03
/-
Model for C14 — "traffic a flow or policy must see is always registered as managed".  Core Lean only.

  1. `formatURL` / `formatEndpoint` : the TEXT transformation of `config.HaproxyEndpointFormat`
     (update_endpoints.go, after the repairs F14a + F14f + F14c), operation by operation:
        trailing wildcard: HasSuffix "/*" ⇒ TrimSuffix + `(/.*)?`; host-only URL with suffix ".*" ⇒ `(\..*)?`
        strings.Split(url, "/"); the first segment (host) strings.Split on "." and joined with `\.`
        every part: `urltree.TryExtractPathParameter` ⇒ `[^/]+` (path) / `[^./]+` (host), else regexp.QuoteMeta
        method + ":::" + formatted (+ "$" unless wildcard); the method text is not quoted
  2. `formatAST` : the INTENDED meaning of that expression for a pattern given as parts.
  3. Registration: flows mode (`buildHAProxyFlowsEndpointsRequest` after F14b, handling_data_manager.go:532-583 over
     `Stream.supportedFilters`, streams.go:142-165) and policy mode (`BuildHAProxyEndpointsRequest`).
  4. What the engine itself selects: flows mode = `streamfilter.FilterTree` (`AddFlow`, `GetFlow` =
     `urltree.Traversal`/`lookupFlow` + the method qualification of `filter_node.go`), policy mode =
     `EndpointPolicyTree` (the C13 model).  These reproduce the code as it is after the trie repairs (F03a/b/d,
     F13a/b/d/e/f, F13c-wildcard).
  5. `managedB` : what the proxy's `is_managed` ACL computes (haproxy.cfg:177-178): manage-all, or some
     registered expression is found (unanchored) in `METHOD:::host/path`.
-/
namespace LunarVerif.C14
open LunarVerif.UrlTree LunarVerif.Regex

/-! ### 1. Text transformation (`HaproxyEndpointFormat` after F14a + F14f + F14c) -/

/-- The characters `regexp.QuoteMeta` escapes: `\.+*?()|[]{}^$`. -/
def specialChars : List Char := ['\\', '.', '+', '*', '?', '(', ')', '|', '[', ']', '{', '}', '^', '$']

/-- `regexp.QuoteMeta` -/
def quoteMeta : List Char → List Char
  | [] => []
  | c :: cs => if specialChars.contains c then '\\' :: c :: quoteMeta cs else c :: quoteMeta cs

/-- `strings.Split(s, sep)` for a one-character separator (always at least one piece). -/
def splitOn (sep : Char) : List Char → List (List Char)
  | [] => [[]]
  | c :: cs =>
    if c = sep then [] :: splitOn sep cs
    else match splitOn sep cs with
      | [] => [[c]]
      | p :: ps => (c :: p) :: ps

/-- `strings.Join` -/
def joinWith (sep : List Char) : List (List Char) → List Char
  | [] => []
  | [w] => w
  | w :: ws => w ++ sep ++ joinWith sep ws

/-- `HasSuffix(s, [a, b])` + `TrimSuffix`: `some prefix` when `s` ends with the two characters. -/
def stripSuffix2 (a b : Char) (s : List Char) : Option (List Char) :=
  match s.reverse with
  | y :: x :: r => if x = a ∧ y = b then some r.reverse else none
  | _ => none

/-- `urltree.TryExtractPathParameter`: `HasPrefix(part, "{") && HasSuffix(part, "}")`. -/
def isParamText (w : List Char) : Bool := w.head? == some '{' && w.getLast? == some '}'

def pathParamRegex : List Char := ['[', '^', '/', ']', '+']                  -- `[^/]+`
def hostParamRegex : List Char := ['[', '^', '.', '/', ']', '+']             -- `[^./]+`
def wildcardRegex : List Char := ['(', '/', '.', '*', ')', '?']              -- `(/.*)?`
def hostWildcardRegex : List Char := ['(', '\\', '.', '.', '*', ')', '?']    -- `(\..*)?`
def anyMethodRegex : List Char := ['[', '^', ':', ']', '+']                  -- `[^:]+` (F14b)

/-- `formatURLPart` -/
def formatPart (paramRegex w : List Char) : List Char := if isParamText w then paramRegex else quoteMeta w

/-- The trailing wildcard of `HaproxyEndpointFormat`: what is left of the URL and the wildcard expression. -/
def splitWildcard (url : List Char) : List Char × List Char :=
  match stripSuffix2 '/' '*' url with
  | some pre => (pre, wildcardRegex)
  | none =>
    if !url.contains '/' then
      match stripSuffix2 '.' '*' url with
      | some pre => (pre, hostWildcardRegex)
      | none => (url, [])
    else (url, [])

def formatHost (h : List Char) : List Char := joinWith ['\\', '.'] ((splitOn '.' h).map (formatPart hostParamRegex))

/-- The URL part of `HaproxyEndpointFormat` and its `hasWildcard`. -/
def formatURL (url : List Char) : List Char × Bool :=
  let (u, wr) := splitWildcard url
  let body := match splitOn '/' u with
    | [] => []
    | h :: segs => joinWith ['/'] (formatHost h :: segs.map (formatPart pathParamRegex))
  (body ++ wr, !wr.isEmpty)

def delimiter : List Char := [':', ':', ':']

/-- `HaproxyEndpointFormat(method, url, _).Endpoint` (the method text is NOT quoted). -/
def formatEndpoint (method url : List Char) : List Char :=
  let (f, wild) := formatURL url
  method ++ delimiter ++ f ++ (if wild then [] else ['$'])

/-- The subject string the proxy searches: `capture.req.method,concat(":::",txn.url)`. -/
def subject (method url : List Char) : List Char := method ++ delimiter ++ url

/-! ### 2. Patterns as parts: rendering and intended regex -/

def segChars : Seg → List Char
  | .lit s => s.toList
  | .par n => '{' :: (n.toList ++ ['}'])
  | .wild => ['*']

/-- Text of a pattern/URL given as parts: host labels joined by `.`, every path segment preceded by `/`. -/
def renderTail : List Part → List Char
  | [] => []
  | p :: ps => (if p.host then '.' else '/') :: (segChars p.seg ++ renderTail ps)

def render : List Part → List Char
  | [] => []
  | p :: ps => segChars p.seg ++ renderTail ps

def pathParamRe : Re := .plus (.cls true [('/', '/')])
def hostParamRe : Re := .plus (.cls true [('.', '.'), ('/', '/')])
def anyMethodRe : Re := .plus (.cls true [(':', ':')])
def wildRe : Re := .opt (.group (.cat (.char '/') (.cat (.star .any) .eps)))
def hostWildRe : Re := .opt (.group (.cat (.char '.') (.cat (.star .any) .eps)))

/-- Regex pieces of one part without its delimiter. -/
def segPieces (host : Bool) : Seg → List Re
  | .lit s => s.toList.map Re.char
  | .par _ => [if host then hostParamRe else pathParamRe]
  | .wild => []

/-- Regex pieces of the parts after the first one. -/
def tailPieces : List Part → List Re
  | [] => []
  | p :: ps =>
    (match p.seg with
      | .wild => [if p.host then hostWildRe else wildRe]
      | s => .char (if p.host then '.' else '/') :: segPieces p.host s) ++ tailPieces ps

def endsWild : List Part → Bool
  | [] => false
  | [p] => p.seg == .wild
  | _ :: ps => endsWild ps

/-- How the method appears in the expression: a named method (literal text) or "any method" (F14b). -/
def methodPieces (method : Option (List Char)) : List Re :=
  match method with
  | some m => m.map Re.char
  | none => [anyMethodRe]

def methodText (method : Option (List Char)) : List Char := method.getD anyMethodRegex

/-- Intended meaning of the registered expression for `method` and pattern `P`. -/
def formatAST (method : Option (List Char)) (P : List Part) : Re :=
  match P with
  | [] => catList (methodPieces method ++ delimiter.map Re.char ++ [.eol])
  | p :: ps =>
    catList (methodPieces method ++ delimiter.map Re.char ++ segPieces true p.seg ++ tailPieces ps
      ++ (if endsWild (p :: ps) then [] else [.eol]))

/-! ### 3. Registration -/


structure Flow where
  name : String
  url : String
  methods : List String
  expr : Bool             -- the filter carries `expressions` (evaluated by the engine on the message itself)
deriving DecidableEq, Repr

/-- `Filter.IsAnyURLAccepted` -/
def isAnyURL (url : String) : Bool := url == "" || url == "*" || url == ".*"

/-- Lexicographic order on character lists (bytewise order of `sort.Strings` on ASCII). -/
def leChars : List Char → List Char → Bool
  | [], _ => true
  | _ :: _, [] => false
  | a :: as, b :: bs => if a.toNat < b.toNat then true else if b.toNat < a.toNat then false else leChars as bs

def insertStr (a : String) : List String → List String
  | [] => [a]
  | b :: bs => if leChars a.toList b.toList then a :: b :: bs else b :: insertStr a bs

/-- `sort.Strings` -/
def sortStr : List String → List String
  | [] => []
  | a :: as => insertStr a (sortStr as)

/-- `ToComparable` restricted to what the flows of this model carry: URL and the sorted method list. -/
def Flow.key (f : Flow) : String × List String := (f.url, sortStr f.methods)

/-- One representative per key, in order of first... last occurrence (order is immaterial: map). -/
def dedup {α : Type} [DecidableEq α] : List α → List α
  | [] => []
  | a :: as => if a ∈ as then dedup as else a :: dedup as

/-- `buildHAProxyFlowsEndpointsRequest` after F14b: a filter that names no method gets ONE expression whose
    method part accepts any method. -/
def keyEntries (k : String × List String) : List (List Char) :=
  if k.2.isEmpty then [formatEndpoint anyMethodRegex k.1.toList]
  else k.2.map fun m => formatEndpoint m.toList k.1.toList

/-- An endpoint policy: its remedies and diagnoses, each with its `enabled` flag, in declaration order. -/
structure Policy where
  name : String
  method : String
  url : String
  rem : List Bool
  diag : List Bool
deriving DecidableEq, Repr

/-- Some plugin of the endpoint is enabled (then the engine applies it to the requests the endpoint matches). -/
def Policy.enabled (p : Policy) : Bool := p.rem.any id || p.diag.any id

inductive Cfg where
  | flows (fs : List Flow)
  | policies (ps : List Policy) (globalOn : Bool)
deriving Repr

/-- `ManageAll` of the request sent to the proxy. -/
def manageAll : Cfg → Bool
  | .flows fs => fs.any fun f => isAnyURL f.url
  | .policies _ g => g

/-- `ManagedEndpoints` (as a multiset; the Go side ranges over a map). -/
def registered : Cfg → List (List Char)
  | .flows fs => (dedup (fs.map Flow.key)).flatMap keyEntries
  | .policies ps _ =>
    -- `BuildHAProxyEndpointsRequest`: one entry per ENABLED remedy, then per enabled diagnosis, of every endpoint
    ps.flatMap fun p => ((p.rem.filter id) ++ (p.diag.filter id)).map fun _ => formatEndpoint p.method.toList p.url.toList

/-! ### 5. The proxy's `is_managed` -/

def managedB (cfg : Cfg) (method url : String) : Bool :=
  manageAll cfg || (registered cfg).any fun e => exprSearch e (subject method.toList url.toList)

/-! ### 4a. Flows mode: the filter tree (after F03a, F03b, F03d) -/

structure FNode where
  flows : List Flow
deriving Repr

structure FTree where
  tree : Tree Nat := []
  nodes : List FNode := []
  byUrl : List (String × Nat) := []      -- `FilterTree.nodes`: filter nodes by trimmed declared URL
deriving Repr

inductive AddRes where
  | ok (t : FTree)
  | err                            -- `InsertDeclaredURL` failed

def findKey (k : String) : List (String × Nat) → Option Nat
  | [] => none
  | (k', i) :: rest => if k' = k then some i else findKey k rest

/-- `FilterTree.AddFlow` (user flows): a flow is merged only into the node of its OWN (trimmed) URL. -/
def addFlow (ft : FTree) (f : Flow) : AddRes :=
  let key := trimURL f.url
  match findKey key ft.byUrl with
  | some i => .ok { ft with nodes := ft.nodes.modify i fun n => { n with flows := n.flows ++ [f] } }
  | none =>
    match insertParts ft.tree (splitURL f.url) ft.nodes.length true with
    | .error _ => .err
    | .ok t' => .ok ⟨t', ft.nodes ++ [⟨[f]⟩], ft.byUrl ++ [(key, ft.nodes.length)]⟩

/-- `isMethodQualified`: by the flow's OWN method list; none named = any method. -/
def methodOK (f : Flow) (method : String) : Bool :=
  -- `isFlowValid`: an expression filter is validated by `validateExpr` alone, which does not look at the method
  f.expr || f.methods.isEmpty || f.methods.contains method

/-- `FilterTree.GetFlow`: names of the user flows selected for a request.  The traversal is w-c03's model
    `C03.lookupFlow` of url_tree_flow_traversal.go (after F03b/c/f: `matchedAll`, zero-segment wildcard, no
    empty segment for a parameter). -/
def getFlow (ft : FTree) (method url : String) : List String :=
  let us := splitURL url
  (C03.lookupFlow ft.tree us).flatMap fun i =>
    match ft.nodes[i]? with
    | some n => (n.flows.filter fun f => methodOK f method).map (·.name)
    | none => []

/-! ### 4b. Policy mode: the endpoint policy tree (C13 model) -/

def Policy.endpoint (p : Policy) : C13.Endpoint :=
  ⟨p.method, p.url, splitURL p.url, p.rem.map (fun e => ⟨p.name, 0, e⟩), p.diag.map (fun e => ⟨p.name, e⟩)⟩

def buildPolicies (ps : List Policy) : Except C13.BuildErr C13.PTree := C13.build (ps.map Policy.endpoint)

/-- Names of the endpoint policies of which the engine applies at least one enabled plugin to the request
    (`getRemedies` / `getDiagnoses`: the enabled ones of the policy the lookup selects for the method). -/
def selectPolicies (pt : C13.PTree) (method url : String) : List String :=
  List.foldl (fun acc a => if a ∈ acc then acc else acc ++ [a]) [] ((C13.getRemedies pt ⟨[], []⟩ method (splitURL url)).1 ++ (C13.getDiagnoses pt ⟨[], []⟩ method (splitURL url)).1)

end LunarVerif.C14
