/-
String-level vocabulary of the C19 model (core Lean only): hosts are `List Char`, the IPv4 / IPv6
literal recognisers are those of Python 3.11 `ipaddress` (`IPv4Address._ip_int_from_string`,
`IPv6Address._ip_int_from_string`, `_split_scope_id`), the host validator is the pair of regular
expressions of `traffic_filter.py` (`_NOT_ONLY_NUMBERS`, `_RE_ADDRESS_VALIDATOR`) rewritten as a
character-level recogniser, and the private-range table is `_PRIVATE_IP_RANGES` / `_BLACK_HOLE`
with `IPv4Network.__contains__` as an integer interval test.

Assumption (stated in notes/C19.md): strings are printable ASCII without newline (Python's `\d`
also matches non-ASCII digits and `$` matches before a trailing newline; neither is modelled).
-/
namespace LunarVerif.C19

abbrev Str := List Char

/-- Python `str.split(sep)` for a one-character separator (never returns the empty list). -/
def splitOnC (sep : Char) : Str → List Str
  | [] => [[]]
  | c :: cs =>
    if c = sep then [] :: splitOnC sep cs
    else match splitOnC sep cs with
      | [] => [[c]]
      | p :: ps => (c :: p) :: ps

def isAsciiDigit (c : Char) : Bool := decide (48 ≤ c.toNat) && decide (c.toNat ≤ 57)
def isAsciiAlpha (c : Char) : Bool :=
  (decide (65 ≤ c.toNat) && decide (c.toNat ≤ 90)) || (decide (97 ≤ c.toNat) && decide (c.toNat ≤ 122))
def isAlnum (c : Char) : Bool := isAsciiDigit c || isAsciiAlpha c
def isHex (c : Char) : Bool :=
  isAsciiDigit c || (decide (65 ≤ c.toNat) && decide (c.toNat ≤ 70))
    || (decide (97 ≤ c.toNat) && decide (c.toNat ≤ 102))

/-- Decimal value of a digit string. -/
def decVal (s : Str) : Nat := s.foldl (fun acc c => acc * 10 + (c.toNat - 48)) 0

/-- `IPv4Address._parse_octet` (Python ≥ 3.9.5: leading zeros rejected). -/
def parseOctet (s : Str) : Option Nat :=
  if s.isEmpty then none
  else if !s.all isAsciiDigit then none
  else if decide (3 < s.length) then none
  else if decide (1 < s.length) && (s.head? == some '0') then none
  else if decide (255 < decVal s) then none
  else some (decVal s)

structure IPv4 where
  a : Nat
  b : Nat
  c : Nat
  d : Nat
deriving Repr, DecidableEq

/-- `IPv4Address(s)`: `none` = `AddressValueError`. -/
def parseIPv4 (s : Str) : Option IPv4 :=
  if s.contains '/' then none else
  match splitOnC '.' s with
  | [p, q, r, t] =>
    match parseOctet p, parseOctet q, parseOctet r, parseOctet t with
    | some a, some b, some c, some d => some ⟨a, b, c, d⟩
    | _, _, _, _ => none
  | _ => none

def digitChar (n : Nat) : Char := Char.ofNat (48 + n)

/-- Canonical decimal rendering of an octet (what `inet_ntoa` / `str(IPv4Address)` print). -/
def renderOctet (n : Nat) : Str :=
  if n < 10 then [digitChar n]
  else if n < 100 then [digitChar (n / 10), digitChar (n % 10)]
  else [digitChar (n / 100), digitChar (n / 10 % 10), digitChar (n % 10)]

/-- Dotted-quad rendering. -/
def render (ip : IPv4) : Str :=
  renderOctet ip.a ++ '.' :: (renderOctet ip.b ++ '.' :: (renderOctet ip.c ++ '.' :: renderOctet ip.d))

def IPv4.toNat (ip : IPv4) : Nat := ip.a * 16777216 + ip.b * 65536 + ip.c * 256 + ip.d

/-- An `IPv4Network` as the closed interval `[network_address, broadcast_address]`. -/
structure Net where
  lo : Nat
  hi : Nat
deriving Repr, DecidableEq

def net10 : Net := ⟨167772160, 184549375⟩        -- 10.0.0.0/8
def net127 : Net := ⟨2130706432, 2147483647⟩     -- 127.0.0.0/8
def net172 : Net := ⟨2886729728, 2887778303⟩     -- 172.16.0.0/12
def net192 : Net := ⟨3232235520, 3232301055⟩     -- 192.168.0.0/16
def blackHole : Net := ⟨0, 0⟩                     -- 0.0.0.0/32

/-- `_PRIVATE_IP_RANGES.get(ip[:2], _BLACK_HOLE)`: keyed by the first two CHARACTERS. -/
def netOf (key : Str) : Net :=
  if key = ['1', '0'] then net10
  else if key = ['1', '2'] then net127
  else if key = ['1', '7'] then net172
  else if key = ['1', '9'] then net192
  else blackHole

/-- `IPv4Network.__contains__`. -/
def inNet (n : Net) (ip : IPv4) : Bool := decide (n.lo ≤ ip.toNat) && decide (ip.toNat ≤ n.hi)

/-- `_parse_hextet`: 1–4 ASCII hex digits. -/
def validHextet (s : Str) : Bool := !s.isEmpty && decide (s.length ≤ 4) && s.all isHex

/-- The part of `IPv6Address._ip_int_from_string` after the optional IPv4 tail was replaced. -/
def v6Parts (parts : List Str) : Bool :=
  let n := parts.length
  if decide (9 < n) then false else
  let inner := (parts.drop 1).dropLast
  let empties := inner.countP (·.isEmpty)
  if decide (1 < empties) then false
  else if empties = 1 then
    let skip := 1 + inner.findIdx (·.isEmpty)
    let hi0 := skip
    let lo0 := n - skip - 1
    let headEmpty := (parts.head?.map (·.isEmpty)).getD false
    let lastEmpty := (parts.getLast?.map (·.isEmpty)).getD false
    let hi := if headEmpty then hi0 - 1 else hi0
    let lo := if lastEmpty then lo0 - 1 else lo0
    if headEmpty && decide (hi ≠ 0) then false
    else if lastEmpty && decide (lo ≠ 0) then false
    else if decide (7 < hi + lo) then false
    else (parts.take hi).all validHextet && (parts.drop (n - lo)).all validHextet
  else
    decide (n = 8) && parts.all validHextet

/-- `IPv6Address(s)` succeeds. -/
def isIPv6 (s : Str) : Bool :=
  if s.contains '/' then false else
  -- `_split_scope_id`: at most one '%', and a non-empty scope after it
  let pieces := splitOnC '%' s
  let addr := pieces.head?.getD []
  let scopeOk := match pieces with
    | [_] => true
    | [_, sc] => !sc.isEmpty
    | _ => false
  if !scopeOk then false
  else if addr.isEmpty then false
  else
    let parts := splitOnC ':' addr
    if decide (parts.length < 3) then false else
    let last := parts.getLast?.getD []
    if last.contains '.' then
      match parseIPv4 last with
      | none => false
      | some _ => v6Parts (parts.dropLast ++ [['0'], ['0']])
    else v6Parts parts

/-- `TrafficFilter._validate_ip`: `ipaddress.ip_address(s)` does not raise. -/
def validateIp (s : Str) : Bool := (parseIPv4 s).isSome || isIPv6 s

/-- `^[\d.]+$` matches. -/
def onlyDigitsDots (s : Str) : Bool := !s.isEmpty && s.all (fun c => isAsciiDigit c || c == '.')

/-- `[A-Za-z0-9]|[A-Za-z0-9][A-Za-z0-9\-]*[A-Za-z0-9]` matches the whole string. -/
def validLabel (s : Str) : Bool :=
  !s.isEmpty && s.all (fun c => isAlnum c || c == '-') &&
  (s.head?.map isAlnum).getD false && (s.getLast?.map isAlnum).getD false

def hasAdjAlnum : Str → Bool
  | a :: b :: r => (isAlnum a && isAlnum b) || hasAdjAlnum (b :: r)
  | _ => false

/-- `(unit){2,}` matches the whole string: a valid label that can be cut between two
    alphanumerics (so `a-b` and `a` are rejected, `ab`, `a-bc` accepted). -/
def validFinal (s : Str) : Bool := validLabel s && hasAdjAlnum s

/-- `TrafficFilter._validate_host`. -/
def validateHost (s : Str) : Bool :=
  if onlyDigitsDots s then false else
  let ps := splitOnC '.' s
  ps.dropLast.all validLabel && validFinal (ps.getLast?.getD [])

/-- An access-list entry survives validation. -/
def validEntry (s : Str) : Bool := validateHost s || validateIp s

end LunarVerif.C19
