import LunarVerif.Model.C11
/-
Level 2 of C11: the handler glue of `routing/messages_handler.go` in policy mode.

`processRequest` and `processResponse` both call `GetTxnPoliciesData(config.TxnID(args.ID))` - the
transaction's OWN id on both paths (not the sequence id that retried attempts share) - and hand the
policies obtained to `DispatchOnRequest` / `DispatchOnResponse`.  The accessor is the level-1 model
(`Model/C11.lean`); the clock does not advance at this level.

The third consumer of the pinned version is the diagnosis leg: `DispatchOnResponse` hands the finished
transaction to the `DiagnosisWorker` (runner/diagnosis_worker.go), whose goroutine later resolves the
policies again by `GetTxnPoliciesData(TxnID(taskKey))` - per task, under the task's own id - and runs the
diagnoses of THAT version (`drain`).  When it runs (backlog, reloads in between) is arbitrary: `diag` is an
ordinary op.

What makes the version used observable (the "lens", mirrored by the policies the harness loads for
label `k`): on the request path a global account-orchestration remedy stamps the label on the request;
on the response path a global retry remedy (`services/remedies/retry_plugin.go`; attempts 3, multiplier
1, initial cool-down `10 + k % 10`) fires only on status `500 + k % 10`.  The stamp lives in the
`accounts` section of the policies, the retry remedy in `global`: two labels with the same units digit
differ in the accounts section only (an operator rotating a key).  `retryLens` is that plugin: state per
SEQUENCE id = (attempts left, next cool-down).
-/
namespace LunarVerif.C11

def lensAttempts : Nat := 3
def lensCooldown (k : Nat) : Nat := 10 + k % 10
def lensStatus (k : Nat) : Nat := 500 + k % 10

/-- `RetryPlugin.OnResponse` under the policies of label `k` (cache never expires: frozen clock). -/
def retryLens (retry : List (Nat × (Nat × Nat))) (k id seq status : Nat) :
    List (Nat × (Nat × Nat)) × Option Nat :=
  if status = lensStatus k then
    let st := match mfind seq retry with
      | some s => some s
      | none => if id = seq then some (lensAttempts, lensCooldown k) else none   -- IsNewSequence
    match st with
    | none => (retry, none)
    | some (a, c) =>
      (if a - 1 < 1 then eraseAll [seq] retry else minsert seq (a - 1, c) retry, some c)
  else (eraseAll [seq] retry, none)   -- "ensure cache is cleared in case retry is not required"

structure GSt where
  acc     : St
  loaded  : Nat                         -- label of loaded-policies.yaml (last applied reload)
  retry   : List (Nat × (Nat × Nat))    -- RetryPlugin cache
  seen    : List Nat := []              -- DiagnosisWorker.diagnosisCache: ids whose request is stored
  pending : List Nat := []              -- DiagnosisWorker.diagnosisData: task keys queued (FIFO)
deriving Repr

def ginit (cfg : Cfg) (t0 : Nat) : GSt := { acc := init cfg t0, loaded := cfg.d0, retry := [] }

/-- What the diagnosis lens shows of policies `k`: the metrics-collector diagnosis records request
    header `x-dg-<k % 10>`. -/
def diagLens (k : Nat) : Nat := k % 10

/-- Labels `≥ 1000` are the diagnosis-free variant of label `k - 1000` (`/revert_to_diagnosis_free` applies the
    last loaded policies with every diagnosis stripped): same remedies and accounts, no diagnosis. -/
def hasDiag (k : Nat) : Bool := decide (k < 1000)

/-- What the request stamp shows of policies `k` (the account token does not tell the two variants apart). -/
def stampLens (k : Nat) : Nat := k % 1000

def labelHasDiag : Option Nat → Bool
  | some k => hasDiag k
  | none => false

inductive GOp where
  | req (id seq : Nat)                 -- lunar-on-request
  | resp (id seq status : Nat)         -- lunar-on-response
  | reload (k : Nat) (ok : Bool)       -- POST /apply_policies (ok = false: the file is rejected)
  | revert (free : Bool)               -- POST /revert_to_last_loaded | /revert_to_diagnosis_free (free)
  | diag                               -- the DiagnosisWorker goroutine works off everything queued
deriving Repr, DecidableEq

inductive GEv where
  | req (id seq : Nat) (ver : Option Nat)             -- label stamped on the request
  | resp (id seq status : Nat) (retry : Option Nat)   -- x-lunar-retry-after, if any
  | reload (k : Nat)                                  -- applied reload / revert (policies of label k)
  | diag (id : Nat) (r : Option Nat)                  -- exported diagnosis record of transaction `id`
deriving Repr, DecidableEq

/-- `GetTxnPoliciesData(id)`: the accessor step and the data it returned. -/
def lookupLabel (cfg : Cfg) (a : St) (id : Nat) : St × Option Nat :=
  match step cfg a (.lookup id) with
  | (a', some (.lookup _ _ r)) => (a', r)
  | (a', _) => (a', none)

/-- `DiagnosisWorker.diagnosisWorker`: for every queued task key, `GetTxnPoliciesData(TxnID(taskKey))`
    - keyed by the task's OWN transaction id, resolved per task - then `RunTask`, which exports a record
    when the request of that transaction is in the worker's cache. -/
def drain (cfg : Cfg) (seen : List Nat) : St → List Nat → St × List GEv
  | a, [] => (a, [])
  | a, id :: rest =>
    let (a', r) := lookupLabel cfg a id
    let (a'', evs) := drain cfg seen a' rest
    -- RunTask exports a record when the request is cached and the policies resolved have a diagnosis
    (a'', if seen.contains id && labelHasDiag r then .diag id (r.map diagLens) :: evs else evs)

def gstep (cfg : Cfg) (g : GSt) : GOp → GSt × List GEv
  | .req id seq =>
    let (a', r) := lookupLabel cfg g.acc id          -- keyed by args.ID
    -- shouldDiagnose (the policies obtained have an enabled diagnosis) ⇒ AddRequestToTask
    ({ g with acc := a', seen := if labelHasDiag r then id :: g.seen else g.seen },
     [.req id seq (r.map stampLens)])
  | .resp id seq status =>
    let (a', r) := lookupLabel cfg g.acc id          -- keyed by args.ID
    match r with
    | none => ({ g with acc := a' }, [.resp id seq status none])   -- empty policies: nothing runs
    | some k =>
      let (rt, out) := retryLens g.retry k id seq status
      -- shouldDiagnose ⇒ AddResponseToTask, NotifyTaskReady(id)
      ({ g with acc := a', retry := rt, pending := if hasDiag k then g.pending ++ [id] else g.pending },
       [.resp id seq status out])
  | .reload k true =>
    ({ g with acc := (step cfg g.acc (.update k true)).1, loaded := k }, [.reload k])
  | .reload _ false => (g, [])
  | .revert free =>
    let k := g.loaded + (if free then 1000 else 0)
    ({ g with acc := (step cfg g.acc (.update k true)).1 }, [.reload k])
  | .diag =>
    let (a', evs) := drain cfg g.seen g.acc g.pending
    ({ g with acc := a', pending := [] }, evs)

def grunSt (cfg : Cfg) : GSt → List GOp → GSt
  | g, [] => g
  | g, o :: os => grunSt cfg (gstep cfg g o).1 os

/-- Observable history (oldest first). -/
def grun (cfg : Cfg) : GSt → List GOp → List GEv
  | _, [] => []
  | g, o :: os => (gstep cfg g o).2 ++ grun cfg (gstep cfg g o).1 os

end LunarVerif.C11
