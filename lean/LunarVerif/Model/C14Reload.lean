import LunarVerif.Model.C14
/-
Model for C14, lifetime dimension: what is registered with the proxy over a SEQUENCE of configuration reloads.

Code: `config.TxnPoliciesAccessor.UpdatePoliciesData` (policies_accessor.go:133-180) and, with the same shape,
`routing.HandlingDataManager.initializeStreams` (handling_data_manager.go:248-290):

    previous := request built from the configuration in force        (a FRESH []*HAProxyEndpointData)
    new      := request built from the new configuration
    ManageHAProxyEndpoints(new)          manage-all ⇒ PUT /manage_all only; else PUT /managed_endpoint per entry
    toRemove := lo.Difference(previous.ManagedEndpoints, new.ManagedEndpoints)
    go { clock.Sleep(staleVersionTTL); DELETE /managed_endpoint per entry of toRemove }
    previous.ManageAll && !new.ManageAll ⇒ go { Sleep(TTL); DELETE /unmanage_global }        (policies only)

`lo.Difference` compares the slice ELEMENTS, which are pointers: no freshly built entry is ever equal to another
one, so `toRemove` is ALL of `previous.ManagedEndpoints` (`Mode.ptr`, the code as it is, finding F14g).
`Mode.byString` = entries compared by their `Endpoint` text (repair F14g); `Mode.stamped` = in addition a scheduled
un-manage skips what a later request registered again (repair F14h: every registration is stamped with the serial
number of its request, a job only removes entries whose stamp is not newer than the job's).

The proxy (haproxy.cfg admin frontend): `managed` = keys of endpoints.map (PUT adds, DELETE removes), `all` =
proc.manage_all.  Reloads and timer firings are atomic events (in the code as it is nothing serialises them;
F14h.patch adds the mutex that makes this exact).  Times in milliseconds.
-/
namespace LunarVerif.C14.Reload

inductive Mode where
  | ptr | byString | stamped
deriving DecidableEq, Repr

/-- `HAProxyEndpointsRequest`: `ManageAll` and the `Endpoint` texts of `ManagedEndpoints`. -/
structure Req where
  ma : Bool
  eps : List String
deriving DecidableEq, Repr

/-- A sleeping un-manage goroutine. -/
structure Job where
  due : Nat
  serial : Nat            -- serial number of the request that scheduled it
  global : Bool           -- `unmanageGlobal` (else: `unmanageHAProxyEndpoints eps`)
  eps : List String
deriving DecidableEq, Repr

/-- A transaction in flight, anchored (`TxnPoliciesAccessor.setTxnVersion`) to the policies version that was in
    force when its request leg reached the engine. -/
structure Txn where
  id : String
  req : Req               -- request of the policies version it is anchored to
  anchor : Nat            -- instant of anchoring
  sup : Option Nat        -- instant at which that version was superseded by an update
  voided : Bool           -- superseded by an update that un-manages immediately (fail-safe revert: by design)
deriving DecidableEq, Repr

structure St where
  txns : List Txn := []
  now : Nat := 0
  managed : List String := []          -- endpoints.map (a set; duplicates are immaterial)
  all : Bool := false                  -- proc.manage_all
  cur : Req := ⟨false, []⟩            -- request of the configuration in force
  jobs : List Job := []
  serial : Nat := 0
  stamps : List (String × Nat) := []   -- Mode.stamped: serial of the last request that registered the entry
  allStamp : Nat := 0
  failPut : Nat := 0                   -- the admin server refuses the next `failPut` PUTs (manage requests)
  failDel : Nat := 0                   -- … and the next `failDel` DELETEs (un-manage requests)
deriving Repr

/-- `staleVersionTTL` = 30 s -/
def ttl : Nat := 30000

def stampOf (stamps : List (String × Nat)) (e : String) : Nat :=
  match stamps with
  | [] => 0
  | (k, s) :: rest => if k = e then s else stampOf rest e

/-- `updateHAProxyEndpoints`' loop: PUT the entries in order until the admin server refuses one.  Result: the
    entries registered, the entries stamped (the refused one was stamped before its PUT), the failure budget left,
    and whether the whole request went through. -/
def putAll : Nat → List String → List String × List String × Nat × Bool
  | f, [] => ([], [], f, true)
  | 0, e :: es =>
    let r := putAll 0 es
    (e :: r.1, e :: r.2.1, r.2.2.1, r.2.2.2)
  | f + 1, e :: _ => ([], [e], f, false)

/-- `unmanageHAProxyEndpoints`' loop: DELETE in order until the admin server refuses one. -/
def delAll : Nat → List String → List String × Nat
  | f, [] => ([], f)
  | 0, e :: es => let r := delAll 0 es; (e :: r.1, r.2)
  | f + 1, _ :: _ => ([], f)

/-- `setNextVersion`: the transactions anchored to the version in force now see it superseded at `t`. -/
def supersede (t : Nat) (txns : List Txn) : List Txn :=
  txns.map fun x => if x.sup.isNone then { x with sup := some t } else x

/-- One update (`UpdatePoliciesData`; the flows path is the same without the global job).  The manage request
    comes FIRST; only when it went through are the new policies published (`setNextVersion`) and the un-manage of
    what left the configuration scheduled.  `publishFirst` = the other order (not the code; for the witness). -/
def reload (m : Mode) (st : St) (new : Req) (publishFirst : Bool := false) : St :=
  let prev := st.cur
  let s := st.serial + 1
  let toRemove := match m with
    | .ptr => prev.eps                                   -- pointer identity: nothing is ever "still there"
    | _ => prev.eps.filter (fun e => !new.eps.contains e)
  let jobsG : List Job := if prev.ma && !new.ma then [⟨st.now + ttl, s, true, []⟩] else []
  let jobsE : List Job := if toRemove.isEmpty then [] else [⟨st.now + ttl, s, false, toRemove⟩]
  let curFail := if publishFirst then new else st.cur
  if new.ma then
    match st.failPut with
    | f + 1 => { st with allStamp := s, serial := s, failPut := f, cur := curFail }        -- PUT /manage_all refused
    | 0 => { st with all := true, allStamp := s, serial := s, cur := new, jobs := st.jobs ++ jobsG ++ jobsE,
                     txns := supersede st.now st.txns }
  else
    let r := putAll st.failPut new.eps
    let st1 := { st with managed := st.managed ++ r.1, stamps := r.2.1.map (·, s) ++ st.stamps, serial := s,
                         failPut := r.2.2.1 }
    if r.2.2.2 then { st1 with cur := new, jobs := st.jobs ++ jobsG ++ jobsE, txns := supersede st.now st.txns }
    else { st1 with cur := curFail }

/-- Does the manage request of an update go through (no PUT refused)? -/
def reloadOK (st : St) (new : Req) : Bool :=
  if new.ma then st.failPut == 0 else (putAll st.failPut new.eps).2.2.2

/-- A job wakes up. -/
def fire (m : Mode) (st : St) (j : Job) : St :=
  if j.global then
    if m = .stamped ∧ j.serial < st.allStamp then st
    else match st.failDel with
      | f + 1 => { st with failDel := f }
      | 0 => { st with all := false }
  else
    let stale := j.eps.filter fun e => m != .stamped || decide (stampOf st.stamps e ≤ j.serial)
    let r := delAll st.failDel stale
    { st with managed := st.managed.filter (fun e => !r.1.contains e), failDel := r.2 }

/-- Time passes: every job that is due fires. -/
def advance (m : Mode) (st : St) (d : Nat) : St :=
  let t := st.now + d
  let st' := (st.jobs.filter (fun j => decide (j.due ≤ t))).foldl (fire m) st
  { st' with now := t, jobs := st.jobs.filter (fun j => !decide (j.due ≤ t)) }

/-- `UpdatePoliciesData(…, unmanageImmediately = true)` (the fail-safe reverts `RevertToDiagnosisFree` /
    `RevertToLastLoaded`): the same update, but what left the configuration is un-managed at once — the entries
    first, then manage-all — instead of by a sleeping goroutine. -/
def reloadNow (m : Mode) (st : St) (new : Req) : St :=
  let st1 := reload m st new
  if !reloadOK st new then st1
  else
    let st2 := ((st1.jobs.drop st.jobs.length).reverse).foldl (fire m) st1
    { st2 with jobs := st.jobs, txns := st2.txns.map fun x => { x with voided := true } }

/-- The request leg of transaction `id` reaches the engine: it is anchored to the version in force. -/
def anchorTxn (st : St) (id : String) : St :=
  if st.txns.any (·.id == id) then st else { st with txns := st.txns ++ [⟨id, st.cur, st.now, none, false⟩] }

/-- Is the transaction still served from its anchored version?  (`txnVersionsVacuum` / `policiesVersionsVacuum`
    keep the anchor and a superseded version for `ttl`; the precise end of that retention is C11's subject.) -/
def Txn.valid (x : Txn) (now : Nat) : Bool :=
  !x.voided && decide (now < x.anchor + ttl) && (match x.sup with | none => true | some s => decide (now < s + ttl))

/-- What the engine would still apply to the response leg of transaction `id`: the request of its anchored
    version, while that version is retained. -/
def txnView (st : St) (id : String) : Option Req :=
  match st.txns.find? (·.id == id) with
  | some x => if x.valid st.now then some x.req else none
  | none => none

inductive Ev where
  | txn (id : String)
  | reload (r : Req)
  | reloadNow (r : Req)
  | advance (d : Nat)
  | fail (puts dels : Nat)        -- the admin server will refuse the next PUTs / DELETEs
deriving Repr

def step (m : Mode) (st : St) : Ev → St
  | .txn id => anchorTxn st id
  | .reload r => reload m st r
  | .reloadNow r => reloadNow m st r
  | .advance d => advance m st d
  | .fail p d => { st with failPut := p, failDel := d }

def run (m : Mode) (st : St) (evs : List Ev) : St := evs.foldl (step m) st

/-- The mode that mirrors /repo as it is. -/
def codeMode : Mode := .stamped

end LunarVerif.C14.Reload
