import LunarVerif.Model.C04
/-
Which flows take part in a transaction: the flow FILTER (method / headers / status code / query parameters)
as `FilterNode.isFlowValid` evaluates it (streams/filter/filter_lookup_validation.go), and the re-selection
`executeReq` performs after a processor answered the request: the stream is switched to response type and
`filterTree.GetFlow` is asked again BEFORE any response exists (`Phase.early`).

  method       : checked in every phase against `APIStream.GetMethod()` — the response's method on a real response,
                 the REQUEST's method while there is no response object (early-response walk);
  headers      : request phase only (every named header must carry one of the listed values);
  query params : request phase only (parameter present, and equal to the value when one is given);
  status code  : response phases only; without a response object (early-response walk) a flow that names status
                 codes does not qualify.
System flows of quotas carry no such constraints.
-/
namespace LunarVerif.C04
open LunarVerif.FlowGraph LunarVerif.FlowExec

structure Filter where
  url : String := "x"            -- "x" / "y": the exact test URLs; "*": the wildcard pattern `host/*`
  methods : List String := []
  headers : List (String × String) := []
  status : List Nat := []
  query : List (String × Option String) := []
deriving DecidableEq, Repr, Inhabited

/-- what the filter looks at in a transaction -/
structure TxnAttrs where
  url : String := "x"
  method : String := "GET"
  headers : List (String × String) := []
  query : List (String × String) := []
  status : Nat := 200
  respMethod : String := "GET"    -- `OnResponse.Method` of a real response
deriving DecidableEq, Repr, Inhabited

inductive Phase where
  | req     -- request stream
  | res     -- response stream carrying a response
  | early   -- response-typed stream of an early response: no response object yet
deriving DecidableEq, Repr, Inhabited

def Filter.methodOk (f : Filter) (t : TxnAttrs) (p : Phase) : Bool :=
  f.methods.isEmpty || f.methods.contains (match p with | .res => t.respMethod | _ => t.method)

def Filter.headersOk (f : Filter) (t : TxnAttrs) : Bool :=
  f.headers.all fun (k, _) =>
    (f.headers.filter (·.1 == k)).any fun (_, v) => t.headers.any fun (k', v') => k' == k && v' == v

def Filter.queryOk (f : Filter) (t : TxnAttrs) : Bool :=
  f.query.all fun (k, v) =>
    match t.query.find? (·.1 == k) with
    | none => false
    | some (_, v') => match v with | none => true | some x => x == v'

def Filter.statusOk (f : Filter) (t : TxnAttrs) (p : Phase) : Bool :=
  f.status.isEmpty || (match p with | .res => f.status.contains t.status | _ => false)

/-- the flow's URL pattern is on the path the filter tree traverses for the transaction's URL -/
def Filter.urlOk (f : Filter) (t : TxnAttrs) : Bool := f.url == "*" || f.url == t.url

/-- URL traversal + `FilterNode.validate` -/
def Filter.qualifies (f : Filter) (t : TxnAttrs) : Phase → Bool
  | .req => f.urlOk t && f.headersOk t && f.methodOk t .req && f.queryOk t
  | .res => f.urlOk t && f.statusOk t .res && f.methodOk t .res
  | .early => f.urlOk t && f.statusOk t .early && f.methodOk t .early

/-- the flows of a loaded configuration that qualify (`filters`: flow name ↦ filter; absent = unconstrained) -/
def selectFor (filters : List (String × Filter)) (t : TxnAttrs) (p : Phase) (s : Selected) : Selected :=
  let ok := fun (f : Flow) =>
    match filters.find? (·.1 == f.name) with
    | some (_, fl) => fl.qualifies t p
    | none => true
  let wild := fun (f : Flow) =>
    match filters.find? (·.1 == f.name) with
    | some (_, fl) => fl.url == "*"
    | none => false
  -- the traversal yields the wildcard node's flows before those of the exact node
  let arrange := fun (l : List Flow) => (l.filter ok).filter wild ++ (l.filter ok).filter (!wild ·)
  { start := arrange s.start, user := arrange s.user, finish := arrange s.finish }

/-- `Stream.executeReq` with the re-selection of the early-response walk: `s` = flows selected for the request,
    `s'` = flows selected again (response type, no response) once a processor has answered. -/
def executeReq2 (s s' : Selected) (o : Oracle) (fuel : Nat) : TxnRes :=
  let a := runAll o .req fuel s.start
  if a.err.isSome then { trace := a.trace, err := a.err } else
  let (bt, sc, be) := runUserReq o fuel s.user
  if be.isSome then { trace := a.trace ++ bt, err := be } else
  let c := runAll o .req fuel s.finish
  if c.err.isSome then { trace := a.trace ++ bt ++ c.trace, err := c.err } else
  match sc with
  | none => { trace := a.trace ++ bt ++ c.trace }
  | some _ =>
    let r := executeRes s' o fuel sc
    { r with trace := a.trace ++ bt ++ c.trace ++ r.trace }

/-- without re-selection differences this is `executeReq` -/
theorem executeReq2_same (s : Selected) (o : Oracle) (fuel : Nat) : executeReq2 s s o fuel = executeReq s o fuel := rfl

/-- a transaction with filters -/
def transactionSel (filters : List (String × Filter)) (t : TxnAttrs) (all : Selected) (o : Oracle) (fuel : Nat) :
    Dir → TxnRes
  | .req => executeReq2 (selectFor filters t .req all) (selectFor filters t .early all) o fuel
  | .res => executeRes (selectFor filters t .res all) o fuel none

end LunarVerif.C04
