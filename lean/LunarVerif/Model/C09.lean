/-
Model of policy-mode strategy-based throttling.  Core Lean only.

  utils/limit/single_rate_limit_state.go      ↦ `KeyState`, `ensure`, `tryInc`
  utils/limit/rate_limit_state_by_limiter.go  ↦ `State` (association list keyed by `κ`), `stepL`, `countersL`
  services/remedies/strategy_based_throttling_plugin.go ↦ `resolve`, `pluginStep`

Time is `Nat` nanoseconds since the Unix epoch (`epochTime = time.Unix(0,0)` ↦ 0).  The Go code mirrored
here (same comparison operators; this is the code AFTER the repairs fix F09a [`!Before` instead of the strict
`After`] and fix F09c [the stored window end is dropped when the window size changes]):

    if state.windowData.WindowSize != windowData.WindowSize { state.windowEndTime = epochTime }   -- F09c
    state.windowData = windowData
    if !windowData.SpilloverEnabled { state.spillover = 0 }                                        -- F09f
    ensureWindowIsUpdated():  start := (now / W) * W ; end := start + W
                              if !now.Before(state.windowEndTime) {          -- F09a: not strict
                                 if SpilloverEnabled && windowEndTime != epoch {
                                    if now.Day() == RenewOnDay { spill = 0 } else { spill += allowed - counter } }
                                 counter = 0 ; windowEndTime = end }
    max := scaledCeil(allowed + spill, ratio)        -- fix F09b: ⌈(allowed+spill)·round(ratio·1e8)/1e8⌉ in int64
    if counter >= max { Block } else { counter++ ; Proceed }

The cap computation is a parameter `cap : CapFn` of the model (theorems quantify over every `cap`); the
instance that mirrors the code after fix F09b is the integer computation `capUnits`.
-/
namespace LunarVerif.C09

/-- `QuotaAllocationRatio`: `float64(1)` without an allocation table, else `percentage / 100`
    where the percentage itself is the float64 nearest to the decimal `num/den`. -/
inductive Ratio where
  | one
  | pct (num den : Nat)
deriving DecidableEq, Repr

/-- `limit.WindowData` (window size in ns). -/
structure WindowData where
  W        : Nat
  allowed  : Int
  ratio    : Ratio
  spillOn  : Bool
  renewDay : Int
deriving DecidableEq, Repr

/-- `(allowed + spillover, ratio) ↦ maxAllowedInWindow`. -/
abbrev CapFn := Int → Ratio → Int

/-- `int64(math.Round(ratio * 1e8))` (fix F09b): the ratio in units of 1e-8.  The ratio is
    `(num/den)/100` computed in float64; its distance to the decimal it stands for is ~1e-17, far below half a
    unit, so the rounded value is the exact rounding (half away from zero) of `num·10^6/den` — modelled so;
    the float step itself is outside the kernel and covered by the correspondence run. -/
def ratioUnits : Ratio → Int
  | .one => 100000000
  | .pct n d => if d = 0 then 0 else (((2 * n * 1000000 + d) / (2 * d) : Nat) : Int)

/-- Go's truncating `/` on int64 by the positive constant 1e8 (expressed with Lean's flooring division). -/
def tdivR (x : Int) : Int := if 0 ≤ x then x / 100000000 else -((-x) / 100000000)

/-- Go's `%` on int64 by 1e8: the remainder has the sign of the dividend. -/
def tmodR (x : Int) : Int := x - 100000000 * tdivR x

/-- Go (fix F09b, overflow-free form): `scaledCeil(count, ratio)` with `units = int64(math.Round(ratio*1e8))`:
      whole, rest := count/1e8, count%1e8 ; product := rest*units
      result := whole*units + product/1e8 ; if product > 0 && product%1e8 != 0 { result++ }
    Unbounded integers here; that no intermediate leaves int64 is theorem `scaledCeil_no_overflow`. -/
def capGo (count units : Int) : Int :=
  let whole := tdivR count
  let rest := tmodR count
  let product := rest * units
  let result := whole * units + tdivR product
  if 0 < product ∧ tmodR product ≠ 0 then result + 1 else result

/-- `scaledCeil(allowed+spill, ratio)` = ⌈total · units / 1e8⌉ (theorem `capGo_eq_ceil`). -/
def capUnits : CapFn := fun total r => capGo total (ratioUnits r)

-- build-time TESTS: 100 × 7 % is 7 (was 8 with the float64 product: F09b)
#guard capUnits 100 (.pct 7 1) == 7
#guard capUnits 4 (.pct 25 1) == 1
#guard capUnits 5 .one == 5
#guard capUnits (-3) (.pct 50 1) == -1
#guard capUnits 10 (.pct 725 100) == 1
#guard capUnits 100000000000 .one == 100000000000
#guard capUnits 9223372036854775807 (.pct 50 1) == 4611686018427387904

/-- Day of month (UTC) of an instant, civil-from-days. `time.Time.Day()` with `time.Local = UTC`. -/
def dayOfMonth (ns : Nat) : Int :=
  let days := ns / 86400000000000
  let z := days + 719468
  let doe := z % 146097
  let yoe := (doe - doe / 1460 + doe / 36524 - doe / 146096) / 365
  let doy := doe - (365 * yoe + yoe / 4 - yoe / 100)
  let mp := (5 * doy + 2) / 153
  ((doy - (153 * mp + 2) / 5 + 1 : Nat) : Int)

#guard dayOfMonth 0 == 1
#guard dayOfMonth 1700000000000000000 == 14     -- 2023-11-14
#guard dayOfMonth 1709164800000000000 == 29     -- 2024-02-29
#guard dayOfMonth 1709251200000000000 == 1      -- 2024-03-01

/-- `singleRateLimitState` -/
structure KeyState where
  counter   : Nat
  spill     : Int
  windowEnd : Nat          -- 0 = `epochTime`
  wd        : WindowData   -- last `windowData` (used by `Counter()` only)
deriving DecidableEq, Repr

def zeroWD : WindowData := ⟨0, 0, .one, false, 0⟩  -- note: Go's zero ratio is 0.0; never used before being overwritten
def initKey : KeyState := ⟨0, 0, 0, zeroWD⟩

/-- `ensureWindowIsUpdated` with the stored window data `s.wd` (requires `s.wd.W > 0`, else Go panics). -/
def ensure (now : Nat) (s : KeyState) : KeyState :=
  let wd := s.wd
  let endT := (now / wd.W) * wd.W + wd.W
  if s.windowEnd ≤ now then
    let spill :=
      if wd.spillOn && s.windowEnd != 0 then
        (if dayOfMonth now == wd.renewDay then 0 else s.spill + wd.allowed - s.counter)
      else s.spill
    { s with counter := 0, spill := spill, windowEnd := endT }
  else s

/-- First statements of `TryToIncrement`: a changed window size forgets the stored window end (fix F09c), the
    new window data is stored, and spill-over collected earlier is dropped when the feature is off (fix F09f). -/
def adjust (wd : WindowData) (s : KeyState) : KeyState :=
  let spill := if wd.spillOn then s.spill else 0     -- fix F09f: no spill-over once the feature is off
  if s.wd.W != wd.W then { s with spill := spill, windowEnd := 0, wd := wd }
  else { s with spill := spill, wd := wd }

/-- `singleRateLimitState.TryToIncrement`; `true` = Proceed. -/
def tryInc (cap : CapFn) (now : Nat) (wd : WindowData) (s : KeyState) : KeyState × Bool :=
  let s1 := ensure now (adjust wd s)
  if cap (wd.allowed + s1.spill) wd.ratio ≤ (s1.counter : Int) then (s1, false)
  else ({ s1 with counter := s1.counter + 1 }, true)

/-! ### Clock readings

The code reads the clock (`state.clock.Now()`) a fixed number of times per call, and a real clock MOVES between
readings.  The model is explicit about it:
  * `TryToIncrement` makes exactly ONE reading (in `ensureWindowIsUpdated`): the same instant computes the grid
    window (`currentWindowEndTime`) AND decides the roll-over (`!currentTime.Before(windowEndTime)`) — that
    single instant is the `now` of `ensure`/`tryInc` and the `t` of the request/event;
  * `Counter()` makes exactly ONE reading;
  * `OnRequest` itself makes none (a request answered by a default behaviour reads no clock).
The harness drives the code with a clock that advances on every reading and compares the number of readings. -/

def readsTryToIncrement : Nat := 1
def readsCounter : Nat := 1

/-- What the code must NOT do (and once did in a seeded change): compute the grid window from one reading
    `tWin` and decide the roll-over from a LATER reading `tRoll`. -/
def ensure2 (tWin tRoll : Nat) (s : KeyState) : KeyState :=
  let wd := s.wd
  let endT := (tWin / wd.W) * wd.W + wd.W
  if s.windowEnd ≤ tRoll then
    let spill :=
      if wd.spillOn && s.windowEnd != 0 then
        (if dayOfMonth tWin == wd.renewDay then 0 else s.spill + wd.allowed - s.counter)
      else s.spill
    { s with counter := 0, spill := spill, windowEnd := endT }
  else s

def tryInc2 (cap : CapFn) (tWin tRoll : Nat) (wd : WindowData) (s : KeyState) : KeyState × Bool :=
  let s1 := ensure2 tWin tRoll (adjust wd s)
  if cap (wd.allowed + s1.spill) wd.ratio ≤ (s1.counter : Int) then (s1, false)
  else ({ s1 with counter := s1.counter + 1 }, true)

section Limiter
variable {κ : Type} [DecidableEq κ]

/-- `RateLimitState.groupsStateByLimiter` as an association list (at most one entry per key). -/
abbrev State (κ : Type) := List (κ × KeyState)

def find (k : κ) : State κ → Option KeyState
  | [] => none
  | (k', v) :: rest => if k' = k then some v else find k rest

def set (k : κ) (v : KeyState) : State κ → State κ
  | [] => [(k, v)]
  | (k', v') :: rest => if k' = k then (k, v) :: rest else (k', v') :: set k v rest

/-- One limiter request: `RateLimitState.TryToIncrement(requestArgs, windowData)` at instant `t`. -/
structure Req (κ : Type) where
  key : κ
  t   : Nat
  wd  : WindowData
deriving DecidableEq, Repr

/-- What an outside observer sees of one limiter request. -/
structure Event (κ : Type) where
  key  : κ
  t    : Nat
  wd   : WindowData
  pass : Bool
deriving DecidableEq, Repr

def Event.req (e : Event κ) : Req κ := ⟨e.key, e.t, e.wd⟩

def stepL (cap : CapFn) (st : State κ) (r : Req κ) : State κ × Event κ :=
  let s := (find r.key st).getD initKey
  let (s', p) := tryInc cap r.t r.wd s
  (set r.key s' st, ⟨r.key, r.t, r.wd, p⟩)

/-- All requests in order; events oldest first. -/
def runL (cap : CapFn) : State κ → List (Req κ) → List (Event κ)
  | _, [] => []
  | st, r :: rs => let (st', e) := stepL cap st r; e :: runL cap st' rs

/-- Final state of a run. -/
def finalL (cap : CapFn) : State κ → List (Req κ) → State κ
  | st, [] => st
  | st, r :: rs => finalL cap (stepL cap st r).1 rs

/-- The requests of ONE key handled by one `singleRateLimitState`. -/
def runK (cap : CapFn) : KeyState → List (Req κ) → List (Event κ)
  | _, [] => []
  | s, r :: rs => let (s', p) := tryInc cap r.t r.wd s; ⟨r.key, r.t, r.wd, p⟩ :: runK cap s' rs

/-- A run in which the k-th request is handled with two readings `r.t` and `r.t + ticks[k]`, the second one
    deciding the roll-over; events are attributed to the FIRST reading. -/
def runK2 (cap : CapFn) : KeyState → List (Req κ × Nat) → List (Event κ)
  | _, [] => []
  | s, (r, tick) :: rs =>
    let (s', p) := tryInc2 cap r.t (r.t + tick) r.wd s
    ⟨r.key, r.t, r.wd, p⟩ :: runK2 cap s' rs

/-- Calls served from a moving clock: `readings` are the successive values `Now()` returns (whatever happens
    between them); the k-th call makes `readsTryToIncrement` = 1 reading and uses it for everything. -/
def stamp : List Nat → List (κ × WindowData) → List (Req κ)
  | t :: ts, (k, wd) :: cs => ⟨k, t, wd⟩ :: stamp ts cs
  | _, _ => []

/-- `RateLimitState.Counters()` at instant `now`: every key's `Counter()`.  After the repair fix F09d it only
    READS: 0 when the stored window is over, else the stored counter (before, it called
    `ensureWindowIsUpdated` and so moved windows and credited spill-over from a metrics scrape). -/
def countersL (now : Nat) (st : State κ) : List (κ × Nat) :=
  st.map fun (k, s) => (k, if s.windowEnd ≤ now then 0 else s.counter)

/-- Operations on the limiter: a request, or a metrics scrape at an instant. -/
inductive Op (κ : Type) where
  | req (r : Req κ)
  | scrape (t : Nat)
deriving Repr

/-- One operation: new state, the limiter event (requests only), the scrape output (scrapes only). -/
def stepOp (cap : CapFn) (st : State κ) : Op κ → State κ × Option (Event κ) × List (κ × Nat)
  | .req r => ((stepL cap st r).1, some (stepL cap st r).2, [])
  | .scrape t => (st, none, countersL t st)

/-- Limiter events of a run of requests interleaved with scrapes; oldest first. -/
def runOps (cap : CapFn) : State κ → List (Op κ) → List (Event κ)
  | _, [] => []
  | st, o :: os =>
    (match (stepOp cap st o).2.1 with | some e => [e] | none => []) ++ runOps cap (stepOp cap st o).1 os

/-- The requests among the operations. -/
def reqsOf : List (Op κ) → List (Req κ)
  | [] => []
  | .req r :: os => r :: reqsOf os
  | .scrape _ :: os => reqsOf os

end Limiter

/-! ### Plugin layer -/

/-- What `buildGroupID` puts after the colon: `obfuscator.ObfuscateString(value)` (since fix F09e without
    `strings.TrimSpace`).  Production wiring (`services.go`) passes the IDENTITY obfuscator: the key holds the
    header value itself, byte for byte.  With the MD5 obfuscator (unit tests) the hash is modelled as
    injective, so the raw value stands for it.  Either way: the value. -/
def normGroup (_identityHash : Bool) (v : String) : String := v

/-- `RequestArguments`: remedy name, and for grouped limits the LOWER-CASED header NAME (only the name is
    folded) and the header value as it is; the code stores `lower(name) ++ ":" ++ obfuscated value`. -/
structure Key where
  remedy : String
  group  : Option (String × String)
deriving DecidableEq, Repr

structure Alloc where
  groupBy : Option String                  -- `none` = nil `*GroupBy`
  groups  : List (String × Nat × Nat)      -- header value ↦ percentage num/den; FIRST match wins
  default : String
  dnum    : Nat
  dden    : Nat
deriving Repr

structure Remedy where
  name     : String
  allowed  : Int
  winSec   : Nat
  status   : Int
  spillOn  : Bool
  renewDay : Int
  alloc    : Option Alloc
  /-- plugin wiring, carried with the remedy for convenience: `true` = identity obfuscator (production),
      `false` = MD5 obfuscator -/
  identityHash : Bool := true
deriving Repr

inductive Answer where
  | noop
  | early (status : Int)
  | err (cls : String)
  | panic
deriving DecidableEq, Repr

/-- Go map built from the header list: later duplicates overwrite; a missing header reads as "". -/
def lookupHdr (hs : List (String × String)) (name : String) : String :=
  match hs.reverse.find? (fun p => p.1 == name) with
  | some p => p.2
  | none => ""

def effStatus (r : Remedy) : Int := if r.status != 0 then r.status else 429

def findGroup (v : String) : List (String × Nat × Nat) → Option (Nat × Nat)
  | [] => none
  | (g, n, d) :: rest => if g == v then some (n, d) else findGroup v rest

inductive Resolved where
  | limited (key : Key) (wd : WindowData)   -- goes to the limiter
  | direct (a : Answer)                     -- answered without touching any counter
deriving Repr

/-- Everything `OnRequest` does before calling the limiter (pure in config and request). -/
def resolve (r : Remedy) (hs : List (String × String)) : Resolved :=
  let mk (key : Key) (ratio : Ratio) : Resolved :=
    if r.name == "" then .direct (.err "limiter-id-missing")
    else .limited key ⟨r.winSec * 1000000000, r.allowed, ratio, r.spillOn, r.renewDay⟩
  match r.alloc with
  | none => mk ⟨r.name, none⟩ .one
  | some a =>
    match a.groupBy with
    | none => .direct .panic
    | some hn =>
      let v := lookupHdr hs hn
      let key : Key := ⟨r.name, some (hn.toLower, normGroup r.identityHash v)⟩
      match findGroup v a.groups with
      | some (n, d) => mk key (.pct n d)
      | none =>
        if a.default == "allow" then .direct .noop
        else if a.default == "block" then .direct (.early (effStatus r))
        else if a.default == "use_default_allocation" then mk key (.pct a.dnum a.dden)
        else .direct .noop

/-- The group a request belongs to AS THE ALLOCATION TABLE DISTINGUISHES GROUPS (exact header value): the
    identity the property speaks about ("for each remedy and group").  `none` for requests without a group. -/
def specKey (r : Remedy) (hs : List (String × String)) : Key :=
  match r.alloc with
  | none => ⟨r.name, none⟩
  | some a =>
    match a.groupBy with
    | none => ⟨r.name, none⟩
    | some hn => ⟨r.name, some (hn.toLower, lookupHdr hs hn)⟩

/-- `StrategyBasedThrottlingPlugin.OnRequest` at instant `t`. -/
def pluginStep (cap : CapFn) (st : State Key) (r : Remedy) (hs : List (String × String)) (t : Nat) :
    State Key × Answer :=
  match resolve r hs with
  | .direct a => (st, a)
  | .limited key wd =>
    if wd.W == 0 then
      -- the key's state is created and `windowData` stored, then `elapsed / 0` panics
      (set key (adjust wd ((find key st).getD initKey)) st, .panic)
    else
      let (st', e) := stepL cap st ⟨key, t, wd⟩
      (st', if e.pass then .noop else .early (effStatus r))

/-- One request through the plugin: the remedy configuration in force, the request headers, the instant. -/
structure PReq where
  remedy : Remedy
  hdrs   : List (String × String)
  t      : Nat
deriving Repr

/-- A sequence of `OnRequest` calls (one at a time); the answers oldest first. -/
def pluginRun (cap : CapFn) : State Key → List PReq → List Answer
  | _, [] => []
  | st, p :: ps => (pluginStep cap st p.remedy p.hdrs p.t).2 ::
      pluginRun cap (pluginStep cap st p.remedy p.hdrs p.t).1 ps

end LunarVerif.C09
