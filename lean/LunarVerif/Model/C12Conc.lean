import LunarVerif.Model.C12
/-
Interleaving model of `utils/cache.go` at critical-section granularity.  Core Lean only.

Calls are threads with a program counter; one `run j` lets thread `j` execute its next atomic section:

  Set   : [size pre-check (read lock)] → [clock.Now()] → [write lock: (re-check,) insert, size +=] → [go sleeper] → return
  Get   : [read lock: map lookup] (not found → return) → [clock.Now() > expiry ?] → return
  Has   : [read lock: map lookup] → [clock.Now() > expiry ?] → return
  Del   : [write lock: clearKey] → return
  sleeper goroutines: the `pending` list of the sequential model (`fire i` / `adv d` run their single locked
  `clearKey` section at any instant ≥ due, in any order).

`ensureCacheInitialized` (a locked no-op once the map exists) is omitted.  `recheck` selects the code:
  `true`  – the repaired `Set` (fixes/F12c.patch) tests `current + item > max` again under the write lock;
  `false` – the code before that repair (only the unlocked/read-locked pre-check).
`hist` is a ghost log of what an outside observer sees (most recent first): successful Sets with the clock
value they read, returns of Get/Has with the clock value they read and the position in the log at which their
map lookup happened, probes.  `over` is a ghost counter: Σ sizes inserted while another Set was between its
pre-check and its insert.
-/
namespace LunarVerif.C12

section
variable {κ ν : Type} [DecidableEq κ]

/-! ### the critical sections as functions on the shared state -/

/-- `true` = there is room (`current + item ≤ max`, or accounting is off). -/
def preCheck (c : Cache κ ν) (sz : Nat) : Bool := !(c.sizeOn && decide (c.tracked + (sz : Nat) > c.max))

/-- `cache.cache[key] = ValueWrapper{value, expiry}; currentCacheSize += itemSize` -/
def insertSec (c : Cache κ ν) (k : κ) (v : ν) (expiry : Int) (sz : Nat) : Cache κ ν :=
  { c with entries := (k, { val := v, expiry := expiry, size := sz }) :: erase k c.entries,
           tracked := if c.sizeOn then c.tracked + (sz : Nat) else c.tracked }

/-- `go func(){ clock.Sleep(ttl); clearKey }()` up to its `Sleep` (returns at once when `ttl ≤ 0`). -/
def spawnSec (c : Cache κ ν) (k : κ) (ttl : Int) : Cache κ ν :=
  if ttl > 0 then { c with pending := insertSleeper { due := c.mono + ttl, key := k } c.pending }
  else clearKey c k

inductive Call (κ ν : Type) where
  | set (k : κ) (v : ν) (ttl : Int) (sz : Nat)
  | get (k : κ)
  | has (k : κ)
  | del (k : κ)
deriving Repr

inductive Res (κ ν : Type) where
  | setOk
  | setFull
  | got (k : κ) (o : Option ν) (tc : Int)
  | hasRes (k : κ) (b : Bool) (tc : Int)
  | unit
deriving Repr

/-- program counter = the next section of a call -/
inductive Pc (κ ν : Type) where
  | setCheck (k : κ) (v : ν) (ttl : Int) (sz : Nat)
  | setStamp (k : κ) (v : ν) (ttl : Int) (sz : Nat)
  | setInsert (k : κ) (v : ν) (ttl : Int) (sz : Nat) (stamp : Int)
  | setSpawn (k : κ) (ttl : Int)
  | getLookup (k : κ)
  | getCheck (k : κ) (e : Entry ν) (pos : Nat)
  | hasLookup (k : κ)
  | hasCheck (k : κ) (o : Option (Entry ν)) (pos : Nat)
  | del (k : κ)
  | done (r : Res κ ν)
deriving Repr

def Call.entry : Call κ ν → Pc κ ν
  | .set k v ttl sz => .setCheck k v ttl sz
  | .get k => .getLookup k
  | .has k => .hasLookup k
  | .del k => .del k

/-- observable log record -/
inductive IRec (κ ν : Type) where
  | ins (k : κ) (v : ν) (stamp ttl : Int) (sz : Nat)   -- a Set stored (and will return nil); `stamp` = its clock reading
  | ret (k : κ) (o : Option ν) (tc : Int) (pos : Nat)  -- a Get returned `o`; clock read `tc`; lookup saw the oldest `pos` records
  | hasRet (k : κ) (b : Bool) (tc : Int) (pos : Nat)
  | probe (tracked : Int) (held : Nat)
deriving Repr

/-- a Set that passed its pre-check and has not inserted yet -/
def Pc.inflight : Pc κ ν → Bool
  | .setStamp .. => true
  | .setInsert .. => true
  | _ => false

structure IState (κ ν : Type) where
  c       : Cache κ ν
  threads : List (Pc κ ν)
  hist    : List (IRec κ ν)
  over    : Nat
  recheck : Bool

def IState.init (c : Cache κ ν) (recheck : Bool) : IState κ ν :=
  { c := c, threads := [], hist := [], over := 0, recheck := recheck }

/-- thread `j` executes its next section -/
def runThread (s : IState κ ν) (j : Nat) : IState κ ν :=
  match s.threads[j]? with
  | none => s
  | some pc =>
    match pc with
    | .setCheck k v ttl sz =>
      { s with threads := s.threads.set j (if preCheck s.c sz then .setStamp k v ttl sz else .done .setFull) }
    | .setStamp k v ttl sz => { s with threads := s.threads.set j (.setInsert k v ttl sz s.c.now) }
    | .setInsert k v ttl sz st =>
      if s.recheck && !preCheck s.c sz then { s with threads := s.threads.set j (.done .setFull) }
      else
        { s with c := insertSec s.c k v (st + ttl) sz,
                 hist := .ins k v st ttl sz :: s.hist,
                 over := if (s.threads.eraseIdx j).any Pc.inflight then s.over + sz else s.over,
                 threads := s.threads.set j (.setSpawn k ttl) }
    | .setSpawn k ttl => { s with c := spawnSec s.c k ttl, threads := s.threads.set j (.done .setOk) }
    | .getLookup k =>
      match find? k s.c.entries with
      | none => { s with threads := s.threads.set j (.done (.got k none s.c.now)),
                         hist := .ret k none s.c.now s.hist.length :: s.hist }
      | some e => { s with threads := s.threads.set j (.getCheck k e s.hist.length) }
    | .getCheck k e pos =>
      let o := if s.c.now > e.expiry then none else some e.val
      { s with threads := s.threads.set j (.done (.got k o s.c.now)), hist := .ret k o s.c.now pos :: s.hist }
    | .hasLookup k => { s with threads := s.threads.set j (.hasCheck k (find? k s.c.entries) s.hist.length) }
    | .hasCheck k o pos =>
      let b := match o with
        | none => false
        | some e => if s.c.now > e.expiry then false else true
      { s with threads := s.threads.set j (.done (.hasRes k b s.c.now)), hist := .hasRet k b s.c.now pos :: s.hist }
    | .del k => { s with c := clearKey s.c k, threads := s.threads.set j (.done .unit) }
    | .done _ => s

/-- scheduler events -/
inductive Sched (κ ν : Type) where
  | call (cl : Call κ ν)   -- a new call starts (new thread, index = number of threads so far)
  | run (j : Nat)          -- thread j executes one section
  | fire (i : Nat)         -- the i-th pending sleeper (if due) executes its clearKey section
  | skip (d : Nat)         -- time passes
  | adv (d : Nat)          -- time passes and all sleepers that become due run
  | wstep (d : Int)        -- the wall clock is stepped (no time elapses)
  | probe
deriving Repr

def istep (s : IState κ ν) : Sched κ ν → IState κ ν
  | .call cl => { s with threads := s.threads ++ [cl.entry] }
  | .run j => runThread s j
  | .fire i => { s with c := (fire s.c i).1 }
  | .skip d => { s with c := skip s.c d }
  | .adv d => { s with c := (adv s.c d).1 }
  | .wstep d => { s with c := wstep s.c d }
  | .probe => { s with hist := .probe s.c.tracked (heldSize s.c.entries) :: s.hist }

def iexec (s : IState κ ν) : List (Sched κ ν) → IState κ ν
  | [] => s
  | e :: es => iexec (istep s e) es

/-- A whole call executed alone (call, then its sections back to back): the sequential operations. -/
def callRun (s : IState κ ν) (cl : Call κ ν) : IState κ ν :=
  let j := s.threads.length
  runThread (runThread (runThread (runThread (istep s (.call cl)) j) j) j) j

/-- result of thread `j`, if it has returned -/
def resultOf (s : IState κ ν) (j : Nat) : Option (Res κ ν) :=
  match s.threads[j]? with
  | some (.done r) => some r
  | _ => none

end

end LunarVerif.C12
