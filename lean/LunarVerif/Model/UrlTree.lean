/-
Shared model of `toolkit-core/urltree` (url_tree_insert.go, url_tree_lookup.go, url_tree_utils.go).
Core Lean only.  Used by C13 (endpoint policy tree), C03 (filter tree), C14 (managed endpoints).

The Go trie (`Node`: ConstantChildren map keyed by the part's *value only*, one ParametricChild with a
name, one WildcardChild, Value, IsPartOfHost) is modelled EXTENSIONALLY:

  state  = the list of inserted `(pattern parts, value)` in insertion order            (`Tree V`)
  a node = the *residual list* `Res V`: the entries whose key path goes through that node, each with
           the part of its pattern that is still below the node.

  "constant child `c` exists"     = some residual entry has head `lit c`; its `IsPartOfHost` is the flag of
                                    the FIRST such entry (the creator; later inserters reuse the node)
  "parametric child exists"       = some residual head is `{name}`; name and flag are those of the first
  "wildcard child exists"         = some residual head is `*`; every insert through `*` REPLACES the node
                                    (`currentNode.WildcardChild = &Node{}`), so its value is that of the LAST
  value of the node               = value of the LAST entry whose residual is empty (`currentNode.Value = value`)

Strings are split and classified by the front end (`splitURL`, `classify`, at the bottom); everything the
theorems talk about works on `List Part`, where only equality of `String`s is used.
Out of scope: assumed-path-parameter convergence (`assumedPathParamsEnabled`, C15).

This is the trie AFTER fixes/F13b.patch (a match through a wildcard reports the wildcard's OWN path and the
parameters collected up to it), fixes/F13c-wildcard.patch (a wildcard child is a fallback only for a URL part
on its own side of the host/path boundary), fixes/F13d.patch (a path parameter does not accept an empty
segment) and fixes/F13f.patch (`validateURL`: `*` only as the LAST part).
-/
namespace LunarVerif.UrlTree

/-- A URL or pattern segment after classification (`*` / `{name}` / anything else). -/
inductive Seg where
  | lit (s : String)
  | par (name : String)
  | wild
deriving DecidableEq, Repr

/-- `urlPart` of url_tree_utils.go: a segment and whether it belongs to the host. -/
structure Part where
  host : Bool
  seg : Seg
deriving DecidableEq, Repr

/-- The edge of the trie a pattern part travels along (constant children are keyed by value only). -/
inductive Key where
  | lit (s : String)
  | par
  | wild
deriving DecidableEq, Repr

def Seg.key : Seg → Key
  | .lit s => .lit s
  | .par _ => .par
  | .wild => .wild

/-- Raw text of a segment (`urlPart.Value`). -/
def Seg.text : Seg → String
  | .lit s => s
  | .par n => "{" ++ n ++ "}"
  | .wild => "*"

def Seg.isPar : Seg → Bool
  | .par _ => true
  | _ => false

/-- Inserted patterns with their values, oldest first.  `none` = the node carries no value (only
    produced by a pattern that continues after a `*`, see `insert`). -/
abbrev Res (V : Type) := List (List Part × Option V)
abbrev Tree (V : Type) := Res V

def firstSome? {α β : Type} (f : α → Option β) : List α → Option β
  | [] => none
  | a :: as => match f a with
    | some b => some b
    | none => firstSome? f as

def lastSome? {α β : Type} (f : α → Option β) : List α → Option β
  | [] => none
  | a :: as => match lastSome? f as with
    | some b => some b
    | none => f a

section
variable {V : Type}

/-- Head test used by `step`: does this entry continue along edge `k`? -/
def stepEntry (k : Key) (e : List Part × Option V) : Option (List Part × Option V) :=
  match e.1 with
  | p :: rest => if p.seg.key = k then some (rest, e.2) else none
  | [] => none

/-- Residual list of the child reached along edge `k`. -/
def step (k : Key) (res : Res V) : Res V := res.filterMap (stepEntry k)

def constHead (s : String) (e : List Part × Option V) : Option Bool :=
  match e.1 with
  | p :: _ => if p.seg = .lit s then some p.host else none
  | [] => none

/-- `ConstantChildren[s]`: `some flag` when the child exists, `flag` = its `IsPartOfHost`. -/
def constFlag? (res : Res V) (s : String) : Option Bool := firstSome? (constHead s) res

def parHead (e : List Part × Option V) : Option (String × Bool) :=
  match e.1 with
  | p :: _ => match p.seg with
    | .par n => some (n, p.host)
    | _ => none
  | [] => none

/-- `ParametricChild`: `some (name, IsPartOfHost)` when it exists. -/
def parChild? (res : Res V) : Option (String × Bool) := firstSome? parHead res

def wildHead (e : List Part × Option V) : Option (Option V) :=
  match e.1 with
  | p :: _ => if p.seg = .wild then some e.2 else none
  | [] => none

/-- `WildcardChild`: `some value?` when it exists (value of the last insert through it). -/
def wildChild? (res : Res V) : Option (Option V) := lastSome? wildHead res

def wildNodeHead (e : List Part × Option V) : Option (Option V × Bool) :=
  match e.1 with
  | p :: _ => if p.seg = .wild then some (e.2, p.host) else none
  | [] => none

/-- `WildcardChild` with its `IsPartOfHost` (both of the last insert through it). -/
def wildNode? (res : Res V) : Option (Option V × Bool) := lastSome? wildNodeHead res

def endHead (e : List Part × Option V) : Option V :=
  match e.1 with
  | [] => e.2
  | _ :: _ => none

/-- `currentNode.Value`. -/
def nodeValue (res : Res V) : Option V := lastSome? endHead res

/-! ### Lookup (url_tree_lookup.go) -/

structure LookupResult (V : Type) where
  isMatch : Bool
  value : Option V
  params : List (String × String)   -- Go map: at most one binding per name
  norm : List Part                  -- `NormalizedURL` before rendering/trimming
deriving Repr

def LookupResult.none : LookupResult V := ⟨false, Option.none, [], []⟩

/-- Go map assignment `params[k] = v`. -/
def setParam (k v : String) : List (String × String) → List (String × String)
  | [] => [(k, v)]
  | (k', v') :: rest => if k' = k then (k, v) :: rest else (k', v') :: setParam k v rest

/-- `foundWildcardNode` with what a match through it reports: its value, the parameters collected up to it
    (`foundWildcardParams`) and its own path (`foundWildcardPath`). -/
structure Fallback (V : Type) where
  value : Option V
  params : List (String × String)
  path : List Part

/-- What happens when the current URL part has neither a usable constant nor parametric child. -/
def stuck (fw : Option (Fallback V)) (u : Part) : LookupResult V :=
  if u.seg.isPar then .none   -- "Lookup with path parameter, but did not find a parametric child"
  else match fw with
    | some f => ⟨true, f.value, f.params, f.path⟩
    | Option.none => .none

/-- The loop of `lookupNode`: `res` = current node, `fw` = the deepest usable wildcard seen, `path` =
    `urlPath`.  No backtracking: once a constant or parametric child is entered the other alternatives at
    that node are forgotten; only the deepest wildcard seen is kept as fallback. -/
def lookGo (res : Res V) (fw : Option (Fallback V)) (params : List (String × String)) (path : List Part) :
    List Part → LookupResult V
  | [] =>
    match nodeValue res with
    | some v => ⟨true, some v, params, path⟩
    | Option.none =>
      match wildNode? res with
      | some (wv, h) => ⟨true, wv, params, path ++ [⟨h, .wild⟩]⟩     -- zero-segment wildcard match
      | Option.none =>
        match fw with
        | some f => ⟨true, f.value, f.params, f.path⟩               -- wildcard of an ancestor
        | Option.none => .none
  | u :: us =>
    let fw' := match wildNode? res with
      | some (wv, h) => if h = u.host then some ⟨wv, params, path ++ [⟨u.host, .wild⟩]⟩ else fw
      | Option.none => fw
    let viaConst : Option String := match u.seg with
      | .lit s => if constFlag? res s = some u.host then some s else Option.none
      | _ => Option.none
    match viaConst with
    | some s => lookGo (step (.lit s) res) fw' params (path ++ [u]) us
    | Option.none =>
      match parChild? res with
      | some (n, h) =>
        if h = u.host ∧ u.seg ≠ .lit "" then
          let params' := if u.seg.isPar then params else setParam n u.seg.text params
          lookGo (step .par res) fw' params' (path ++ [⟨u.host, .par n⟩]) us
        else stuck fw' u
      | Option.none => stuck fw' u

/-- `URLTree.Lookup` on split parts. -/
def lookupParts (t : Tree V) (us : List Part) : LookupResult V := lookGo t Option.none [] [] us

/-! ### Insert (url_tree_insert.go, `assumedPathParamsEnabled = false`) -/

inductive InsertErr where
  | emptyPart      -- "URL part cannot be empty"
  | wildcardPos    -- "wildcard is only allowed at the end of a URL"
  | paramName      -- "path parameter name ... does not match existing name"
deriving DecidableEq, Repr

/-- `validateURL`: parts are inspected in order; a `*` is accepted only as the LAST part. -/
def validateGo : List Part → Option InsertErr
  | [] => none
  | p :: rest =>
    if p.seg = .lit "" then some .emptyPart
    else if p.seg = .wild ∧ rest ≠ [] then some .wildcardPos
    else validateGo rest

def validateParts (ps : List Part) : Option InsertErr := validateGo ps

/-- The walk of `insertWithConvergenceIndication`; returns the EFFECTIVE pattern (the key path really
    taken, with the names/redirects the existing nodes impose).  The walk stops at the first `*`:
    whatever follows lives under a freshly created wildcard node that no lookup ever enters. -/
def insGo (declared : Bool) : Res V → List Part → Except InsertErr (List Part)
  | _, [] => .ok []
  | res, p :: rest =>
    match p.seg with
    | .wild => .ok [p]
    | .par n =>
      match parChild? res with
      | some (n', _) =>
        if n ≠ n' then .error .paramName
        else (insGo declared (step .par res) rest).map (p :: ·)
      | Option.none => (insGo declared (step .par res) rest).map (p :: ·)
    | .lit s =>
      if (constFlag? res s).isSome then (insGo declared (step (.lit s) res) rest).map (p :: ·)
      else
        match (if declared then Option.none else parChild? res) with
        | some (n', _) =>
          -- "Navigating into path param": an undeclared URL is filed under the existing parameter
          (insGo declared (step .par res) rest).map (⟨p.host, .par n'⟩ :: ·)
        | Option.none => (insGo declared (step (.lit s) res) rest).map (p :: ·)

/-- `Insert` (`declared = false`) / `InsertDeclaredURL` (`declared = true`).  A failing insert leaves
    the trie as it was. -/
def insertParts (t : Tree V) (ps : List Part) (v : V) (declared : Bool) : Except InsertErr (Tree V) :=
  match validateParts ps with
  | some e => .error e
  | Option.none =>
    match insGo declared t ps with
    | .error e => .error e
    | .ok eff =>
      -- `currentNode.Value = value` lands below the first `*` when the pattern goes on after it
      let val := if eff.length < ps.length then Option.none else some v
      .ok (t ++ [(eff, val)])

end

/-! ### Front end: strings → parts (executable only; tied to Go by the correspondence check) -/

def trimChars (cut : Char → Bool) (s : String) : String :=
  String.ofList ((s.toList.dropWhile cut).reverse.dropWhile cut).reverse

/-- `strings.Trim(url, "./")` -/
def trimURL (s : String) : String := trimChars (fun c => c == '.' || c == '/') s

/-- `TryExtractPathParameter` -/
def tryExtractPathParameter (s : String) : Option String :=
  if s.startsWith "{" && s.endsWith "}" then some (trimChars (fun c => c == '{' || c == '}') s) else none

def classify (s : String) : Seg :=
  if s = "*" then .wild
  else match tryExtractPathParameter s with
    | some n => .par n
    | none => .lit s

/-- `splitURL`: trim, split on `/`, the first piece is the host and is split on `.`. -/
def splitURL (url : String) : List Part :=
  match (trimURL url).splitOn "/" with
  | [] => []
  | h :: path => (h.splitOn ".").map (fun s => ⟨true, classify s⟩) ++ path.map (fun s => ⟨false, classify s⟩)

def delim (p : Part) : String := if p.host then "." else "/"

/-- `urlPath` as the lookup builds it, then `trimURL` (buildLookupNodeResult). -/
def renderParts (ps : List Part) : String :=
  trimURL (ps.foldl (fun acc p => acc ++ delim p ++ p.seg.text) "")

def lookup {V : Type} (t : Tree V) (url : String) : LookupResult V := lookupParts t (splitURL url)

def insert {V : Type} (t : Tree V) (url : String) (v : V) (declared : Bool) : Except InsertErr (Tree V) :=
  insertParts t (splitURL url) v declared

end LunarVerif.UrlTree
