import LunarVerif.Model.FlowGraph
/-
Flow REFERENCES in the flow-graph builder (additive to `Model/FlowGraph.lean`, which is unchanged).
Core Lean only.

Go sources mirrored (proxy/src/services/lunar-engine/streams/flow/flow_builder.go):
  buildConnection          the two reference cases `flow(at: end) → processor`, `processor → flow(at: start)`
                           and the "invalid connection configuration" fall-through for the other shapes
  connectFlowToProcessor   root := target; incorporateFlow(source); root := foreignRoot; foreignRoot := nil
  connectProcessorToFlow   incorporateFlow(target); edge source → foreignRoot.node; foreignRoot := nil
  incorporateFlow          buildConnections(referenced flow's name, SAME FlowDirection, its connections of that direction)
  connectStreamToProcessor root only if the node was created for the direction's own flow, else `foreignRoot`
  connectProcessorToStream request direction + node created for another flow ⇒ edge to the CURRENT root's node
  graphNodeBuilder.buildNode / getOrCreateNode   the node is created for the flow whose connection list is being
                           processed (`flowGraphName`), with that flow's processor instance; an existing node of
                           the same key is reused whatever flow created it

Formulation.  The builder is modelled as a sequential machine over the state

    acc     : the reference-free connections added so far (what `buildConnections` would have been given had
              the references been written out),
    owner   : node key ↦ flowGraphName, in creation order (the direction's `nodes` map),
    foreign : `flowBuilder.foreignRoot` (key of its node),

with  root = target of the last `stream start → processor` connection of `acc`  (`curRoot`; every `setAsRoot`
appends such a connection).  The built direction is then the graph the reference-free builder makes of `acc`
(`FlowGraph.buildConnections`, all per-connection checks having been done here with the right flow's
processors).  On a reference-free connection list `acc` is the list itself (`flatten_refFree`).

Recursion (`incorporateFlow`) is bounded by FUEL; mutually referencing flows exhaust it (in Go: unbounded
recursion, C05's F05b).  Not modelled: `foreignRoot` surviving from one direction / flow to the next (it is a
field of the builder; it is nil again after every successful incorporation unless a flow declares a stream entry
to a node that another flow created under the same key), references to system flows (borrowed processors `otherFlow.key` are modelled: `instanceOf`).
-/
namespace LunarVerif.FlowGraph

/-- one end of a YAML connection, flow references included -/
inductive REnd where
  | stream (name : String) (at_ : String)
  | proc (key : String) (cond : String)
  | flow (name : String) (at_ : String)
deriving DecidableEq, Repr, Inhabited

structure RConn where
  src : REnd
  dst : REnd
deriving DecidableEq, Repr, Inhabited

structure RFlowRep where
  name : String
  procs : List (String × String)
  req : List RConn
  res : List RConn
deriving DecidableEq, Repr, Inhabited

def RFlowRep.conns (f : RFlowRep) : Dir → List RConn
  | .req => f.req
  | .res => f.res

def End.toR : End → REnd
  | .stream n a => .stream n a
  | .proc k c => .proc k c

def Conn.toR (c : Conn) : RConn := ⟨c.src.toR, c.dst.toR⟩

def FlowRep.toR (f : FlowRep) : RFlowRep := ⟨f.name, f.procs, f.req.map Conn.toR, f.res.map Conn.toR⟩

inductive RefErr where
  | build (e : BuildErr)
  | flowNotFound     -- "flow '..' not found"
  | foreignRoot      -- "foreign root node not found"
  | rootMissing      -- "root node not found for flow .."
  | fuel             -- recursion bound exceeded (Go: unbounded recursion of incorporateFlow)
deriving DecidableEq, Repr, Inhabited

def RefErr.str : RefErr → String
  | .build e => e.str
  | .flowNotFound => "flowref"
  | .foreignRoot => "foreignroot"
  | .rootMissing => "rootmissing"
  | .fuel => "fuel"

/-- builder state while one direction is under construction -/
structure FState where
  acc : List Conn := []
  owner : List (String × String) := []
  foreign : Option String := none
deriving DecidableEq, Repr, Inhabited

/-- target of the last `stream start → processor` connection (the direction's root) -/
def lastEntry (cs : List Conn) : Option String :=
  (cs.filterMap fun c =>
    match c.src, c.dst with
    | .stream _ a, .proc t _ => if a == "start" then some t else none
    | _, _ => none).getLast?

def FState.curRoot (s : FState) : Option String := lastEntry s.acc

def FState.ownerOf (s : FState) (k : String) : String := ((s.owner.find? (·.1 == k)).map (·.2)).getD ""

def FState.add (s : FState) (c : Conn) : FState := { s with acc := s.acc ++ [c] }

def findRep (reps : List RFlowRep) (n : String) : Option RFlowRep := reps.find? (·.name == n)

def procsOfRep (reps : List RFlowRep) (n : String) : List (String × String) :=
  match findRep reps n with
  | some f => f.procs
  | none => []

/-! `ProcessorRef.parseRef`: a processor reference `name` is `key` (a processor of the flow whose connection list
    is being processed) or `otherFlow.key` (a processor BORROWED from another flow: the node key — `ReferenceName` —
    is the whole dotted string, the processor instance is `otherFlow`'s `key`). -/

def splitDots : List Char → List Char → List (List Char)
  | [], acc => [acc.reverse]
  | c :: cs, acc => if c == '.' then acc.reverse :: splitDots cs [] else splitDots cs (c :: acc)

def keyParts (k : String) : List String := (splitDots k.toList []).map String.ofList

/-- (flow that created the processor instance, instance name) of a node key seen while processing flow `cur`;
    `none`: more than one dot ("invalid processor key") -/
def instanceOf (cur k : String) : Option (String × String) :=
  match keyParts k with
  | [n] => some (cur, n)
  | [f, n] => some (if f == "" then cur else f, n)
  | _ => none

/-- the processor instance's own name (`ProcessorI.GetName`): what a processor reports when it runs -/
def bareKey (k : String) : String :=
  match keyParts k with
  | [_, n] => n
  | _ => k

/-- `flowBuilder.validateCondition` / `GetProcessorDefinitionByKey(cur, ref)`: a processor of `cur` with the same
    bare name takes precedence over the borrowed one -/
def validateConditionR (pts : List PType) (reps : List RFlowRep) (d : Dir) (cur k cond : String) : Bool :=
  match instanceOf cur k with
  | none => true
  | some (f, n) =>
    if (procsOfRep reps cur).any (·.1 == n) then validateCondition pts (procsOfRep reps cur) d n cond
    else if f == cur then true
    else validateCondition pts (procsOfRep reps f) d n cond

/-- `getOrCreateNode(cur, ref)`: an existing node is reused; a new one needs the processor instance
    (`GetProcessorInstance(createdByFlow, name)`) -/
def getOrCreateF (reps : List RFlowRep) (cur : String) (s : FState) (k : String) : Option FState :=
  if s.owner.any (·.1 == k) then some s
  else
    match instanceOf cur k with
    | none => none
    | some (f, n) =>
      if (procsOfRep reps f).any (·.1 == n) then some { s with owner := s.owner ++ [(k, cur)] }
      else none

/-- `buildConnection(cur, flowDir, conn)` where `flowDir` is direction `d` of flow `home`; `inc g s` is
    `incorporateFlow(g, flowDir)` started in state `s`. -/
def stepF (pts : List PType) (reps : List RFlowRep) (d : Dir) (home cur : String)
    (inc : String → FState → Except RefErr FState) (s : FState) (c : RConn) : Except RefErr FState :=
  let condOk : Bool :=
    match c.src with
    | .proc f cond => validateConditionR pts reps d cur f cond
    | _ => true
  if !condOk then .error (.build .condition) else
  match c.src, c.dst with
  | .proc f cond, .proc t tc =>
    match getOrCreateF reps cur s f with
    | none => .error (.build .node)
    | some s1 =>
      match getOrCreateF reps cur s1 t with
      | none => .error (.build .node)
      | some s2 => .ok (s2.add ⟨.proc f cond, .proc t tc⟩)
  | .stream n a, .proc t tc =>
    if a == "start" then
      match getOrCreateF reps cur s t with
      | none => .error (.build .node)
      | some s1 =>
        if s1.ownerOf t == home then .ok (s1.add ⟨.stream n a, .proc t tc⟩)
        else .ok { s1 with foreign := some t }
    else .error (.build .connection)
  | .flow g a, .proc t tc =>
    if a == "end" then
      match getOrCreateF reps cur s t with
      | none => .error (.build .node)
      | some s1 =>
        match inc g (s1.add ⟨.stream g "start", .proc t tc⟩) with     -- setAsRoot(target)
        | .error e => .error e
        | .ok s2 =>
          match s2.foreign with
          | none => .error .foreignRoot
          | some x => .ok { (s2.add ⟨.stream g "start", .proc x ""⟩) with foreign := none }   -- setAsRoot(foreignRoot)
    else .error (.build .connection)
  | .proc f cond, .stream n a =>
    if a == "end" then
      match getOrCreateF reps cur s f with
      | none => .error (.build .node)
      | some s1 =>
        if d == .req && s1.ownerOf f != home then
          match s1.curRoot with
          | none => .error .rootMissing
          | some r => .ok (s1.add ⟨.proc f cond, .proc r ""⟩)
        else .ok (s1.add ⟨.proc f cond, .stream n a⟩)
    else .error (.build .connection)
  | .proc f cond, .flow g a =>
    if a == "start" then
      match getOrCreateF reps cur s f with
      | none => .error (.build .node)
      | some s1 =>
        match inc g s1 with
        | .error e => .error e
        | .ok s2 =>
          match s2.foreign with
          | none => .error .foreignRoot
          | some x => .ok { (s2.add ⟨.proc f cond, .proc x ""⟩) with foreign := none }
    else .error (.build .connection)
  | .stream _ _, .stream _ _ => .ok s
  | _, _ => .error (.build .connection)

/-- `buildConnections`: fold of a step function -/
def foldF (step : FState → RConn → Except RefErr FState) : FState → List RConn → Except RefErr FState
  | s, [] => .ok s
  | s, c :: cs =>
    match step s c with
    | .error e => .error e
    | .ok s' => foldF step s' cs

/-- `incorporateFlow(g, flowDir)` with recursion depth bounded by fuel -/
def incorporateF (pts : List PType) (reps : List RFlowRep) (d : Dir) (home : String) :
    Nat → String → FState → Except RefErr FState
  | 0, _, _ => .error .fuel
  | fuel + 1, g, s =>
    match findRep reps g with
    | none => .error .flowNotFound
    | some rg => foldF (stepF pts reps d home g (incorporateF pts reps d home fuel)) s (rg.conns d)

/-- the flattened (reference-free) connection list of direction `d` of flow `rep`, with the node owners -/
def flattenDir (pts : List PType) (reps : List RFlowRep) (fuel : Nat) (rep : RFlowRep) (d : Dir) :
    Except RefErr FState :=
  foldF (stepF pts reps d rep.name rep.name (incorporateF pts reps d rep.name fuel)) {} (rep.conns d)

/-- processors list handed to the reference-free builder for `acc`: exactly the created nodes -/
def FState.procs (s : FState) : List (String × String) := s.owner.map fun p => (p.1, "")

/-- a node that was created only as a foreign stream entry and never used stays without any
    connection: `validateUnconnectedProcessors` refuses it -/
def FState.dangling (s : FState) : Bool :=
  s.owner.any fun p => !(s.acc.any fun c =>
    (match c.src with | .proc f _ => f == p.1 | _ => false) ||
    (match c.dst with | .proc t _ => t == p.1 | _ => false))

/-- one built direction: the graph and the owner (`flowGraphName`) of every node -/
def buildDirRef (pts : List PType) (reps : List RFlowRep) (fuel : Nat) (rep : RFlowRep) (d : Dir) :
    Except RefErr (DirGraph × List (String × String)) :=
  match flattenDir pts reps fuel rep d with
  | .error e => .error e
  | .ok s =>
    match buildConnections [] s.procs d {} s.acc with
    | .error e => .error (.build e)        -- cannot happen (`flatten_builds`)
    | .ok g => if s.dangling then .error (.build .unconnected) else .ok (g, s.owner)

/-- a built flow together with the node owners of its two directions -/
structure FlowR where
  flow : Flow
  reqOwner : List (String × String)
  resOwner : List (String × String)
deriving DecidableEq, Repr, Inhabited

/-- `flowBuilder.buildFlow` for a flow that may reference other flows (`reps` = all flow representations) -/
def buildFlowRef (pts : List PType) (reps : List RFlowRep) (fuel : Nat) (rep : RFlowRep) : Except RefErr FlowR :=
  match buildDirRef pts reps fuel rep .req with
  | .error e => .error e
  | .ok (rq, ro) =>
    match buildDirRef pts reps fuel rep .res with
    | .error e => .error e
    | .ok (rs, so) =>
      match validateDirection .req rq with
      | .error e => .error (.build e)
      | .ok _ =>
        match validateDirection .res rs with
        | .error e => .error (.build e)
        | .ok _ =>
          if !rq.isDefined && !rs.isDefined then .error (.build .undefined)
          else .ok ⟨⟨rep.name, rq, rs⟩, ro, so⟩

/-- some connection names a borrowed processor (`otherFlow.key`) -/
def RFlowRep.borrows (f : RFlowRep) : Bool :=
  (f.req ++ f.res).any fun c =>
    (match c.src with | .proc k _ => k.toList.contains '.' | _ => false) ||
    (match c.dst with | .proc k _ => k.toList.contains '.' | _ => false)

/-- flows referenced (in either direction) by a flow -/
def RFlowRep.refs (f : RFlowRep) : List String :=
  (f.req ++ f.res).flatMap fun c =>
    (match c.src with | .flow g _ => [g] | _ => []) ++ (match c.dst with | .flow g _ => [g] | _ => [])

def refReaches (reps : List RFlowRep) : Nat → String → String → Bool
  | 0, _, _ => false
  | fuel + 1, a, b =>
    match findRep reps a with
    | none => false
    | some f => f.refs.any fun g => g == b || refReaches reps fuel g b

/-- some flow (transitively) references itself: the C04 harness does not load such a configuration -/
def refCycle (reps : List RFlowRep) : Bool :=
  reps.any fun f => refReaches reps (reps.length + 1) f.name f.name

def RFlowRep.refFree (f : RFlowRep) : Bool := f.refs.isEmpty

/-! reference-free view -/

def REnd.base? : REnd → Option End
  | .stream n a => some (.stream n a)
  | .proc k c => some (.proc k c)
  | .flow _ _ => none

def RConn.base? (c : RConn) : Option Conn :=
  match c.src.base?, c.dst.base? with
  | some a, some b => some ⟨a, b⟩
  | _, _ => none

def RFlowRep.base? (f : RFlowRep) : Option FlowRep :=
  match f.req.mapM RConn.base?, f.res.mapM RConn.base? with
  | some rq, some rs => some ⟨f.name, f.procs, rq, rs⟩
  | _, _ => none

end LunarVerif.FlowGraph
