/-
Model of the two retry mechanisms of the gateway.  Core Lean only.

* flows mode — `streams/processors/retry/retry_processor.go` (`retryProcessor.Execute`,
  `incrementRetryCount`, `removeCount`, `getCooldownDuration`, `init`).  The flow context
  (`lunar-context/context_memory.go`, a `sync.Map`) is an association list from the counter key
  (`<processor name>::retry_counter::<sequence id>`, a plain string concatenation) to the counter.
* policy mode — `services/remedies/retry_plugin.go` (`RetryPlugin.OnResponse`) on top of
  `utils/cache.go` (`MemoryCache.Get/Set/Del`, `valueExpired`, the sleeping goroutine started by
  every `Set` that deletes the key — whatever is stored under it by then — when its TTL is over).

Time is `Nat` nanoseconds.  Cool-downs are whole seconds.
-/
namespace LunarVerif.C17

/-! ### association lists keyed by strings (Go maps / sync.Map) -/

abbrev Key := String
abbrev AMap (α : Type) := List (Key × α)

def lookup {α : Type} (k : Key) : AMap α → Option α
  | [] => none
  | (k', v) :: r => if k' = k then some v else lookup k r

/-- replace-or-append -/
def insert {α : Type} (k : Key) (v : α) : AMap α → AMap α
  | [] => [(k, v)]
  | (k', v') :: r => if k' = k then (k, v) :: r else (k', v') :: insert k v r

def erase {α : Type} (k : Key) : AMap α → AMap α
  | [] => []
  | (k', v') :: r => if k' = k then erase k r else (k', v') :: erase k r

/-! ### flows mode -/

/-- Parameters of one Retry processor.  `mult4` is the cool-down multiplier in quarters
    (the harness only uses multipliers that are exact in binary floating point). -/
structure PCfg where
  attempts : Nat
  cooldown : Nat   -- seconds
  mult4    : Nat
deriving Repr, DecidableEq

/-- `getCooldownDuration`: `time.Duration(cooldown.Seconds() + count*multiplier) * time.Second`
    — the float is truncated to whole seconds. -/
def waitSec (p : PCfg) (count : Nat) : Nat := (4 * p.cooldown + count * p.mult4) / 4

inductive InitRes where
  | ok | errAttempts | errCooldown | errMult | errEnv | errTimeout
deriving Repr, DecidableEq

/-- Does the cumulated cool-down of attempts `1..n` exceed the timeout (seconds)?  Mirrors the
    loop at the end of `init` (`cooldown > configuredTimeout` after adding each attempt). -/
def cumulExceeds (p : PCfg) (timeout : Int) : Nat → Nat → Nat → Bool
  | 0, _, _ => false
  | fuel + 1, cur, acc =>
    if cur > p.attempts then false
    else
      let acc' := acc + waitSec p cur
      if (acc' : Int) > timeout then true else cumulExceeds p timeout fuel (cur + 1) acc'

/-- `retryProcessor.init`: the order of the checks is the order of the code. -/
def initProc (attempts cooldown mult4 : Int) (timeout : Option Int) : InitRes :=
  if attempts < 1 then .errAttempts
  else if cooldown < 0 then .errCooldown
  else if mult4 < 0 then .errMult
  else match timeout with
    | none => .errEnv
    | some t =>
      let p : PCfg := ⟨attempts.toNat, cooldown.toNat, mult4.toNat⟩
      if cumulExceeds p t (p.attempts + 1) 1 0 then .errTimeout else .ok

inductive FOut where
  | retry (waitSec : Nat)
  | failed
deriving Repr, DecidableEq

/-- `Execute`: `incrementRetryCount` (missing counter reads as 0; the incremented value is stored),
    then `> attempts` ⇒ `removeCount` + `failed`, else wait the cool-down and `retry`. -/
def fstep (p : PCfg) (m : AMap Nat) (k : Key) : AMap Nat × FOut :=
  let cur := (lookup k m).getD 0
  let upd := cur + 1
  let m1 := insert k upd m
  if upd > p.attempts then (erase k m1, .failed) else (m1, .retry (waitSec p upd))

/-- One execution request: which processor settings, which counter key. -/
structure FOp where
  cfg : PCfg
  key : Key
deriving Repr, DecidableEq

/-- What an observer sees of one execution. -/
structure FEvent where
  cfg : PCfg
  key : Key
  out : FOut
deriving Repr, DecidableEq

def frun : AMap Nat → List FOp → List FEvent
  | _, [] => []
  | m, o :: os => let (m', out) := fstep o.cfg m o.key; ⟨o.cfg, o.key, out⟩ :: frun m' os

/-- Final counter map of a run. -/
def ffinal : AMap Nat → List FOp → AMap Nat
  | m, [] => m
  | m, o :: os => ffinal (fstep o.cfg m o.key).1 os

/-! ### policy mode -/

structure RCfg where
  attempts : Int          -- `Attempts` (not validated anywhere: may be ≤ 0, then no state is ever created)
  cooldown : Nat          -- `InitialCooldownSeconds`
  mult     : Nat          -- `CooldownMultiplier`
  ranges   : List (Int × Int)
deriving Repr

/-- `RetryState` + the expiry instant kept by the cache's `ValueWrapper`. -/
structure Entry where
  left : Int
  next : Nat
  exp  : Nat
deriving Repr, DecidableEq

structure PState where
  now    : Nat
  cache  : AMap Entry
  timers : List (Nat × Key)   -- sleeping goroutines of `Set`: (due instant, key to clear)
deriving Repr

def PState.init (t0 : Nat) : PState := ⟨t0, [], []⟩

inductive POut where
  | noop
  | retry (after : Nat)
deriving Repr, DecidableEq

def inRange (cfg : RCfg) (status : Int) : Bool :=
  cfg.ranges.any fun r => !(decide (status < r.1) || decide (status > r.2))

/-- `MemoryCache.Get`: missing ⇒ miss; `now > expiration` ⇒ miss (the entry stays in the map). -/
def cacheGet (s : PState) (k : Key) : Option Entry :=
  match lookup k s.cache with
  | none => none
  | some e => if s.now > e.exp then none else some e

def transactionTimeoutSec : Nat := 30
def networkTimeBufferSec : Nat := 1

/-- `RetryPlugin.OnResponse` for a response of sequence `seq`; `first` = `ID == SequenceID`. -/
def presp (cfg : RCfg) (s : PState) (seq : Key) (first : Bool) (status : Int) : PState × POut :=
  if inRange cfg status then
    let st : Option (Int × Nat) :=
      match cacheGet s seq with
      | some e => some (e.left, e.next)
      | none =>
        if !first then none
        else if cfg.attempts < 1 then none   -- no retry is allowed by configuration
        else some (cfg.attempts, cfg.cooldown)
    match st with
    | none => (s, .noop)
    | some (left, next) =>
      let left' := left - 1
      let ttl := (next + transactionTimeoutSec + networkTimeBufferSec) * 1000000000
      if left' < 1 then
        ({ s with cache := erase seq s.cache }, .retry next)
      else
        ({ s with cache := insert seq ⟨left', next * cfg.mult, s.now + ttl⟩ s.cache,
                  timers := s.timers ++ [(s.now + ttl, seq)] }, .retry next)
  else
    ({ s with cache := erase seq s.cache }, .noop)

/-- Time passes and the timer goroutines are scheduled late: nothing fires. -/
def jump (s : PState) (d : Nat) : PState := { s with now := s.now + d }

/-- Fire every timer that is due: each deletes its key, whatever is stored there now. -/
def fireDue (now : Nat) : List (Nat × Key) → AMap Entry → List (Nat × Key) × AMap Entry
  | [], c => ([], c)
  | (due, k) :: r, c =>
    if due ≤ now then fireDue now r (erase k c)
    else let (r', c') := fireDue now r c; ((due, k) :: r', c')

/-- Time passes and every due timer fires. -/
def adv (s : PState) (d : Nat) : PState :=
  let now' := s.now + d
  let (t, c) := fireDue now' s.timers s.cache
  { now := now', cache := c, timers := t }

inductive POp where
  | resp (seq : Key) (first : Bool) (status : Int)
  | adv (d : Nat)
  | jump (d : Nat)
deriving Repr

/-- Observable part of a response event. -/
structure PEvent where
  seq     : Key
  first   : Bool
  inRange : Bool
  out     : POut
deriving Repr, DecidableEq

def pstepOp (cfg : RCfg) (s : PState) : POp → PState × Option PEvent
  | .resp seq first status =>
    let (s', o) := presp cfg s seq first status
    (s', some ⟨seq, first, inRange cfg status, o⟩)
  | .adv d => (adv s d, none)
  | .jump d => (jump s d, none)

/-- Run a history; response events oldest first. -/
def prun (cfg : RCfg) : PState → List POp → List PEvent
  | _, [] => []
  | s, o :: os =>
    match pstepOp cfg s o with
    | (s', some e) => e :: prun cfg s' os
    | (s', none) => prun cfg s' os

def pfinal (cfg : RCfg) : PState → List POp → PState
  | s, [] => s
  | s, o :: os => pfinal cfg (pstepOp cfg s o).1 os

end LunarVerif.C17
