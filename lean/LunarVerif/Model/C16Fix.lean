import LunarVerif.Model.C16
/-
Model of the PROPOSED patch for findings F16a / F16b (see notes/C16.md, `fix:` diff) — not of the code
as it is.  `filterBodyExclusions` strips the `$.request.body` / `$.response.body` prefix it has just
tested, and `isCursorInExcludedPath` keeps only the exact comparison (`slices.Contains`).
-/
namespace LunarVerif.C16

/-- patched `filterBodyExclusions`: `strings.TrimPrefix(exclusion, prefix)` of the kept exclusions -/
def fixedFilter (pre : Str) (ex : List Str) : List Str :=
  (ex.filter (fun e => pre.isPrefixOf e)).map (fun e => e.drop pre.length)

def fixedExclusions : Side → List Str → List Str
  | .raw, ex => ex
  | .req, ex => fixedFilter reqPrefix ex
  | .resp, ex => fixedFilter respPrefix ex

/-- patched `isCursorInExcludedPath`: `slices.Contains(excludedPaths, cursor)` only -/
def fixedExcl (ex : List Str) : Str → Bool := fun c => ex.contains c

def obfuscateBodyFixed (H : Str → Str) (side : Side) (ex : List Str) (doc : Json) : Json :=
  obfWith H (fixedExcl (fixedExclusions side ex)) [] doc

end LunarVerif.C16
