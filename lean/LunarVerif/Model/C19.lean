import LunarVerif.Model.C19IP
/-
Model of the Python interceptor's circuit breaker (`fail_safe.py`), traffic filter
(`traffic_filter.py`), their wiring (`configuration.py`, `lunar_interceptor/__init__.py`) and the
call protocol of the `requests` hook (`hooks/requests.py::_hook_module._request`).  Core Lean only.

Time is `Nat` ticks of 1/8 s (every value is exactly representable as a Python float, so the
float subtraction in `_ensure_exit_fail_safe` is exact; wall-clock rounding is not modelled).
DNS (`socket.gethostbyname`) is the parameter `Cfg.dns`.
-/
namespace LunarVerif.C19

def ticksPerSec : Nat := 8

/-- Outcome of `gethostbyname(host)`.  `gaierror`, `herror`, `timeout` are subclasses of `OSError`
    (= `socket.error`), which is what `_is_external_domain` catches. -/
inductive Res where
  | ip (addr : IPv4)     -- returns the dotted quad `render addr`
  | gaierror             -- raises `socket.gaierror` (unknown host, temporary failure)
  | oserror              -- raises a plain `OSError` (getaddrinfo EAI_SYSTEM: EMFILE, ENOMEM, ...)
  | herror               -- raises `socket.herror`
  | timeout              -- raises `socket.timeout` (`TimeoutError`)
  | unicodeErr           -- raises `UnicodeError` (IDNA: label empty or longer than 63)
deriving Repr, DecidableEq

/-- The environment as the package reads it. -/
structure Cfg where
  maxErr : Nat            -- LUNAR_ENTER_COOLDOWN_AFTER_ATTEMPTS
  cool   : Nat            -- LUNAR_EXIT_COOLDOWN_AFTER_SEC (seconds)
  block  : Option Str     -- LUNAR_BLOCK_LIST (none = unset)
  allow  : Option Str     -- LUNAR_ALLOW_LIST
  dns    : List (Str × Res)
  /-- Resolver answers are a HISTORY per name: the first `n` lookups of the name fail transiently
      (`gaierror` EAI_AGAIN, a resolver time-out), every later lookup gets the answer of `dns`. -/
  transient : List (Str × Nat) := []
deriving Repr

/-- `self._max_errors_allowed = cooldown_time or 5` after the two swaps cancelled. -/
def Cfg.maxEff (cfg : Cfg) : Nat := if cfg.maxErr = 0 then 5 else cfg.maxErr
/-- `self._cooldown_time = max_errors_allowed or 10` (seconds). -/
def Cfg.coolEff (cfg : Cfg) : Nat := if cfg.cool = 0 then 10 else cfg.cool
def Cfg.coolTicks (cfg : Cfg) : Nat := cfg.coolEff * ticksPerSec

/-- Hosts absent from the table do not resolve (`gaierror`). -/
def Cfg.resolve (cfg : Cfg) (h : Str) : Res :=
  match cfg.dns.find? (fun p => p.1 == h) with
  | some p => p.2
  | none => .gaierror

/-- How many initial lookups of the name fail transiently. -/
def Cfg.transientFor (cfg : Cfg) (h : Str) : Nat :=
  match cfg.transient.find? (fun p => p.1 == h) with
  | some p => p.2
  | none => 0

/-- Lookups made so far, per name (state of the resolver as the filter drives it). -/
abbrev Lookups := List (Str × Nat)

def lookupCount (l : Lookups) (h : Str) : Nat :=
  match l.find? (fun p => p.1 == h) with
  | some p => p.2
  | none => 0

def bumpLookup (l : Lookups) (h : Str) : Lookups :=
  (h, lookupCount l h + 1) :: l.filter (fun p => p.1 != h)

/-! ### Traffic filter -/

/-- `_parse_list`. -/
def parseList (raw : Option Str) : Option (List Str) :=
  match raw with
  | none => none
  | some s => if s.isEmpty then none else some (splitOnC ',' s)

/-- State of a constructed `TrafficFilter` (lists after `is_access_list_valid`). -/
structure Filter where
  valid : Bool                    -- `_state_ok`
  allow : Option (List Str)       -- `_allow_list`
  block : Option (List Str)       -- `_block_list`
deriving Repr

def mkFilter (cfg : Cfg) : Filter :=
  let block0 := parseList cfg.block
  -- `_validate_allow`: unsupported values are removed; always passes
  let allow := (parseList cfg.allow).map (·.filter validEntry)
  let allowNonEmpty := match allow with | some (_ :: _) => true | _ => false
  -- `_validate_block`
  match block0 with
  | none => ⟨true, allow, none⟩
  | some [] => ⟨true, allow, some []⟩
  | some bl =>
    if allowNonEmpty then ⟨true, allow, some []⟩
    else ⟨bl.all validEntry, allow, some bl⟩

/-- The request's headers as far as the filter looks at them. -/
inductive Hdr where
  | absent                 -- no / empty headers, or headers without the key `x-lunar-allow`
  | val (v : Str)          -- `x-lunar-allow: v`
deriving Repr, DecidableEq

/-- `_check_for_header_based_filter`. -/
def hdrOverride : Hdr → Option Bool
  | .absent => none
  | .val v => some (v == ['t', 'r', 'u', 'e'])

/-- Exceptions raised inside the classification (caught by `_is_external`). -/
inductive DecExc where
  | addressValue    -- `ipaddress.AddressValueError` from `IPv4Address(ip)`
  | unicode         -- `UnicodeError` from `gethostbyname`
deriving Repr, DecidableEq

abbrev Cache := List (Str × Bool)

def cacheGet (c : Cache) (h : Str) : Option Bool := (c.find? (fun p => p.1 == h)).map (·.2)

/-- `_is_external_ip`: `IPv4Address(ip) not in _PRIVATE_IP_RANGES.get(ip[:2], _BLACK_HOLE)`. -/
def isExternalIp (s : Str) : Except DecExc Bool :=
  match parseIPv4 s with
  | none => .error .addressValue
  | some ip => .ok (!(inNet (netOf (s.take 2)) ip))

/-- `_is_external_domain`: `None` (unresolvable) is `none`. -/
def isExternalDomain (cfg : Cfg) (h : Str) : Except DecExc (Option Bool) :=
  match cfg.resolve h with
  | .ip a => (isExternalIp (render a)).map some
  | .gaierror => .ok none        -- `except socket_error` (= OSError and every subclass): `None`
  | .oserror => .ok none
  | .herror => .ok none
  | .timeout => .ok none
  | .unicodeErr => .error .unicode

/-- `_is_external` without the cache. -/
def isExternalRaw (cfg : Cfg) (h : Str) : Except DecExc (Option Bool) :=
  if validateIp h then (isExternalIp h).map some else isExternalDomain cfg h

/-- One classification with the resolver as it is NOW: `(answer, lookups', transient fault seen)`.
    An IP literal needs no lookup; a name whose next lookup is one of its transient failures is
    answered `None` (the `except socket_error` branch) and the failure is reported. -/
def isExternalNow (cfg : Cfg) (lk : Lookups) (h : Str) : Except DecExc (Option Bool) × Lookups × Bool :=
  if validateIp h then ((isExternalIp h).map some, lk, false)
  else if lookupCount lk h < cfg.transientFor h then (.ok none, bumpLookup lk h, true)
  else (isExternalDomain cfg h, bumpLookup lk h, false)

/-- What `is_allowed` / `_is_external` leave behind and answer. -/
structure Dec where
  allowed : Bool
  cache   : Cache
  lookups : Lookups
  fault   : Bool      -- the resolver failed transiently during this decision (observable at the resolver)
deriving Repr

/-- `_is_external` (cache consulted first; unresolvable answers are NOT stored: they are tried
    again next time).  A `ValueError` raised by the classification (`AddressValueError`,
    `UnicodeError`) is caught: the destination is answered "not external" and nothing is stored. -/
def isExternal (cfg : Cfg) (c : Cache) (lk : Lookups) (h : Str) : Dec :=
  match cacheGet c h with
  | some b => ⟨b, c, lk, false⟩
  | none =>
    match isExternalNow cfg lk h with
    | (.error _, lk', f) => ⟨false, c, lk', f⟩
    | (.ok none, lk', f) => ⟨false, c, lk', f⟩
    | (.ok (some b), lk', f) => ⟨b, (h, b) :: c, lk', f⟩

/-- `_check_blocked` (True = not blocked). -/
def checkBlocked (f : Filter) (h : Str) : Bool :=
  match f.block with
  | none => true
  | some [] => true
  | some bl => !bl.contains h

/-- `is_allowed` (total: it never raises). -/
def isAllowed (cfg : Cfg) (f : Filter) (c : Cache) (lk : Lookups) (h : Str) (hdr : Hdr) : Dec :=
  if !f.valid then ⟨false, c, lk, false⟩ else
  match hdrOverride hdr with
  | some b => ⟨b, c, lk, false⟩
  | none =>
    match f.allow with
    | some al => ⟨al.contains h, c, lk, false⟩
    | none => if checkBlocked f h then isExternal cfg c lk h else ⟨false, c, lk, false⟩

/-! ### Circuit breaker and hook protocol -/

/-- What the gateway leg does when it is attempted. -/
inductive GwOut where
  | ok        -- a response without `x-lunar-error`
  | connErr   -- raises `requests.ConnectionError` (or a subclass)
  | errHdr (v : Str)  -- a response carrying `x-lunar-error: v`, ANY value `v` (also unknown codes,
                     -- non-numeric or empty values; the key in any letter case) → `ProxyErrorException`
  | appExc    -- raises an exception outside `handle_on`
deriving Repr, DecidableEq

def GwOut.failed : GwOut → Bool
  | .connErr => true
  | .errHdr _ => true
  | _ => false

/-- What the direct leg does when it is attempted. -/
inductive DirOut where
  | ok
  | exc
deriving Repr, DecidableEq

structure CallIn where
  host   : Str
  hdr    : Hdr
  gw     : GwOut
  direct : DirOut
deriving Repr

inductive Target where
  | gw
  | direct
deriving Repr, DecidableEq

inductive Result where
  | respGw
  | respDirect
  | raiseGwApp
  | raiseDirectApp
deriving Repr, DecidableEq

structure CallOut where
  sent   : List Target
  result : Result
deriving Repr, DecidableEq

structure St where
  cnt   : Nat      -- `_error_counter`
  ok    : Bool     -- `_state_ok`
  start : Nat      -- `_cooldown_started_at` (ticks)
  now   : Nat      -- the clock (ticks)
  cache : Cache    -- `_is_external_cache`
  lookups : Lookups := []   -- lookups the filter has made so far (resolver side)
deriving Repr

def St.init (t0 : Nat) : St := { cnt := 0, ok := true, start := 0, now := t0, cache := [], lookups := [] }

/-- `state_ok` (`_ensure_exit_fail_safe`): re-close once the cool-down has elapsed. -/
def stateOk (cfg : Cfg) (s : St) : St :=
  if !s.ok && decide (cfg.coolTicks ≤ s.now - s.start) then { s with ok := true } else s

/-- `_on_error`: count, and open the circuit unless `max > counter`. -/
def onError (cfg : Cfg) (s : St) : St :=
  let c := s.cnt + 1
  if decide (cfg.maxEff > c) then { s with cnt := c }
  else { s with cnt := c, ok := false, start := s.now }

/-- What the application gets from the direct leg. -/
def directResult (c : CallIn) : Result :=
  match c.direct with
  | .ok => .respDirect
  | .exc => .raiseDirectApp

/-- The direct leg (`self._original_function(..., url=url, ...)` after the `with` block). -/
def directLeg (s : St) (before : List Target) (c : CallIn) : St × CallOut :=
  (s, ⟨before ++ [.direct], directResult c⟩)

/-- The gateway leg inside `with self._fail_safe:` and what `__exit__` makes of its outcome. -/
def gwLeg (cfg : Cfg) (s2 : St) (c : CallIn) : St × CallOut :=
  match c.gw with
  | .ok => ({ s2 with cnt := 0 }, ⟨[.gw], .respGw⟩)       -- `__exit__(None)`: reset
  | .appExc => (s2, ⟨[.gw], .raiseGwApp⟩)                 -- not handled: propagate, no count
  | .connErr => directLeg (onError cfg s2) [.gw] c        -- handled: count, swallow, fall through
  | .errHdr _ => directLeg (onError cfg s2) [.gw] c

/-- One intercepted `Session.request`. -/
def call (cfg : Cfg) (s : St) (c : CallIn) : St × CallOut :=
  let s1 := stateOk cfg s
  if s1.ok then
    let d := isAllowed cfg (mkFilter cfg) s1.cache s1.lookups c.host c.hdr
    if d.allowed then gwLeg cfg { s1 with cache := d.cache, lookups := d.lookups } c
    else directLeg { s1 with cache := d.cache, lookups := d.lookups, cnt := 0 } [] c
  else directLeg { s1 with cnt := 0 } [] c

/-- Did the resolver fail transiently during this call?  (No decision is taken while the breaker
    is open.) -/
def callFault (cfg : Cfg) (s : St) (c : CallIn) : Bool :=
  let s1 := stateOk cfg s
  s1.ok && (isAllowed cfg (mkFilter cfg) s1.cache s1.lookups c.host c.hdr).fault

/-- Inputs of a run: clock advances, intercepted calls, and direct questions to the filter
    (`TrafficFilter.is_allowed`, which shares the cache with the calls). -/
inductive Input where
  | adv (d : Nat)
  | call (c : CallIn)
  | decide (h : Str) (hdr : Hdr)
deriving Repr

/-- A direct question to the filter and its answer. -/
structure DecObs where
  host   : Str
  hdr    : Hdr
  answer : Bool
  fault  : Bool      -- the resolver failed transiently while answering
deriving Repr

/-- What an outside observer records for one call. -/
structure Obs where
  t   : Nat
  inp : CallIn
  out : CallOut
  fault : Bool := false   -- the resolver failed transiently during this call
deriving Repr

def step (cfg : Cfg) (s : St) : Input → St × Option Obs
  | .adv d => ({ s with now := s.now + d }, none)
  | .call c => let (s', o) := call cfg s c; (s', some ⟨s.now, c, o, callFault cfg s c⟩)
  | .decide h hdr =>
    let d := isAllowed cfg (mkFilter cfg) s.cache s.lookups h hdr
    ({ s with cache := d.cache, lookups := d.lookups }, none)

/-- Observable history (oldest first) of a run. -/
def run (cfg : Cfg) : St → List Input → List Obs
  | _, [] => []
  | s, i :: is =>
    match step cfg s i with
    | (s', some o) => o :: run cfg s' is
    | (s', none) => run cfg s' is

/-- Answers to the direct questions of a run (oldest first). -/
def runDec (cfg : Cfg) : St → List Input → List DecObs
  | _, [] => []
  | s, i :: is =>
    match i with
    | .decide h hdr =>
      let d := isAllowed cfg (mkFilter cfg) s.cache s.lookups h hdr
      ⟨h, hdr, d.allowed, d.fault⟩ :: runDec cfg (step cfg s i).1 is
    | _ => runDec cfg (step cfg s i).1 is

/-- Final state of a run. -/
def runSt (cfg : Cfg) : St → List Input → St
  | s, [] => s
  | s, i :: is => runSt cfg (step cfg s i).1 is

end LunarVerif.C19
