/-!
# C18 — `MapVacuum` (toolkit-core/vacuum): registrations racing with a vacuum pass

`VacuumKey` appends (key, now + ttl) to the pending list under `entriesMutex`; the background goroutine's
pass (`vacuum()`) is THREE critical sections:
  snap — read-lock, copy the slice header of the pending list;
  del  — lock the map, delete the keys of the snapshot's expired prefix, count them (`deleteUntil`);
  trim — write-lock, drop `deleteUntil` entries from the LIVE pending list.
Registrations by transactions may fall between any two of them.  The fine-grained steps below are the
units of the interleaving theorem; `pass` is one whole pass with an optional registration in the window
between `snap` and `del` (where `vacuum()` reads the clock), which is what the harness can force.
-/
namespace LunarVerif.C18.Vacuum

structure St where
  now : Nat := 0
  ttl : Nat := 1
  tick : Nat := 1
  wakeAt : Option Nat := none           -- none: the goroutine has not been started yet
  entries : List (String × Nat) := []   -- pending list, append-only between trims
  map : List String := []               -- keys present in mapToVacuum
  snap : Option (List (String × Nat)) := none   -- the pass's snapshot (between snap and del)
  drop : Option Nat := none             -- deleteUntil (between del and trim)
  reg : List (String × Nat) := []       -- ghost: deadline of the LATEST registration of every key
  lastPass : Option Nat := none         -- ghost: instant of the last completed pass
  deriving Repr

/-- `entry.vacuumAt.Before(now)` -/
def due (now : Nat) (e : String × Nat) : Bool := decide (e.2 < now)

/-- maximal expired prefix -/
def expiredPrefix (now : Nat) : List (String × Nat) → List (String × Nat)
  | [] => []
  | e :: r => if due now e then e :: expiredPrefix now r else []

inductive Step
  | add (k : String)     -- a transaction: map[k] = v; VacuumKey(k)
  | snap | del | trim    -- the three critical sections of vacuum()
  | tick (n : Nat)
  deriving Repr

def step (s : St) : Step → St
  | .add k => { s with map := k :: s.map.filter (· != k), entries := s.entries ++ [(k, s.now + s.ttl)],
                       reg := (k, s.now + s.ttl) :: s.reg.filter (·.1 != k) }
  | .snap => if s.snap.isNone && s.drop.isNone then { s with snap := some s.entries } else s
  | .del =>
    match s.snap with
    | none => s
    | some sn =>
      let gone := expiredPrefix s.now sn
      { s with snap := none, drop := some gone.length,
               map := s.map.filter fun k => !(gone.map (·.1)).contains k }
  | .trim =>
    match s.drop with
    | none => s
    | some n => { s with drop := none, entries := s.entries.drop n, lastPass := some s.now }
  | .tick n => { s with now := s.now + n }

def run (steps : List Step) (s : St) : St := steps.foldl step s

/-- one whole pass at the current instant, with an optional registration while `vacuum()` reads the clock -/
def pass (s : St) (during : Option String) : St :=
  let s := step s .snap
  let s := match during with
    | some k => step s (.add k)
    | none => s
  step (step s .del) .trim

/-- advancing the clock by `adv`: the goroutine wakes at `wakeAt`, `wakeAt + tick`, … ≤ target; the
    optional registration is made during the first of these passes -/
def advance : Nat → St → Nat → Option String → St
  | 0, s, target, _ => { s with now := target }
  | fuel + 1, s, target, during =>
    match s.wakeAt with
    | none => { s with now := target }
    | some w =>
      if w ≤ target then
        let s1 := pass { s with now := max s.now w } during
        advance fuel { s1 with wakeAt := some (max s.now w + s.tick) } target none
      else { s with now := target }

/-- `vadd`: the first registration starts the goroutine, whose first pass runs at once -/
def vadd (s : St) (k : String) : St :=
  let s := step s (.add k)
  match s.wakeAt with
  | some _ => s
  | none => { pass s none with wakeAt := some (s.now + s.tick) }

end LunarVerif.C18.Vacuum
