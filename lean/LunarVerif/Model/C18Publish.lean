/-!
# C18 — register-before-publish (queue processor hand-off to the background loop)

`queueProcessor.enqueueIfSlotAvailable` hands a queued transaction to the background goroutine
`queueProcessor.process` through two shared structures: the request watcher (`AddRequest`, the
loop's look-up table) and the shared queue (`Enqueue`, which makes the id visible to the loop).
The loop (`tryProcessQueueItems`) pops an id, looks it up, and FORGETS an id it does not find
("probably already terminated").  Producers and the loop interleave freely between these steps.

The model: one program of steps per transaction (the call sites of `enqueueIfSlotAvailable` in source
order, regenerated from /repo — `Generated.orderFacts`), a loop that pops one id per `tick`.
-/
namespace LunarVerif.C18.Publish

inductive PStep | register | publish | other
  deriving DecidableEq, Repr

/-- call-site name → step (the names recorded by harness/go/internal/lockfacts/order.go) -/
def stepOfCall : String → PStep
  | "AddRequest" => .register
  | "Enqueue" => .publish
  | _ => .other

structure St where
  progs : List (Nat × List PStep)   -- remaining steps of each producer (transaction id)
  registered : List Nat              -- ids the watcher knows
  queue : List Nat                   -- shared queue, head = next to pop
  published : List Nat               -- every id ever pushed
  handled : List Nat                 -- popped and found: gets a processing attempt
  lost : List Nat                    -- popped and NOT found: forgotten while its transaction waits
  deriving Repr

inductive PEv | prod (i : Nat) | tick
  deriving DecidableEq, Repr

def init (progs : List (Nat × List PStep)) : St :=
  { progs := progs, registered := [], queue := [], published := [], handled := [], lost := [] }

/-- take the next step of the first producer with id `i` that still has one -/
def advance (i : Nat) : List (Nat × List PStep) → Option (PStep × List (Nat × List PStep))
  | [] => none
  | (j, p) :: rest =>
    if j = i then
      match p with
      | [] => none
      | s :: p' => some (s, (j, p') :: rest)
    else
      match advance i rest with
      | none => none
      | some (s, r) => some (s, (j, p) :: r)

def step (s : St) : PEv → St
  | .prod i =>
    match advance i s.progs with
    | none => s
    | some (.register, ps) => { s with progs := ps, registered := i :: s.registered }
    | some (.publish, ps) => { s with progs := ps, queue := s.queue ++ [i], published := i :: s.published }
    | some (.other, ps) => { s with progs := ps }
  | .tick =>
    match s.queue with
    | [] => s
    | i :: q =>
      if s.registered.contains i then { s with queue := q, handled := i :: s.handled }
      else { s with queue := q, lost := i :: s.lost }

def run (evs : List PEv) (s : St) : St := evs.foldl step s

/-- no `publish` before the first `register` -/
def regBeforePub : List PStep → Bool
  | [] => true
  | .register :: _ => true
  | .publish :: _ => false
  | .other :: r => regBeforePub r

/-- the program really does both (otherwise `regBeforePub` says nothing) -/
def doesBoth (p : List PStep) : Bool := p.contains .register && p.contains .publish

def progOfCalls (calls : List String) : List PStep := calls.map stepOfCall

end LunarVerif.C18.Publish
