import LunarVerif.Model.C02
/-
Executable extension of `Model/C02.lean` to MIXED quota trees (fixed-window internal limits under a concurrent quota,
concurrent internal limits under a fixed-window quota).  Core Lean only.  NOT covered by the theorems (their `Cfg.wf`
asks for parentless fixed-window quotas); it is tied to the code by the correspondence check and the judge only.  On
`wf` configurations it must agree with the proved model — the driver runs both and reports a mismatch.

What a never-limiting fixed-window level does to a walk up the chain (`fixed_strategy.go`):
* `Inc` (`incChain`): `quota.Inc` — a memo `allowedByReqID[reqID]` already there ⇒ `alreadyIncreased`, the walk stops
  here; otherwise the memo is set and the parent (whatever its type) is incremented;
* `Allowed`: `quota.Allowed` — no memo ⇒ `false` (refused); otherwise the memo is consumed and the parent is asked;
* `Dec`: the memo is deleted, then `parent.Dec` (whatever the parent's type).

A fixed-window quota with `group_by_header` keeps one counter object (with its own memo) per value of that header; the
group is computed from the stream presented to the operation (`calculateContextKey`): the request's header value while
the request is being processed (limiter, system start flow, refusal / early answer and the response-direction flows run
for it), the `default` group for a provider response and for the proxy-error report (their streams carry no such
header).  `getQuota` creates the group's object when it is not there — also in `Dec` — so the walk always goes on to
the parent.  Here: group 1 = "the header is present", group 0 = default.
-/
namespace LunarVerif.C02.Mixed
open LunarVerif.C02

structure MS where
  s : S
  memo : Nat → Nat → Nat → Bool  -- fixed-window quota, group, request id ↦ `allowedByReqID` has an entry
  grouped : Nat → Bool           -- the fixed-window quota has `group_by_header`

def MS.init (cfg : Cfg) (grouped : Nat → Bool := fun _ => false) : MS := ⟨S.init cfg, fun _ _ _ => false, grouped⟩

/-- the group of quota `q` for a stream that carries the header (`hd`) or not -/
def MS.grp (x : MS) (q : Nat) (hd : Bool) : Nat := if x.grouped q && hd then 1 else 0

def setMemo (x : MS) (q g r : Nat) (b : Bool) : MS :=
  { x with memo := fun q' g' r' => if q' = q ∧ g' = g ∧ r' = r then b else x.memo q' g' r' }

def inc (cfg : Cfg) (hd : Bool) : List Nat → MS → Nat → MS
  | [], x, _ => x
  | q :: rest, x, r =>
    if cfg.isConc q then
      if (x.s.allowed q r).isSome then x
      else
        let m : Member := ⟨x.s.now + cfg.exp q, r⟩
        if (x.s.members q).length < cfg.max q then
          let x1 := { x with s := micro cfg x.s (.sadd q m) }
          let x2 := inc cfg hd rest x1 r
          { x2 with s := micro cfg x2.s (.setst q r m) }
        else x
    else if x.memo q (x.grp q hd) r then x
    else inc cfg hd rest (setMemo x q (x.grp q hd) r true) r

def allowed (cfg : Cfg) (hd : Bool) : List Nat → MS → Nat → MS × Bool
  | [], x, _ => (x, true)
  | q :: rest, x, r =>
    if cfg.isConc q then
      let x1 := inc cfg hd (q :: rest) x r
      if (x1.s.allowed q r).isSome then allowed cfg hd rest x1 r else (x1, false)
    else if x.memo q (x.grp q hd) r then allowed cfg hd rest (setMemo x q (x.grp q hd) r false) r
    else (x, false)

def dec (cfg : Cfg) (hd : Bool) : List Nat → MS → Nat → MS
  | [], x, _ => x
  | q :: rest, x, r =>
    if cfg.isConc q then
      let x1 := match x.s.allowed q r with
        | none => x
        | some m => { x with s := micro cfg x.s (.srem q m) }
      let x2 := dec cfg hd rest x1 r
      { x2 with s := micro cfg x2.s (.del q r) }
    else dec cfg hd rest (setMemo x q (x.grp q hd) r false) r

def touch (cfg : Cfg) (x : MS) (r q : Nat) : MS := { x with s := micro cfg x.s (.rmSet r q) }

def limiter (cfg : Cfg) (hd : Bool) (x : MS) (q r : Nat) : MS × Bool :=
  let x0 := touch cfg x r q
  allowed cfg hd (cfg.chainOf q) (inc cfg hd (cfg.chainOf q) x0 r) r

def userFlow (cfg : Cfg) (hd : Bool) : List Nat → MS → Nat → MS × Bool
  | [], x, _ => (x, true)
  | q :: rest, x, r =>
    let p := limiter cfg hd x q r
    if p.2 then userFlow cfg hd rest p.1 r else (p.1, false)

def sysInc (cfg : Cfg) (hd : Bool) : List Nat → MS → Nat → MS
  | [], x, _ => x
  | q :: rest, x, r => sysInc cfg hd rest (inc cfg hd (cfg.chainOf q) (touch cfg x r q) r) r

def decList (cfg : Cfg) (hd : Bool) : List Nat → MS → Nat → MS
  | [], x, _ => x
  | q :: rest, x, r => decList cfg hd rest (dec cfg hd (cfg.chainOf q) x r) r

def drop (cfg : Cfg) (hd : Bool) (x : MS) (r : Nat) : MS :=
  decList cfg hd (x.s.rm r) { x with s := micro cfg x.s (.rmPop r) } r

def sysDec (cfg : Cfg) (hd : Bool) : List Nat → MS → Nat → MS
  | [], x, _ => x
  | q :: rest, x, r => sysDec cfg hd rest (dec cfg hd (cfg.chainOf q) (touch cfg x r q) r) r

def endFlows (cfg : Cfg) (hd : Bool) (x : MS) (r : Nat) (tx : Tx) : MS :=
  drop cfg hd (sysDec cfg hd (cfg.sysDecsFor tx) x r) r

def reqEvent (cfg : Cfg) (x : MS) (r : Nat) (tx : Tx) : MS × Verdict :=
  let hd := tx.hdr
  let p := userFlow cfg hd cfg.order (sysInc cfg hd (cfg.sysStartFor tx) x r) r
  if !p.2 then (endFlows cfg hd (drop cfg hd p.1 r) r tx, .refused)
  else if cfg.early && tx.post then (endFlows cfg hd (drop cfg hd p.1 r) r tx, .early)
  else (p.1, .admitted)

def event (cfg : Cfg) (x : MS) : Event → MS × Verdict
  | .req r tx => reqEvent cfg x r tx
  | .resp r tx => (endFlows cfg false x r tx, .none)   -- the provider's response carries no group header
  | .err r => (drop cfg false x r, .none)              -- `OnError`: a synthetic response stream without headers
  | .adv d => ({ x with s := advance cfg x.s d }, .none)

/-- What the parser accepts beyond `Cfg.wf`: positive GC interval, every chain free of repetitions, flow order in
    range, every concurrent quota in a quota tree. -/
def okCfg (cfg : Cfg) : Bool :=
  decide (0 < cfg.gc) &&
  (List.range cfg.quotas.length).all (fun q => decide (cfg.chainOf q).Nodup &&
    (cfg.chainOf q).all (fun q' => decide (q' < cfg.quotas.length))) &&
  cfg.order.all (fun q => decide (q < cfg.quotas.length)) &&
  (List.range cfg.quotas.length).all (fun q => !cfg.isConc q || cfg.sysDecs.contains q)

end LunarVerif.C02.Mixed
