import LunarVerif.Model.C02
/-
Executable extension of `Model/C02.lean` to MIXED quota trees (fixed-window internal limits under a concurrent quota,
concurrent internal limits under a fixed-window quota).  Core Lean only.  NOT covered by the theorems (their `Cfg.wf`
asks for parentless fixed-window quotas); it is tied to the code by the correspondence check and the judge only.  On
`wf` configurations it must agree with the proved model — the driver runs both and reports a mismatch.

What a never-limiting fixed-window level does to a walk up the chain (`fixed_strategy.go`):
* `Inc` (`incChain`): `quota.Inc` — a memo `allowedByReqID[reqID]` already there ⇒ `alreadyIncreased`, the walk stops
  here; otherwise the memo is set and the parent (whatever its type) is incremented;
* `Allowed`: `quota.Allowed` — no memo ⇒ `false` (refused); otherwise the memo is consumed and the parent is asked;
* `Dec`: the memo is deleted, then `parent.Dec` (whatever the parent's type).
-/
namespace LunarVerif.C02.Mixed
open LunarVerif.C02

structure MS where
  s : S
  memo : Nat → Nat → Bool      -- fixed-window quota, request id ↦ `allowedByReqID` has an entry

def MS.init (cfg : Cfg) : MS := ⟨S.init cfg, fun _ _ => false⟩

def setMemo (x : MS) (q r : Nat) (b : Bool) : MS :=
  { x with memo := fun q' r' => if q' = q ∧ r' = r then b else x.memo q' r' }

def inc (cfg : Cfg) : List Nat → MS → Nat → MS
  | [], x, _ => x
  | q :: rest, x, r =>
    if cfg.isConc q then
      if (x.s.allowed q r).isSome then x
      else
        let m : Member := ⟨x.s.now + cfg.exp q, r⟩
        if (x.s.members q).length < cfg.max q then
          let x1 := { x with s := micro cfg x.s (.sadd q m) }
          let x2 := inc cfg rest x1 r
          { x2 with s := micro cfg x2.s (.setst q r m) }
        else x
    else if x.memo q r then x
    else inc cfg rest (setMemo x q r true) r

def allowed (cfg : Cfg) : List Nat → MS → Nat → MS × Bool
  | [], x, _ => (x, true)
  | q :: rest, x, r =>
    if cfg.isConc q then
      let x1 := inc cfg (q :: rest) x r
      if (x1.s.allowed q r).isSome then allowed cfg rest x1 r else (x1, false)
    else if x.memo q r then allowed cfg rest (setMemo x q r false) r
    else (x, false)

def dec (cfg : Cfg) : List Nat → MS → Nat → MS
  | [], x, _ => x
  | q :: rest, x, r =>
    if cfg.isConc q then
      let x1 := match x.s.allowed q r with
        | none => x
        | some m => { x with s := micro cfg x.s (.srem q m) }
      let x2 := dec cfg rest x1 r
      { x2 with s := micro cfg x2.s (.del q r) }
    else dec cfg rest (setMemo x q r false) r

def touch (cfg : Cfg) (x : MS) (r q : Nat) : MS := { x with s := micro cfg x.s (.rmSet r q) }

def limiter (cfg : Cfg) (x : MS) (q r : Nat) : MS × Bool :=
  let x0 := touch cfg x r q
  allowed cfg (cfg.chainOf q) (inc cfg (cfg.chainOf q) x0 r) r

def userFlow (cfg : Cfg) : List Nat → MS → Nat → MS × Bool
  | [], x, _ => (x, true)
  | q :: rest, x, r =>
    let p := limiter cfg x q r
    if p.2 then userFlow cfg rest p.1 r else (p.1, false)

def sysInc (cfg : Cfg) : List Nat → MS → Nat → MS
  | [], x, _ => x
  | q :: rest, x, r => sysInc cfg rest (inc cfg (cfg.chainOf q) (touch cfg x r q) r) r

def decList (cfg : Cfg) : List Nat → MS → Nat → MS
  | [], x, _ => x
  | q :: rest, x, r => decList cfg rest (dec cfg (cfg.chainOf q) x r) r

def drop (cfg : Cfg) (x : MS) (r : Nat) : MS :=
  decList cfg (x.s.rm r) { x with s := micro cfg x.s (.rmPop r) } r

def sysDec (cfg : Cfg) : List Nat → MS → Nat → MS
  | [], x, _ => x
  | q :: rest, x, r => sysDec cfg rest (dec cfg (cfg.chainOf q) (touch cfg x r q) r) r

def endFlows (cfg : Cfg) (x : MS) (r : Nat) (tx : Tx) : MS :=
  drop cfg (sysDec cfg (cfg.sysDecsFor tx) x r) r

def reqEvent (cfg : Cfg) (x : MS) (r : Nat) (tx : Tx) : MS × Verdict :=
  let p := userFlow cfg cfg.order (sysInc cfg (cfg.sysStartFor tx) x r) r
  if !p.2 then (endFlows cfg (drop cfg p.1 r) r tx, .refused)
  else if cfg.early && tx.post then (endFlows cfg (drop cfg p.1 r) r tx, .early)
  else (p.1, .admitted)

def event (cfg : Cfg) (x : MS) : Event → MS × Verdict
  | .req r tx => reqEvent cfg x r tx
  | .resp r tx => (endFlows cfg x r tx, .none)
  | .err r => (drop cfg x r, .none)
  | .adv d => ({ x with s := advance cfg x.s d }, .none)

/-- What the parser accepts beyond `Cfg.wf`: positive GC interval, every chain free of repetitions, flow order in
    range, every concurrent quota in a quota tree. -/
def okCfg (cfg : Cfg) : Bool :=
  decide (0 < cfg.gc) &&
  (List.range cfg.quotas.length).all (fun q => decide (cfg.chainOf q).Nodup &&
    (cfg.chainOf q).all (fun q' => decide (q' < cfg.quotas.length))) &&
  cfg.order.all (fun q => decide (q < cfg.quotas.length)) &&
  (List.range cfg.quotas.length).all (fun q => !cfg.isConc q || cfg.sysDecs.contains q)

end LunarVerif.C02.Mixed
