import LunarVerif.Model.FlowExec
/-
C04 glue: a whole configuration (processor definitions, user flows, system flows of quotas, the
order in which the engine built the flows) → loaded engine (`load`) → transactions (`runTxn`).

Go sources mirrored: streams/config/streams.utils.go `GetFlows` (a flow file whose request or
response connection list is empty is skipped with a warning; if nothing is left the load fails),
streams/flow/flow_builder.go `build` (any flow that does not build fails the whole load),
streams/filter/filter_node.go (`userFlows`, `systemFlowStart`, `systemFlowEnd` are appended in build
order — Go map iteration order, an explicit parameter here).
-/
namespace LunarVerif.C04
open LunarVerif.FlowGraph LunarVerif.FlowExec

inductive Kind where
  | user | sysStart | sysEnd
deriving DecidableEq, Repr, Inhabited

structure FlowDecl where
  kind : Kind
  rep : FlowRep
deriving DecidableEq, Repr, Inhabited

/-- A quota resource as far as its system flows are concerned: every strategy puts
    `<id>_QuotaProcessorInc` at the start of the request stream; the concurrent strategy also puts
    `<id>_QuotaProcessorDec` at the end of the response stream (`getProcessorsLocation`).  `wild`:
    the quota's filter URL is `host/*` instead of the exact test URL (a different filter-tree node,
    visited first by the traversal). -/
structure Quota where
  id : String
  key : String          -- the id with every '.' removed (`buildProcName`)
  concurrent : Bool
  wild : Bool
  methods : List String := []   -- `method:` list of the quota's filter (part of the ComparableFilter)
deriving DecidableEq, Repr, Inhabited

structure Cfg where
  ptypes : List PType := []
  flows : List FlowDecl := []    -- declaration order (user flows)
  quotas : List Quota := []      -- order of the quota file
deriving Repr, Inhabited

def incKey (q : Quota) : String := q.key ++ "_QuotaProcessorInc"
def decKey (q : Quota) : String := q.key ++ "_QuotaProcessorDec"

def gStart : End := .stream "globalStream" "start"
def gEnd : End := .stream "globalStream" "end"

/-- `SystemFlowRepresentation.generateSystemFlow` for the processors `keys` of one location (after the
    fix F04e): `stream start → p₁ → p₂ → … → pₙ → stream end`. -/
def sysChainFrom : String → List String → List Conn
  | k, [] => [⟨.proc k "", gEnd⟩]
  | k, k' :: ks => ⟨.proc k "", .proc k' ""⟩ :: sysChainFrom k' ks

def sysConns : List String → List Conn
  | [] => []
  | k :: ks => ⟨gStart, .proc k ""⟩ :: sysChainFrom k ks

/-- processor definitions of the two real system processors (registry/quota_processor_{inc,dec}.yaml) -/
def sysPTypes : List PType :=
  [⟨"QuotaProcessorInc", [⟨"", "any"⟩]⟩, ⟨"QuotaProcessorDec", [⟨"", "any"⟩]⟩]

/-- system flows of one filter group (quotas with the same filter are merged into ONE
    `SystemFlowRepresentation`, named after the first quota of the group) -/
def sysDeclsOfGroup (conns : List String → List Conn) (g : List Quota) : List FlowDecl :=
  match g with
  | [] => []
  | q0 :: _ =>
    let incs := g.map incKey
    let decs := (g.filter (·.concurrent)).map decKey
    let startF : FlowDecl := ⟨.sysStart, ⟨"SystemFlow_" ++ q0.id ++ "_SYSTEM_FLOW_START",
      incs.map (·, "QuotaProcessorInc"), conns incs, []⟩⟩
    let endF : FlowDecl := ⟨.sysEnd, ⟨"SystemFlow_" ++ q0.id ++ "_SYSTEM_FLOW_END",
      decs.map (·, "QuotaProcessorDec"), [], conns decs⟩⟩
    if decs.isEmpty then [startF] else [startF, endF]

/-- the filter a quota's system flows are registered under (URL pattern, methods): quotas with the same filter
    share ONE system flow representation -/
def Quota.fkey (q : Quota) : Bool × List String := (q.wild, q.methods)

/-- distinct filter keys in first-occurrence order -/
def groupKeys : List Quota → List (Bool × List String) → List (Bool × List String)
  | [], acc => acc
  | q :: qs, acc => groupKeys qs (if acc.contains q.fkey then acc else acc ++ [q.fkey])

def sysDeclsOfKeys (conns : List String → List Conn) (qs : List Quota) : List (Bool × List String) → List FlowDecl
  | [] => []
  | k :: ks => sysDeclsOfGroup conns (qs.filter (·.fkey == k)) ++ sysDeclsOfKeys conns qs ks

/-- all system flows, in the order the filter tree yields them: the wildcard node first; on one node the groups
    in the order of the quota file (the harness rebuilds the engine until Go's map iteration agrees) -/
def sysDecls (conns : List String → List Conn) (qs : List Quota) : List FlowDecl :=
  sysDeclsOfKeys conns qs ((groupKeys qs []).filter (·.1)) ++ sysDeclsOfKeys conns qs ((groupKeys qs []).filter (!·.1))

inductive LoadErr where
  | yaml                  -- every flow file was skipped by the YAML-level validation
  | build (e : BuildErr)
deriving DecidableEq, Repr, Inhabited

def LoadErr.str : LoadErr → String
  | .yaml => "yaml"
  | .build e => e.str

/-- `validateFlowConnection`: "flow connection not defined" (only applied to flow files, i.e. user flows). -/
def yamlOk (d : FlowDecl) : Bool :=
  d.kind != .user || (!d.rep.req.isEmpty && !d.rep.res.isEmpty)

structure Loaded where
  flows : List (Kind × Flow)   -- in build order
deriving Repr, Inhabited

def buildAll (pts : List PType) : List FlowDecl → Except LoadErr (List (Kind × Flow))
  | [] => .ok []
  | d :: ds =>
    match buildFlow pts d.rep with
    | .error e => .error (.build e)
    | .ok f =>
      match buildAll pts ds with
      | .error e => .error e
      | .ok fs => .ok ((d.kind, f) :: fs)

/-- position of a name in the order list -/
def pos (order : List String) (n : String) : Nat := (order.idxOf n)

/-- stable insertion sort of the declarations by their position in `order` -/
def insertBy (order : List String) (d : FlowDecl) : List FlowDecl → List FlowDecl
  | [] => [d]
  | x :: xs => if pos order d.rep.name < pos order x.rep.name then d :: x :: xs else x :: insertBy order d xs

def sortBy (order : List String) : List FlowDecl → List FlowDecl
  | [] => []
  | d :: ds => insertBy order d (sortBy order ds)

def nodupNames : List String → Bool
  | [] => true
  | n :: ns => !ns.contains n && nodupNames ns

/-- `Stream.Initialize` as far as flows are concerned; `order` = build order of the flows. -/
def load (c : Cfg) (order : List String) : Except LoadErr Loaded :=
  let users := c.flows.filter (·.kind == .user)
  let okFlows := c.flows.filter yamlOk
  if !users.isEmpty && (users.filter yamlOk).isEmpty then .error .yaml else
  if !nodupNames (((sortBy order okFlows).filter (·.kind == .user)).map (·.rep.name)) then .error .yaml else  -- "duplicate flow name"
  match buildAll (c.ptypes ++ sysPTypes) (sortBy order okFlows ++ sysDecls sysConns c.quotas) with
  | .error e => .error e
  | .ok fs => .ok ⟨fs⟩

def Loaded.selected (l : Loaded) : Selected :=
  { start := (l.flows.filter (·.1 == .sysStart)).map (·.2)
    user := (l.flows.filter (·.1 == .user)).map (·.2)
    finish := (l.flows.filter (·.1 == .sysEnd)).map (·.2) }

/-- The C04 harness refuses to execute a configuration that contains any processor cycle. -/
def Loaded.unsafeCycle (l : Loaded) : Bool :=
  l.flows.any fun (_, f) => hasCycle f.req || hasCycle f.res

def runTxn (l : Loaded) (o : Oracle) (d : Dir) : TxnRes :=
  transaction l.selected o (fuelFor l.selected) d

end LunarVerif.C04
