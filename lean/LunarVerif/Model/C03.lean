import LunarVerif.Model.UrlTree
/-
Model of the flow filter tree (core Lean only):

  toolkit-core/urltree/url_tree_flow_traversal.go   `Traversal` / `lookupFlow`      → `loopGo`, `lookupFlow`
  streams/filter/filter_tree.go                      `AddFlow`, `GetFlow`            → `addFlow`, `getFlow`
  streams/filter/filter_node.go                      `FilterNode`, `FilterResult`    → `FNode`, `FilterResult`
  streams/filter/filter_validation.go                `newFilterRequirements`         → `FNode.req`
  streams/filter/filter_lookup_validation.go         `is…Qualified`                  → `is…Qualified`
  streams/config/streams.utils.go                    `Filter.GetSupportedMethods`    → `supportedMethods`
  streams/types/request.util.go                      header / query tests            → `hdrMatch`, `queryFind`

The trie is the shared extensional model (`Model/UrlTree.lean`): a node is a residual list and the walk
uses the same node queries as `lookGo`.  Tree values are indices into `store` because `AddFlow` mutates the
node it finds (`existingNode.addUserFlow(flow)`).

State of the code modelled: after the repairs F03a/h/i (qualification by the flow's own filter), F03b/c/f
(`lookupFlow`: `matchedAll`, zero-segment wildcard, no empty parameter) and F03d/g (`AddFlow` finds the node in
its side table `nodes` keyed by the trimmed declared URL).

Outside the model (the generator never sets them): JSONPath expression filters, `SamplePercentage`.
Front end (executable only, computed by the driver): `Flow.parts = splitURL url`, `Flow.key = trimURL url`.
-/
namespace LunarVerif.C03
open LunarVerif.UrlTree

/-! ### `lookupFlow` (url_tree_flow_traversal.go) -/

section traversal
variable {V : Type}

/-- `currentNode.WildcardChild != nil && currentNode.WildcardChild.hasValue()` ⇒ `*WildcardChild.Value` -/
def wildVal (res : Res V) : List V :=
  match wildChild? res with
  | some (some v) => [v]
  | _ => []

/-- The wildcard child collected while looking at the URL part `u` (in-loop test): it has a value and — except
    directly under the root (`currentNode == urlTree.Root`) — lies on the same side of the host/path boundary
    as `u` (repair F03e, wildcard half; mirrors `lookupNode`). -/
def wildValAt (atRoot : Bool) (res : Res V) (u : Part) : List V :=
  match wildNode? res with
  | some (some v, h) => if atRoot || h == u.host then [v] else []
  | _ => []

/-- The two `continue` branches with the repaired parametric test (`part.Value != ""`). -/
def nextF (res : Res V) (u : Part) : Option (Res V) :=
  let viaConst : Option String := match u.seg with
    | .lit s => if constFlag? res s = some u.host then some s else none
    | _ => none
  match viaConst with
  | some s => some (step (.lit s) res)
  | none =>
    match parChild? res with
    | some (_, h) => if h = u.host ∧ u.seg ≠ .lit "" then some (step .par res) else none
    | none => none

/-- The variables that survive the loop: `currentNode`, `flows`, `matchedAll`; `atRoot` = `currentNode ==
    urlTree.Root` (true in the first iteration only: every step enters a child). -/
structure LoopSt (V : Type) where
  cur : Res V
  flows : List V
  matchedAll : Bool
  atRoot : Bool

/-- `for _, part := range splitURL { … }` -/
def loopGo (st : LoopSt V) : List Part → LoopSt V
  | [] => st
  | u :: us =>
    let st1 : LoopSt V := { st with flows := st.flows ++ wildValAt st.atRoot st.cur u }
    match nextF st1.cur u with
    | some c => loopGo { st1 with cur := c, atRoot := false } us
    | none => { st1 with matchedAll := false }              -- `matchedAll = false; break`

/-- `lookupFlow`: `matchedAll := len(splitURL) > 0`; after a complete walk the node's wildcard child (a
    trailing `*` also matches zero segments) and then the node's own value. -/
def lookupFlow (t : Tree V) (us : List Part) : List V :=
  let st := loopGo ⟨t, [], !us.isEmpty, true⟩ us
  if st.matchedAll then
    st.flows ++ wildVal st.cur ++ (match nodeValue st.cur with | some v => [v] | none => [])
  else st.flows

end traversal

/-! ### flows, transactions -/

inductive Kind where
  | user | sysStart | sysEnd
deriving DecidableEq, Repr

/-- A flow as far as the filter tree is concerned: name, type and `streamconfig.Filter`. -/
structure Flow where
  name : String
  kind : Kind
  url : String
  parts : List Part                      -- `splitURL url`
  key : String                           -- `strings.Trim(url, "./")`, the key of `FilterTree.nodes`
  methods : List String                  -- `Filter.Method`
  headers : List (String × String)       -- `Filter.Headers` (key, string value)
  query : List (String × Option String)  -- `Filter.QueryParams` (key, value if one is given)
  statuses : List Nat                    -- `Filter.StatusCode`
deriving DecidableEq, Repr

/-- What the filter looks at in an API stream (request or response event). -/
structure Txn where
  isResp : Bool
  method : String
  parts : List Part                      -- `splitURL (APIStream.GetURL())`
  headers : List (String × String)       -- request header map (keys as received)
  query : List (String × String)         -- `parseQuery` of the raw query string: the pairs `Query()` keeps
  status : Nat
  hasResp : Bool                         -- `APIStream.GetResponse() != nil`: false on the response walk of an
                                         -- EARLY response (a processor answered the request; no provider response)
deriving Repr

/-! ### the raw query string (net/url `URL.Query()` = `ParseQuery` with its error ignored) -/

def hexDigit? (c : Char) : Option Nat :=
  if '0' ≤ c ∧ c ≤ '9' then some (c.toNat - 48)
  else if 'a' ≤ c ∧ c ≤ 'f' then some (c.toNat - 87)
  else if 'A' ≤ c ∧ c ≤ 'F' then some (c.toNat - 55)
  else none

/-- `url.QueryUnescape`: `%XX` decoded, `+` is a space; `none` = `EscapeError` (a `%` not followed by two
    hex digits).  Decoded bytes are taken as characters (the generator stays below 0x80). -/
def queryUnescape : List Char → Option (List Char)
  | [] => some []
  | '%' :: a :: b :: rest =>
    match hexDigit? a, hexDigit? b with
    | some x, some y => (queryUnescape rest).map (Char.ofNat (x * 16 + y) :: ·)
    | _, _ => none
  | '%' :: _ => none
  | '+' :: rest => (queryUnescape rest).map (' ' :: ·)
  | c :: rest => (queryUnescape rest).map (c :: ·)

/-- first `=` : `strings.Cut(pair, "=")` -/
def cutEq : List Char → List Char × List Char
  | [] => ([], [])
  | '=' :: rest => ([], rest)
  | c :: rest => let (k, v) := cutEq rest; (c :: k, v)

/-- One `&`-separated piece as the loop of `url.parseQuery` treats it: `none` = the piece contributes
    nothing (empty piece; `;` anywhere in it; bad escape in the key or in the value — `parseQuery` records the
    error and CONTINUES with the next piece, and `URL.Query()` discards the error). -/
def parsePair (piece : String) : Option (String × String) :=
  let cs := piece.toList
  if cs.isEmpty then none
  else if cs.contains ';' then none
  else
    let (k, v) := cutEq cs
    match queryUnescape k, queryUnescape v with
    | some k', some v' => some (String.ofList k', String.ofList v')
    | _, _ => none

/-- the pairs `Query()` keeps, in order (a Go `url.Values`: per key the values in order; `Get` = the first) -/
def parsePieces (pieces : List String) : List (String × String) := pieces.filterMap parsePair

/-- `ParsedURL.Query()` of the raw query string. -/
def parseQuery (raw : String) : List (String × String) := parsePieces (raw.splitOn "&")

/-- Go map lookup `req.Headers[k]` (first binding; the map has one binding per key). -/
def assocFind (k : String) : List (String × String) → Option String
  | [] => none
  | (k', v) :: rest => if k' = k then some v else assocFind k rest

/-- `strings.EqualFold` on ASCII. -/
def equalFold (a b : String) : Bool := a.toLower == b.toLower

/-- `OnRequest.DoesHeaderValueMatch`: `Headers[strings.ToLower(key)]`, then `EqualFold`. -/
def hdrMatch (t : Txn) (key value : String) : Bool :=
  match assocFind key.toLower t.headers with
  | some ex => equalFold ex value
  | none => false

/-- `ParsedURL.Query()[k]` / `.Get(k)`: the first value of `k`. -/
def queryFind (t : Txn) (k : String) : Option String := assocFind k t.query

/-! ### filter node (filter_node.go) -/

/-- `FilterNode` (its `filterRequirements` are no longer consulted). -/
structure FNode where
  userFlows : List Flow
  systemFlowStart : List Flow
  systemFlowEnd : List Flow
deriving Repr

def FNode.empty : FNode := ⟨[], [], []⟩

/-- the `switch flow.GetType()` of `AddFlow`, existing node -/
def FNode.add (n : FNode) (f : Flow) : FNode :=
  match f.kind with
  | .user => { n with userFlows := n.userFlows ++ [f] }
  | .sysStart => { n with systemFlowStart := n.systemFlowStart ++ [f] }
  | .sysEnd => { n with systemFlowEnd := n.systemFlowEnd ++ [f] }

/-- the `switch flow.GetType()` of `AddFlow`, new node -/
def FNode.fresh (f : Flow) : FNode :=
  match f.kind with
  | .user => ⟨[f], [], []⟩
  | .sysStart => ⟨[], [f], []⟩
  | .sysEnd => ⟨[], [], [f]⟩

/-! ### qualification (filter_lookup_validation.go): every flow by its OWN filter -/

def isHeadersQualified (f : Flow) (t : Txn) : Bool :=
  if t.isResp then true
  else if f.headers.isEmpty then true
  else
    -- `headerMap[key] = values`; every key needs one of its values
    f.headers.all fun kv => (f.headers.filter (fun kv' => kv'.1 == kv.1)).any fun kv' => hdrMatch t kv.1 kv'.2

def isStatusCodeQualified (f : Flow) (t : Txn) : Bool :=
  if !t.isResp then true
  else if f.statuses.isEmpty then true
  else if !t.hasResp then false      -- no response to take a status code from: the flow does not qualify
  else f.statuses.contains t.status

/-- `GetAllowedMethods()`: no method filter = every method -/
def isMethodQualified (f : Flow) (t : Txn) : Bool :=
  if f.methods.isEmpty then true else f.methods.contains t.method

/-- a parameter without a value (`data.Value == nil`) only has to be present -/
def isQueryParamsQualified (f : Flow) (t : Txn) : Bool :=
  if t.isResp then true
  else
    f.query.all fun kv => match queryFind t kv.1 with
      | some x => (match kv.2 with | some v => x == v | none => true)
      | none => false

/-- `FilterNode.validate` (= `isFlowValid`: no sampling, no expressions) -/
def flowValid (f : Flow) (t : Txn) : Bool :=
  isHeadersQualified f t && isStatusCodeQualified f t && isMethodQualified f t && isQueryParamsQualified f t

structure FlowResult where
  flow : List Flow
  valid : Bool
deriving Repr

structure FilterResult where
  user : FlowResult
  sysStart : FlowResult
  sysEnd : FlowResult
deriving Repr

def FilterResult.none : FilterResult := ⟨⟨[], false⟩, ⟨[], false⟩, ⟨[], false⟩⟩

def FilterResult.isEmpty (r : FilterResult) : Bool := !r.user.valid && !r.sysStart.valid && !r.sysEnd.valid

/-- `getUserFlow` / `getSystemFlow` -/
def pick (fl : List Flow) (t : Txn) : FlowResult :=
  let l := fl.filter (fun f => flowValid f t)
  ⟨l, !l.isEmpty⟩

/-- `FilterNode.getFlow` -/
def FNode.getFlow (n : FNode) (t : Txn) : Option FilterResult :=
  let r : FilterResult := ⟨pick n.userFlows t, pick n.systemFlowStart t, pick n.systemFlowEnd t⟩
  if r.isEmpty then Option.none else some r

def FlowResult.extend (f o : FlowResult) : FlowResult :=
  if o.valid then (if !f.valid then ⟨o.flow, true⟩ else ⟨f.flow ++ o.flow, true⟩) else f

/-- `FilterResult.Extend` -/
def FilterResult.extend (f o : FilterResult) : FilterResult :=
  ⟨f.user.extend o.user, f.sysStart.extend o.sysStart, f.sysEnd.extend o.sysEnd⟩

/-! ### filter tree (filter_tree.go) -/

/-- `FilterTree`: the trie and the side table `nodes` (declared URL, trimmed ↦ its filter node). -/
structure FTree where
  tree : Tree Nat
  store : List FNode
  nodes : List (String × Nat)
deriving Repr

def FTree.empty : FTree := ⟨[], [], []⟩

inductive AddErr where
  | insert (e : InsertErr)    -- `InsertDeclaredURL` failed
deriving DecidableEq, Repr

/-- Go map lookup `f.nodes[urlKey]`. -/
def findNode (k : String) : List (String × Nat) → Option Nat
  | [] => none
  | (k', i) :: rest => if k' = k then some i else findNode k rest

/-- `AddFlow`: a flow is merged into the node of its OWN declared URL if there is one, else a fresh node is
    inserted under the URL and recorded in `nodes`.  A failing insert leaves everything unchanged. -/
def addFlow (ft : FTree) (f : Flow) : Except AddErr FTree :=
  match findNode f.key ft.nodes with
  | some i => .ok { ft with store := ft.store.set i ((ft.store.getD i .empty).add f) }
  | Option.none =>
    match insertParts ft.tree f.parts ft.store.length true with
    | .error e => .error (.insert e)
    | .ok t' => .ok ⟨t', ft.store ++ [FNode.fresh f], ft.nodes ++ [(f.key, ft.store.length)]⟩

/-- All flows, in load order; the first failure aborts (as `flowBuilder.build` does after its retry). -/
def buildFrom (ft : FTree) : List Flow → Except AddErr FTree
  | [] => .ok ft
  | f :: fs => match addFlow ft f with
    | .error e => .error e
    | .ok ft' => buildFrom ft' fs

def build (fs : List Flow) : Except AddErr FTree := buildFrom .empty fs

/-- Loading that skips the flows whose `AddFlow` fails (what the harness does op by op); also returns
    the per-flow outcome. -/
def loadSkip (ft : FTree) : List Flow → FTree × List (Option AddErr)
  | [] => (ft, [])
  | f :: fs => match addFlow ft f with
    | .error e => let (ft', rs) := loadSkip ft fs; (ft', some e :: rs)
    | .ok ft1 => let (ft', rs) := loadSkip ft1 fs; (ft', Option.none :: rs)

/-- The loop of `GetFlow` over the nodes returned by the traversal. -/
def collect (store : List FNode) (t : Txn) : List Nat → FilterResult × Bool → FilterResult × Bool
  | [], acc => acc
  | v :: vs, (flows, found) =>
    match (store.getD v .empty).getFlow t with
    | some r => collect store t vs (flows.extend r, true)
    | Option.none => collect store t vs (flows, found)

/-- `FilterTree.GetFlow`: `(flows, found)`; `(none, false)` when the traversal returns nothing. -/
def getFlow (ft : FTree) (t : Txn) : Option FilterResult × Bool :=
  let vals := lookupFlow ft.tree t.parts
  if vals.isEmpty then (Option.none, false)
  else
    let (flows, found) := collect ft.store t vals (.none, false)
    (some flows, found)

/-- The flows of a node by type. -/
def FNode.group (n : FNode) : Kind → List Flow
  | .user => n.userFlows
  | .sysStart => n.systemFlowStart
  | .sysEnd => n.systemFlowEnd

/-- Closed form of what `getFlow` reports for group `k` (proved: `Properties.C03.getFlow_char`): for every
    node the traversal returns, in order, the flows of that node that pass the node's qualification. -/
def selected (ft : FTree) (t : Txn) (k : Kind) : List Flow :=
  (lookupFlow ft.tree t.parts).flatMap fun v =>
    ((ft.store.getD v .empty).group k).filter fun f => flowValid f t

/-! ### quota system flows (resources/quota: `quota_loader.go`, `quota_resource.go`; `Filter.ToComparable`) -/

/-- byte-wise `<=` on strings (`sort.Strings`; ASCII) -/
def leChars : List Char → List Char → Bool
  | [], _ => true
  | _ :: _, [] => false
  | x :: xs, y :: ys => x.toNat < y.toNat || (x == y && leChars xs ys)

def strLe (a b : String) : Bool := leChars a.toList b.toList

def insertBy {α : Type} (le : α → α → Bool) (a : α) : List α → List α
  | [] => [a]
  | b :: l => if le a b then a :: b :: l else b :: insertBy le a l

/-- a sort (insertion sort: structural, so that closed instances evaluate) -/
def sortBy {α : Type} (le : α → α → Bool) : List α → List α
  | [] => []
  | a :: l => insertBy le a (sortBy le l)

def pairLe (a b : String × String) : Bool :=
  if a.1 == b.1 then strLe a.2 b.2 else strLe a.1 b.1

/-- `publictypes.ComparableFilter`.  The code renders every component as ONE string — the sorted tokens joined
    with `,`, a header/query item as `key=value` — which identifies the sorted token list as long as no token
    contains `,` and no key contains `=` (front-end fact; the generator's tokens are free of both).  The model
    keeps the sorted token lists themselves. -/
structure CompKey where
  url : String
  query : List (String × String)
  method : List String
  headers : List (String × String)
  status : List Nat
deriving DecidableEq, Repr

/-- `Filter.ToComparable()`: the raw URL; `key=value` items (an ABSENT value reads as `""`:
    `GetParamValue().GetString()`), methods and status codes, each sorted. -/
def compKey (f : Flow) : CompKey :=
  { url := f.url
    query := sortBy pairLe (f.query.map fun kv => (kv.1, kv.2.getD ""))
    method := sortBy strLe f.methods
    headers := sortBy pairLe f.headers
    status := sortBy (fun a b => decide (a ≤ b)) f.statuses }

/-- One system-flow representation of the loader: the quota that created it (its filter and id are kept) and
    the ids of all quotas folded into it. -/
structure QGroup where
  rep : Flow
  members : List String
deriving Repr

/-- `Loader.loadQuotaResources`: `flowData[key]` is created by the first quota with that key; a later quota with
    the same key is folded in (`AddSystemRepresentation`). -/
def addQuota : List QGroup → Flow → List QGroup
  | [], q => [⟨q, [q.name]⟩]
  | g :: rest, q =>
    if compKey g.rep = compKey q then { g with members := g.members ++ [q.name] } :: rest
    else g :: addQuota rest q

def groupQuotas (qs : List Flow) : List QGroup := qs.foldl addQuota []

def sysFlowName (id : String) (k : Kind) : String :=
  String.ofList ("SystemFlow_".toList ++ id.toList ++ (match k with
    | .sysStart => "_SYSTEM_FLOW_START"
    | .sysEnd => "_SYSTEM_FLOW_END"
    | .user => "_USER_FLOW").toList)

/-- The generated system flows (`GenerateSystemFlowStart/End`: both carry the representation's filter), each with
    the quota ids wired into it, in the order the harness registers them (sorted by name). -/
def quotaSysFlows (qs : List Flow) : List (Flow × List String) :=
  ((groupQuotas qs).flatMap fun g =>
    [({ g.rep with name := sysFlowName g.rep.name .sysEnd, kind := .sysEnd }, g.members),
     ({ g.rep with name := sysFlowName g.rep.name .sysStart, kind := .sysStart }, g.members)]) |>
    sortBy (fun a b => strLe a.1.name b.1.name)

/-- The quota ids whose processors run for `t`: those wired into the selected system flows. -/
def quotasRun (qs : List Flow) (t : Txn) : Except AddErr (List String) :=
  let fl := quotaSysFlows qs
  match build (fl.map (·.1)) with
  | .error e => .error e
  | .ok ft =>
    match getFlow ft t with
    | (some r, _) =>
      .ok ((r.sysStart.flow ++ r.sysEnd.flow ++ r.user.flow).flatMap fun f =>
        (fl.filter (fun x => x.1.name == f.name)).flatMap (·.2))
    | (none, _) => .ok []

/-- The transaction as the filter tree sees it when `executeReq` turns a short-circuited request into the
    response walk of its early response: `apiStream.SetType(StreamTypeResponse)`, no response object. -/
def Txn.early (t : Txn) : Txn := { t with isResp := true, hasResp := false }

/-- Names of the flows `Stream.ExecuteFlow` runs, in execution order: nothing at all when `GetFlow`
    reports `found = false`; else system-start, user, system-end flows (each group reversed on the
    response path).  Short-circuits and flow graphs are C04's. -/
def executed (ft : FTree) (t : Txn) : List String :=
  match getFlow ft t with
  | (some r, true) =>
    let grp (fr : FlowResult) : List String :=
      if fr.valid then (if t.isResp then fr.flow.reverse else fr.flow).map (·.name) else []
    grp r.sysStart ++ grp r.user ++ grp r.sysEnd
  | _ => []

end LunarVerif.C03
