import LunarVerif.Model.C02
/-
Thread-level model for C02: the calls of the engine as PROGRAMS of critical sections, one thread per call, each
thread's instructions in program order, threads interleaved by an arbitrary schedule.  Core Lean only.

Every instruction is one critical section of the code (`micro` of `Model/C02.lean`, or a read under a lock) plus
thread-local variables:
* request thread of transaction `r` (`requestProg`): the live system `QuotaProcessorInc`s, then the user flow's
  limiters — `GetQuota(q, r)` (`touch`), `Inc` (`chk` / `sadd` / parent … / `setst`), `Allowed` (`Inc` again, status
  check `chkA`, parent's `Allowed`) — then, when refused or answered early, `OnRequestDrop` and the response flows;
* response thread (`endProg`): one `QuotaProcessorDec` per concurrent quota (`touch`, `Dec` = `read` → `recheck` → `srem`, parent …, `del`), then `OnResponseFinish` = `OnRequestDrop` (`dropPop`, F02f);
* proxy-error thread (`[dropPop]`): `OnRequestDrop` = pop the touched quotas and `Dec` each;
* GC agent for one member of the snapshot it judged expired: `SRem` then status delete (`gsrem`, `gdel`).

Schedule class (`gstep` ignores events outside it):
* one request thread per transaction id; response / proxy-error threads of a transaction start after its request
  thread has finished (any number of them, concurrently — a response racing with a proxy error included);
* a GC agent takes a member that is in the set at that moment, and only of a transaction whose request thread has
  finished (a transaction's members do not expire while its request is still being processed).
Ghost fields (`fresh`, `clr`, `reqTid`) are written, never read by the instructions' real effects.
-/
namespace LunarVerif.C02

structure Loc where
  go : Bool                      -- Inc: still descending the ancestor chain
  ok : Bool                      -- verdict so far (false after an `above_limit`)
  mine : Nat → Option Member     -- Inc: member added at this level, status write pending
  fresh : Nat → Bool             -- ghost: `chk` found no status at this level (and nothing was added since)
  clr : Nat → Bool               -- ghost: this thread has removed / seen absent the transaction's member at this level
  rel : Bool                     -- ghost: the request walk ended with a refusal / early answer (drop + response flows follow)

def Loc.init : Loc :=
  ⟨true, true, fun _ => none, fun _ => false, fun _ => false, false⟩

inductive Instr
  | touch (q : Nat)              -- GetQuota(q, reqID)
  | resetGo
  | chk (q : Nat)                -- Inc: checkReqStatus(reqNotFound)
  | sadd (q : Nat)               -- Inc: generateMember + AtomicSAddWithMaxValuesAllowed
  | setst (q : Nat)              -- Inc: status (and member) write
  | chkA (q : Nat)               -- Allowed: checkReqStatus(reqAllowed)
  | finish (post : Bool)         -- end of the request walk: refused / answered early ⇒ drop + response flows
  | read (q : Nat)               -- Dec: lookup under the lock; continues with `recheck q <what it read>`
  | recheck (q : Nat) (x : Option Member)             -- Dec: checkReqStatus(reqAllowed); continues with `srem`
  | srem (q : Nat) (x : Option Member) (lv : Bool)    -- Dec: SRem of the member read, if the re-check still found a status
  | del (q : Nat)                -- Dec: delete(allowedReq, reqID)
  | pop                          -- OnResponseFinish
  | dropPop                      -- OnRequestDrop: pop, then Dec every touched quota
  | gsrem (q : Nat) (m : Member) -- GC: SRem
  | gdel (q : Nat) (r : Nat)     -- GC: delete(allowedReq, member.ReqID)
deriving DecidableEq, Repr

inductive TKind | request | resp | err | gc
deriving DecidableEq, Repr

structure Thread where
  owner : Nat
  kind : TKind
  todo : List Instr
  loc : Loc

def incProg (ch : List Nat) : List Instr :=
  (ch.flatMap fun q => [.chk q, .sadd q]) ++ ch.reverse.map .setst

def allowedProg : List Nat → List Instr
  | [] => []
  | q :: rest => incProg (q :: rest) ++ [.chkA q] ++ allowedProg rest

def limiterProg (cfg : Cfg) (q0 : Nat) : List Instr :=
  .touch q0 :: if cfg.isConc q0 then
    [.resetGo] ++ incProg (cfg.chainOf q0) ++ [.resetGo] ++ allowedProg (cfg.chainOf q0) else []

def sysIncProg (cfg : Cfg) (q0 : Nat) : List Instr :=
  .touch q0 :: if cfg.isConc q0 then .resetGo :: incProg (cfg.chainOf q0) else []

def requestProg (cfg : Cfg) (post : Bool) : List Instr :=
  cfg.sysStart.flatMap (sysIncProg cfg) ++ cfg.order.flatMap (limiterProg cfg) ++ [.finish post]

/-- `Dec` on `q :: ancestors`: per level lookup / re-check / `SRem` (`read` unfolds into them), parent, then the deletes. -/
def decProg (ch : List Nat) : List Instr := ch.map .read ++ ch.reverse.map .del

def decAll (cfg : Cfg) (qs : List Nat) : List Instr :=
  qs.flatMap fun q0 => if cfg.isConc q0 then decProg (cfg.chainOf q0) else []

def endProg (cfg : Cfg) : List Instr :=
  (cfg.sysDecs.flatMap fun q0 => .touch q0 :: decProg (cfg.chainOf q0)) ++ [.dropPop]

/-- Point update of a per-level local variable. -/
def upd {α : Type} (f : Nat → α) (q : Nat) (v : α) : Nat → α := fun q' => if q' = q then v else f q'

/-- One instruction of a thread (`rest` = its remaining program). -/
def exec (cfg : Cfg) (s : S) (t : Thread) (i : Instr) (rest : List Instr) : S × Thread :=
  let r := t.owner
  let l := t.loc
  let next (l' : Loc) : Thread := { t with todo := rest, loc := l' }
  match i with
  | .touch q => (if l.ok then micro cfg s (.rmSet r q) else s, next l)
  | .resetGo => (s, next { l with go := true })
  | .chk q =>
    if l.ok && l.go then
      if (s.allowed q r).isSome then (s, next { l with go := false })
      else (s, next { l with fresh := upd l.fresh q true })
    else (s, next l)
  | .sadd q =>
    if l.ok && l.go then
      if (s.members q).length < cfg.max q then
        (micro cfg s (.sadd q ⟨s.now + cfg.exp q, r⟩),
         next { l with mine := upd l.mine q (some ⟨s.now + cfg.exp q, r⟩), fresh := upd l.fresh q false })
      else (s, next { l with go := false, fresh := upd l.fresh q false })
    else (s, next l)
  | .setst q =>
    match l.mine q with
    | some m => (micro cfg s (.setst q r m), next { l with mine := upd l.mine q none })
    | none => (s, next l)
  | .chkA q =>
    if l.ok then (s, next { l with ok := (s.allowed q r).isSome, go := true }) else (s, next l)
  | .finish post =>
    if !l.ok || (cfg.early && post) then
      -- `finish` is the last instruction of a request program: nothing of the walk remains
      (s, { t with todo := .dropPop :: endProg cfg, loc := { l with ok := true, rel := true } })
    else (s, next l)
  | .read q => (s, { t with todo := .recheck q (s.allowed q r) :: rest })
  | .recheck q x => (s, { t with todo := .srem q x (s.allowed q r).isSome :: rest })
  | .srem q x lv =>
    ((match lv, x with
      | true, some m => micro cfg s (.srem q m)
      | _, _ => s),
     next { l with clr := upd l.clr q true })
  | .del q => (micro cfg s (.del q r), next l)
  | .pop => (micro cfg s (.rmPop r), next l)
  | .dropPop => (micro cfg s (.rmPop r), { t with todo := decAll cfg (s.rm r) ++ rest })
  | .gsrem q m => (micro cfg s (.srem q m), next l)
  | .gdel q r' => (micro cfg s (.del q r'), next l)

structure G where
  s : S
  th : Nat → Option Thread        -- thread pool
  reqTid : Nat → Option Nat       -- ghost: the request thread of a transaction id

def G.init (cfg : Cfg) : G := ⟨S.init cfg, fun _ => none, fun _ => none⟩

/-- The transaction's request thread exists and has finished. -/
def G.reqDone (g : G) (r : Nat) : Bool :=
  match g.reqTid r with
  | some tid => match g.th tid with
    | some t => t.todo.isEmpty
    | none => false
  | none => false

inductive Ev
  | run (tid : Nat)
  | spawnReq (tid r : Nat) (post : Bool)
  | spawnResp (tid r : Nat)
  | spawnErr (tid r : Nat)
  | spawnGc (tid q : Nat) (m : Member)
  | clock (now next : Nat)
deriving Repr

def G.setTh (g : G) (tid : Nat) (t : Thread) : G :=
  { g with th := fun k => if k = tid then some t else g.th k }

def gstep (cfg : Cfg) (g : G) : Ev → G
  | .run tid =>
    match g.th tid with
    | some t =>
      match t.todo with
      | i :: rest => let p := exec cfg g.s t i rest; { (g.setTh tid p.2) with s := p.1 }
      | [] => g
    | none => g
  | .spawnReq tid r post =>
    if (g.th tid).isNone && (g.reqTid r).isNone then
      { (g.setTh tid ⟨r, .request, requestProg cfg post, Loc.init⟩) with
        reqTid := fun r' => if r' = r then some tid else g.reqTid r' }
    else g
  | .spawnResp tid r =>
    if (g.th tid).isNone && g.reqDone r then g.setTh tid ⟨r, .resp, endProg cfg, Loc.init⟩ else g
  | .spawnErr tid r =>
    if (g.th tid).isNone && g.reqDone r then g.setTh tid ⟨r, .err, [.dropPop], Loc.init⟩ else g
  | .spawnGc tid q m =>
    if (g.th tid).isNone && (s_mem g q m) && g.reqDone m.req then
      g.setTh tid ⟨m.req, .gc, [.gsrem q m, .gdel q m.req], Loc.init⟩ else g
  | .clock now next => { g with s := micro cfg g.s (.clock now next) }
where s_mem (g : G) (q : Nat) (m : Member) : Bool := (g.s.members q).contains m

/-- Every configuration reachable by some schedule. -/
def grun (cfg : Cfg) (g : G) (sched : List Ev) : G := sched.foldl (gstep cfg) g

end LunarVerif.C02
