import LunarVerif.Model.C12Plugins
/-
ONE `CachingPlugin` (one `MemoryCache`) serves every caching remedy of the policies (services.go creates a
single plugin; plugin_runner.go passes each remedy's own `CachingConfig` and path parameters to it).  The key is
(method, URL, hash(pre-image)), the pre-image being `len(RequestPayloadPaths)` empty strings followed by the quoted
selected parameters, joined by "." — so the key carries the number of leading dots (`dots n sel`, essentially the NUMBER `n` of configured paths) and
the selected (name, value) list, but NOT the remedy's name, TTL or limits.  Each `OnResponse` that reaches `Set` first calls
`WithMaxCacheSize(…, thisRemedy.MaxCacheSizeMegabytes)`: the limit in force is the one of the last storing remedy.
-/
namespace LunarVerif.C12

/-- what the plugin sees of a remedy -/
structure Remedy where
  cfg : CCfg
  n   : Nat        -- len(RequestPayloadPaths)
deriving Repr

structure SKey (σ : Type) where
  m   : σ
  u   : σ
  n   : Nat
  sel : List (σ × σ)
deriving DecidableEq, Repr

inductive SOp (σ : Type) where
  | resp (rm : Remedy) (m u : σ) (sel : List (σ × σ)) (r : Resp σ) (bodyLen sz : Nat)
  | req (rm : Remedy) (m u : σ) (sel : List (σ × σ))
  | fire (i : Nat)
  | skip (d : Nat)
  | adv (d : Nat)
  | probe
deriving Repr

/-- What the hashed pre-image keeps of the number `n` of configured paths: `n` empty strings are joined with the
    quoted items by "."; with no item selected that is `n − 1` dots (nothing for n = 0 AND for n = 1), otherwise `n`
    dots precede the first item.  (Found by the correspondence run: a remedy with one configured path whose
    parameter is absent shares its key with a remedy that configures no path.) -/
def dots {σ : Type} (n : Nat) (sel : List (σ × σ)) : Nat := if sel.isEmpty then n - 1 else n

structure SRec (σ : Type) where
  t   : Int
  op  : SOp σ
  out : POut σ

section
variable {σ : Type} [DecidableEq σ]

abbrev SCache (σ : Type) := Cache (SKey σ) (Stored σ)

def sstep (c : SCache σ) : SOp σ → SCache σ × POut σ
  | .resp rm m u sel r bodyLen sz =>
    if bodyLen > rm.cfg.maxRec then (c, .noop)
    else if has c ⟨m, u, dots rm.n sel, sel⟩ then (c, .noop)
    else
      ((set { c with sizeOn := true, max := rm.cfg.maxBytes } ⟨m, u, dots rm.n sel, sel⟩ ⟨r, c.now⟩ rm.cfg.ttl sz).1, .noop)
  | .req rm m u sel =>
    match get c ⟨m, u, dots rm.n sel, sel⟩ with
    | none => (c, .noop)
    | some s => (c, .early s.resp.status s.resp.body s.resp.tag (.raw s.resp.ra) 0)
  | .fire i => ((fire c i).1, .fired (fire c i).2)
  | .skip d => (skip c d, .unit)
  | .adv d => ((adv c d).1, .advd (adv c d).2)
  | .probe => (c, .probed c.tracked (heldSize c.entries) c.entries.length c.pending.length)

def srun (c : SCache σ) : List (SOp σ) → List (SRec σ)
  | [] => []
  | op :: ops => { t := c.now, op := op, out := (sstep c op).2 } :: srun (sstep c op).1 ops

end

end LunarVerif.C12
