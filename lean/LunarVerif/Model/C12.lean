/-
Model of `utils/cache.go` (`MemoryCache[K,V]`).  Core Lean only.

Go                                             ↦ model
  cache map[K]ValueWrapper{value, expiration}  ↦ `entries : List (κ × Entry ν)` (association list, one pair per key)
  currentCacheSize float64 (MB)                ↦ `tracked : Int` (BYTES; the Go value is bytes·2⁻²⁰, dyadic, exact)
  calculateCacheSize / maxCacheSize            ↦ `sizeOn`, `max` (bytes)
  `go func(){ clock.Sleep(ttl); clearKey }()`  ↦ one `Sleeper (due, key)` in `pending`; it runs as a SEPARATE event
                                                 (`fire`) at any time ≥ `due` and deletes whatever is stored
                                                 under the key at that moment
  clock.Now().UnixNano()                       ↦ `now : Int` (ns) — the WALL clock: expiry stamps and the `now > expiry` tests
  clock.Sleep / After                          ↦ `mono : Int` (ns) — ELAPSED time: sleepers are due on this timeline.  The two
                                                 advance together (`skip`, `adv`); `wstep d` moves only the wall clock (NTP
                                                 step, VM resume: `d` may be negative)

Mirrored on purpose:
  * `valueExpired`:  `now > expirationTimeNano`  — STRICT, an entry is still served at `now = expiry`;
  * `Set`: size test `current + item > max` BEFORE storing; the store overwrites the map slot and adds the
    new item size WITHOUT subtracting the size of an overwritten entry; a sleeper is started for every Set;
  * `clearKey`: subtracts the size of the value found NOW, then deletes;
  * `Sleep(d)` with `d ≤ 0` returns at once: that sleeper deletes the key immediately (no pending timer).
`Has`/`Get`/`Set` read the clock once; all operations here are sequential (one at a time).
-/
namespace LunarVerif.C12

structure Entry (ν : Type) where
  val    : ν
  expiry : Int
  size   : Nat      -- calculateSizeFunc(key, value): a pure function, so recomputing it in clearKey gives this
deriving Repr, DecidableEq

structure Sleeper (κ : Type) where
  due : Int
  key : κ
deriving Repr, DecidableEq

structure Cache (κ ν : Type) where
  now     : Int
  mono    : Int
  entries : List (κ × Entry ν)
  tracked : Int
  pending : List (Sleeper κ)     -- sorted by due time, ties in registration order (detclock.Manual order)
  sizeOn  : Bool
  max     : Int

def Cache.init {κ ν : Type} (t0 : Int) (sizeOn : Bool) (max : Int) : Cache κ ν :=
  { now := t0, mono := 0, entries := [], tracked := 0, pending := [], sizeOn := sizeOn, max := max }

section
variable {κ ν α : Type} [DecidableEq κ]

/-- map lookup -/
def find? (k : κ) : List (κ × α) → Option α
  | [] => none
  | p :: rest => if p.1 = k then some p.2 else find? k rest

/-- `delete(map, k)` -/
def erase (k : κ) : List (κ × α) → List (κ × α)
  | [] => []
  | p :: rest => if p.1 = k then erase k rest else p :: erase k rest

/-- Σ calculateSizeFunc over what is really stored. -/
def heldSize : List (κ × Entry ν) → Nat
  | [] => 0
  | p :: rest => p.2.size + heldSize rest

def foundSize (k : κ) (l : List (κ × Entry ν)) : Nat :=
  match find? k l with
  | some e => e.size
  | none => 0

/-- `clearKey` -/
def clearKey (c : Cache κ ν) (k : κ) : Cache κ ν :=
  { c with tracked := if c.sizeOn then c.tracked - (foundSize k c.entries : Nat) else c.tracked,
           entries := erase k c.entries }

/-- `Get` -/
def get (c : Cache κ ν) (k : κ) : Option ν :=
  match find? k c.entries with
  | none => none
  | some e => if c.now > e.expiry then none else some e.val

/-- `Has` -/
def has (c : Cache κ ν) (k : κ) : Bool :=
  match find? k c.entries with
  | none => false
  | some e => if c.now > e.expiry then false else true

inductive SetRes where
  | ok
  | full
deriving DecidableEq, Repr

/-- timer registration: after every waiter that is due no later (stable) -/
def insertSleeper (s : Sleeper κ) : List (Sleeper κ) → List (Sleeper κ)
  | [] => [s]
  | p :: rest => if p.due ≤ s.due then p :: insertSleeper s rest else s :: p :: rest

/-- `Set` (plus the start of its sleeper goroutine, which runs up to its `Sleep`). -/
def set (c : Cache κ ν) (k : κ) (v : ν) (ttl : Int) (sz : Nat) : Cache κ ν × SetRes :=
  if c.sizeOn && decide (c.tracked + (sz : Nat) > c.max) then (c, .full)
  else
    let c1 : Cache κ ν :=
      { c with entries := (k, { val := v, expiry := c.now + ttl, size := sz }) :: erase k c.entries,
               tracked := if c.sizeOn then c.tracked + (sz : Nat) else c.tracked }
    if ttl > 0 then ({ c1 with pending := insertSleeper { due := c.mono + ttl, key := k } c1.pending }, .ok)
    else (clearKey c1 k, .ok)

inductive FireRes where
  | fired
  | notDue
  | absent
deriving DecidableEq, Repr

/-- The `i`-th pending sleeper (in due order) gets scheduled now; only possible once it is due. -/
def fire (c : Cache κ ν) (i : Nat) : Cache κ ν × FireRes :=
  match c.pending[i]? with
  | none => (c, .absent)
  | some s =>
    if s.due ≤ c.mono then ({ clearKey c s.key with pending := c.pending.eraseIdx i }, .fired)
    else (c, .notDue)

def clearAll (c : Cache κ ν) : List (Sleeper κ) → Cache κ ν
  | [] => c
  | s :: rest => clearAll (clearKey c s.key) rest

/-- `d` ns pass and every sleeper that becomes due runs (timers on time).  The mock fires them earliest first;
    the final state does not depend on the order. -/
def adv (c : Cache κ ν) (d : Nat) : Cache κ ν × Nat :=
  let target := c.mono + (d : Nat)
  let dueNow := c.pending.filter (fun s => decide (s.due ≤ target))
  ({ clearAll c dueNow with pending := c.pending.filter (fun s => !decide (s.due ≤ target)),
                            now := c.now + (d : Nat), mono := target },
   dueNow.length)

/-- `d` ns pass and NO sleeper is scheduled (they stay pending, possibly overdue). -/
def skip (c : Cache κ ν) (d : Nat) : Cache κ ν := { c with now := c.now + (d : Nat), mono := c.mono + (d : Nat) }

/-- the wall clock is stepped by `d` (possibly backwards); no time elapses -/
def wstep (c : Cache κ ν) (d : Int) : Cache κ ν := { c with now := c.now + d }

/-- Operations of a history. -/
inductive Ev (κ ν : Type) where
  | set (k : κ) (v : ν) (ttl : Int) (sz : Nat)
  | get (k : κ)
  | has (k : κ)
  | del (k : κ)
  | fire (i : Nat)
  | skip (d : Nat)
  | adv (d : Nat)
  | wstep (d : Int)
  | probe
deriving Repr

inductive Out (ν : Type) where
  | unit
  | setRes (r : SetRes)
  | got (o : Option ν)
  | hasRes (b : Bool)
  | fired (r : FireRes)
  | advd (n : Nat)
  | probed (tracked : Int) (held n pending : Nat)
deriving Repr

def step (c : Cache κ ν) : Ev κ ν → Cache κ ν × Out ν
  | .set k v ttl sz => ((set c k v ttl sz).1, .setRes (set c k v ttl sz).2)
  | .get k => (c, .got (get c k))
  | .has k => (c, .hasRes (has c k))
  | .del k => (clearKey c k, .unit)
  | .fire i => ((fire c i).1, .fired (fire c i).2)
  | .skip d => (skip c d, .unit)
  | .adv d => ((adv c d).1, .advd (adv c d).2)
  | .wstep d => (wstep c d, .unit)
  | .probe => (c, .probed c.tracked (heldSize c.entries) c.entries.length c.pending.length)

/-- One line of the observable history: instant of the call, the call, its answer. -/
structure Rec (κ ν : Type) where
  t   : Int      -- wall clock at the call
  m   : Int      -- elapsed time at the call
  ev  : Ev κ ν
  out : Out ν

/-- Run a history; records oldest first. -/
def run (c : Cache κ ν) : List (Ev κ ν) → List (Rec κ ν)
  | [] => []
  | ev :: evs => { t := c.now, m := c.mono, ev := ev, out := (step c ev).2 } :: run (step c ev).1 evs

/-- State after a history. -/
def final (c : Cache κ ν) : List (Ev κ ν) → Cache κ ν
  | [] => c
  | ev :: evs => final (step c ev).1 evs

end

/-- Settings of a cache-level case. -/
structure Cfg where
  t0     : Int
  sizeOn : Bool
  max    : Int
deriving Repr

def Cfg.init {κ ν : Type} (cfg : Cfg) : Cache κ ν := Cache.init cfg.t0 cfg.sizeOn cfg.max

end LunarVerif.C12
