import LunarVerif.Model.UrlTree
/-
Model of `config/endpoint_policy_tree.go` (`BuildEndpointPolicyTree`, `checkForDuplicates`) and of the
selection functions of `runner/plugin_dispatcher.go` (`getRemedies`, `getDiagnoses`, `shouldDiagnose`).
Core Lean only.

The Go tree stores `*map[Method]EndpointPolicy`; maps are shared by reference, so map identity is explicit
here: tree values are indices into `store`.  This is the code AFTER the repairs fixes/F13a.patch (a declared
URL is merged only into the map registered for its OWN URL in the side table `policiesByURL`, no longer into
whatever map a lookup of the new URL lands on) and fixes/F13e.patch (the same method+URL declared again is
appended to the existing policy instead of replacing it).
-/
namespace LunarVerif.C13
open LunarVerif.UrlTree

structure Remedy where
  name : String
  type : Nat          -- `RemedyType`; 0 = undefined
  enabled : Bool
deriving DecidableEq, Repr

structure Diag where
  name : String
  enabled : Bool
deriving DecidableEq, Repr

/-- `sharedConfig.EndpointConfig`; `parts` = `splitURL url` (done by the front end). -/
structure Endpoint where
  method : String
  url : String
  parts : List Part
  remedies : List Remedy
  diags : List Diag
deriving DecidableEq, Repr

/-- `EndpointPolicy`: the declarations (same method, same URL) merged into it, oldest first. -/
structure Policy where
  srcs : List Endpoint
deriving DecidableEq, Repr

/-- `EndpointPolicy.URL`: the URL text of the latest declaration. -/
def Policy.url (p : Policy) : String := (p.srcs.getLast?.map (·.url)).getD ""
/-- `EndpointPolicy.Remedies`: in the order they are written. -/
def Policy.remedies (p : Policy) : List Remedy := p.srcs.flatMap (·.remedies)
def Policy.diags (p : Policy) : List Diag := p.srcs.flatMap (·.diags)

/-- `map[Method]EndpointPolicy` -/
abbrev PMap := List (String × Policy)

def PMap.find? (m : PMap) (method : String) : Option Policy :=
  match m with
  | [] => none
  | (k, p) :: rest => if k = method then some p else PMap.find? rest method

/-- `existingPolicy[method] = policy` -/
def PMap.set (m : PMap) (method : String) (p : Policy) : PMap :=
  match m with
  | [] => [(method, p)]
  | (k, q) :: rest => if k = method then (method, p) :: rest else (k, q) :: PMap.set rest method p

/-- `policiesByURL` (keyed by the trimmed URL text in Go, by the split parts here). -/
abbrev UrlIndex := List (List Part × Nat)

def UrlIndex.find? (ix : UrlIndex) (ps : List Part) : Option Nat :=
  match ix with
  | [] => none
  | (k, i) :: rest => if k = ps then some i else UrlIndex.find? rest ps

structure PTree where
  tree : Tree Nat
  store : List PMap
  byUrl : UrlIndex := []
deriving Repr

def PTree.empty : PTree := ⟨[], [], []⟩

inductive BuildErr where
  | duplicate                    -- checkForDuplicates
  | insert (e : InsertErr)       -- InsertDeclaredURL failed
deriving DecidableEq, Repr

/-- `existingRemedies`: remedies already present for this method in the map the lookup of the NEW
    endpoint's URL lands on. -/
def existingRemedies (pt : PTree) (e : Endpoint) : List Remedy :=
  match (lookupParts pt.tree e.parts).value with
  | none => []
  | some i => match (pt.store.getD i []).find? e.method with
    | some p => p.remedies
    | none => []

/-- `checkForDuplicates`: a new remedy has the (defined) type of an existing one. -/
def isDuplicate (pt : PTree) (e : Endpoint) : Bool :=
  e.remedies.any fun r => (existingRemedies pt e).any fun x => x.type != 0 && x.type == r.type

def setStore (store : List PMap) (i : Nat) (m : PMap) : List PMap := store.set i m

/-- One iteration of the loop of `BuildEndpointPolicyTree`. -/
def addEndpoint (pt : PTree) (e : Endpoint) : Except BuildErr PTree :=
  if isDuplicate pt e then .error .duplicate
  else
    match pt.byUrl.find? e.parts with
    | some i =>
      -- the map of this very URL: add the method (append when the method is already there), re-insert it
      let old := pt.store.getD i []
      let pol : Policy := match old.find? e.method with
        | some prev => ⟨prev.srcs ++ [e]⟩
        | none => ⟨[e]⟩
      let store' := setStore pt.store i (old.set e.method pol)
      match insertParts pt.tree e.parts i true with
      | .error err => .error (.insert err)
      | .ok t' => .ok ⟨t', store', pt.byUrl⟩
    | none =>
      let i := pt.store.length
      match insertParts pt.tree e.parts i true with
      | .error err => .error (.insert err)
      | .ok t' => .ok ⟨t', pt.store ++ [[(e.method, ⟨[e]⟩)]], pt.byUrl ++ [(e.parts, i)]⟩

def buildFrom (pt : PTree) : List Endpoint → Except BuildErr PTree
  | [] => .ok pt
  | e :: es => match addEndpoint pt e with
    | .error err => .error err
    | .ok pt' => buildFrom pt' es

/-- `BuildEndpointPolicyTree` -/
def build (es : List Endpoint) : Except BuildErr PTree := buildFrom .empty es

/-- What the dispatcher derives from one lookup for a (method, URL). -/
structure Selection where
  hasValue : Bool                     -- `lookupResult.Value != nil`
  policy : Option Policy              -- `methodToEndpointPolicy[method]`
  norm : List Part                    -- `lookupResult.NormalizedURL`
  params : List (String × String)     -- `lookupResult.PathParams`
deriving Repr

def select (pt : PTree) (method : String) (us : List Part) : Selection :=
  let r := lookupParts pt.tree us
  match r.value with
  | some i => ⟨true, (pt.store.getD i []).find? method, r.norm, r.params⟩
  | none => ⟨false, none, r.norm, r.params⟩

/-- `modifyIntoDiagnosisFreePoliciesConfig`: the persisted copy the diagnosis fail-safe reverts to keeps EVERY
    declared endpoint (whatever is left on it) and drops the diagnoses only. -/
def diagnosisFree (es : List Endpoint) : List Endpoint := es.map fun e => { e with diags := [] }

structure Globals where
  remedies : List Remedy
  diags : List Diag
deriving Repr

/-- `getRemedies`: enabled endpoint remedies (scoped with method, normalised URL, params), then the
    enabled global ones.  Names only. -/
def Globals.diagnosisFree (g : Globals) : Globals := { g with diags := [] }

def getRemedies (pt : PTree) (g : Globals) (method : String) (us : List Part) : List String × List String :=
  let s := select pt method us
  ((match s.policy with
    | some p => (p.remedies.filter (·.enabled)).map (·.name)
    | none => []),
   (g.remedies.filter (·.enabled)).map (·.name))

/-- The enabled remedies `getRemedies` selects, with their types: endpoint-scoped, then global. -/
def selRemedies (pt : PTree) (g : Globals) (method : String) (us : List Part) : List Remedy :=
  (match (select pt method us).policy with
   | some p => p.remedies.filter (·.enabled)
   | none => []) ++ g.remedies.filter (·.enabled)

/-- `DispatchOnRequest` when every remedy is a fixed-response (type 7) or retry (type 8) one and the request
    asks for an early response: remedies run in the order endpoint-scoped, then global; the first
    fixed-response one answers (retry does nothing on the request leg). -/
def dispatchFirst (pt : PTree) (g : Globals) (method : String) (us : List Part) : Option String :=
  ((selRemedies pt g method us).filter (·.type == 7)).head?.map (·.name)

/-- A forwarded request: the authentication remedies (type 9) among the selected ones put their account's
    credentials on the request (`request_headers`); one account per remedy, named after it. -/
def authKeys (pt : PTree) (g : Globals) (method : String) (us : List Part) : List String :=
  ((selRemedies pt g method us).filter (·.type == 9)).map (·.name)

/-- Number of remedies active on the request leg (`request_active_remedies`). -/
def dispatchActive (pt : PTree) (g : Globals) (method : String) (us : List Part) : Nat :=
  ((selRemedies pt g method us).filter (·.type == 7)).length

/-- enabled retry remedies of a list -/
def retryCount (rs : List Remedy) : Nat := (rs.filter fun r => r.enabled && r.type == 8).length

/-- `obtainModifiedEarlyResponse`: the early answer is run through the RESPONSE leg (`getOnResponseRunResult`
    with the request's method and URL): the first retry remedy selected there modifies it
    (`response_active_remedies` has ONE entry: the retry plugin's `ModifyResponseAction` carries no status,
    `EnsureResponseIsUpdated` writes status 0 into the response, later retry remedies see it out of range). -/
def dispatchRespActive (pt : PTree) (g : Globals) (method : String) (us : List Part) : Nat :=
  if retryCount (match (select pt method us).policy with
    | some p => p.remedies
    | none => []) + retryCount g.remedies > 0 then 1 else 0

def getDiagnoses (pt : PTree) (g : Globals) (method : String) (us : List Part) : List String × List String :=
  let s := select pt method us
  ((match s.policy with
    | some p => (p.diags.filter (·.enabled)).map (·.name)
    | none => []),
   (g.diags.filter (·.enabled)).map (·.name))

def shouldDiagnose (pt : PTree) (g : Globals) (method : String) (us : List Part) : Bool :=
  g.diags.any (·.enabled) ||
  (match (select pt method us).policy with
   | some p => p.diags.any (·.enabled)
   | none => false)

end LunarVerif.C13
