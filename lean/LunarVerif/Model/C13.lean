import LunarVerif.Model.UrlTree
/-
Model of `config/endpoint_policy_tree.go` (`BuildEndpointPolicyTree`, `checkForDuplicates`) and of the
selection functions of `runner/plugin_dispatcher.go` (`getRemedies`, `getDiagnoses`, `shouldDiagnose`).
Core Lean only.

The Go tree stores `*map[Method]EndpointPolicy`.  `existingPolicy := *lookup.Value` copies the map
HEADER, so the map found by the lookup is mutated in place and the very same map is then inserted at the
new URL.  Map identity is therefore explicit here: tree values are indices into `store`.
-/
namespace LunarVerif.C13
open LunarVerif.UrlTree

structure Remedy where
  name : String
  type : Nat          -- `RemedyType`; 0 = undefined
  enabled : Bool
deriving DecidableEq, Repr

structure Diag where
  name : String
  enabled : Bool
deriving DecidableEq, Repr

/-- `sharedConfig.EndpointConfig`; `parts` = `splitURL url` (done by the front end). -/
structure Endpoint where
  method : String
  url : String
  parts : List Part
  remedies : List Remedy
  diags : List Diag
deriving DecidableEq, Repr

/-- `EndpointPolicy`; `src` = the declaring endpoint (URL, Remedies, Diagnosis are copied from it). -/
structure Policy where
  src : Endpoint
deriving DecidableEq, Repr

/-- `map[Method]EndpointPolicy` -/
abbrev PMap := List (String × Policy)

def PMap.find? (m : PMap) (method : String) : Option Policy :=
  match m with
  | [] => none
  | (k, p) :: rest => if k = method then some p else PMap.find? rest method

/-- `existingPolicy[method] = policy` -/
def PMap.set (m : PMap) (method : String) (p : Policy) : PMap :=
  match m with
  | [] => [(method, p)]
  | (k, q) :: rest => if k = method then (method, p) :: rest else (k, q) :: PMap.set rest method p

structure PTree where
  tree : Tree Nat
  store : List PMap
deriving Repr

def PTree.empty : PTree := ⟨[], []⟩

inductive BuildErr where
  | duplicate                    -- checkForDuplicates
  | insert (e : InsertErr)       -- InsertDeclaredURL failed
deriving DecidableEq, Repr

/-- `existingRemedies`: remedies already present for this method in the map the lookup of the NEW
    endpoint's URL lands on. -/
def existingRemedies (pt : PTree) (e : Endpoint) : List Remedy :=
  match (lookupParts pt.tree e.parts).value with
  | none => []
  | some i => match (pt.store.getD i []).find? e.method with
    | some p => p.src.remedies
    | none => []

/-- `checkForDuplicates`: a new remedy has the (defined) type of an existing one. -/
def isDuplicate (pt : PTree) (e : Endpoint) : Bool :=
  e.remedies.any fun r => (existingRemedies pt e).any fun x => x.type != 0 && x.type == r.type

def setStore (store : List PMap) (i : Nat) (m : PMap) : List PMap := store.set i m

/-- One iteration of the loop of `BuildEndpointPolicyTree`. -/
def addEndpoint (pt : PTree) (e : Endpoint) : Except BuildErr PTree :=
  if isDuplicate pt e then .error .duplicate
  else
    -- `Lookup(endpoint.URL)`: the declared URL is looked up AS IF it were a request URL
    match (lookupParts pt.tree e.parts).value with
    | some i =>
      -- mutate THAT map, then insert the same map (same identity) at the new URL
      let store' := setStore pt.store i ((pt.store.getD i []).set e.method ⟨e⟩)
      match insertParts pt.tree e.parts i true with
      | .error err => .error (.insert err)
      | .ok t' => .ok ⟨t', store'⟩
    | none =>
      let i := pt.store.length
      match insertParts pt.tree e.parts i true with
      | .error err => .error (.insert err)
      | .ok t' => .ok ⟨t', pt.store ++ [[(e.method, ⟨e⟩)]]⟩

def buildFrom (pt : PTree) : List Endpoint → Except BuildErr PTree
  | [] => .ok pt
  | e :: es => match addEndpoint pt e with
    | .error err => .error err
    | .ok pt' => buildFrom pt' es

/-- `BuildEndpointPolicyTree` -/
def build (es : List Endpoint) : Except BuildErr PTree := buildFrom .empty es

/-- What the dispatcher derives from one lookup for a (method, URL). -/
structure Selection where
  hasValue : Bool                     -- `lookupResult.Value != nil`
  policy : Option Policy              -- `methodToEndpointPolicy[method]`
  norm : List Part                    -- `lookupResult.NormalizedURL`
  params : List (String × String)     -- `lookupResult.PathParams`
deriving Repr

def select (pt : PTree) (method : String) (us : List Part) : Selection :=
  let r := lookupParts pt.tree us
  match r.value with
  | some i => ⟨true, (pt.store.getD i []).find? method, r.norm, r.params⟩
  | none => ⟨false, none, r.norm, r.params⟩

structure Globals where
  remedies : List Remedy
  diags : List Diag
deriving Repr

/-- `getRemedies`: enabled endpoint remedies (scoped with method, normalised URL, params), then the
    enabled global ones.  Names only. -/
def getRemedies (pt : PTree) (g : Globals) (method : String) (us : List Part) : List String × List String :=
  let s := select pt method us
  ((match s.policy with
    | some p => (p.src.remedies.filter (·.enabled)).map (·.name)
    | none => []),
   (g.remedies.filter (·.enabled)).map (·.name))

/-- `DispatchOnRequest` when every remedy is a fixed-response one and the request asks for an early
    response: remedies run in the order endpoint-scoped, then global; the first one answers. -/
def dispatchFirst (pt : PTree) (g : Globals) (method : String) (us : List Part) : Option String :=
  ((getRemedies pt g method us).1 ++ (getRemedies pt g method us).2).head?

def getDiagnoses (pt : PTree) (g : Globals) (method : String) (us : List Part) : List String × List String :=
  let s := select pt method us
  ((match s.policy with
    | some p => (p.src.diags.filter (·.enabled)).map (·.name)
    | none => []),
   (g.diags.filter (·.enabled)).map (·.name))

def shouldDiagnose (pt : PTree) (g : Globals) (method : String) (us : List Part) : Bool :=
  g.diags.any (·.enabled) ||
  (match (select pt method us).policy with
   | some p => p.src.diags.any (·.enabled)
   | none => false)

end LunarVerif.C13
