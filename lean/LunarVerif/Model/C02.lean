/-
Model of the concurrent quota strategy as it is reached through the streams engine.  Core Lean only.

Code modelled (lunar-engine/streams), WITH the repairs F04e/F02c, F02a, F02b, F02d, F02e (landed) and F02f (fixes/F02f.patch):
* `resources/quota/concurrent_strategy.go` — `Inc`, `Allowed`, `Dec` (walks up all ancestors, F02d),
  `generateMember`, `checkForExpiredRequests` / `validateMemberIntegrity` (the GC); the status and the member are
  written in one critical section (F02e);
* `lunar-context/memory_state.go` — `AtomicSAddWithMaxValuesAllowed`, `SRem`, `SMembers` (returns a copy, F02b);
* `resources/resource_management.go` — `GetQuota` (remembers EVERY quota a request id touched, in order, F02a),
  `OnRequestDrop` (decrements all of them), `OnResponseFinish` (= `OnRequestDrop`, F02f);
* `streams.go` / `stream/stream.go` — `executeReq`, `executeRes`, `OnError`, `OnRequestDrop` on an early
  response, the response-direction system end flows (`QuotaProcessorDec` of every concurrent quota of the filter,
  F04e) after a short-circuit;
* `processors/limiter`, `processors/quota-processor-inc`, `processors/quota-processor-dec`.

Two layers.
* `Micro` / `micro`: one step per critical section that writes shared state (set add under the state mutex,
  set remove, status write, status delete, the two `reqIDToQuota` operations, the clock).  `Reach` closes the
  initial state under ARBITRARY micro steps with ARBITRARY arguments: every interleaving of every number of
  concurrent `Inc`/`Allowed`/`Dec`/GC/drop executions is one such sequence, so an invariant of `Reach`
  holds for all schedules.
* event level (`reqEvent`, `respEvent`, `errEvent`, `advance`): the engine's call sequences for one event run
  to completion, written as compositions of `micro` — this is what the correspondence check drives.

Not modelled: cluster liveness (the instance part of a member is the constant `unknown`), Redis shared state,
fixed-window companions are never limiting (`Inc`/`Allowed` admit, `Dec` does nothing a concurrent quota can see).
-/
namespace LunarVerif.C02

/-- A member of the in-flight set: `"<expiryNs>::<reqId>::unknown"`. -/
structure Member where
  expiry : Nat
  req : Nat
deriving DecidableEq, Repr

inductive Kind | conc | fixed
deriving DecidableEq, Repr

/-- A quota's own filter (what the correspondence generates): everything on the host, one method only, one path only,
    or a required request header. -/
inductive Flt | any | mGet | mPost | pathY | hdr
deriving DecidableEq, Repr

/-- What of a transaction the filters look at: method (POST or GET), path (`/y` or `/x`), the request header. -/
structure Tx where
  post : Bool
  pathY : Bool
  hdr : Bool
deriving DecidableEq, Repr

structure QCfg where
  kind : Kind
  max : Nat               -- max_request_count
  exp : Nat               -- request_expiration + timeDeltaForDeadRequestDecision, ns
  parent : Option Nat     -- index of the parent quota (internal_limits)
  flt : Flt := .any       -- the quota's own filter
deriving Repr

structure Cfg where
  quotas : List QCfg      -- quota id = index
  order : List Nat        -- the user flow: Limiter(order[0]) -below_limit-> Limiter(order[1]) ...
  early : Bool            -- after the limiters the flow itself answers POST requests (GenerateResponse)
  t0 : Nat                -- instant at which the engine (and its GC goroutines) started
  gc : Nat                -- gc_interval, ns
deriving Repr

/-! `ConcurrentConfig` of quota.type.go: `request_expiration_sec` and `gc_interval_sec` are optional, independently
    of each other; a field left out (0) takes its own default. -/

/-- `defaultRequestExpiration` (60 s), ns; tied to the source by `Properties.C02.defaults_match_source` -/
def defaultRequestExpiration : Nat := 60000000000
/-- `defaultGCInterval` (30 s), ns -/
def defaultGCInterval : Nat := 30000000000
/-- `timeDeltaForDeadRequestDecision` (10 ms), ns -/
def timeDelta : Nat := 10000000

/-- `GetRequestExpiration`: looks at `RequestExpirationSec` only -/
def requestExpiration (expirationSec : Nat) : Nat :=
  if expirationSec == 0 then defaultRequestExpiration else expirationSec * 1000000000

/-- `GetGCInterval`: looks at `GCIntervalSec` only -/
def gcInterval (gcSec : Nat) : Nat :=
  if gcSec == 0 then defaultGCInterval else gcSec * 1000000000

/-- a concurrent quota as configured (`none` = field left out): `exp` is what `addReqToSystem` adds to the enqueue
    time -/
def QCfg.ofConfig (max : Nat) (expirationSec : Option Nat) (parent : Option Nat) : QCfg :=
  ⟨.conc, max, requestExpiration (expirationSec.getD 0) + timeDelta, parent, .any⟩

def Cfg.isConc (cfg : Cfg) (q : Nat) : Bool :=
  match cfg.quotas[q]? with
  | some c => c.kind == .conc
  | none => false

def Cfg.max (cfg : Cfg) (q : Nat) : Nat := match cfg.quotas[q]? with | some c => c.max | none => 0
def Cfg.exp (cfg : Cfg) (q : Nat) : Nat := match cfg.quotas[q]? with | some c => c.exp | none => 0
def Cfg.parent (cfg : Cfg) (q : Nat) : Option Nat := (cfg.quotas[q]?).bind (·.parent)
def Cfg.flt (cfg : Cfg) (q : Nat) : Flt := match cfg.quotas[q]? with | some c => c.flt | none => .any

/-- `q, parent q, parent (parent q), …` (fuel = number of quotas + 1). -/
def chainFuel (cfg : Cfg) : Nat → Nat → List Nat
  | 0, _ => []
  | f + 1, q => q :: match cfg.parent q with
    | some p => chainFuel cfg f p
    | none => []

def Cfg.chainOf (cfg : Cfg) (q : Nat) : List Nat := chainFuel cfg (cfg.quotas.length + 1) q

/-- Quotas referenced by a user-flow processor, with their ancestors (`getQuotaReferences`): their system
    `QuotaProcessorInc` is switched off. -/
def Cfg.refd (cfg : Cfg) : List Nat := cfg.order.flatMap cfg.chainOf

/-- Root of `q`'s quota tree. -/
def Cfg.rootOf (cfg : Cfg) (q : Nat) : Nat := ((cfg.chainOf q).getLast?).getD q

/-- Order in which the quotas' system-flow processors are appended to the system flow of the (shared)
    filter: every root in file order, each followed by its internal limits in file order. -/
def Cfg.sysOrder (cfg : Cfg) : List Nat :=
  ((List.range cfg.quotas.length).filter (fun q => (cfg.parent q).isNone)).flatMap fun root =>
    root :: (List.range cfg.quotas.length).filter (fun q => q != root && cfg.rootOf q == root)

/-- Quotas whose system start flow (`QuotaProcessorInc`) runs with its logic on: those no user flow
    processor references (`disableQuotaProcessorLogic`), in system-flow order. -/
def Cfg.sysStart (cfg : Cfg) : List Nat := cfg.sysOrder.filter (fun q => !cfg.refd.contains q)

/-- The `QuotaProcessorDec` of the filter's response-direction system end flow: one per concurrent quota. -/
def Cfg.sysDecs (cfg : Cfg) : List Nat := cfg.sysOrder.filter cfg.isConc

/-- Effective filter of a quota: an internal limit without a filter of its own takes its parent's; one with a filter
    keeps its own URL and adds the parent's methods and headers (`Filter.Extend`).
    `(only path /y, allowed methods as "is POST" flags ([] = any), header required)`. -/
def effFilter (cfg : Cfg) : Nat → Nat → Bool × List Bool × Bool
  | 0, _ => (false, [], false)
  | f + 1, q =>
    let own : Bool × List Bool × Bool := match cfg.flt q with
      | .mGet => (false, [false], false)
      | .mPost => (false, [true], false)
      | .pathY => (true, [], false)
      | .hdr => (false, [], true)
      | .any => (false, [], false)
    match cfg.parent q with
    | none => own
    | some p =>
      let up := effFilter cfg f p
      if cfg.flt q == .any then up
      else (own.1, own.2.1 ++ up.2.1.filter (fun m => !own.2.1.contains m), own.2.2 || up.2.2)

/-- The system flows of quota `q` are selected for a request of this shape (URL, method, headers are checked). -/
def Cfg.matchReq (cfg : Cfg) (q : Nat) (tx : Tx) : Bool :=
  let f := effFilter cfg (cfg.quotas.length + 1) q
  (!f.1 || tx.pathY) && (f.2.1.isEmpty || f.2.1.contains tx.post) && (!f.2.2 || tx.hdr)

/-- … for a response of this shape (URL and method are checked; request headers are not there). -/
def Cfg.matchResp (cfg : Cfg) (q : Nat) (tx : Tx) : Bool :=
  let f := effFilter cfg (cfg.quotas.length + 1) q
  (!f.1 || tx.pathY) && (f.2.1.isEmpty || f.2.1.contains tx.post)

def Cfg.sysStartFor (cfg : Cfg) (tx : Tx) : List Nat := cfg.sysStart.filter (cfg.matchReq · tx)
def Cfg.sysDecsFor (cfg : Cfg) (tx : Tx) : List Nat := cfg.sysDecs.filter (cfg.matchResp · tx)

structure S where
  now : Nat
  nextGC : Nat                          -- instant at which the GC goroutines are due next
  members : Nat → List Member           -- per quota: the set (a Go slice: append / remove first equal)
  allowed : Nat → Nat → Option Member   -- per quota: allowedReq[reqId] (status is `reqAllowed` whenever present)
  rm : Nat → List Nat                   -- ResourceManagement.reqIDToQuota: the quotas a request touched, in order
  adds : Nat → Member → Nat             -- ghost: successful set adds
  rems : Nat → Member → Nat             -- ghost: set removals that removed something

def S.init (cfg : Cfg) : S :=
  { now := cfg.t0, nextGC := cfg.t0 + cfg.gc, members := fun _ => [], allowed := fun _ _ => none,
    rm := fun _ => [], adds := fun _ _ => 0, rems := fun _ _ => 0 }

/-- One critical section that writes shared state. -/
inductive Micro
  | sadd (q : Nat) (m : Member)        -- AtomicSAddWithMaxValuesAllowed(set_q, m, max_q)
  | srem (q : Nat) (m : Member)        -- SRem(set_q, m)
  | setst (q r : Nat) (m : Member)     -- allowedReq_q[r] = {reqAllowed, m}
  | del (q r : Nat)                    -- delete(allowedReq_q, r)
  | rmSet (r q : Nat)                  -- append q to reqIDToQuota[r] unless already there
  | rmPop (r : Nat)                    -- reqIDToQuota.Pop(r)
  | clock (now next : Nat)             -- the clock moves / the GC timer is re-armed

def micro (cfg : Cfg) (s : S) : Micro → S
  | .sadd q m =>
    if (s.members q).length < cfg.max q then
      { s with members := fun q' => if q' = q then s.members q ++ [m] else s.members q',
               adds := fun q' m' => if q' = q ∧ m' = m then s.adds q m + 1 else s.adds q' m' }
    else s
  | .srem q m =>
    if m ∈ s.members q then
      { s with members := fun q' => if q' = q then (s.members q).erase m else s.members q',
               rems := fun q' m' => if q' = q ∧ m' = m then s.rems q m + 1 else s.rems q' m' }
    else s
  | .setst q r m => { s with allowed := fun q' r' => if q' = q ∧ r' = r then some m else s.allowed q' r' }
  | .del q r => { s with allowed := fun q' r' => if q' = q ∧ r' = r then none else s.allowed q' r' }
  | .rmSet r q => if (s.rm r).contains q then s else { s with rm := fun r' => if r' = r then s.rm r ++ [q] else s.rm r' }
  | .rmPop r => { s with rm := fun r' => if r' = r then [] else s.rm r' }
  | .clock now next => { s with now := now, nextGC := next }

/-- Everything reachable by any sequence of critical sections with any arguments. -/
inductive Reach (cfg : Cfg) : S → Prop
  | init : Reach cfg (S.init cfg)
  | step (s : S) (op : Micro) : Reach cfg s → Reach cfg (micro cfg s op)

/-! ### Quota API, sequentially (one call runs to completion) -/

/-- `concurrentStrategy.Inc` on `q :: ancestors`. -/
def incChain (cfg : Cfg) : List Nat → S → Nat → S
  | [], s, _ => s
  | q :: rest, s, r =>
    if (s.allowed q r).isSome then s                       -- checkReqStatus(reqNotFound) fails: already processed
    else
      let m : Member := ⟨s.now + cfg.exp q, r⟩             -- generateMember
      if (s.members q).length < cfg.max q then             -- AtomicSAddWithMaxValuesAllowed
        let s1 := micro cfg s (.sadd q m)
        let s2 := incChain cfg rest s1 r                   -- parent.Inc, result ignored
        micro cfg s2 (.setst q r m)
      else s

/-- `concurrentStrategy.Allowed` on `q :: ancestors`: `Inc`, status check, then the parent's `Allowed`. -/
def allowedChain (cfg : Cfg) : List Nat → S → Nat → S × Bool
  | [], s, _ => (s, true)
  | q :: rest, s, r =>
    let s1 := incChain cfg (q :: rest) s r
    if (s1.allowed q r).isSome then allowedChain cfg rest s1 r else (s1, false)

/-- `concurrentStrategy.Dec` on `q :: ancestors`: remove the recorded member if there is one, `Dec` the parent
    in any case, delete the status. -/
def decChain (cfg : Cfg) : List Nat → S → Nat → S
  | [], s, _ => s
  | q :: rest, s, r =>
    let s1 := match s.allowed q r with
      | none => s
      | some m => micro cfg s (.srem q m)
    let s2 := decChain cfg rest s1 r                       -- parent.Dec
    micro cfg s2 (.del q r)

/-- Limiter processor: `GetQuota(q, reqID)`, `Inc`, `Allowed`. -/
def limiter (cfg : Cfg) (s : S) (q r : Nat) : S × Bool :=
  let s0 := micro cfg s (.rmSet r q)
  if cfg.isConc q then
    allowedChain cfg (cfg.chainOf q) (incChain cfg (cfg.chainOf q) s0 r) r
  else (s0, true)

/-- The user flow's limiter chain; stops at the first `above_limit`. -/
def userFlow (cfg : Cfg) : List Nat → S → Nat → S × Bool
  | [], s, _ => (s, true)
  | q :: rest, s, r =>
    let p := limiter cfg s q r
    if p.2 then userFlow cfg rest p.1 r else (p.1, false)

/-- System start flows of the unreferenced quotas: `QuotaProcessorInc` = `GetQuota(q, reqID)`, `Inc`. -/
def sysInc (cfg : Cfg) : List Nat → S → Nat → S
  | [], s, _ => s
  | q :: rest, s, r =>
    let s0 := micro cfg s (.rmSet r q)
    sysInc cfg rest (if cfg.isConc q then incChain cfg (cfg.chainOf q) s0 r else s0) r

/-- `Dec` of every quota in the list (fixed-window quotas: nothing a concurrent quota can see). -/
def decList (cfg : Cfg) : List Nat → S → Nat → S
  | [], s, _ => s
  | q :: rest, s, r => decList cfg rest (if cfg.isConc q then decChain cfg (cfg.chainOf q) s r else s) r

/-- `ResourceManagement.OnRequestDrop`: pop the quotas the request touched and `Dec` each of them. -/
def drop (cfg : Cfg) (s : S) (r : Nat) : S := decList cfg (s.rm r) (micro cfg s (.rmPop r)) r

/-- Response-direction system end flow: one `QuotaProcessorDec` per quota (`GetQuota(q, reqID)`, `Dec`). -/
def sysDec (cfg : Cfg) : List Nat → S → Nat → S
  | [], s, _ => s
  | q :: rest, s, r =>
    let s0 := micro cfg s (.rmSet r q)
    sysDec cfg rest (if cfg.isConc q then decChain cfg (cfg.chainOf q) s0 r else s0) r

/-- `executeRes`: the system end flows whose filter matches, then `OnResponseFinish` = `OnRequestDrop` (every quota the
    request touched is released, F02f). -/
def endFlows (cfg : Cfg) (s : S) (r : Nat) (tx : Tx) : S :=
  drop cfg (sysDec cfg (cfg.sysDecsFor tx) s r) r

inductive Verdict | admitted | refused | early | none
deriving DecidableEq, Repr

/-- A request through `Stream.ExecuteFlow`. A POST is answered by the flow itself when `cfg.early`. -/
def reqEvent (cfg : Cfg) (s : S) (r : Nat) (tx : Tx) : S × Verdict :=
  let p := userFlow cfg cfg.order (sysInc cfg (cfg.sysStartFor tx) s r) r
  if !p.2 then (endFlows cfg (drop cfg p.1 r) r tx, .refused)       -- 429: OnRequestDrop, then response flows
  else if cfg.early && tx.post then (endFlows cfg (drop cfg p.1 r) r tx, .early)
  else (p.1, .admitted)

def respEvent (cfg : Cfg) (s : S) (r : Nat) (tx : Tx) : S := endFlows cfg s r tx

/-- `Stream.OnError`. -/
def errEvent (cfg : Cfg) (s : S) (r : Nat) : S := drop cfg s r

/-! ### The GC -/

/-- `checkForExpiredRequests` of quota `q` at `s.now`, over the snapshot `SMembers` returned. -/
def gcLoop (cfg : Cfg) (q : Nat) : List Member → S → S
  | [], s => s
  | m :: ms, s =>
    if m.expiry ≤ s.now then                                -- Until(expiry) <= 0
      gcLoop cfg q ms (micro cfg (micro cfg s (.srem q m)) (.del q m.req))
    else gcLoop cfg q ms s

def gcQuota (cfg : Cfg) (s : S) (q : Nat) : S :=
  if cfg.isConc q then gcLoop cfg q (s.members q) s else s

def gcAll (cfg : Cfg) (s : S) : S := (List.range cfg.quotas.length).foldl (gcQuota cfg) s

/-- Number of GC instants in `(.., target]` given the next due instant. -/
def dueCount (next gc target : Nat) : Nat := if next ≤ target then (target - next) / gc + 1 else 0

/-- `k` GC ticks, each at its due instant. -/
def tickN (cfg : Cfg) : Nat → S → S
  | 0, s => s
  | k + 1, s =>
    let s1 := gcAll cfg (micro cfg s (.clock s.nextGC s.nextGC))
    tickN cfg k (micro cfg s1 (.clock s1.now (s1.nextGC + cfg.gc)))

/-- The clock advances by `d`; the GC runs at every due instant on the way. -/
def advance (cfg : Cfg) (s : S) (d : Nat) : S :=
  let s1 := tickN cfg (dueCount s.nextGC cfg.gc (s.now + d)) s
  micro cfg s1 (.clock (s.now + d) s1.nextGC)

/-! ### Event histories -/

inductive Event
  | req (r : Nat) (tx : Tx)
  | resp (r : Nat) (tx : Tx)
  | err (r : Nat)
  | adv (d : Nat)
deriving DecidableEq, Repr

def event (cfg : Cfg) (s : S) : Event → S × Verdict
  | .req r tx => reqEvent cfg s r tx
  | .resp r tx => (respEvent cfg s r tx, .none)
  | .err r => (errEvent cfg s r, .none)
  | .adv d => (advance cfg s d, .none)

/-- What an outside observer sees after an event: the verdict and the in-flight set of every quota. -/
structure Obs where
  ev : Event
  verdict : Verdict
  mem : Nat → List Member

/-- Run a history; observations oldest first. -/
def run (cfg : Cfg) : S → List Event → List Obs
  | _, [] => []
  | s, e :: es => let p := event cfg s e; ⟨e, p.2, p.1.members⟩ :: run cfg p.1 es

/-- Final state of a history. -/
def final (cfg : Cfg) : S → List Event → S
  | s, [] => s
  | s, e :: es => final cfg (event cfg s e).1 es

/-! ### Reload

`HandlingDataManager.initializeStreams` (start-up and every flows reload) builds a NEW engine — `streams.NewStream` →
quota loader → `NewQuota` → `NewConcurrentStrategy` for every quota id again — and then lets it serve.  Each new strategy
has its own (empty) in-memory set, its own status map and its own collector goroutine whose first timer is registered at
the load instant; the new `ResourceManagement` has an empty `reqIDToQuota`.  The engine that served so far is dropped with
everything it held (its collectors keep running on sets nobody reads any more).  So what follows a reload is the run of a
freshly started engine whose start instant is the reload instant. -/

/-- configuration `cfg` loaded at instant `now` -/
def Cfg.startedAt (cfg : Cfg) (now : Nat) : Cfg := { cfg with t0 := now }

/-- the state after configuration `cfg'` is loaded again while the engine is in state `s` -/
def reload (cfg' : Cfg) (s : S) : S := S.init (cfg'.startedAt s.now)

/-- A history with reloads: the events up to the first reload, then for every reload the configuration it loads and the
    events up to the next one.  The result lists, per load, the configuration as started and what was observed. -/
def runReloads : Cfg → S → List Event → List (Cfg × List Event) → List (Cfg × List Obs)
  | cfg, s, es, [] => [(cfg, run cfg s es)]
  | cfg, s, es, (cfg', es') :: rest =>
    (cfg, run cfg s es) ::
      runReloads (cfg'.startedAt (final cfg s es).now) (reload cfg' (final cfg s es)) es' rest

/-- Decidable well-formedness: positive GC interval; every concurrent quota's ancestor chain is made of
    distinct concurrent quotas; flow order mentions existing quotas; every concurrent quota sits in a quota tree
    (so it has its `QuotaProcessorDec` in the system flow); fixed-window quotas are roots without internal limits of
    interest (mixed trees are handled by `Model/C02Mixed.lean`, outside the theorems). -/
def Cfg.wf (cfg : Cfg) : Bool :=
  decide (0 < cfg.gc) &&
  (List.range cfg.quotas.length).all (fun q =>
    !cfg.isConc q || (decide (cfg.chainOf q).Nodup && (cfg.chainOf q).all cfg.isConc)) &&
  cfg.order.all (fun q => decide (q < cfg.quotas.length)) &&
  (List.range cfg.quotas.length).all (fun q => !cfg.isConc q || cfg.sysDecs.contains q) &&
  (List.range cfg.quotas.length).all (fun q => cfg.isConc q || (cfg.parent q).isNone)

end LunarVerif.C02
