/-
Regular expressions for C14 (managed-endpoint expressions evaluated by the proxy with `map_reg`).
Core Lean only.

  * `Re`        — AST of the subset: literal char, `.`, (negated) class, concat, alternation, `*` `+` `?`,
                  capture group, `^` and `$` (begin/end of TEXT: no multi-line mode, as Go `regexp.Compile`
                  and HAProxy's default PCRE flags).  `empty` (∅) only appears inside the matcher.
  * `Matches b r w e` — DECLARATIVE semantics: `r` matches exactly the word `w`, which sits in a subject
                  string with nothing before it iff `b` and nothing after it iff `e` (the context is only
                  needed by the two anchors).  `Search r s` = some infix of `s` matches (what `map_reg`/
                  `regexp.MatchString` compute).
  * `reSearch`  — EXECUTABLE matcher: Brzozowski derivatives (`der`) with context flags for the anchors;
                  structurally recursive, so concrete instances evaluate in the kernel.
                  `Proofs/Regex.lean`: `reSearch r s = true ↔ Search r s`.
  * `parseRe`   — parser of the textual syntax, transcribing Go's `regexp/syntax` parser (Perl flags) for the
                  subset: same precedence, same errors (missing repetition argument, nested repetition
                  `a**`, `{n,m}` vs literal `{`, `]`/`-` rules in classes, trailing backslash, unbalanced
                  parentheses).  `inSubset` delimits the subset syntactically (no `\`+alphanumeric, `(?`,
                  `[:`, multi-digit `{nn`, non-ASCII); the harness has the same predicate.
The tie to a real engine is the differential run against Go `regexp` (harness `cmd/c14`, level 2).
-/
namespace LunarVerif.Regex

inductive Re where
  | empty
  | eps
  | char (c : Char)
  | any                                          -- `.` : any character except '\n'
  | cls (neg : Bool) (rs : List (Char × Char))   -- `[a-z_]` / `[^/]` : inclusive ranges
  | cat (a b : Re)
  | alt (a b : Re)
  | star (a : Re)
  | plus (a : Re)
  | opt (a : Re)
  | group (a : Re)
  | bol
  | eol
deriving DecidableEq, Repr

def clsMem (rs : List (Char × Char)) (c : Char) : Bool :=
  rs.any fun r => decide (r.1.toNat ≤ c.toNat) && decide (c.toNat ≤ r.2.toNat)

/-- Does the class `[rs]` / `[^rs]` accept `c`?  (Go: a negated class also accepts '\n'.) -/
def clsOK (neg : Bool) (rs : List (Char × Char)) (c : Char) : Bool := neg != clsMem rs c

/-! ### Declarative semantics -/

/-- `Matches b r w e`: `r` matches the word `w`; `b` = the word starts at the beginning of the subject,
    `e` = it ends at the end of the subject. -/
inductive Matches : Bool → Re → List Char → Bool → Prop
  | eps (b e) : Matches b .eps [] e
  | char (b e c) : Matches b (.char c) [c] e
  | any (b e c) : c ≠ '\n' → Matches b .any [c] e
  | cls (b e neg rs c) : clsOK neg rs c = true → Matches b (.cls neg rs) [c] e
  | cat (b e r1 r2 w1 w2) : Matches b r1 w1 (e && w2.isEmpty) → Matches (b && w1.isEmpty) r2 w2 e →
      Matches b (.cat r1 r2) (w1 ++ w2) e
  | altL (b e r1 r2 w) : Matches b r1 w e → Matches b (.alt r1 r2) w e
  | altR (b e r1 r2 w) : Matches b r2 w e → Matches b (.alt r1 r2) w e
  | starNil (b e r) : Matches b (.star r) [] e
  | starCons (b e r w1 w2) : Matches b r w1 (e && w2.isEmpty) → Matches (b && w1.isEmpty) (.star r) w2 e →
      Matches b (.star r) (w1 ++ w2) e
  | plus (b e r w) : Matches b (.cat r (.star r)) w e → Matches b (.plus r) w e
  | optNil (b e r) : Matches b (.opt r) [] e
  | optSome (b e r w) : Matches b r w e → Matches b (.opt r) w e
  | group (b e r w) : Matches b r w e → Matches b (.group r) w e
  | bol (e) : Matches true .bol [] e
  | eol (b) : Matches b .eol [] true

/-- Unanchored search: some infix of `s` matches `r` (anchors see the real ends of `s`). -/
def Search (r : Re) (s : List Char) : Prop :=
  ∃ pre w post, s = pre ++ w ++ post ∧ Matches pre.isEmpty r w post.isEmpty

/-! ### Executable matcher (derivatives) -/

/-- `r` matches the empty word in context `(b, e)`. -/
def nullable (b e : Bool) : Re → Bool
  | .empty => false
  | .eps => true
  | .char _ => false
  | .any => false
  | .cls _ _ => false
  | .cat r1 r2 => nullable b e r1 && nullable b e r2
  | .alt r1 r2 => nullable b e r1 || nullable b e r2
  | .star _ => true
  | .plus r => nullable b e r
  | .opt _ => true
  | .group r => nullable b e r
  | .bol => b
  | .eol => e

def mkCat (a b : Re) : Re :=
  match a with
  | .empty => .empty
  | .eps => b
  | _ => if b = .empty then .empty else .cat a b

/-- The alternatives of a (nested) alternation; `∅` contributes none. -/
def alts : Re → List Re
  | .alt a b => alts a ++ alts b
  | .empty => []
  | r => [r]

def altOf : List Re → Re
  | [] => .empty
  | [r] => r
  | r :: rs => .alt r (altOf rs)

def dedupRe : List Re → List Re
  | [] => []
  | r :: rs => if r ∈ rs then dedupRe rs else r :: dedupRe rs

/-- Alternation modulo associativity and idempotence (and `∅` as unit): keeps the set of derivatives of an
    expression small, so that nested repetitions do not blow the matcher up. -/
def mkAlt (a b : Re) : Re := altOf (dedupRe (alts a ++ alts b))

/-- Derivative by `c`, the word starting at the beginning of the subject iff `b`.  A derivative is always
    taken with at least `c` still to come, so a nullable left factor of a concatenation is tested with
    `e = false`. -/
def der (b : Bool) (c : Char) : Re → Re
  | .empty => .empty
  | .eps => .empty
  | .char a => if a = c then .eps else .empty
  | .any => if c = '\n' then .empty else .eps
  | .cls neg rs => if clsOK neg rs c then .eps else .empty
  | .cat r1 r2 =>
    mkAlt (mkCat (der b c r1) r2) (if nullable b false r1 then der b c r2 else .empty)
  | .alt r1 r2 => mkAlt (der b c r1) (der b c r2)
  | .star r => mkCat (der b c r) (.star r)
  | .plus r => mkCat (der b c r) (.star r)
  | .opt r => der b c r
  | .group r => der b c r
  | .bol => .empty
  | .eol => .empty

/-- Whole-word match of `w` (ending at the end of the subject) by iterated derivatives. -/
def matchD (b : Bool) (r : Re) : List Char → Bool
  | [] => nullable b true r
  | c :: cs => matchD false (der b c r) cs

/-- Every character (a negated empty class). -/
def anyAll : Re := .cls true []

/-- Unanchored search = whole match of `.*r.*` with a dot that also takes newlines. -/
def reSearch (r : Re) (s : List Char) : Bool :=
  matchD true (.cat (.star anyAll) (.cat r (.star anyAll))) s

/-! ### Parser (Go `regexp/syntax`, Perl flags, restricted to the subset) -/

def isDigit (c : Char) : Bool := decide ('0'.toNat ≤ c.toNat) && decide (c.toNat ≤ '9'.toNat)
def isAlnum (c : Char) : Bool :=
  isDigit c || (decide ('a'.toNat ≤ c.toNat) && decide (c.toNat ≤ 'z'.toNat))
    || (decide ('A'.toNat ≤ c.toNat) && decide (c.toNat ≤ 'Z'.toNat))

def badBrace : List Char → Bool
  | d1 :: d2 :: _ => isDigit d1 && isDigit d2
  | _ => false

/-- Syntactic delimitation of the subset; outside it the model answers `unsupported`. -/
def inSubset : List Char → Bool
  | [] => true
  | '\\' :: d :: r => !isAlnum d && decide (d.toNat < 128) && inSubset r
  | '(' :: '?' :: _ => false
  | '[' :: ':' :: _ => false
  | '{' :: r => !badBrace r && inSubset r
  | c :: r => decide (c.toNat < 128) && inSubset r

def catList : List Re → Re
  | [] => .eps
  | r :: rs => .cat r (catList rs)

def digitsVal (acc : Nat) : List Char → Nat
  | [] => acc
  | c :: cs => digitsVal (acc * 10 + (c.toNat - '0'.toNat)) cs

/-- Go `parseInt`: digits without a leading zero (unless the number is `0`). -/
def parseInt (cs : List Char) : Option (Nat × List Char) :=
  match cs with
  | [] => none
  | c :: rest =>
    if !isDigit c then none
    else if c = '0' && (match rest with | d :: _ => isDigit d | [] => false) then none
    else
      let ds := cs.takeWhile isDigit
      some (digitsVal 0 ds, cs.dropWhile isDigit)

/-- Go `parseRepeat` on what follows `{`: `n}` | `n,}` | `n,m}`; `none` = the brace is a literal. -/
def parseRepeat (cs : List Char) : Option (Nat × Option Nat × List Char) :=
  match parseInt cs with
  | none => none
  | some (mn, s) =>
    match s with
    | '}' :: rest => some (mn, some mn, rest)
    | ',' :: '}' :: rest => some (mn, none, rest)
    | ',' :: s1 =>
      match parseInt s1 with
      | some (mx, '}' :: rest) => some (mn, some mx, rest)
      | _ => none
    | _ => none

inductive RepKind where
  | star | plus | opt
  | rep (mn : Nat) (mx : Option Nat)
deriving DecidableEq, Repr

inductive Peek where
  | notRep
  | bad                                   -- `{n,m}` with n > m or a bound above 1000
  | op (k : RepKind) (rest : List Char)
deriving DecidableEq, Repr

/-- Is the next token a repetition operator? -/
def peekRepeat : List Char → Peek
  | '*' :: r => .op .star r
  | '+' :: r => .op .plus r
  | '?' :: r => .op .opt r
  | '{' :: r =>
    match parseRepeat r with
    | none => .notRep
    | some (mn, mx, rest) =>
      if mn > 1000 then .bad
      else match mx with
        | some m => if m > 1000 || mn > m then .bad else .op (.rep mn (some m)) rest
        | none => .op (.rep mn none) rest
  | _ => .notRep

def applyRep (k : RepKind) (a : Re) : Re :=
  match k with
  | .star => .star a
  | .plus => .plus a
  | .opt => .opt a
  | .rep mn (some mx) => catList (List.replicate mn a ++ List.replicate (mx - mn) (.opt a))
  | .rep mn none => catList (List.replicate mn a ++ [.star a])

/-- A `?` right after a repetition operator makes it lazy (same language). -/
def dropLazy : List Char → List Char
  | '?' :: r => r
  | r => r

/-- Postfix operator after an atom: one repetition, optionally lazy, and NOT followed by another
    repetition operator (`a**`, `a+*`, `a{2}{3}` are errors in Go/Perl syntax). -/
def parsePostfix (a : Re) (cs : List Char) : Option (Re × List Char) :=
  match peekRepeat cs with
  | .notRep => some (a, cs)
  | .bad => none
  | .op k rest =>
    match peekRepeat (dropLazy rest) with
    | .notRep => some (applyRep k a, dropLazy rest)
    | _ => none

/-- One character inside a class (`parseClassChar`): a backslash escapes ASCII punctuation. -/
def classChar : List Char → Option (Char × List Char)
  | [] => none
  | '\\' :: [] => none
  | '\\' :: d :: r => if !isAlnum d && decide (d.toNat < 128) then some (d, r) else none
  | c :: r => some (c, r)

/-- The loop of `parseClass` after `[` / `[^`: `]` is literal when first; `a-z` is a range unless the `-`
    is followed by `]`; a reversed range is an error; running out of input is an error. -/
def classItems : Nat → Bool → List Char → List (Char × Char) → Option (List (Char × Char) × List Char)
  | 0, _, _, _ => none
  | f + 1, first, t, acc =>
    match t, first with
    | ']' :: rest, false => some (acc, rest)
    | _, _ =>
      match classChar t with
      | none => none
      | some (lo, s) =>
        match s with
        | '-' :: x :: s' =>
          if x = ']' then classItems f false s (acc ++ [(lo, lo)])
          else match classChar (x :: s') with
            | none => none
            | some (hi, s'') =>
              if hi.toNat < lo.toNat then none
              else classItems f false s'' (acc ++ [(lo, hi)])
        | _ => classItems f false s (acc ++ [(lo, lo)])

def parseClass (cs : List Char) : Option (Re × List Char) :=
  let (neg, t) := match cs with
    | '^' :: t => (true, t)
    | _ => (false, cs)
  match classItems (t.length + 1) true t [] with
  | some (rs, rest) => some (.cls neg rs, rest)
  | none => none

/-- One atom; `sub` parses the inside of a group (one nesting level down). -/
def parseAtom (sub : List Char → Option (Re × List Char)) : List Char → Option (Re × List Char)
  | [] => none
  | '(' :: cs =>
    match sub cs with
    | some (r, ')' :: rest) => some (.group r, rest)
    | _ => none                                 -- missing closing `)`
  | '[' :: cs => parseClass cs
  | '.' :: cs => some (.any, cs)
  | '^' :: cs => some (.bol, cs)
  | '$' :: cs => some (.eol, cs)
  | '\\' :: [] => none                          -- trailing backslash
  | '\\' :: d :: cs => if !isAlnum d && decide (d.toNat < 128) then some (.char d, cs) else none
  | c :: cs => some (.char c, cs)               -- includes `{` (not a repeat), `}`, `]`

/-- A concatenation: pieces up to `|`, `)` or the end.  A repetition operator with nothing to repeat
    (at the start, after `(` or `|`) is an error. -/
def parseCat (sub : List Char → Option (Re × List Char)) : Nat → List Char → Option (List Re × List Char)
  | 0, _ => none
  | f + 1, cs =>
    match cs with
    | [] => some ([], [])
    | '|' :: _ => some ([], cs)
    | ')' :: _ => some ([], cs)
    | _ =>
      match peekRepeat cs with
      | .notRep =>
        match parseAtom sub cs with
        | none => none
        | some (a, r1) =>
          match parsePostfix a r1 with
          | none => none
          | some (p, r2) =>
            match parseCat sub f r2 with
            | none => none
            | some (ps, r3) => some (p :: ps, r3)
      | _ => none

def parseAltW (sub : List Char → Option (Re × List Char)) : Nat → List Char → Option (Re × List Char)
  | 0, _ => none
  | f + 1, cs =>
    match parseCat sub (cs.length + 1) cs with
    | none => none
    | some (ps, '|' :: r) =>
      match parseAltW sub f r with
      | none => none
      | some (b, r') => some (.alt (catList ps) b, r')
    | some (ps, r) => some (catList ps, r)

/-- Alternation with at most `n` levels of group nesting. -/
def parseAltN : Nat → List Char → Option (Re × List Char)
  | 0, _ => none
  | n + 1, cs => parseAltW (parseAltN n) (cs.length + 1) cs

/-- `some r` = the expression compiles to `r`; `none` = syntax error (as Go `regexp.Compile`). -/
def parseRe (cs : List Char) : Option Re :=
  match parseAltN (cs.length + 1) cs with
  | some (r, []) => some r
  | _ => none                                   -- includes "unexpected )"

/-- What the proxy computes for one map entry: does the expression (text) match the subject?
    A syntax error means the entry cannot be loaded: nothing matches. -/
def exprSearch (e s : List Char) : Bool :=
  match parseRe e with
  | some r => reSearch r s
  | none => false

end LunarVerif.Regex
