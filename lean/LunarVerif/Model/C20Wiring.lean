import LunarVerif.Model.C20
/-
Level 2 of C20: what is wired around the generic watcher by `failsafe/diagnosis_failsafe.go`.
Core Lean only.

* configuration: the four `utils/environment` getters read by
  `NewDiagnosisFailsafeStateChangeWatcher` (`strconv.Atoi(os.Getenv(..))`, seconds → `time.Duration` by an
  `int64` multiplication that wraps), in the order interval, N, period, cool-down; the first error aborts
  the construction.  There is NO default in the Go code (an unset variable is the empty string, a syntax
  error); the shipped values are `ENV` lines of `proxy/Dockerfile` (`dockerEnv` below).
* predicate: `areSPOEConnectionsHealthy` = thresholds re-read from the environment on every call (max-last-
  session first, then session-rate; an unparsable one answers `true` WITHOUT fetching), `getHAProxyStats`
  (transport error / body read error / status ≠ 200 / `ParseHAProxyStatsCSV` error ⇒ `true`), first row
  with `pxname = "lunar"`, `svname = "BACKEND"` (none ⇒ `true`), both fields present (else `true`; `lastsess = -1`
  is "absent"), finally `rate == healthyRate && lastsess·1s > healthyMax`.
  The CSV is described structurally (which required columns the header has; per row the four cells and
  whether the record is ragged): `ParseHAProxyStatsCSV` is all-or-nothing, ANY bad record fails the parse.
* reactions on `config.TxnPoliciesAccessor`: `RevertToDiagnosisFree` / `RevertToLastLoaded` =
  `UpdatePoliciesData` with the contents of `loaded-policies-diagnosis-free.yaml` / `loaded-policies.yaml`;
  both files are (re)written by `persistLoaded` on every `loadDataFromFile` (boot, `ReloadFromFile`) BEFORE
  the HAProxy step, so also when that step then fails.  `UpdatePoliciesData` fails (nothing changes) iff
  HAProxy's admin API refuses and the new policies have an enabled plugin.  Errors of the two reactions are
  only logged.
-/
namespace LunarVerif.C20

/-! ### `strconv.Atoi` and seconds → `time.Duration` -/

inductive AtoiErr where
  | syntax | range
deriving Repr, DecidableEq

def digitsVal (ds : List Char) : Nat := ds.foldl (fun acc c => acc * 10 + (c.toNat - 48)) 0

/-- `strconv.Atoi` on a 64-bit platform: optional sign, at least one ASCII digit, nothing else;
    the value must fit `int64`. -/
def goAtoi (s : String) : Except AtoiErr Int :=
  let cs := s.toList
  let (neg, ds) := match cs with
    | '-' :: r => (true, r)
    | '+' :: r => (false, r)
    | r => (false, r)
  if ds.isEmpty || !ds.all Char.isDigit then .error .syntax
  else
    let v : Int := digitsVal ds
    let i : Int := if neg then -v else v
    if i < -9223372036854775808 || 9223372036854775807 < i then .error .range else .ok i

/-- `int64` wrap-around. -/
def wrap64 (x : Int) : Int := Int.bmod x 18446744073709551616

/-- `time.Second * time.Duration(raw)`. -/
def secToNs (raw : Int) : Int := wrap64 (raw * 1000000000)

/-! ### Configuration from the environment -/

structure EnvCfg where
  interval : String   -- DIAGNOSIS_FAILSAFE_MIN_SEC_BETWEEN_CALLS
  n        : String   -- DIAGNOSIS_FAILSAFE_CONSECUTIVE_N
  period   : String   -- DIAGNOSIS_FAILSAFE_MIN_STABLE_SEC
  cooldown : String   -- DIAGNOSIS_FAILSAFE_COOLDOWN_SEC
deriving Repr

/-- The `failsafe.Config` numbers as Go holds them (`int`, `time.Duration` in ns; may be negative). -/
structure RawCfg where
  n        : Int
  period   : Int
  interval : Int
  cooldown : Int
deriving Repr, DecidableEq

/-- Construction error: the `*strconv.NumError` of the first failing getter (`Err`, `Num`). -/
structure CtorErr where
  kind : AtoiErr
  num  : String
deriving Repr, DecidableEq

def getenvInt (s : String) : Except CtorErr Int :=
  match goAtoi s with
  | .ok v => .ok v
  | .error k => .error ⟨k, s⟩

/-- `NewDiagnosisFailsafeStateChangeWatcher`: the four getters in source order. -/
def construct (e : EnvCfg) : Except CtorErr RawCfg :=
  match getenvInt e.interval with
  | .error x => .error x
  | .ok i =>
  match getenvInt e.n with
  | .error x => .error x
  | .ok n =>
  match getenvInt e.period with
  | .error x => .error x
  | .ok p =>
  match getenvInt e.cooldown with
  | .error x => .error x
  | .ok c => .ok ⟨n, secToNs p, secToNs i, secToNs c⟩

/-- A non-positive duration behaves in `StateChangeWatcher.run` like 0 (`timeToWait > 0` never holds,
    `Since(..) >= period` always holds, `Sleep` of a non-positive duration returns at once). -/
def RawCfg.toCfg (r : RawCfg) : Cfg := ⟨r.n, r.period.toNat, r.interval.toNat, r.cooldown.toNat⟩

/-- A NEGATIVE check interval is not harmless before the first check: `lastRunAt` is Go's zero time, `Since`
    saturates to `math.MaxInt64`, and `MinTimeBetweenCalls - timeSinceLastRun` wraps around to a positive
    `2^63 + 1 + interval` ns (≈ 292 years for -1 s), which the loop then waits. -/
def RawCfg.initialWait (r : RawCfg) : Nat :=
  if r.interval < 0 then (9223372036854775809 + r.interval).toNat else 0

/-- The values shipped in `proxy/Dockerfile` (`ENV DIAGNOSIS_FAILSAFE_*`). -/
def dockerEnv : EnvCfg := ⟨"1", "5", "7", "300"⟩

/-! ### The health predicate -/

/-- The two thresholds as environment strings
    (`DIAGNOSIS_FAILSAFE_HEALTHY_SESSION_RATE`, `DIAGNOSIS_FAILSAFE_HEALTHY_MAX_LAST_SESSION_SEC`). -/
structure Thr where
  rate : String
  max  : String
deriving Repr

def dockerThr : Thr := ⟨"0", "5"⟩

/-- Which of the required columns `# pxname`, `svname`, `rate`, `lastsess` the header line has. -/
structure Hdr where
  px : Bool
  sv : Bool
  rate : Bool
  last : Bool
deriving Repr, DecidableEq

def Hdr.complete (h : Hdr) : Bool := h.px && h.sv && h.rate && h.last

/-- One CSV record: the cells under the four required columns; `ragged ≠ 0` = the record has a
    different number of fields than the header (`csv.ErrFieldCount`). -/
structure Row where
  px : String
  sv : String
  rate : String
  last : String
  ragged : Nat
deriving Repr

inductive Body where
  | junk                                  -- no readable header line / header without the required columns
  | csv (h : Hdr) (rows : List Row)
deriving Repr

/-- Outcome of `http.DefaultClient.Do` + `io.ReadAll`. -/
inductive Http where
  | transportErr
  | bodyErr                                -- status 200, reading the body fails
  | status (code : Nat) (b : Body)
deriving Repr

/-- `failsafe.Stat`; `last` in ns. -/
structure Stat where
  px : String
  sv : String
  rate : Option Int
  last : Option Int
deriving Repr

def parseCell (s : String) : Option (Option Int) :=
  if s = "" then some none
  else match goAtoi s with
    | .ok v => some (some v)
    | .error _ => none

/-- One record of `ParseHAProxyStatsCSV`; `none` = the whole parse fails. -/
def parseRow (r : Row) : Option Stat :=
  if r.ragged != 0 then none else
  match parseCell r.rate, parseCell r.last with
  | some rate, some last =>
    let last' := match last with
      | some i => if i == -1 then none else some (secToNs i)   -- noSessionEstablishedValue
      | none => none
    some ⟨r.px, r.sv, rate, last'⟩
  | _, _ => none

def parseRows : List Row → Option (List Stat)
  | [] => some []
  | r :: rs =>
    match parseRow r, parseRows rs with
    | some s, some ss => some (s :: ss)
    | _, _ => none

def parseBody : Body → Option (List Stat)
  | .junk => none
  | .csv h rows => if h.complete then parseRows rows else none

/-- `getHAProxyStats`. -/
def fetchStats : Http → Option (List Stat)
  | .status 200 b => parseBody b
  | _ => none

def isSpoe (s : Stat) : Bool := s.px == "lunar" && s.sv == "BACKEND"

/-- The comparison at the end of `areSPOEConnectionsHealthy`; thresholds already converted. -/
def evalStat (rateThr maxThr : Int) (s : Stat) : Bool :=
  match s.rate, s.last with
  | some r, some l => r == rateThr && decide (maxThr < l)
  | _, _ => true

/-- `areSPOEConnectionsHealthy`: (answer, whether the stats endpoint was fetched). -/
def predicate (thr : Thr) (h : Http) : Bool × Bool :=
  match goAtoi thr.max with
  | .error _ => (true, false)
  | .ok mx =>
  match goAtoi thr.rate with
  | .error _ => (true, false)
  | .ok rt =>
  match fetchStats h with
  | none => (true, true)
  | some stats =>
  match stats.find? isSpoe with
  | none => (true, true)
  | some s => (evalStat rt (secToNs mx) s, true)

/-! ### The policies accessor as far as the two reverts are concerned -/

/-- A policies file: a version label and which ENABLED plugins it has (global diagnosis, endpoint
    diagnosis, endpoint remedy). -/
structure Pol where
  k : Nat
  g : Bool
  e : Bool
  r : Bool
deriving Repr, DecidableEq

/-- `modifyIntoDiagnosisFreePoliciesConfig`. -/
def strip (p : Pol) : Pol := { p with g := false, e := false }

/-- `BuildHAProxyEndpointsRequest` yields at least one admin call that can fail the update. -/
def needsAdmin (p : Pol) : Bool := p.g || p.e || p.r

/-- The empty policies (no plugin at all); label 0 is reserved for them. -/
def emptyPol : Pol := ⟨0, false, false, false⟩

/-- Content of the user's `policies.yaml`. -/
inductive FileSt where
  | none | bad | good (p : Pol)
deriving Repr, DecidableEq

/-- What `ReadPoliciesConfig` makes of the file: a MISSING file is read as the empty policies
    (`configuration.DecodeYAML`: "if the file does not exist, return an empty object"); `none` = rejected. -/
def FileSt.content : FileSt → Option Pol
  | .none => some emptyPol
  | .bad => Option.none
  | .good p => some p

structure Acc where
  file       : FileSt
  loadedFull : Option Pol      -- loaded-policies.yaml
  loadedFree : Option Pol      -- loaded-policies-diagnosis-free.yaml
  cur        : Pol             -- policies in force (`GetCurrentPoliciesData`)
  adminFail  : Bool            -- HAProxy's admin API answers 500
deriving Repr

/-- `BuildInitialFromFile` with a valid file and a willing HAProxy. -/
def Acc.boot (p : Pol) : Acc :=
  { file := .good p, loadedFull := some p, loadedFree := some (strip p), cur := p, adminFail := false }

/-- `UpdatePoliciesData`. -/
def Acc.update (a : Acc) (p : Pol) : Acc × Bool :=
  if a.adminFail && needsAdmin p then (a, false) else ({ a with cur := p }, true)

/-- `ReloadFromFile`: `loadDataFromFile` persists both snapshots, then the update. -/
def Acc.reload (a : Acc) : Acc × Bool :=
  match a.file.content with
  | some p => ({ a with loadedFull := some p, loadedFree := some (strip p) } : Acc).update p
  | none => (a, false)

/-- `RevertToDiagnosisFree` (`free = true`) / `RevertToLastLoaded`. -/
def Acc.revert (a : Acc) (free : Bool) : Acc × Bool :=
  match (if free then a.loadedFree else a.loadedFull) with
  | some p => a.update p
  | none => (a, false)

/-! ### The requests HAProxy's admin API receives (`config/update_endpoints.go`)

Kept beside `Acc.update/reload/revert` (same case structure) so that the state machine above stays small: the
calls are a function of the accessor state BEFORE the step.  Each policies file has one endpoint
(`GET verif.example/p<k>`), listed once per enabled endpoint remedy and once per enabled endpoint diagnosis
(`BuildHAProxyEndpointsRequest`: remedies first). -/

inductive AdminCall where
  | bodyAll                 -- PUT /include_body_from_all
  | manageAll               -- PUT /manage_all
  | unmanageGlobal          -- DELETE /unmanage_global
  | putEp (k : Nat)         -- PUT /managed_endpoint
  | putBody (k : Nat)       -- PUT /include_body_from
  | delEp (k : Nat)         -- DELETE /managed_endpoint
  | delBody (k : Nat)       -- DELETE /include_body_from
  | delCapture (k : Nat)    -- DELETE /capture_req_from
deriving Repr, DecidableEq

def endpointEntries (p : Pol) : List Nat :=
  (if p.r then [p.k] else []) ++ (if p.e then [p.k] else [])

/-- `ManageHAProxyEndpoints`: with a global plugin only manage-all is asked for (the body-from-all error is
    ignored); otherwise every entry is put, stopping at the first refusal. -/
def manageCalls (fail : Bool) (p : Pol) : List AdminCall :=
  if p.g then [.bodyAll, .manageAll]
  else if fail then (match endpointEntries p with | [] => [] | k :: _ => [.putEp k])
  else (endpointEntries p).flatMap fun k => [.putEp k, .putBody k]

/-- The IMMEDIATE un-manage of the fail-safe path (`unmanageImmediately`): entries of the previous policies
    whose endpoint the new ones do not list (stopping at the first refusal), then manage-all if only the
    previous policies wanted it (`unmanageStaleGlobal` → `unmanageGlobal`, never `UnmanageAll`). -/
def unmanageCalls (fail : Bool) (prev new : Pol) : List AdminCall :=
  let gone := (endpointEntries prev).filter fun k => !(endpointEntries new).contains k
  (if fail then (match gone with | [] => [] | k :: _ => [.delEp k])
   else gone.flatMap fun k => [.delEp k, .delBody k, .delCapture k])
  ++ (if prev.g && !new.g then [.unmanageGlobal] else [])

/-- `UpdatePoliciesData`; a reload only SCHEDULES its un-manage (30 s later, on the engine's clock). -/
def updateCalls (fail : Bool) (prev new : Pol) (immediately : Bool) : List AdminCall :=
  manageCalls fail new ++
    (if fail && needsAdmin new then [] else if immediately then unmanageCalls fail prev new else [])

def Acc.reloadCalls (a : Acc) : List AdminCall :=
  match a.file.content with
  | some p => updateCalls a.adminFail a.cur p false
  | none => []

def Acc.revertCalls (a : Acc) (free : Bool) : List AdminCall :=
  match (if free then a.loadedFree else a.loadedFull) with
  | some p => updateCalls a.adminFail a.cur p true
  | none => []

/-! ### The wired system -/

inductive Op where
  | obs (lat : Nat) (h : Http)
  | thr (t : Thr)
  | write (f : FileSt)
  | reload
  | revert (free : Bool)       -- the admin routes /revert_to_diagnosis_free, /revert_to_last_loaded
  | admin (fail : Bool)
deriving Repr

structure Sys where
  w   : W
  thr : Thr
  acc : Option Acc
deriving Repr

/-- What is observable of one step. -/
inductive Ans where
  | obs (e : Event) (fetched : Bool) (cur : Option Pol)
  | done                                     -- thr / write / admin: input only
  | upd (ok : Bool) (cur : Pol)              -- reload / revert with an accessor
  | noAcc                                    -- reload / revert without accessor
deriving Repr

/-- A reaction of the watcher: `diagnosisFailsafeOnChangesToFalse/True` (a nil accessor or a failing
    revert is only logged). -/
def react (acc : Option Acc) (r : Option Bool) : Option Acc :=
  match acc, r with
  | some a, some s => some (a.revert (!s)).1
  | acc, _ => acc

def sysStep (cfg : Cfg) (s : Sys) : Op → Sys × Ans
  | .obs lat h =>
    let p := predicate s.thr h
    let st := step cfg s.w ⟨p.1, lat⟩
    let acc' := react s.acc st.2.react
    ({ s with w := st.1, acc := acc' }, .obs st.2 p.2 (acc'.map (·.cur)))
  | .thr t => ({ s with thr := t }, .done)
  | .write f => ({ s with acc := s.acc.map ({ · with file := f }) }, .done)
  | .admin fail => ({ s with acc := s.acc.map ({ · with adminFail := fail }) }, .done)
  | .reload =>
    match s.acc with
    | none => (s, .noAcc)
    | some a => ({ s with acc := some a.reload.1 }, .upd a.reload.2 a.reload.1.cur)
  | .revert free =>
    match s.acc with
    | none => (s, .noAcc)
    | some a => ({ s with acc := some (a.revert free).1 }, .upd (a.revert free).2 (a.revert free).1.cur)

/-- The admin requests made during a step (by the reaction, for a health check). -/
def sysCalls (cfg : Cfg) (s : Sys) : Op → List AdminCall
  | .obs lat h =>
    match s.acc, (step cfg s.w ⟨(predicate s.thr h).1, lat⟩).2.react with
    | some a, some sv => a.revertCalls (!sv)
    | _, _ => []
  | .reload => (match s.acc with | some a => a.reloadCalls | none => [])
  | .revert free => (match s.acc with | some a => a.revertCalls free | none => [])
  | _ => []

/-- The observable history: every op with its answer, oldest first. -/
def sysRun (cfg : Cfg) : Sys → List Op → List (Op × Ans)
  | _, [] => []
  | s, op :: ops => (op, (sysStep cfg s op).2) :: sysRun cfg (sysStep cfg s op).1 ops

/-- The state after a script. -/
def sysFinal (cfg : Cfg) : Sys → List Op → Sys
  | s, [] => s
  | s, op :: ops => sysFinal cfg (sysStep cfg s op).1 ops

def Sys.init (t0 : Nat) (thr : Thr) (p0 : Option Pol) : Sys :=
  { w := W.init t0, thr := thr, acc := p0.map Acc.boot }

end LunarVerif.C20
