/-!
Observable requirement: the harness runs a script on two instances of the real quota, one with the metrics
reads and one without, and answers `<with>/<without>` for every call a transaction makes.  Reading the quota
for metrics is an observation, so the two must agree on every call.
-/
namespace LunarVerif.C18.Observe

/-- the answer `<with reads>/<without reads>` of one transaction call agrees with itself -/
def agrees (out : String) : Bool :=
  match out.splitOn "/" with
  | [a, b] => a == b
  | _ => false

/-- a transaction that the quota counted within its limit, and that has not asked since, is admitted when it
    asks (`charged` is the ghost list of such requests, a function of the op lines only) -/
def admittedWhenCounted (charged : List Nat) (r : Nat) (out : String) : Bool :=
  !charged.contains r || out == "true/true"

end LunarVerif.C18.Observe
