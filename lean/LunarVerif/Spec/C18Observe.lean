/-!
Observable requirement: the harness runs a script on two instances of the real quota, one with the metrics
reads and one without, and answers `<with>/<without>` for every call a transaction makes.  Reading the quota
for metrics is an observation, so the two must agree on every call.
-/
namespace LunarVerif.C18.Observe

/-- the answer `<with reads>/<without reads>` of one transaction call agrees with itself -/
def agrees (out : String) : Bool :=
  match out.splitOn "/" with
  | [a, b] => a == b
  | _ => false

end LunarVerif.C18.Observe
