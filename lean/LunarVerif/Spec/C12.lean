import LunarVerif.Model.C12Plugins
/-
Property C12 over OBSERVABLE histories only (calls with their instants and answers; most recent first in
the `…Rev` functions).  Nothing of the cache state appears here except what `probe` reports
(tracked size, size really held, number of entries) — a white-box observation the harness makes by
reflection, used only for the size clause.

Three levels, one predicate each:
  * `holds`   – raw cache: a hit/`Has = true` for `k` at `t` ⇒ the LAST successful `Set`/`Del` of `k` before it
                is a `Set k v ttl` at `t₀` with the same value and `t ≤ t₀ + ttl` (wall clock, as the code compares);
                and, while expiry timers run on time, ALSO in elapsed time: elapsed < elapsed₀ + ttl even if the
                wall clock was stepped back in between; size clause.
  * `cholds`  – caching remedy: an early response for (method, URL, selected path parameters) at `t` ⇒ some
                earlier storable response for the SAME method, URL and selected parameters carried exactly
                this status/body/headers and `t₀ ≤ t ≤ t₀ + TTL`; size clause.
  * `tholds`  – throttling remedy: an early response for (method, URL) at `t` ⇒ some earlier response for the
                same (method, URL) with a relevant status and a usable Retry-After carried this status/body/tag
                and is still fresh: relative: `t − t₀ < value` and the replayed Retry-After is `value − (t − t₀)`;
                absolute: `t ≤ value` (the provider's instant) and the header is replayed unchanged.
A miss is always allowed (the property is one-directional: replay ONLY IF …).
(F12a and F12b are repaired: the code-faithful weaker readings and their classifiers are gone.)
-/
namespace LunarVerif.C12

section
variable {κ ν : Type} [DecidableEq κ] [DecidableEq ν]

/-- Most recent successful `Set k` (value, instant, ttl) not followed by a `Del k`; history most recent first. -/
def lastStore (k : κ) : List (Rec κ ν) → Option (ν × Int × Int)
  | [] => none
  | r :: older =>
    match r.ev, r.out with
    | .set k' v ttl _, .setRes .ok => if k' = k then some (v, r.t, ttl) else lastStore k older
    | .del k', _ => if k' = k then none else lastStore k older
    | _, _ => lastStore k older

/-- Elapsed-time deadline (elapsed clock at the store + ttl) of the last successful `Set k` not followed by a
    `Del k`: by then its own expiry timer has run if timers run on time. -/
def storeDue (k : κ) : List (Rec κ ν) → Option Int
  | [] => none
  | r :: older =>
    match r.ev, r.out with
    | .set k' _ ttl _, .setRes .ok => if k' = k then some (r.m + ttl) else storeDue k older
    | .del k', _ => if k' = k then none else storeDue k older
    | _, _ => storeDue k older

/-- no `skip` so far: whenever time passed, the due expiry timers ran (`adv`) -/
def timersOnTime : List (Rec κ ν) → Bool
  | [] => true
  | r :: older => (match r.ev with | .skip _ => false | _ => true) && timersOnTime older

/-- freshness in ELAPSED time: while timers run on time, a hit comes strictly before the entry's elapsed deadline,
    whatever the wall clock did in between (stepped back by NTP, a VM resume, …) -/
def elapsedFresh (k : κ) (m : Int) (older : List (Rec κ ν)) : Bool :=
  !timersOnTime older || (match storeDue k older with | some d => decide (m < d) | none => false)

/-- `r` is a successful `Set k` or a `Del k`. -/
def touches (k : κ) (r : Rec κ ν) : Bool :=
  match r.ev, r.out with
  | .set k' _ _ _, .setRes .ok => decide (k' = k)
  | .del k', _ => decide (k' = k)
  | _, _ => false

def freshStore (v? : Option ν) (t : Int) : Option (ν × Int × Int) → Bool
  | none => false
  | some (v, t0, ttl) => (match v? with | some w => decide (w = v) | none => true) && decide (t ≤ t0 + ttl)

/-- Conditions on the newest record given everything before it. -/
def recOk (cfg : Cfg) (r : Rec κ ν) (older : List (Rec κ ν)) : Bool :=
  match r.ev, r.out with
  | .get k, .got (some v) => freshStore (some v) r.t (lastStore k older) && elapsedFresh k r.m older
  | .get _, .got none => true
  | .get _, _ => false
  | .has k, .hasRes true => freshStore none r.t (lastStore k older) && elapsedFresh k r.m older
  | .has _, .hasRes false => true
  | .has _, _ => false
  | .probe, .probed tracked held _ _ =>
    !cfg.sizeOn || (decide ((held : Int) ≤ tracked) && decide (tracked ≤ cfg.max) && decide ((held : Int) ≤ cfg.max))
  | .probe, _ => false
  | _, _ => true

def holdsRev (cfg : Cfg) : List (Rec κ ν) → Bool
  | [] => true
  | r :: older => recOk cfg r older && holdsRev cfg older

/-- The raw-cache property on a history given oldest first. -/
def holds (cfg : Cfg) (h : List (Rec κ ν)) : Bool := holdsRev cfg h.reverse

end

section
variable {σ : Type} [DecidableEq σ]

/-! ### caching remedy -/

/-- Does the earlier record `r0` justify replaying (status, body, tag, ra) for (m, u, sel) at `t`? -/
def cJustifies (cfg : CCfg) (t : Int) (m u : σ) (sel : List (σ × σ))
    (st : Nat) (body : σ) (tag ra : Option σ) (r0 : PRec σ) : Bool :=
  match r0.op with
  | .resp m0 u0 sel0 r bodyLen _ =>
    decide (m0 = m) && decide (u0 = u) && decide (sel0 = sel)
    && decide (bodyLen ≤ cfg.maxRec)
    && decide (r.status = st) && decide (r.body = body) && decide (r.tag = tag) && decide (r.ra = ra)
    && decide (r0.t ≤ t) && decide (t ≤ r0.t + cfg.ttl)
  | _ => false

def cRecOk (cfg : CCfg) (r : PRec σ) (older : List (PRec σ)) : Bool :=
  match r.op, r.out with
  | .req m u sel, .early st body tag (.raw ra) extra =>
    -- the stored copy is the provider's response: no header the provider never sent
    decide (extra = 0) && older.any (cJustifies cfg r.t m u sel st body tag ra)
  | .req _ _ _, .noop => true
  | .req _ _ _, _ => false
  | .probe, .probed tracked held _ _ =>
    decide ((held : Int) ≤ tracked) && decide (tracked ≤ cfg.maxBytes) && decide ((held : Int) ≤ cfg.maxBytes)
  | .probe, _ => false
  | _, _ => true

def choldsRev (cfg : CCfg) : List (PRec σ) → Bool
  | [] => true
  | r :: older => cRecOk cfg r older && choldsRev cfg older

def cholds (cfg : CCfg) (h : List (PRec σ)) : Bool := choldsRev cfg h.reverse

/-! ### throttling remedy -/

/-- The provider's Retry-After as a number of ns after the store instant `t0`: the numeric value, or — for an
    HTTP-date — the distance from `t0` to that date.  HTTP header names are case-insensitive: the value counts
    whatever the letter case of the name it arrived under. -/
def origNs (r : Resp σ) (t0 : Int) : Option Int :=
  match r.raNs with
  | some n => some n
  | none => r.raDate.map fun d => d - t0

/-- The provider's instant (ns since the epoch) under an absolute policy: epoch seconds, or an HTTP-date. -/
def instNs (r : Resp σ) : Option Int :=
  match r.raNs with
  | some n => some n
  | none => r.raDate

def tJustifies (cfg : TCfg) (t : Int) (m u : σ) (st : Nat) (body : σ) (tag : Option σ)
    (ra : RaOut σ) (r0 : PRec σ) : Bool :=
  match r0.op with
  | .resp m0 u0 _ r _ _ =>
    decide (m0 = m) && decide (u0 = u) && cfg.statuses.contains r.status
    && decide (r.status = st) && decide (r.body = body) && decide (r.tag = tag) && decide (r0.t ≤ t)
    && (match cfg.type with
        | .rel =>
          match origNs r r0.t with
          | some n => decide (t - r0.t < n) && decide (ra = .ns (n - (t - r0.t)))
          | none => false
        | .abs =>
          match instNs r with
          | some n => decide (t ≤ n) && decide (ra = .raw r.ra)
          | none => false
        | .undef => false)
  | _ => false

def tRecOk (cfg : TCfg) (r : PRec σ) (older : List (PRec σ)) : Bool :=
  match r.op, r.out with
  | .req m u _, .early st body tag ra extra =>
    decide (extra = 0) && older.any (tJustifies cfg r.t m u st body tag ra)
  | .req _ _ _, .noop => true
  | .req _ _ _, _ => false
  | _, _ => true

def tholdsRev (cfg : TCfg) : List (PRec σ) → Bool
  | [] => true
  | r :: older => tRecOk cfg r older && tholdsRev cfg older

def tholds (cfg : TCfg) (h : List (PRec σ)) : Bool := tholdsRev cfg h.reverse

end

/-! ### the abstract cache: a partial map Key → (value, expiry) -/
section
variable {κ ν : Type} [DecidableEq κ]

abbrev AMap (κ ν : Type) := κ → Option (ν × Int)

def AMap.empty : AMap κ ν := fun _ => none
def AMap.put (a : AMap κ ν) (k : κ) (x : ν × Int) : AMap κ ν := fun k' => if k' = k then some x else a k'
def AMap.del (a : AMap κ ν) (k : κ) : AMap κ ν := fun k' => if k' = k then none else a k'
/-- what a reader sees at instant `now` -/
def AMap.lookup (a : AMap κ ν) (now : Int) (k : κ) : Option ν :=
  match a k with
  | some (v, e) => if now > e then none else some v
  | none => none

end

end LunarVerif.C12
