import LunarVerif.Model.C03
import LunarVerif.Spec.UrlMatch
/-
Property C03 over OBSERVABLE data only: the loaded flows (name, type, filter) in load order, the
transaction (event, method, URL, headers, query, status) and the flows the gateway selects for it.
No trie, no node store.

Reading that is formalised:
  `applies f t`   f's own filter accepts t: `UrlMatch.matches f.url t.url` ∧ method ∈ f.methods (empty = any)
                  ∧ on a request: every required header key has one of the values listed for that key
                    (key looked up lower-cased, value compared case-insensitively) and every required query
                    parameter is present (and equal when a value is given)
                  ∧ on a response: status ∈ f.statuses (empty = any).
                  Header/query constraints are vacuous on the response event (the SPOE response message
                  carries neither) — a recorded formalisation choice.
  `shadowed`      the statement's caveat: another loaded pattern has the same labels as f.url on the first i
                  positions and a LITERAL equal to the URL's i-th segment where f.url has a path parameter.
  (S) selected ⇒ applies            (C) applies ∧ ¬shadowed ⇒ selected
  (O) the selected SET does not depend on the load order
  (N) nothing selected ⇔ `found = false` (then `ExecuteFlow` returns before doing anything).

Classes in which the unchanged code violates this (decidable classifiers = the conjuncts of `Benign` = the
finding ids named by the judge):
  F03a `mixedShapes`     flows on one URL with different constraint shapes (node requirements are copied
                         from the flow that created the node)
  F03b `oneExtra`        the URL is a loaded pattern plus one extra segment
  F03c `zeroSegWild`     the URL ends exactly where the `*` of a loaded pattern begins
  F03d `mergeConfused`   (order-sensitive) `AddFlow` looks the PATTERN up as if it were a URL: an earlier `…/*`
                         answers for it without consuming a segment, or the `*` of the pattern is swallowed by a
                         parameter sibling
  F03e `boundaryMix`     host/path boundary is not part of the trie key (root cause shared with F13c)
  F03f `emptySegment`    `{p}` accepts an empty segment (root cause shared with F13d)
  F03g `nonCanonical`    filter URL accepted in non-canonical form (untrimmed, `*` before the end): the string
                         merge test fails and a later flow on the same URL replaces the node
  F03h `sysDefaultMethods` a system flow without method filter is applied to GET/POST/PUT/DELETE/PATCH only
  F03i `valuelessQuery`  a query parameter required without a value accepts the empty value only
-/
namespace LunarVerif.C03
open LunarVerif.UrlTree LunarVerif.UrlMatch

/-! ### observables -/

/-- What `GetFlow` reports for one transaction: `found` and the flow names per group, in order. -/
structure Answer where
  found : Bool
  user : List String
  sysStart : List String
  sysEnd : List String
deriving Repr, DecidableEq

/-- The model's answer (what the driver prints). -/
def observe (ft : FTree) (t : Txn) : Answer :=
  match getFlow ft t with
  | (some r, found) => ⟨found, r.user.flow.map (·.name), r.sysStart.flow.map (·.name), r.sysEnd.flow.map (·.name)⟩
  | (none, found) => ⟨found, [], [], []⟩

def Answer.names (a : Answer) : Kind → List String
  | .user => a.user
  | .sysStart => a.sysStart
  | .sysEnd => a.sysEnd

/-! ### the flow's own filter -/

def methodOk (f : Flow) (t : Txn) : Bool := f.methods.isEmpty || f.methods.contains t.method

def headersOk (f : Flow) (t : Txn) : Bool :=
  f.headers.all fun kv => f.headers.any fun kv' => kv'.1 == kv.1 && hdrMatch t kv.1 kv'.2

def queryOk (f : Flow) (t : Txn) : Bool :=
  f.query.all fun kv => match queryFind t kv.1 with
    | some x => (match kv.2 with | some v => x == v | none => true)
    | none => false

def statusOk (f : Flow) (t : Txn) : Bool := f.statuses.isEmpty || f.statuses.contains t.status

def applies (f : Flow) (t : Txn) : Bool :=
  «matches» f.parts t.parts && methodOk f t &&
  (if t.isResp then statusOk f t else headersOk f t && queryOk f t)

/-- `q` shadows `p` on `u`: same labels on the first i positions, then a literal of `q` equal to the URL's
    segment where `p` has a path parameter. -/
def shadows : Pattern → Pattern → Url → Bool
  | b :: q, a :: p, x :: u =>
    (a.seg.isPar && (match b.seg with | .lit s => x.seg == .lit s | _ => false)) ||
    (a.seg.key == b.seg.key && shadows q p u)
  | _, _, _ => false

def shadowed (cfg : List Flow) (f : Flow) (t : Txn) : Bool := cfg.any fun g => shadows g.parts f.parts t.parts

/-! ### the property, per transaction -/

/-- (S) every selected name belongs to a loaded flow of that group whose own filter accepts `t`. -/
def selOk (cfg : List Flow) (t : Txn) (a : Answer) : Bool :=
  [Kind.user, Kind.sysStart, Kind.sysEnd].all fun k =>
    (a.names k).all fun n => cfg.any fun f => f.name == n && f.kind == k && applies f t

/-- (C) every loaded flow whose filter accepts `t` and that is not shadowed is selected. -/
def compOk (cfg : List Flow) (t : Txn) (a : Answer) : Bool :=
  cfg.all fun f => !(applies f t && !shadowed cfg f t) || (a.names f.kind).contains f.name

/-- (N) `found` is false exactly when nothing is selected. -/
def nOk (a : Answer) : Bool := a.found == !(a.user.isEmpty && a.sysStart.isEmpty && a.sysEnd.isEmpty)

def txnOk (cfg : List Flow) (t : Txn) (a : Answer) : Bool := selOk cfg t a && compOk cfg t a && nOk a

/-- (O) same selected SET (per group). -/
def sameSel (a b : Answer) : Bool :=
  [Kind.user, Kind.sysStart, Kind.sysEnd].all fun k =>
    (a.names k).all (fun n => (b.names k).contains n) && (b.names k).all (fun n => (a.names k).contains n)

/-! ### excluded classes -/

def endsWild (p : Pattern) : Bool := match p.getLast? with
  | some l => l.seg == .wild
  | none => false

/-- which of methods / headers / query / statuses are unconstrained -/
def shape (f : Flow) : Bool × Bool × Bool × Bool :=
  (f.methods.isEmpty, f.headers.isEmpty, f.query.isEmpty, f.statuses.isEmpty)

/-- the requirement shape a node created by `g` gets (`newFilterRequirements(nil)` for system flows) -/
def nodeShape (g : Flow) : Bool × Bool × Bool × Bool := if g.kind == .user then shape g else (true, true, true, true)

/-- F03a -/
def mixedShapes (cfg : List Flow) : Bool :=
  cfg.any fun f => f.kind == .user && cfg.any fun g => sameKeys f.parts g.parts && shape f != nodeShape g

/-- F03b -/
def oneExtra (cfg : List Flow) (u : Url) : Bool :=
  !u.isEmpty && cfg.any fun f => !endsWild f.parts && matchesLax f.parts u.dropLast

/-- F03c -/
def zeroSegWild (cfg : List Flow) (u : Url) : Bool := cfg.any fun f => wildPos f.parts u == some u.length

/-- The trie lets pattern part `p` follow URL part `u` (literal equal / any parameter). -/
def trieAccepts (p u : Part) : Bool := (match p.seg with
  | .lit s => u.seg == .lit s
  | .par _ => true
  | .wild => false)

/-- `e` runs along the whole of `u` and goes on with a literal or parameter. -/
def runsPast : Pattern → Url → Bool
  | p :: _, [] => p.seg != .wild
  | p :: e, x :: u => trieAccepts p x && runsPast e u
  | [], _ => false

/-- `e` runs along the whole of `u` (and may go on): the trie node of `u` exists. -/
def reaches : Pattern → Url → Bool
  | _, [] => true
  | p :: e, x :: u => trieAccepts p x && reaches e u
  | [], _ :: _ => false

/-- `w` ends in `*` at a position `n` with `n + k < |u|`, its prefix running along `u`. -/
def coversAbove (k : Nat) (w : Pattern) (u : Url) : Bool := match wildPos w u with
  | some n => n + k < u.length
  | none => false

/-- F03d for the flow `f` about to be added after `done`: `Lookup(f.url)` answers with a node that is not
    the node of `f.url` although the reported normalised URL equals `f.url`, or misses the node of `f.url`. -/
def mergeConfusedAt (done : List Flow) (f : Flow) : Bool :=
  let own := done.any (fun g => g.parts == f.parts)
  -- `a.com/x/*` answers for the pattern `a.com/x` with nothing left for the `*`
  done.any (fun w => wildPos w.parts f.parts == some f.parts.length) ||
  -- an ancestor `*` answers for the pattern, which is a proper prefix of a longer loaded one
  (!own && !endsWild f.parts && done.any (fun w => coversAbove 0 w.parts f.parts) &&
    done.any (fun e => runsPast e.parts f.parts)) ||
  -- the pattern ends in `*`, the node before its `*` exists, and an ancestor `*` answers for it
  (!own && endsWild f.parts && done.any (fun w => coversAbove 1 w.parts f.parts) &&
    done.any (fun e => reaches e.parts f.parts.dropLast)) ||
  -- the `*` of the pattern is taken for a parameter value: a second flow on `…/*` never merges
  (own && endsWild f.parts && done.any (fun e => followsPast (f.parts.length - 1) e.parts f.parts))

def mergeConfusedFrom : List Flow → List Flow → Bool
  | _, [] => false
  | done, f :: rest => mergeConfusedAt done f || mergeConfusedFrom (done ++ [f]) rest

/-- F03d -/
def mergeConfused (cfg : List Flow) : Bool := mergeConfusedFrom [] cfg

/-- F03e, against the transaction URL / among the loaded patterns -/
def boundaryMix (cfg : List Flow) (u : Url) : Bool := cfg.any fun f => !flagsOK f.parts u
def cfgBoundaryMix (cfg : List Flow) : Bool := cfg.any fun f => boundaryMix cfg f.parts

/-- F03f -/
def emptySegment (u : Url) : Bool := !urlNonEmpty u

def laterSameNonCanon : List Flow → Bool
  | [] => false
  | f :: rest => rest.any (fun g => g.parts == f.parts && !g.canon) || laterSameNonCanon rest

/-- F03g -/
def nonCanonical (cfg : List Flow) : Bool := cfg.any (fun f => !wildLast f.parts) || laterSameNonCanon cfg

def defaultMethods : List String := ["GET", "POST", "PUT", "DELETE", "PATCH"]

/-- F03h -/
def sysDefaultMethods (cfg : List Flow) (t : Txn) : Bool :=
  !defaultMethods.contains t.method && cfg.any fun f => f.kind != .user && f.methods.isEmpty

/-- F03i -/
def valuelessQuery (cfg : List Flow) (t : Txn) : Bool :=
  !t.isResp && cfg.any fun f => f.query.any fun kv => kv.2.isNone &&
    (match queryFind t kv.1 with | some x => x != "" | none => false)

/-- The load-order / configuration part of `Benign`. -/
def benignCfg (cfg : List Flow) : Bool :=
  !mixedShapes cfg && !mergeConfused cfg && !cfgBoundaryMix cfg && !nonCanonical cfg

/-- The transaction part. -/
def benignTxn (cfg : List Flow) (t : Txn) : Bool :=
  !oneExtra cfg t.parts && !zeroSegWild cfg t.parts && !boundaryMix cfg t.parts && !emptySegment t.parts &&
  !sysDefaultMethods cfg t && !valuelessQuery cfg t

/-- Outside every excluded class. -/
def Benign (cfg : List Flow) (t : Txn) : Bool := benignCfg cfg && benignTxn cfg t

/-- Finding id of the first excluded class `(cfg, t)` falls in, `-` if none. -/
def classify (cfg : List Flow) (t : Txn) : String :=
  -- configuration classes first (the tree itself is off), then the transaction classes
  if mixedShapes cfg then "F03a"
  else if mergeConfused cfg then "F03d"
  else if nonCanonical cfg then "F03g"
  else if cfgBoundaryMix cfg || boundaryMix cfg t.parts then "F03e"
  else if oneExtra cfg t.parts then "F03b"
  else if zeroSegWild cfg t.parts then "F03c"
  else if emptySegment t.parts then "F03f"
  else if sysDefaultMethods cfg t then "F03h"
  else if valuelessQuery cfg t then "F03i"
  else "-"

/-! ### verdicts (what the judge runs) -/

structure Req where
  line : String          -- the op, for messages
  txn : Txn
  ans : Answer
deriving Repr

/-- One `load` (the flows that were accepted, in load order) with the transactions answered by that tree. -/
structure Round where
  cfg : List Flow
  reqs : List Req
deriving Repr

structure Verdict where
  finding : String
  msg : String

def fmtNames (l : List String) : String := if l.isEmpty then "-" else String.intercalate "," l

def fmtAns (a : Answer) : String := s!"u={fmtNames a.user} s={fmtNames a.sysStart} e={fmtNames a.sysEnd}"

def reqVerdicts (r : Round) : List Verdict :=
  r.reqs.filterMap fun q =>
    if !selOk r.cfg q.txn q.ans then some ⟨classify r.cfg q.txn, s!"selected-flow-does-not-apply {q.line} {fmtAns q.ans}"⟩
    else if !compOk r.cfg q.txn q.ans then some ⟨classify r.cfg q.txn, s!"applicable-flow-not-selected {q.line} {fmtAns q.ans}"⟩
    else if !nOk q.ans then some ⟨"-", s!"found-flag-inconsistent {q.line} {fmtAns q.ans}"⟩
    else none

/-- Same transactions answered by two load orders of the same flows. -/
def roundsAgree (r1 r2 : Round) : List Verdict :=
  r2.reqs.filterMap fun q2 =>
    match r1.reqs.find? (fun q1 => q1.line == q2.line) with
    | some q1 =>
      if sameSel q1.ans q2.ans then none
      else
        let c1 := classify r1.cfg q1.txn
        let c := if c1 != "-" then c1 else classify r2.cfg q2.txn
        some ⟨c, s!"order-dependent {q2.line} {fmtAns q1.ans} / {fmtAns q2.ans}"⟩
    | none => none

/-- Two rounds are comparable when they loaded the same flows. -/
def sameFlows (r1 r2 : Round) : Bool :=
  r1.cfg.all (fun f => r2.cfg.contains f) && r2.cfg.all (fun f => r1.cfg.contains f)

def orderVerdicts : List Round → List Verdict
  | [] => []
  | r1 :: rest => (rest.flatMap fun r2 => if sameFlows r1 r2 then roundsAgree r1 r2 else []) ++ orderVerdicts rest

def caseVerdicts (rounds : List Round) : List Verdict := rounds.flatMap reqVerdicts ++ orderVerdicts rounds

/-- Per case: everything observed satisfies the property. -/
def holds (rounds : List Round) : Bool := (caseVerdicts rounds).isEmpty

/-! ### L3: the engine (load order = Go map iteration) -/

/-- all load orders -/
def insertEverywhere {α : Type} (a : α) : List α → List (List α)
  | [] => [[a]]
  | b :: l => (a :: b :: l) :: (insertEverywhere a l).map (b :: ·)

def perms {α : Type} : List α → List (List α)
  | [] => [[]]
  | a :: l => (perms l).flatMap (insertEverywhere a)

/-- One engine observation: the user flows, the request, the set of selections over all load orders as the
    implementation reports it (`poss`), whether the engine's own selection was one of them, and the
    nothing-selected-nothing-done flag. -/
structure EngObs where
  line : String
  flows : List Flow
  txn : Txn
  poss : List String
  engIn : Bool
  nOk : Bool
deriving Repr

def engVerdicts (obs : List EngObs) : List Verdict :=
  obs.filterMap fun o =>
    if !o.engIn then some ⟨"-", s!"engine-selection-not-among-the-load-orders {o.line}"⟩
    else if !o.nOk then some ⟨"-", s!"nothing-selected-but-something-done {o.line}"⟩
    else if o.poss.length > 1 then
      -- (O) over ALL load orders: must be explained by an excluded class of one of the orders
      let cls := ((perms o.flows).map (fun cfg => classify cfg o.txn)).find? (· != "-")
      some ⟨cls.getD "-", s!"order-dependent-over-load-orders {o.line} poss={String.intercalate "|" o.poss}"⟩
    else none

/-! ### L1: the raw trie (`Traversal` on patterns with integer values) -/

/-- every returned value belongs to an inserted pattern that matches the URL -/
def trieSelOk (ins : List (List Part × Nat)) (u : Url) (vals : List Nat) : Bool :=
  vals.all fun v => ins.any fun e => e.2 == v && «matches» e.1 u

def trieClassify (ins : List (List Part × Nat)) (u : Url) : String :=
  if !u.isEmpty && ins.any (fun e => !endsWild e.1 && matchesLax e.1 u.dropLast) then "F03b"
  else if ins.any (fun e => !flagsOK e.1 u) then "F03e"
  else if emptySegment u then "F03f"
  else "-"

def trieVerdicts (ins : List (List Part × Nat)) (looks : List (String × Url × List Nat)) : List Verdict :=
  looks.filterMap fun (line, u, vals) =>
    if trieSelOk ins u vals then none
    else some ⟨trieClassify ins u, s!"traversal-returned-non-matching-pattern {line} v={vals}"⟩

end LunarVerif.C03
