import LunarVerif.Model.C03
import LunarVerif.Spec.UrlMatch
/-
Property C03 over OBSERVABLE data only: the loaded flows (name, type, filter) in load order, the
transaction (event, method, URL, headers, query, status) and the flows the gateway selects for it.
No trie, no node store.

Reading that is formalised:
  `applies f t`   f's own filter accepts t: `UrlMatch.matches f.url t.url` ∧ method ∈ f.methods (empty = any)
                  ∧ on a request: every required header key has one of the values listed for that key
                    (key looked up lower-cased, value compared case-insensitively) and every required query
                    parameter is present (and equal when a value is given)
                  ∧ on a response: status ∈ f.statuses (empty = any); the response walk of an EARLY response (a
                    processor answered the request) has no status code: a status constraint is not met.
                  Header/query constraints are vacuous on the response event (the SPOE response message
                  carries neither) — a recorded formalisation choice.
  `shadowed`      the statement's caveat: another loaded pattern has the same labels as f.url on the first i
                  positions and a LITERAL equal to the URL's i-th segment where f.url has a path parameter.
  (S) selected ⇒ applies            (C) applies ∧ ¬shadowed ⇒ selected
  (O) the selected SET does not depend on the load order
  (N) nothing selected ⇔ `found = false` (then `ExecuteFlow` returns before doing anything).

The only class in which the code (after the repairs F03a–d, f–i) still violates this — decidable classifier =
the conjunct of `Benign` = the finding id named by the judge:
  F03e `cfgBoundaryMix`   the host/path boundary is not part of the trie key of constant and
                         parametric children (keyed by value only, flag of the first inserter); two patterns sharing
                         a node from different sides replace each other (root cause shared with F13c; the wildcard
                         half is repaired: a wildcard child is collected only on its own side)
Front-end assumption (`keysOK`, recorded in props): two declared URLs have the same trimmed text iff they split
into the same parts (false only for nested braces `{{x}}` vs `{x}`); the judge skips configurations outside it.
Front-end fact (`hostFirst`): URLs and patterns start with a host part.
-/
namespace LunarVerif.C03
open LunarVerif.UrlTree LunarVerif.UrlMatch

/-! ### observables -/

/-- What `GetFlow` reports for one transaction: `found` and the flow names per group, in order. -/
structure Answer where
  found : Bool
  user : List String
  sysStart : List String
  sysEnd : List String
deriving Repr, DecidableEq

/-- The model's answer (what the driver prints). -/
def observe (ft : FTree) (t : Txn) : Answer :=
  match getFlow ft t with
  | (some r, found) => ⟨found, r.user.flow.map (·.name), r.sysStart.flow.map (·.name), r.sysEnd.flow.map (·.name)⟩
  | (none, found) => ⟨found, [], [], []⟩

def Answer.names (a : Answer) : Kind → List String
  | .user => a.user
  | .sysStart => a.sysStart
  | .sysEnd => a.sysEnd

/-! ### the flow's own filter -/

def methodOk (f : Flow) (t : Txn) : Bool := f.methods.isEmpty || f.methods.contains t.method

def headersOk (f : Flow) (t : Txn) : Bool :=
  f.headers.all fun kv => f.headers.any fun kv' => kv'.1 == kv.1 && hdrMatch t kv.1 kv'.2

def queryOk (f : Flow) (t : Txn) : Bool :=
  f.query.all fun kv => match queryFind t kv.1 with
    | some x => (match kv.2 with | some v => x == v | none => true)
    | none => false

/-- on a response: status ∈ f.statuses (empty = any); an EARLY response carries no status code, so it satisfies
    no status constraint -/
def statusOk (f : Flow) (t : Txn) : Bool := f.statuses.isEmpty || (t.hasResp && f.statuses.contains t.status)

def applies (f : Flow) (t : Txn) : Bool :=
  «matches» f.parts t.parts && methodOk f t &&
  (if t.isResp then statusOk f t else headersOk f t && queryOk f t)

/-- `q` shadows `p` on `u`: same labels on the first i positions, then a literal of `q` equal to the URL's
    segment (same text, same side of the host/path boundary) where `p` has a path parameter. -/
def shadows : Pattern → Pattern → Url → Bool
  | b :: q, a :: p, x :: u =>
    (a.seg.isPar && (match b.seg with | .lit s => x.seg == .lit s && b.host == x.host | _ => false)) ||
    (a.seg.key == b.seg.key && shadows q p u)
  | _, _, _ => false

def shadowed (cfg : List Flow) (f : Flow) (t : Txn) : Bool := cfg.any fun g => shadows g.parts f.parts t.parts

/-! ### the property, per transaction -/

/-- (S) every selected name belongs to a loaded flow of that group whose own filter accepts `t`. -/
def selOk (cfg : List Flow) (t : Txn) (a : Answer) : Bool :=
  [Kind.user, Kind.sysStart, Kind.sysEnd].all fun k =>
    (a.names k).all fun n => cfg.any fun f => f.name == n && f.kind == k && applies f t

/-- (C) every loaded flow whose filter accepts `t` and that is not shadowed is selected. -/
def compOk (cfg : List Flow) (t : Txn) (a : Answer) : Bool :=
  cfg.all fun f => !(applies f t && !shadowed cfg f t) || (a.names f.kind).contains f.name

/-- (N) `found` is false exactly when nothing is selected. -/
def nOk (a : Answer) : Bool := a.found == !(a.user.isEmpty && a.sysStart.isEmpty && a.sysEnd.isEmpty)

def txnOk (cfg : List Flow) (t : Txn) (a : Answer) : Bool := selOk cfg t a && compOk cfg t a && nOk a

/-- (O) same selected SET (per group). -/
def sameSel (a b : Answer) : Bool :=
  [Kind.user, Kind.sysStart, Kind.sysEnd].all fun k =>
    (a.names k).all (fun n => (b.names k).contains n) && (b.names k).all (fun n => (a.names k).contains n)

/-! ### excluded class -/

/-- Two patterns that share a trie node (same keys so far) lie on the same side of the boundary there. -/
def sameSide : Pattern → Pattern → Bool
  | p :: ps, q :: qs => if p.seg.key = q.seg.key then p.host == q.host && sameSide ps qs else true
  | _, _ => true

/-- F03e (remaining half): two loaded patterns share a trie node from different sides of the host/path
    boundary (`a.com.x` and `a.com/x`, `a.com/*` and `a.com.*`): children are keyed by value only, the node keeps
    the flag of its first inserter and the later insert reuses / replaces it -/
def cfgBoundaryMix (cfg : List Flow) : Bool := cfg.any fun f => cfg.any fun g => !sameSide f.parts g.parts

/-- Front-end fact: every URL and every pattern starts with a host part (`splitURL`). -/
def hostFirst (cfg : List Flow) (u : Url) : Bool :=
  (match u.head? with | some p => p.host | none => true) &&
  cfg.all fun f => match f.parts.head? with | some p => p.host | none => true

/-- Front-end assumption: the side-table key (trimmed text) identifies the pattern (its parts). -/
def keysOK (cfg : List Flow) : Bool :=
  cfg.all fun f => cfg.all fun g => (f.key == g.key) == (f.parts == g.parts)

/-- Outside the excluded class. -/
def Benign (cfg : List Flow) : Bool := !cfgBoundaryMix cfg

/-- Finding id of the excluded class `(cfg, t)` falls in, `-` if none. -/
def classify (cfg : List Flow) : String := if cfgBoundaryMix cfg then "F03e" else "-"

/-! ### verdicts (what the judge runs) -/

structure Req where
  line : String          -- the op, for messages
  txn : Txn
  ans : Answer
deriving Repr

/-- One `load` (the flows that were accepted, in load order) with the transactions answered by that tree. -/
structure Round where
  cfg : List Flow
  reqs : List Req
deriving Repr

structure Verdict where
  finding : String
  msg : String

def fmtNames (l : List String) : String := if l.isEmpty then "-" else String.intercalate "," l

def fmtAns (a : Answer) : String := s!"u={fmtNames a.user} s={fmtNames a.sysStart} e={fmtNames a.sysEnd}"

def reqVerdicts (r : Round) : List Verdict :=
  if !keysOK r.cfg then [] else
  r.reqs.filterMap fun q =>
    if !selOk r.cfg q.txn q.ans then some ⟨classify r.cfg, s!"selected-flow-does-not-apply {q.line} {fmtAns q.ans}"⟩
    else if !compOk r.cfg q.txn q.ans then some ⟨classify r.cfg, s!"applicable-flow-not-selected {q.line} {fmtAns q.ans}"⟩
    else if !nOk q.ans then some ⟨"-", s!"found-flag-inconsistent {q.line} {fmtAns q.ans}"⟩
    else none

/-- Same transactions answered by two load orders of the same flows. -/
def roundsAgree (r1 r2 : Round) : List Verdict :=
  if !keysOK r1.cfg then [] else
  r2.reqs.filterMap fun q2 =>
    match r1.reqs.find? (fun q1 => q1.line == q2.line) with
    | some q1 =>
      if sameSel q1.ans q2.ans then none
      else
        let c1 := classify r1.cfg
        let c := if c1 != "-" then c1 else classify r2.cfg
        some ⟨c, s!"order-dependent {q2.line} {fmtAns q1.ans} / {fmtAns q2.ans}"⟩
    | none => none

/-- Two rounds are comparable when they loaded the same flows. -/
def sameFlows (r1 r2 : Round) : Bool :=
  r1.cfg.all (fun f => r2.cfg.contains f) && r2.cfg.all (fun f => r1.cfg.contains f)

def orderVerdicts : List Round → List Verdict
  | [] => []
  | r1 :: rest => (rest.flatMap fun r2 => if sameFlows r1 r2 then roundsAgree r1 r2 else []) ++ orderVerdicts rest

def caseVerdicts (rounds : List Round) : List Verdict := rounds.flatMap reqVerdicts ++ orderVerdicts rounds

/-- Per case: everything observed satisfies the property. -/
def holds (rounds : List Round) : Bool := (caseVerdicts rounds).isEmpty

/-! ### L3: the engine (load order = Go map iteration) -/

/-- all load orders -/
def insertEverywhere {α : Type} (a : α) : List α → List (List α)
  | [] => [[a]]
  | b :: l => (a :: b :: l) :: (insertEverywhere a l).map (b :: ·)

def perms {α : Type} : List α → List (List α)
  | [] => [[]]
  | a :: l => (perms l).flatMap (insertEverywhere a)

/-- One engine observation: the user flows, the request, the set of selections over all load orders as the
    implementation reports it (`poss`), whether the engine's own selection was one of them, and the
    nothing-selected-nothing-done flag. -/
structure EngObs where
  line : String
  flows : List Flow
  txn : Txn
  poss : List String
  engIn : Bool
  nOk : Bool
deriving Repr

def engVerdicts (obs : List EngObs) : List Verdict :=
  obs.filterMap fun o =>
    if !keysOK o.flows then none else
    if !o.engIn then some ⟨"-", s!"engine-selection-not-among-the-load-orders {o.line}"⟩
    else if !o.nOk then some ⟨"-", s!"nothing-selected-but-something-done {o.line}"⟩
    else if o.poss.length > 1 then
      -- (O) over ALL load orders: must be explained by an excluded class of one of the orders
      let cls := ((perms o.flows).map (fun cfg => classify cfg)).find? (· != "-")
      some ⟨cls.getD "-", s!"order-dependent-over-load-orders {o.line} poss={String.intercalate "|" o.poss}"⟩
    else none

/-! ### L1: the raw trie (`Traversal` on patterns with integer values) -/

/-- every returned value belongs to an inserted pattern that matches the URL -/
def trieSelOk (ins : List (List Part × Nat)) (u : Url) (vals : List Nat) : Bool :=
  vals.all fun v => ins.any fun e => e.2 == v && «matches» e.1 u

def trieClassify (ins : List (List Part × Nat)) (_u : Url) : String :=
  if ins.any (fun e => ins.any fun e' => !sameSide e.1 e'.1) then "F03e" else "-"

def trieVerdicts (ins : List (List Part × Nat)) (looks : List (String × Url × List Nat)) : List Verdict :=
  looks.filterMap fun (line, u, vals) =>
    if trieSelOk ins u vals then none
    else some ⟨trieClassify ins u, s!"traversal-returned-non-matching-pattern {line} v={vals}"⟩

end LunarVerif.C03
