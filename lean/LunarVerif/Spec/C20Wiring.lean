import LunarVerif.Spec.C20
import LunarVerif.Model.C20Wiring
/-
Level 2 of property C20 over the OBSERVABLE history of the wired fail-safe: the op lines (inputs:
environment strings, scripted HTTP outcomes, file writes, HAProxy admin behaviour) and the
implementation's answers (constructed configuration, instant / answer / reaction of every health check,
policies in force after every step).  Nothing of the watcher's or the accessor's state appears.

* `wholds` (= `coreOk`) is PROPERTY C20 on the wired fail-safe, and the only thing the judge evaluates:
  level 1's `holds` on the health checks (alternation, stability, cool-down) under the configuration the
  ENVIRONMENT states, where the "observed health" of every check is what the predicate must answer for the
  scripted stats and thresholds (`expectedHealthy`, a declarative reading of "unhealthy only on a 200
  response with a parsable table whose first SPOE backend row has both fields and fails
  `rate = healthyRate ∧ lastsess > healthyMax`").
* BEYOND the property (not judged; used only by model theorems, the implementation is tied to the model by
  the correspondence diff): `policiesOk` - a reference behaviour of the reactions: the policies in force
  are `strip L` after an `unhealthy` reaction (or a manual revert-to-diagnosis-free) until the next `healthy`
  reaction (manual revert-to-last-loaded), and `L` otherwise, where `L` = the policies of the latest
  successful (re)load; `excluded` - the three classes of steps in which the code does not behave like that
  reference.
-/
namespace LunarVerif.C20

/-! ### (a) the predicate, read declaratively -/

def cellBad (s : String) : Bool :=
  s != "" && (match goAtoi s with | .ok _ => false | .error _ => true)

/-- A record that makes `ParseHAProxyStatsCSV` fail. -/
def rowBad (r : Row) : Bool := r.ragged != 0 || cellBad r.rate || cellBad r.last

def rowIsSpoe (r : Row) : Bool := r.px == "lunar" && r.sv == "BACKEND"

inductive FetchClass where
  | transport                       -- the request failed
  | bodyRead                        -- the body could not be read
  | badStatus                       -- status ≠ 200
  | unparsable                      -- no header / required column missing / some bad record
  | noSpoeRow                       -- no row lunar,BACKEND
  | noFields                        -- `rate` or `lastsess` empty, or `lastsess = -1`
  | values (rate lastSec : Int)     -- the row that is evaluated
deriving Repr, DecidableEq

def classifyRows (rows : List Row) : FetchClass :=
  if rows.any rowBad then .unparsable else
  match rows.find? rowIsSpoe with
  | none => .noSpoeRow
  | some r =>
    match goAtoi r.rate, goAtoi r.last with
    | .ok rate, .ok last => if last == -1 then .noFields else .values rate last
    | _, _ => .noFields

def classify : Http → FetchClass
  | .transportErr => .transport
  | .bodyErr => .bodyRead
  | .status code b =>
    if code != 200 then .badStatus else
    match b with
    | .junk => .unparsable
    | .csv h rows => if h.complete then classifyRows rows else .unparsable

def FetchClass.isError : FetchClass → Bool
  | .values _ _ => false
  | _ => true

def thrParsed (thr : Thr) : Option (Int × Int) :=
  match goAtoi thr.max, goAtoi thr.rate with
  | .ok mx, .ok rt => some (rt, mx)
  | _, _ => none

/-- Healthy unless a row is evaluated and fails `rate = healthyRate ∧ lastsess > healthyMax`. -/
def classVerdict (rt mxNs : Int) : FetchClass → Bool
  | .values rate last => rate == rt && decide (mxNs < secToNs last)
  | _ => true

/-- What `areSPOEConnectionsHealthy` must answer. -/
def expectedHealthy (thr : Thr) (h : Http) : Bool :=
  match thrParsed thr with
  | none => true
  | some (rt, mx) => classVerdict rt (secToNs mx) (classify h)

/-! ### history helpers -/

abbrev Hist := List (Op × Ans)

def obsEvents (h : Hist) : List Event :=
  h.filterMap fun x => match x.2 with
    | .obs e _ _ => some e
    | _ => none

/-- Every health check observed what the predicate must answer under the thresholds then in the
    environment. -/
def predsOk : Thr → Hist → Bool
  | _, [] => true
  | thr, (op, ans) :: rest =>
    match op, ans with
    | .thr t, _ => predsOk t rest
    | .obs _ h, .obs e _ _ =>
      (e.obs == expectedHealthy thr h) && predsOk thr rest
    | .obs _ _, _ => false
    | _, _ => predsOk thr rest

/-- Level 1's property and the predicate's specification. -/
def coreOk (cfg : Cfg) (thr : Thr) (h : Hist) : Bool :=
  holds cfg (obsEvents h) && predsOk thr h

/-! ### (c) reference behaviour of the reactions -/

structure Ref where
  L         : Pol       -- policies of the latest successful (re)load
  df        : Bool      -- diagnosis-free mode
  file      : FileSt    -- input: what the user's policies.yaml holds
  adminFail : Bool      -- input: HAProxy's admin API refuses
deriving Repr

def Ref.init (p : Pol) : Ref := ⟨p, false, .good p, false⟩

def Ref.expect (r : Ref) : Pol := if r.df then strip r.L else r.L

/-- One step of the reference: new reference state, and whether the observed answer is acceptable. -/
def refStep (r : Ref) (x : Op × Ans) : Ref × Bool :=
  match x.1, x.2 with
  | .write f, _ => ({ r with file := f }, true)
  | .admin b, _ => ({ r with adminFail := b }, true)
  | .thr _, _ => (r, true)
  | .reload, .upd ok cur =>
    (match r.file.content with
     | some p =>
       if ok then let r' := { r with L := p }; (r', cur == r'.expect)
       else (r, cur == r.expect)                       -- a refused reload changes nothing
     | none => (r, !ok && cur == r.expect))
  | .revert free, .upd _ cur => let r' := { r with df := free }; (r', cur == r'.expect)
  | .obs _ _, .obs e _ cur =>
    (match e.react with
     | none => (r, cur == some r.expect)
     | some s => let r' := { r with df := !s }; (r', cur == some r'.expect))
  | _, _ => (r, false)

def policiesOk : Ref → Hist → Bool
  | _, [] => true
  | r, x :: rest => (refStep r x).2 && policiesOk (refStep r x).1 rest

/-- The reference state after a history. -/
def refRun : Ref → Hist → Ref
  | r, [] => r
  | r, x :: rest => refRun (refStep r x).1 rest

/-- Without accessor: nothing is in force, reloads/reverts are impossible. -/
def noAccOk : Hist → Bool
  | [] => true
  | x :: rest =>
    (match x.1, x.2 with
     | .obs _ _, .obs _ _ cur => cur == none
     | .reload, a => (match a with | .noAcc => true | _ => false)
     | .revert _, a => (match a with | .noAcc => true | _ => false)
     | _, .done => true
     | _, _ => false) && noAccOk rest

/-- Classes of steps in which the code leaves the reference behaviour of the policies in force.
    Observations about the code, NOT violations of C20 (which only says when reactions fire). -/
inductive Beyond where
  | reloadWhileFree   -- a reload while diagnosis-free puts the diagnoses back in force
  | revertRefused     -- a revert refused by HAProxy is only logged and never retried
  | reloadRefused     -- a reload refused by HAProxy has already replaced the "last loaded" snapshots
deriving Repr, DecidableEq

/-- Does this step fall in a class where the code leaves the reference? -/
def exclStep (r : Ref) (x : Op × Ans) : Option Beyond :=
  match x.1, x.2 with
  | .reload, .upd ok _ =>
    (match r.file.content with
     | some _ => if !ok then some .reloadRefused else if r.df then some .reloadWhileFree else none
     | none => none)
  | .revert free, _ =>
    if r.adminFail && needsAdmin ({ r with df := free } : Ref).expect then some .revertRefused else none
  | .obs _ _, .obs e _ _ =>
    (match e.react with
     | some s => if r.adminFail && needsAdmin ({ r with df := !s } : Ref).expect then some .revertRefused else none
     | none => none)
  | _, _ => none

/-- The first excluded step of a history, if any. -/
def excluded : Ref → Hist → Option Beyond
  | _, [] => none
  | r, x :: rest =>
    match exclStep r x with
    | some f => some f
    | none => excluded (refStep r x).1 rest

/-! ### the EFFECT of a reaction (NOT judged - beyond C20's statement; model theorem `reaction_effect`)

"The fail-safe that drops diagnosis plugins when the link is unhealthy": right after an `unhealthy`
reaction no diagnosis plugin is in force, right after `healthy again` the last loaded policies are - where
"last loaded" is what the code itself calls so (the file read by the latest `ReloadFromFile`, else the boot
file), and nothing is demanded while HAProxy's admin API refuses (input) or without an accessor. -/

structure Eff where
  last      : Pol       -- content of the file read by the latest reload (boot file at first)
  file      : FileSt    -- input: what the user's policies.yaml holds
  adminFail : Bool      -- input: HAProxy's admin API refuses
deriving Repr

def Eff.init (p : Pol) : Eff := ⟨p, .good p, false⟩

def effStep (r : Eff) (x : Op × Ans) : Eff × Bool :=
  match x.1, x.2 with
  | .write f, _ => ({ r with file := f }, true)
  | .admin b, _ => ({ r with adminFail := b }, true)
  | .reload, _ =>
    ((match r.file.content with
      | some p => { r with last := p }
      | none => r), true)
  | .obs _ _, .obs e _ cur =>
    (r, match e.react with
        | none => true
        | some s =>
          if r.adminFail then true else
          match cur with
          | none => false
          | some c => if s then c == r.last else !(c.g || c.e))
  | _, _ => (r, true)

def effectOk : Eff → Hist → Bool
  | _, [] => true
  | r, x :: rest => (effStep r x).2 && effectOk (effStep r x).1 rest

/-- Property C20 on one wired case whose construction succeeded with `raw`: WHEN the reactions fire, for
    which observed health.  (What a reaction achieves is not part of C20: `effectOk` is a model theorem, the
    implementation is tied to it by the correspondence diff.) -/
def wholds (raw : RawCfg) (thr : Thr) (h : Hist) : Bool := coreOk raw.toCfg thr h

/-- Beyond the property: the policies in force follow the reference. -/
def inForceOk (p0 : Option Pol) (h : Hist) : Bool :=
  match p0 with
  | some p => policiesOk (Ref.init p) h
  | none => noAccOk h

def wexcluded (p0 : Option Pol) (h : Hist) : Option Beyond :=
  match p0 with
  | some p => excluded (Ref.init p) h
  | none => none

end LunarVerif.C20
