import LunarVerif.Model.C18
/-
C18 (a), observable property: the transactional context behaves, for every transaction, like that
transaction's own private store — whatever other transactions ran in between.
-/
namespace LunarVerif.C18

/-- The value a `set` observation wrote is carried in the script, so the judge tracks values through
    the op lines; here observations are paired with the value set. -/
structure Ev where
  txn : String
  kind : String
  arg : String     -- value for "set"
  res : String
deriving Repr, DecidableEq

def evOk : Option String → List Ev → Bool
  | _, [] => true
  | own, e :: es =>
    if e.kind == "set" then e.res == "ok" && evOk (some e.arg) es
    else if e.kind == "get" then
      (match own with
       | some v => e.res == "val:" ++ v
       | none => e.res == "missing") && evOk own es
    else evOk own es

def txnsOf (es : List Ev) : List String := (es.map (·.txn)).eraseDups

/-- Isolation: every transaction sees exactly its own writes. -/
def isolated (es : List Ev) : Bool :=
  (txnsOf es).all fun t => evOk none (es.filter (·.txn == t))

/-- Pair model observations with the scripted values. -/
def toEv (ss : Scripts) (o : Obs) : Ev :=
  let s := scriptOf ss o.txn
  let a := if o.slot == "a" then s.a else if o.slot == "b" then s.b else s.c
  match a with
  | .set v => ⟨o.txn, o.kind, v, o.res⟩
  | _ => ⟨o.txn, o.kind, "", o.res⟩

def usesTctx (a : Act) : Bool := match a with | .set _ => true | .get => true | _ => false
def scriptUses (s : Script) : Bool := usesTctx s.a || usesTctx s.b || usesTctx s.c

end LunarVerif.C18
