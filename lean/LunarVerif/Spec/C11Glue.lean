import LunarVerif.Model.C11Glue
/-
C11 at the handler level, over the observable history only (request/response messages with their ids
and what the lens showed, applied reloads).  Reference semantics: every transaction is processed -
request AND response - with the policies that were in force when it was FIRST seen (its own id, not its
sequence id); the retry lens then behaves as `retryLens` says.  Histories most-recent-first.
-/
namespace LunarVerif.C11

/-- Policies in force after a history. -/
def gCur (d0 : Nat) : List GEv → Nat
  | [] => d0
  | .reload k :: _ => k
  | _ :: older => gCur d0 older

def mentions (id : Nat) : GEv → Bool
  | .req i _ _ => i == id
  | .resp i _ _ _ => i == id
  | .reload _ => false
  | .diag i _ => i == id

/-- Policies in force when transaction `id` was first seen, if it has been seen. -/
def gPinned (d0 : Nat) : List GEv → Nat → Option Nat
  | [], _ => none
  | e :: older, id =>
    match gPinned d0 older id with
    | some k => some k
    | none => if mentions id e then some (gCur d0 older) else none

/-- The policies a message of transaction `id` arriving now must be processed with. -/
def gLabel (d0 : Nat) (older : List GEv) (id : Nat) : Nat :=
  match gPinned d0 older id with
  | some k => k
  | none => gCur d0 older

/-- Reference state of the retry lens: every past response processed with its transaction's label. -/
def gRetry (d0 : Nat) : List GEv → List (Nat × (Nat × Nat))
  | [] => []
  | .resp id seq status _ :: older => (retryLens (gRetry d0 older) (gLabel d0 older id) id seq status).1
  | _ :: older => gRetry d0 older

def gEventOk (d0 : Nat) (e : GEv) (older : List GEv) : Bool :=
  match e with
  | .reload _ => true
  | .req id _ ver => ver == some (stampLens (gLabel d0 older id))
  | .resp id seq status out => out == (retryLens (gRetry d0 older) (gLabel d0 older id) id seq status).2
  -- the diagnosis record of a transaction is produced with the policies that transaction first saw
  | .diag id r => r == some (diagLens (gLabel d0 older id))

def gHoldsRev (d0 : Nat) : List GEv → Bool
  | [] => true
  | e :: older => gEventOk d0 e older && gHoldsRev d0 older

def gHolds (cfg : Cfg) (h : List GEv) : Bool := gHoldsRev cfg.d0 h.reverse

end LunarVerif.C11
