import LunarVerif.Model.C12SharedT
/-
C12 for several throttling configurations on the one shared plugin, observable history only; every clause is stated
for the configuration B that ANSWERS the request:
  an early response at `t` for (method, URL) under B ⇒ an earlier response r₀ for the same (method, URL), with the
  same status/body, which some configuration A could store (status relevant for A, A's header readable as a number,
  A's type defined) and which is still fresh by A's reading (relative: `t − t₀ ≤ value_A`; absolute: `t ≤ value_A`), and
    B relative     : B's header is readable in r₀, `t − t₀ < value_B`, and the replay carries r₀'s headers with B's
                     header replaced by `value_B − (t − t₀)`   ("reduced by the time already elapsed");
    B not relative : the replay carries r₀'s headers unchanged.
(What the code does NOT give, observation O7: a non-relative B replays a relative A's retry-after value unreduced.)
-/
namespace LunarVerif.C12

section
variable {σ : Type} [DecidableEq σ]

def freshByA (num : σ → Option Int) (a : TRemedy σ) (r : HResp σ) (t0 t : Int) : Bool :=
  match a.cfg.type, readRa num a r with
  | .rel, some n => decide (t - t0 ≤ n)
  | .abs, some n => decide (t ≤ n)
  | _, _ => false

def tsJustifies (num : σ → Option Int) (t : Int) (b : TRemedy σ) (m u : σ) (st : Nat) (body : σ)
    (out : List (σ × HVal σ)) (r0 : TSRec σ) : Bool :=
  match r0.op with
  | .resp a m0 u0 r =>
    decide (m0 = m) && decide (u0 = u) && a.cfg.statuses.contains r.status
    && decide (r.status = st) && decide (r.body = body) && decide (r0.t ≤ t) && freshByA num a r r0.t t
    && (match b.cfg.type with
        | .rel =>
          match readRa num b r with
          | some n => decide (t - r0.t < n) && decide (out = rewriteHdr b.hdr (n - (t - r0.t)) r.hdrs)
          | none => false
        | _ => decide (out = rawAll r.hdrs))
  | _ => false

def tsRecOk (num : σ → Option Int) (r : TSRec σ) (older : List (TSRec σ)) : Bool :=
  match r.op, r.out with
  | .req b m u, .early st body out => older.any (tsJustifies num r.t b m u st body out)
  | .req _ _ _, .noop => true
  | .req _ _ _, _ => false
  | _, _ => true

def tsholdsRev (num : σ → Option Int) : List (TSRec σ) → Bool
  | [] => true
  | r :: older => tsRecOk num r older && tsholdsRev num older

def tsholds (num : σ → Option Int) (h : List (TSRec σ)) : Bool := tsholdsRev num h.reverse

end

end LunarVerif.C12
