import LunarVerif.Model.UrlTree
/-
Declarative URL matcher — the independent oracle for C03, C13, C14.  Core Lean only.

A pattern and a URL are both `List Part` (host labels first, then path segments).
  * a literal pattern segment matches the equal URL segment,
  * `{p}` matches exactly one NON-EMPTY segment,
  * a trailing `*` matches any remainder, including none (url_tree_lookup.go: "Exact value not found,
    check if node has wildcard child"; url_tree_flow_traversal.go: `url: "host.com", filter: "host.com/*"`),
  * `strict`: the host/path boundary is part of the URL — a pattern part and the URL part it is matched
    with lie on the same side of the first `/`; for `*` this is asked of the first part it swallows
    (`a.com/*` does not match the host `a.com.evil.org`).
`matchesG false` ("lax") ignores the boundary; it is what the trie can guarantee without further
hypotheses and is used as an intermediate notion by the proofs.
-/
namespace LunarVerif.UrlMatch
open LunarVerif.UrlTree

abbrev Pattern := List Part
abbrev Url := List Part

/-- One non-wildcard pattern segment against one URL segment. -/
def segAccepts : Seg → Seg → Bool
  | .lit s, u => u == .lit s
  | .par _, u => u != .lit ""
  | .wild, _ => false

def matchesG (strict : Bool) : Pattern → Url → Bool
  | [], [] => true
  | [], _ :: _ => false
  | p :: ps, us =>
    match p.seg with
    | .wild =>
      ps.isEmpty && (match us with
        | [] => true
        | u :: _ => !strict || u.host == p.host)
    | s =>
      match us with
      | [] => false
      | u :: us' => (!strict || u.host == p.host) && segAccepts s u.seg && matchesG strict ps us'

/-- The matcher of the properties. -/
def «matches» (p : Pattern) (u : Url) : Bool := matchesG true p u
def matchesLax (p : Pattern) (u : Url) : Bool := matchesG false p u

/-- Variant in which `*` needs at least one segment (for C03's path case). -/
def matches1 (p : Pattern) (u : Url) : Bool :=
  «matches» p u && (match p.getLast? with
    | some l => !(l.seg == .wild) || p.length ≤ u.length
    | none => true)

/-- literal > parameter > wildcard -/
def Seg.rank : Seg → Nat
  | .lit _ => 2
  | .par _ => 1
  | .wild => 0

/-- `specLE q p`: `p` is at least as specific as `q` — lexicographic, position-wise, by `rank`;
    a pattern that ends is more specific than one that goes on (with `*`) from there. -/
def specLE : Pattern → Pattern → Bool
  | [], [] => true
  | [], _ :: _ => false
  | _ :: _, [] => true
  | a :: q, b :: p =>
    if Seg.rank a.seg < Seg.rank b.seg then true
    else if Seg.rank b.seg < Seg.rank a.seg then false
    else specLE q p

/-- Same trie path (names of parameters and host flags ignored). -/
def sameKeys (p q : Pattern) : Bool := p.map (·.seg.key) == q.map (·.seg.key)

/-- No URL part is the empty string (`a.com//x` has one). -/
def urlNonEmpty (u : Url) : Bool := u.all (fun p => p.seg != .lit "")

/-- Boundary agreement of one pattern with a URL along the positions where the trie lets the pattern
    follow the URL (literal equal / any parameter / `*`): exactly what the trie does NOT check for `*` and
    checks against the FIRST inserter's flag for the other nodes. -/
def flagsOK : Pattern → Url → Bool
  | [], _ => true
  | _ :: _, [] => true
  | p :: ps, u :: us =>
    match p.seg with
    | .wild => u.host == p.host
    | .lit s => if u.seg == .lit s then u.host == p.host && flagsOK ps us else true
    | .par _ => u.host == p.host && flagsOK ps us

/-- `*` occurs only as the last part (what `validateURL` is meant to enforce). -/
def wildLast : Pattern → Bool
  | [] => true
  | p :: ps => if p.seg == .wild then ps.isEmpty else wildLast ps

/-- A pattern cut after its first `*`: what the trie keeps of it (whatever follows a `*` lives under a
    wildcard node that no lookup ever enters). -/
def trunc : Pattern → Pattern
  | [] => []
  | p :: ps => if p.seg = .wild then [p] else p :: trunc ps

/-- `wildPos w u = some n`: `w` ends in `*` at position `n` and (laxly) matches `u`. -/
def wildPos : Pattern → Url → Option Nat
  | [], _ => none
  | p :: ps, us =>
    match p.seg with
    | .wild => if ps.isEmpty then some 0 else none
    | s =>
      match us with
      | [] => none
      | u :: us' => if segAccepts s u.seg then (wildPos ps us').map (· + 1) else none

/-- `q` runs (laxly) along the first `n` parts of `u` and goes on with a literal/parameter that accepts
    the next part of `u`. -/
def followsPast : Nat → Pattern → Url → Bool
  | 0, p :: _, x :: _ => p.seg != .wild && segAccepts p.seg x.seg
  | n + 1, p :: q, x :: u => segAccepts p.seg x.seg && followsPast n q u
  | _, _, _ => false

/-- Some `*` pattern matches `u` with nothing left for the `*`, or another pattern runs along `u` through
    the position of that `*` (then the lookup walks past the wildcard node and reports the walked path). -/
def displaced (pats : List Pattern) (u : Url) : Bool :=
  pats.any fun w => match wildPos w u with
    | some n => u.length == n || pats.any (fun e => followsPast n e u)
    | none => false

/-- `q` was passed over in favour of the selected `*` pattern `p`: `q` follows the same trie path up to
    the position of `p`'s `*` and continues there with a literal or parameter (the lookup never backtracks;
    it only falls back to the deepest wildcard it has seen). -/
def passedOver : Pattern → Pattern → Bool
  | [], _ => false
  | _ :: _, [] => false
  | a :: p, b :: q =>
    if p.isEmpty then a.seg == .wild && b.seg != .wild
    else a.seg.key == b.seg.key && passedOver p q

end LunarVerif.UrlMatch
