import LunarVerif.Model.C04
import LunarVerif.Model.FlowGraphRef
/-
Property C04 as a REFERENCE INTERPRETER over the YAML connection lists (no built graph, no
de-duplicated edge lists, no root pointer), and the decidable predicate the judge evaluates on the
OBSERVED event sequence of a transaction.

Reading of the property (properties.jsonl C04, DESIGN.md "### C04"):
  * entry of a direction = target of the (last declared) `stream start → processor` connection;
  * after executing processor n with output name o follow, in connection order and with duplicates
    removed, every connection `from n, condition = o` to a processor; `→ stream` ends the branch;
  * a processor that answers the request itself (output type "response" on the request path) stops
    the request walk of its flow — nothing else of that flow's request path runs — and the remaining
    user flows are skipped; system end flows still run;
  * then the response phase runs: the answering flow continues at the FIRST response connection
    leaving the answering processor's key (to a processor: walk from there; to the stream or absent:
    nothing), every other flow runs its response direction from its entry;
  * order of flows: requests — system start flows, user flows, system end flows; responses — the
    same three groups, each traversed in reverse;
  * a processor error aborts the transaction.
-/
namespace LunarVerif.C04
open LunarVerif.FlowGraph LunarVerif.FlowExec

/-- What the reference interpreter knows of a flow. -/
structure SFlow where
  name : String
  req : List Conn
  res : List Conn
deriving Repr, Inhabited

def SFlow.conns (f : SFlow) : Dir → List Conn
  | .req => f.req
  | .res => f.res

structure SCfg where
  start : List SFlow := []
  user : List SFlow := []
  finish : List SFlow := []
deriving Repr, Inhabited

/-- append unless already present -/
def addNew (acc : List String) (x : String) : List String := if acc.contains x then acc else acc ++ [x]

/-- duplicates removed, first occurrences kept, order preserved -/
def dedup (l : List String) : List String := l.foldl addNew []

/-- entry point of a direction: target of the last `stream start → processor` connection -/
def entry (cs : List Conn) : Option String :=
  (cs.filterMap fun c =>
    match c.src, c.dst with
    | .stream _ a, .proc t _ => if a == "start" then some t else none
    | _, _ => none).getLast?

/-- processors reached from `n` on output `o`: connection order, duplicates removed -/
def succs (cs : List Conn) (n o : String) : List String :=
  dedup (cs.filterMap fun c =>
    match c.src, c.dst with
    | .proc f cond, .proc t _ => if f == n && cond == o then some t else none
    | _, _ => none)

/-- destination of the first connection leaving processor `k` -/
def firstConn (cs : List Conn) (k : String) : Option End :=
  cs.findSome? fun c =>
    match c.src with
    | .proc f _ => if f == k then some c.dst else none
    | _ => none

/-- processor `k` appears in the connection list (as source, or as target of a connection that
    creates a node) -/
def mentioned (cs : List Conn) (k : String) : Bool :=
  cs.any fun c =>
    (match c.src, c.dst with
     | .proc f _, _ => f == k
     | _, _ => false) ||
    (match c.dst with
     | .proc t _ => t == k
     | _ => false)

/-- Result of a reference walk. `stop` = key of the processor that answered the request. -/
structure SRes where
  trace : List Event := []
  stop : Option String := none
  err : Option ExecErr := none
deriving DecidableEq, Repr, Inhabited

def swalkList (rec : String → SRes) : List String → SRes
  | [] => {}
  | t :: ts =>
    let r := rec t
    if r.err.isSome then r
    else if r.stop.isSome then r
    else
      let rest := swalkList rec ts
      { trace := r.trace ++ rest.trace, stop := rest.stop, err := rest.err }

/-- reference walk of direction `d` of flow `f` from processor `k` -/
def swalk (f : SFlow) (o : Oracle) (d : Dir) : Nat → String → SRes
  | 0, _ => { err := some .fuel }
  | fuel + 1, k =>
    let out := o f.name k d
    let ev := Event.exec f.name k d out
    if out.err then { trace := [ev], err := some .proc }
    else if out.early && d == .req then { trace := [ev], stop := some k }
    else
      let r := swalkList (swalk f o d fuel) (succs (f.conns d) k out.name)
      { r with trace := ev :: r.trace }

/-- run direction `d` of a flow from its entry -/
def sflow (f : SFlow) (o : Oracle) (d : Dir) (fuel : Nat) : SRes :=
  match entry (f.conns d) with
  | none => { trace := [.enter f.name d] }
  | some k => let r := swalk f o d fuel k; { r with trace := .enter f.name d :: r.trace }

/-- response continuation of the answering flow: first response connection leaving `k` -/
def scontinue (f : SFlow) (o : Oracle) (fuel : Nat) (k : String) : SRes :=
  match firstConn f.res k with
  | some (.proc t _) => let r := swalk f o .res fuel t; { r with trace := .enter f.name .res :: r.trace }
  | _ => { trace := [.enter f.name .res] }

/-- flows one after the other, first error aborts; answers of system-flow processors are not
    short-circuits -/
def sall (o : Oracle) (d : Dir) (fuel : Nat) : List SFlow → SRes
  | [] => {}
  | f :: fs =>
    let r := sflow f o d fuel
    if r.err.isSome then { r with stop := none }
    else
      let rest := sall o d fuel fs
      { trace := r.trace ++ rest.trace, err := rest.err }

/-- user flows on a request: stop at the first flow in which a processor answers -/
def suserReq (o : Oracle) (fuel : Nat) : List SFlow → List Event × Option (SFlow × String) × Option ExecErr
  | [] => ([], none, none)
  | f :: fs =>
    let r := sflow f o .req fuel
    if r.err.isSome then (r.trace, none, r.err)
    else match r.stop with
      | some k => (r.trace, some (f, k), none)
      | none =>
        let (t, sc, e) := suserReq o fuel fs
        (r.trace ++ t, sc, e)

def suserRes (o : Oracle) (fuel : Nat) (sc : Option (String × String)) : List SFlow → SRes
  | [] => {}
  | f :: fs =>
    let r := match sc with
      | some (fl, k) => if fl == f.name then scontinue f o fuel k else sflow f o .res fuel
      | none => sflow f o .res fuel
    if r.err.isSome then { r with stop := none }
    else
      let rest := suserRes o fuel sc fs
      { trace := r.trace ++ rest.trace, err := rest.err }

/-- Outcome of the reference interpreter on a transaction. -/
structure STxn where
  trace : List Event := []
  err : Option ExecErr := none
  answered : Option (SFlow × String) := none   -- the flow and processor that answered the request
deriving Repr, Inhabited

def sresponse (c : SCfg) (o : Oracle) (fuel : Nat) (sc : Option (String × String)) : List Event × Option ExecErr :=
  let a := sall o .res fuel c.start.reverse
  if a.err.isSome then (a.trace, a.err) else
  let b := suserRes o fuel sc c.user.reverse
  if b.err.isSome then (a.trace ++ b.trace, b.err) else
  let e := sall o .res fuel c.finish.reverse
  (a.trace ++ b.trace ++ e.trace, e.err)

def stxn (c : SCfg) (o : Oracle) (fuel : Nat) : Dir → STxn
  | .res => let (t, e) := sresponse c o fuel none; { trace := t, err := e }
  | .req =>
    let a := sall o .req fuel c.start
    if a.err.isSome then { trace := a.trace, err := a.err } else
    let (bt, sc, be) := suserReq o fuel c.user
    if be.isSome then { trace := a.trace ++ bt, err := be } else
    let e := sall o .req fuel c.finish
    if e.err.isSome then { trace := a.trace ++ bt ++ e.trace, err := e.err, answered := sc } else
    match sc with
    | none => { trace := a.trace ++ bt ++ e.trace }
    | some (f, k) =>
      let (rt, re) := sresponse c o fuel (some (f.name, k))
      { trace := a.trace ++ bt ++ e.trace ++ rt, err := re, answered := sc }

/-! ### known defect of the engine, as a decidable class of (configuration, oracle) -/

/-- The class of a transaction with respect to the open finding:
  * F04c — the answering processor has no node in the response direction (the engine aborts the
           transaction with "failed to get response node").
  (F04a, F04b, F04d, F04e were repaired in /repo; their classes are gone.) -/
def finding (s : STxn) : Option String :=
  match s.answered with
  | none => none
  | some (f, k) => if !mentioned f.res k then some "F04c" else none

/-- System-flow processors never answer the request themselves (they are quota bookkeeping). -/
def sysQuiet (c : SCfg) (o : Oracle) : Bool :=
  (c.start ++ c.finish).all fun f =>
    (f.req ++ f.res).all fun cn =>
      (match cn.src with | .proc k _ => !(o f.name k .req).early | _ => true) &&
      (match cn.dst with | .proc k _ => !(o f.name k .req).early | _ => true)

def specFuel (c : SCfg) : Nat :=
  ((c.start ++ c.user ++ c.finish).map fun f => 2 * (f.req.length + f.res.length)).sum + 2

/-- THE PROPERTY on an observed transaction: the observed event sequence and outcome are those of the
    reference interpreter. -/
def holds (c : SCfg) (o : Oracle) (d : Dir) (fuel : Nat) (observed : List Event) (err : Option ExecErr) : Bool :=
  let s := stxn c o fuel d
  observed == s.trace && err == s.err

/-- the part of a trace an observer of the real engine can see: flow entries, and processor
    executions of the flows in `users` (system-flow processors are the real quota processors).  A processor
    reports WHICH instance it is — `<owning flow>.<key>`: `inst flow nodeKey` is the instance the configuration
    names by that node key in that flow (`otherFlow.key` names `otherFlow`'s processor `key`; a plain key names
    the processor of the flow that declares it). -/
def observable (users : List String) (inst : String → String → String) (t : List Event) : List Event :=
  (t.filter fun
    | .enter _ _ => true
    | .exec f _ _ _ => users.contains f).map fun
    | .enter f d => .enter f d
    | .exec f k d o => .exec f (inst f k) d o

/-- `holds` restricted to what is observable -/
def holdsObs (c : SCfg) (users : List String) (inst : String → String → String) (o : Oracle) (d : Dir)
    (fuel : Nat) (observed : List Event) (err : Option ExecErr) : Bool :=
  let s := stxn c o fuel d
  observed == observable users inst s.trace && err == s.err

/-- System flow of one location: every processor of the group wired in sequence,
    `stream start → p₁ → p₂ → … → pₙ → stream end`. -/
def chainFrom : String → List String → List Conn
  | k, [] => [⟨.proc k "", gEnd⟩]
  | k, k' :: ks => ⟨.proc k "", .proc k' ""⟩ :: chainFrom k' ks

def chainConns : List String → List Conn
  | [] => []
  | k :: ks => ⟨gStart, .proc k ""⟩ :: chainFrom k ks

/-- Spec view of a configuration: the flows that take part, in engine order. -/
def specCfg (c : Cfg) (order : List String) : SCfg :=
  let fl := (sortBy order (c.flows.filter yamlOk)) ++ sysDecls chainConns c.quotas
  let conv := fun (d : FlowDecl) => (⟨d.rep.name, d.rep.req, d.rep.res⟩ : SFlow)
  { start := (fl.filter (·.kind == .sysStart)).map conv
    user := (fl.filter (·.kind == .user)).map conv
    finish := (fl.filter (·.kind == .sysEnd)).map conv }

/-- Judge of one transaction: `none` = property holds; `some (finding id | "-", message)`. -/
def judgeTxn (c : SCfg) (users : List String) (inst : String → String → String) (o : Oracle) (d : Dir)
    (observed : List Event) (err : Option ExecErr) : Option (String × String) :=
  if !sysQuiet c o then none else
  let fuel := specFuel c
  if holdsObs c users inst o d fuel observed err then none
  else
    let s := stxn c o fuel d
    let s := { s with trace := observable users inst s.trace }
    let fid := (finding s).getD "-"
    let n := (List.zip observed s.trace).takeWhile (fun p => p.1 == p.2) |>.length
    some (fid, s!"observed-differs-from-reference-at-event {n} (observed {observed.length} events, reference {s.trace.length})")

end LunarVerif.C04
