import LunarVerif.Model.C19
/-
Property C19 over the OBSERVABLE history only: per intercepted call the instant, the destination
host, the `x-lunar-allow` header, how the gateway / the provider would answer if contacted, which
legs were actually contacted (`sent`) and what the application got back (`result`).  Nothing of the
breaker's counter / flag or of the filter's cache appears here.  Shared vocabulary with the model:
the configuration record, the string recognisers of `Model/C19IP.lean` and the call records.

Reading of the statement that is formalised (interpretation questions, see notes/C19.md):
* "consecutive gateway-side failures": consecutive CALLS; a gateway success or a call that was sent
  directly (excluded destination, or cool-down) ends the streak; an application exception does not.
* an allow-listed or header-allowed destination is routed even when its address is private.
* the `x-lunar-allow` header overrides both lists and the address classification.
-/
namespace LunarVerif.C19

/-- Address of a destination: an IPv4 literal is itself, a name is what DNS answers. -/
def destAddr (cfg : Cfg) (h : Str) : Option IPv4 :=
  match parseIPv4 h with
  | some ip => some ip
  | none =>
    if isIPv6 h then none else
    match cfg.resolve h with
    | .ip a => some a
    | _ => none

/-- Loopback, RFC 1918 private ranges and 0.0.0.0, on octets. -/
def isPrivate (ip : IPv4) : Bool :=
  ip.a == 10 || ip.a == 127 || (ip.a == 172 && decide (16 ≤ ip.b) && decide (ip.b ≤ 31))
    || (ip.a == 192 && ip.b == 168) || (ip.a == 0 && ip.b == 0 && ip.c == 0 && ip.d == 0)

/-- External = has a known address and that address is not private. Unknown ⇒ not routed. -/
def external (cfg : Cfg) (h : Str) : Bool :=
  match destAddr cfg h with
  | some ip => !isPrivate ip
  | none => false

/-- Entries of the allow list that are hosts or IPs (`none` = no allow list configured). -/
def allowEntries (cfg : Cfg) : Option (List Str) := (parseList cfg.allow).map (·.filter validEntry)
def blockEntries (cfg : Cfg) : List Str := (parseList cfg.block).getD []

/-- The interceptor disables itself (routes nothing) when a block list that is in force
    contains an entry that is neither host nor IP. -/
def listsUsable (cfg : Cfg) : Bool :=
  match allowEntries cfg with
  | some (_ :: _) => true
  | _ => (blockEntries cfg).all validEntry

/-- The destination is one the gateway should see. -/
def shouldRoute (cfg : Cfg) (h : Str) (hdr : Hdr) : Bool :=
  listsUsable cfg &&
  match hdrOverride hdr with
  | some b => b
  | none =>
    match allowEntries cfg with
    | some al => al.contains h
    | none => !(blockEntries cfg).contains h && external cfg h

/-- A direct question to the filter is answered (it cannot raise: `DecObs.answer` is a `Bool`)
    and the answer is the routing rule. -/
def decisionsOk (cfg : Cfg) (l : List DecObs) : Bool :=
  l.all fun d => if d.fault then !d.answer else d.answer == shouldRoute cfg d.host d.hdr

/-- Reference breaker, driven by what was observed. -/
structure Ref where
  streak : Nat            -- consecutive gateway-side failures
  trip   : Option Nat     -- instant of the last failure that reached the threshold
deriving Repr, DecidableEq

def Ref.init : Ref := ⟨0, none⟩

def Ref.isOpen (cfg : Cfg) (r : Ref) (t : Nat) : Bool :=
  match r.trip with
  | some T => decide (t < T + cfg.coolTicks)
  | none => false

def gwTried (o : Obs) : Bool := o.out.sent.contains .gw

def Ref.next (cfg : Cfg) (r : Ref) (o : Obs) : Ref :=
  if gwTried o then
    if o.inp.gw.failed then
      ⟨r.streak + 1, if decide (cfg.maxEff ≤ r.streak + 1) then some o.t else r.trip⟩
    else if o.inp.gw == .ok then ⟨0, r.trip⟩
    else r
  else if o.out.sent.contains .direct then ⟨0, r.trip⟩
  else r

/-- Nothing is swallowed and nothing is invented: the application gets the answer (or the
    exception) of the last leg contacted; a gateway-side failure falls through to the provider;
    an application exception does not; and some leg IS contacted (the decision never raises). -/
def noSwallow (o : Obs) : Bool :=
  match o.out.sent with
  | [.gw] => (o.inp.gw == .ok && o.out.result == .respGw)
             || (o.inp.gw == .appExc && o.out.result == .raiseGwApp)
  | [.direct] => o.out.result == directResult o.inp
  | [.gw, .direct] => o.inp.gw.failed && o.out.result == directResult o.inp
  | _ => false

/-- While the breaker is open the gateway is not contacted. -/
def cooldownRespected (cfg : Cfg) (r : Ref) (o : Obs) : Bool :=
  !(r.isOpen cfg o.t) || !gwTried o

/-- The gateway is contacted only for destinations it should see, and never on the strength of a
    lookup that failed. -/
def filterRespected (cfg : Cfg) (o : Obs) : Bool :=
  !gwTried o || (shouldRoute cfg o.inp.host o.inp.hdr && !o.fault)

/-- Outside the cool-down a destination that should be routed is tried through the gateway — unless
    the resolver failed transiently during this very call.  A failed lookup is NOT remembered: on the
    next call (no fault observed then) the destination is routed again.  (`shouldRoute` speaks about
    the answer the resolver gives once it works, `Cfg.dns`.) -/
def recovers (cfg : Cfg) (r : Ref) (o : Obs) : Bool :=
  r.isOpen cfg o.t || !shouldRoute cfg o.inp.host o.inp.hdr || o.fault || gwTried o

def eventOk (cfg : Cfg) (r : Ref) (o : Obs) : Bool :=
  noSwallow o && cooldownRespected cfg r o && filterRespected cfg o && recovers cfg r o

/-- The property on a history (oldest first) from reference state `r`. -/
def holdsFrom (cfg : Cfg) : Ref → List Obs → Bool
  | _, [] => true
  | r, o :: rest => eventOk cfg r o && holdsFrom cfg (r.next cfg o) rest

/-- Reference breaker after a history (oldest first). -/
def refAfter (cfg : Cfg) (h : List Obs) : Ref := h.foldl (Ref.next cfg) Ref.init

def holds (cfg : Cfg) (h : List Obs) : Bool := holdsFrom cfg Ref.init h

/-- First offending event, for the judge's message. -/
def firstBad (cfg : Cfg) : Ref → Nat → List Obs → Option (Nat × Ref)
  | _, _, [] => none
  | r, i, o :: rest =>
    if eventOk cfg r o then firstBad cfg (r.next cfg o) (i + 1) rest
    else some (i, r)

/-- Configurations the theorems speak about: DNS answers are IPv4 addresses. -/
def IPv4.wf (ip : IPv4) : Bool :=
  decide (ip.a < 256) && decide (ip.b < 256) && decide (ip.c < 256) && decide (ip.d < 256)

def Cfg.wf (cfg : Cfg) : Bool :=
  cfg.dns.all fun p => match p.2 with | .ip a => a.wf | _ => true

end LunarVerif.C19
