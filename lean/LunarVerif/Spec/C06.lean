import LunarVerif.Model.C06
/-
Property C06 over the OBSERVABLE history only: a list of `Ev` (oldest first) as an outside observer
(the correspondence harness with its probes at the processor's interfaces) sees it:
`checked`/`queued`/`rejected` (what happened to an arriving `Execute` call), `qtry` (what the quota
answered), `pop`/`repush` (what the processor did with the shared queue), `done` (a verdict was
delivered: allowed / blocked), `unwatched` (slot given back), `drain`, `panic`.
Nothing of the model's state appears here.

`scan p h` evaluates `p older e` for every event `e` of `h`, `older` being the events before it,
most recent first.
-/
namespace LunarVerif.C06

def scan (p : List Ev → Ev → Bool) : List Ev → List Ev → Bool
  | _, [] => true
  | older, e :: rest => p older e && scan p (e :: older) rest

def wasQueued (older : List Ev) (id : Nat) : Bool :=
  older.any fun | .queued i _ _ => i == id | _ => false

def wasRejected (older : List Ev) (id : Nat) : Bool :=
  older.any fun | .rejected i _ => i == id | _ => false

def wasChecked (older : List Ev) (id : Nat) : Bool :=
  older.any fun | .checked i => i == id | _ => false

def wasDone (older : List Ev) (id : Nat) : Bool :=
  older.any fun | .done i _ _ => i == id | _ => false

def wasUnwatched (older : List Ev) (id : Nat) : Bool :=
  older.any fun | .unwatched i => i == id | _ => false

def wasRepushed (older : List Ev) (id : Nat) : Bool :=
  older.any fun | .repush i _ => i == id | _ => false

def drainSeen (older : List Ev) : Bool := older.any fun | .drain => true | _ => false

/-- (priority, arrival instant) of a queued request. -/
def infoOf : List Ev → Nat → Option (Nat × Nat)
  | [], _ => none
  | .queued i p t :: rest, id => if i == id then some (p, t) else infoOf rest id
  | _ :: rest, id => infoOf rest id

/-- The answer of the most recent quota attempt for `id`. -/
def lastQtry : List Ev → Nat → Option Bool
  | [], _ => none
  | .qtry i ok :: rest, id => if i == id then some ok else lastQtry rest id
  | _ :: rest, id => lastQtry rest id

/-- Requests queued and without verdict, with (id, priority, arrival); most recently queued first. -/
def waiting : List Ev → List (Nat × Nat × Nat)
  | [] => []
  | .queued i p t :: rest => if wasDone rest i then waiting rest else (i, p, t) :: waiting rest
  | .done i _ _ :: rest => (waiting rest).filter fun x => x.1 != i
  | _ :: rest => waiting rest

def wasPopped (older : List Ev) (id : Nat) : Bool :=
  older.any fun | .pop i => i == id | _ => false

/-- `j` was queued after the loop's most recent `pop i` (an arrival during the loop's attempt on `i`:
the loop could not have chosen it). -/
def queuedAfterPop : List Ev → Nat → Nat → Bool
  | [], _, _ => false
  | .pop k :: rest, i, j => if k == i then false else queuedAfterPop rest i j
  | .queued k _ _ :: rest, i, j => if k == j then wasPopped rest i else queuedAfterPop rest i j
  | _ :: rest, i, j => queuedAfterPop rest i j

/-- `a` was queued before `b` (both queued in `older`, most recent first). -/
def queuedBefore : List Ev → Nat → Nat → Bool
  | [], _, _ => false
  | .queued i _ _ :: rest, a, b => if i == b then wasQueued rest a else queuedBefore rest a b
  | _ :: rest, a, b => queuedBefore rest a b

/-- (V) one verdict: a request is queued or rejected at most once, a verdict is delivered only to
a request that was given a slot and only once. -/
def verdictOk (older : List Ev) : Ev → Bool
  | .queued i _ _ => !wasQueued older i && !wasRejected older i
  | .rejected i _ => !wasQueued older i && !wasRejected older i
  | .done i _ _ => wasChecked older i && !wasDone older i
  | _ => true

/-- (Q) allowed only when the quota's `Inc;Allowed` just succeeded for this request. -/
def quotaOk (older : List Ev) : Ev → Bool
  | .done i true _ => lastQtry older i == some true
  | _ => true

/-- (P) a request is not allowed while a request with a strictly lower priority number waits —
unless that one's time-to-live is already over (it is then being rejected) or it arrived only after
the loop had picked the allowed one. -/
def prioOk (cfg : Cfg) (older : List Ev) : Ev → Bool
  | .done i true t =>
    match infoOf older i with
    | none => true
    | some (p, _) => (waiting older).all fun x =>
        x.1 == i || !(decide (x.2.1 < p)) || decide (x.2.2 + cfg.ttl < t) || queuedAfterPop older i x.1
  | _ => true

/-- (F) within one priority, earlier arrivals are allowed before later ones (same exemption for a
waiter whose time-to-live is over). -/
def fifoOk (cfg : Cfg) (older : List Ev) : Ev → Bool
  | .done i true t =>
    match infoOf older i with
    | none => true
    | some (p, _) => (waiting older).all fun x =>
        x.1 == i || x.2.1 != p || !queuedBefore older x.1 i || decide (x.2.2 + cfg.ttl < t)
  | _ => true

/-- (B) never more than `queue_size` requests wait. -/
def boundOk (cfg : Cfg) (older : List Ev) : Ev → Bool
  | .queued _ _ _ => decide (((waiting older).length + 1 : Int) ≤ cfg.size)
  | _ => true

/-- Scheduling slack granted to the TTL watcher on the mock clock: one 100 ms tick. -/
def slack : Nat := 100

/-- The processing loop is in the middle of an attempt on `id` (popped, not yet pushed back nor
signalled): the TTL watcher cannot reject it until the attempt is over. -/
def inAttempt : List Ev → Nat → Bool
  | [], _ => false
  | .pop i :: rest, id => if i == id then true else inAttempt rest id
  | .repush i _ :: rest, id => if i == id then false else inAttempt rest id
  | .done i _ _ :: rest, id => if i == id then false else inAttempt rest id
  | _ :: rest, id => inAttempt rest id

/-- The instant at which the most recent refused attempt on `id` ended. -/
def lastRepush : List Ev → Nat → Option Nat
  | [], _ => none
  | .repush i t :: rest, id => if i == id then some t else lastRepush rest id
  | _ :: rest, id => lastRepush rest id

/-- No waiter (other than `me`, and other than one the loop is just attempting) is past TTL + slack at `t`. -/
def noneOverdue (cfg : Cfg) (older : List Ev) (me : Option Nat) (t : Nat) : Bool :=
  (waiting older).all fun (j, _, aj) => me == some j || inAttempt older j || decide (t ≤ aj + cfg.ttl + slack)

/-- (T, lower half) a request is rejected by time-out only after its TTL (shutdown excepted). -/
def ttlLowerOk (cfg : Cfg) (older : List Ev) : Ev → Bool
  | .done i false t =>
    drainSeen older ||
    (match infoOf older i with
     | none => true
     | some (_, a) => decide (a + cfg.ttl < t))
  | _ => true

/-- (T, upper half — timeliness) ... and at most `slack` later — or at the very instant a refused
attempt of the loop on it ended, if that was later —; no request is seen waiting beyond TTL + slack
(shutdown excepted). -/
def ttlUpperOk (cfg : Cfg) (older : List Ev) : Ev → Bool
  | .done i false t =>
    drainSeen older ||
    (match infoOf older i with
     | none => true
     | some (_, a) => decide (t ≤ a + cfg.ttl + slack) || lastRepush older i == some t) &&
    noneOverdue cfg older (some i) t
  | .done i true t => drainSeen older || noneOverdue cfg older (some i) t
  | .queued _ _ t => drainSeen older || noneOverdue cfg older none t
  | _ => true

/-- (T)/(V) at the end of the observation (instant `tEnd`, everything delivered so far is in the
history `hRev`, most recent first): nobody is left waiting beyond TTL + slack. -/
def endOk (cfg : Cfg) (hRev : List Ev) (tEnd : Nat) : Bool := drainSeen hRev || noneOverdue cfg hRev none tEnd

/-- (D) shutdown never crashes ... -/
def noPanic (_older : List Ev) : Ev → Bool
  | .panic => false
  | _ => true

/-- ... and releases every waiter (`hRev` = whole history, most recent first). -/
def drainReleases (hRev : List Ev) : Bool := !drainSeen hRev || (waiting hRev).isEmpty

/-- The safety part of C06 on a history (oldest first): one verdict, quota, priority, FIFO, bound,
no early time-out, no crash.  PROVED of every schedule of the model (`Properties/C06.lean`). -/
def holdsSafety (cfg : Cfg) (h : List Ev) : Bool :=
  scan verdictOk [] h && scan quotaOk [] h && scan (prioOk cfg) [] h && scan (fifoOk cfg) [] h &&
  scan (boundOk cfg) [] h && scan (ttlLowerOk cfg) [] h && scan noPanic [] h

/-- The timeliness part: verdicts no later than TTL + slack, shutdown leaves nobody waiting.
Depends on the watcher (and the loop) being scheduled: a labelled test on the implementation; in
the model see `eventually_verdict`. -/
def holdsTimely (cfg : Cfg) (h : List Ev) : Bool :=
  scan (ttlUpperOk cfg) [] h && drainReleases h.reverse

/-- (Q, observable consequence) the attached fixed-window quota admits at most `max` per window;
windows are at least `win - 999 ms` long (the start is stored in whole seconds), so any interval
shorter than that meets at most two windows: at most `2 max` requests are allowed within it.
Evaluated by the judge on both sides; not a theorem here (the quota's window arithmetic is the
subject of C01). -/
def allowedSince (older : List Ev) (t span : Nat) : Nat :=
  (older.filter fun | .done _ true t' => decide (t < t' + span) | _ => false).length

def rateOk (cfg : Cfg) (older : List Ev) : Ev → Bool
  | .done _ true t => decide ((allowedSince older t (cfg.win - 1000) + 1 : Int) ≤ 2 * max cfg.qmax 0)
  | _ => true

/-! #### What a tick of the processing loop must admit (reference semantics of the attached quota)

With the production wiring the attached quota is drawn on by the Queue processor only, and only an
admission changes its state (a refused attempt stores nothing); so its state is a function of the
admission instants so far.  At a tick the loop takes the waiter with the least priority number
(earliest queued among equals) while the quota has room.  Used by the judge for the plain
configurations (no quota tree, one processor): a missed admission (room, but the best waiter is
passed over) or a spurious one is a violation.  Not a theorem here. -/

def admissionTimes (older : List Ev) : List Nat :=
  (older.filterMap fun | .done _ true t => some t | _ => none).reverse

def quotaHasRoom (cfg : Cfg) (older : List Ev) (t : Nat) : Bool :=
  (quotaTry cfg ((admissionTimes older).foldl (fun q t' => (quotaTry cfg q t').1) {}) t).2

def bestWaiting (older : List Ev) : Option Nat :=
  ((waiting older).foldl (fun best x =>
    match best with
    | none => some x
    | some b => if x.2.1 ≤ b.2.1 then some x else some b) none).map (·.1)

/-- The admissions the loop's pass at instant `t` must deliver, in order. -/
def expectedAdmissions (cfg : Cfg) : Nat → List Ev → Nat → List Nat
  | 0, _, _ => []
  | fuel + 1, older, t =>
    match bestWaiting older with
    | none => []
    | some i =>
      if quotaHasRoom cfg older t then i :: expectedAdmissions cfg fuel (.done i true t :: older) t else []

/-- The whole property C06 on a history (oldest first). -/
def holds (cfg : Cfg) (h : List Ev) : Bool :=
  holdsSafety cfg h && holdsTimely cfg h && scan (rateOk cfg) [] h

/-! ### The shared queue alone (level L1): every dequeue hands out a minimum -/

inductive QEv
  | enq (id prio : Nat)
  | rm (id : Nat)
  | deq (r : Option Nat)
  | size (n : Nat)
deriving Repr

/-- Entries present after a history (most recent first): (id, priority, rank of its first enqueue
since it was last removed).  `memo` lists (id, rank). -/
structure QView where
  present : List (Nat × Nat × Nat) := []
  memo    : List (Nat × Nat) := []
  next    : Nat := 0

def QView.step (v : QView) : QEv → QView
  | .enq id p =>
    match v.memo.lookup id with
    | some r => { v with present := (id, p, r) :: v.present, next := v.next + 1 }
    | none => { present := (id, p, v.next) :: v.present, memo := (id, v.next) :: v.memo, next := v.next + 1 }
  | .rm id => { v with present := v.present.eraseP (fun e => e.1 == id), memo := v.memo.filter fun e => e.1 != id }
  | .deq (some id) => { v with present := v.present.eraseP (fun e => e.1 == id) }
  | _ => v

/-- `a` may be handed out before `b`: lower priority number, or equal and not enqueued later. -/
def qle (a b : Nat × Nat × Nat) : Bool :=
  if a.2.1 = b.2.1 then decide (a.2.2 ≤ b.2.2) else decide (a.2.1 < b.2.1)

def qEvOk (v : QView) : QEv → Bool
  | .deq none => v.present.isEmpty
  | .deq (some id) => v.present.any fun e => e.1 == id && v.present.all fun o => qle e o
  | .size n => n == v.present.length
  | _ => true

def qHoldsFrom (v : QView) : List QEv → Bool
  | [] => true
  | e :: rest => qEvOk v e && qHoldsFrom (v.step e) rest

/-- The property of the shared queue on a history (oldest first). -/
def qHolds (h : List QEv) : Bool := qHoldsFrom {} h

end LunarVerif.C06
