import LunarVerif.Model.C12Shared
/-
C12 for several caching remedies on the shared plugin cache, observable history only:
  * an early response for a request handled under remedy B (method, URL, selected values, B's number of
    configured paths) is justified by an earlier response that SOME remedy A was entitled to store (body within
    A's MaxRecordSizeBytes) for the same method, URL, selected values and `dots` (number of configured paths, up to 0 ≡ 1 when nothing is selected), carrying this
    status/body/headers, and still fresh by A's TTL: `t₀ ≤ t ≤ t₀ + TTL_A`;
  * every probe: held ≤ tracked ≤ the LARGEST MaxCacheSize of the remedies that have stored so far, and
    tracked ≤ max(previous probe's tracked, MaxCacheSize of the remedies that responded since) — each remedy's own
    limit bounds what IT adds.
`isolated = true` additionally demands A = B's TTL and record limit (the reading "each remedy sees only what its
own configuration allows"); the code does not provide it — see `shared_not_isolated_witness`.
-/
namespace LunarVerif.C12

section
variable {σ : Type} [DecidableEq σ]

def sJustifies (isolated : Bool) (t : Int) (rm : Remedy) (m u : σ) (sel : List (σ × σ))
    (st : Nat) (body : σ) (tag ra : Option σ) (r0 : SRec σ) : Bool :=
  match r0.op with
  | .resp rm0 m0 u0 sel0 r bodyLen _ =>
    decide (m0 = m) && decide (u0 = u) && decide (dots rm0.n sel0 = dots rm.n sel) && decide (sel0 = sel)
    && decide (bodyLen ≤ rm0.cfg.maxRec)
    && decide (r.status = st) && decide (r.body = body) && decide (r.tag = tag) && decide (r.ra = ra)
    && decide (r0.t ≤ t) && decide (t ≤ r0.t + rm0.cfg.ttl)
    && (!isolated || (decide (bodyLen ≤ rm.cfg.maxRec) && decide (t ≤ r0.t + rm.cfg.ttl)))
  | _ => false

/-- largest size limit of the remedies that responded so far (history most recent first) -/
def maxLimit : List (SRec σ) → Int
  | [] => 0
  | r :: older =>
    match r.op with
    | .resp rm _ _ _ _ _ _ => if rm.cfg.maxBytes ≥ maxLimit older then rm.cfg.maxBytes else maxLimit older
    | _ => maxLimit older

/-- What the tracked size may have grown to since the previous probe: the previous probe's reading, or the size
    limit of a remedy that responded since (a remedy never adds to the cache beyond ITS OWN configured size: the
    clause for the configuration that stores).  History most recent first. -/
def growBound : List (SRec σ) → Int
  | [] => 0
  | r :: older =>
    match r.op, r.out with
    | .probe, .probed t _ _ _ => t
    | .resp rm _ _ _ _ _ _, _ => if rm.cfg.maxBytes ≥ growBound older then rm.cfg.maxBytes else growBound older
    | _, _ => growBound older

def sRecOk (isolated : Bool) (r : SRec σ) (older : List (SRec σ)) : Bool :=
  match r.op, r.out with
  | .req rm m u sel, .early st body tag (.raw ra) extra =>
    decide (extra = 0) && older.any (sJustifies isolated r.t rm m u sel st body tag ra)
  | .req _ _ _ _, .noop => true
  | .req _ _ _ _, _ => false
  | .probe, .probed tracked held _ _ =>
    decide ((held : Int) ≤ tracked) && decide (tracked ≤ maxLimit older) && decide (tracked ≤ growBound older)
  | .probe, _ => false
  | _, _ => true

def sholdsRev (isolated : Bool) : List (SRec σ) → Bool
  | [] => true
  | r :: older => sRecOk isolated r older && sholdsRev isolated older

def sholds (isolated : Bool) (h : List (SRec σ)) : Bool := sholdsRev isolated h.reverse

end

end LunarVerif.C12
