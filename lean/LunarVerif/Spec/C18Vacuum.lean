import LunarVerif.Model.C18Vacuum
/-! Observable requirement on `MapVacuum`: a key whose LATEST registration's deadline lies before the
    instant of a completed vacuum pass is no longer in the map (a forgotten registration keeps its map
    entry — a concurrency slot, a transaction's policies anchor — for ever).  `reg` is the ghost table
    of latest deadlines computed from the op lines, `lastPass` the instant of the last completed pass. -/
namespace LunarVerif.C18.Vacuum

def notForgotten (reg : List (String × Nat)) (lastPass : Option Nat) (mapKeys : List String) : Bool :=
  mapKeys.all fun k =>
    match reg.lookup k, lastPass with
    | some dl, some p => !(decide (dl < p))
    | _, _ => true

/-- the requirement on a state of the model (its ghost fields are functions of the op lines only) -/
def holds (s : St) (mapKeys : List String) : Bool := notForgotten s.reg s.lastPass mapKeys

end LunarVerif.C18.Vacuum
