import LunarVerif.Model.C01
/-
Property C01 in observable terms.  Two layers, none of which mentions counters, memos or any
other field of the model state:

* **Level layer** (`tally`, `windowsOf`): over the log (most recent event first) of calls to one
  `quota` object (`quota.Inc` with its `incResult`, `quota.Allowed` with its answer).  Windows are what a reader
  of the log reconstructs from the instants of the charged arrivals: the first one opens `W₀` at its
  (second-truncated) instant, the first charged arrival with `t − start(W_k) ≥ window` opens
  `W_{k+1}`.  Used by the theorems about *all* interleavings.

* **API layer** (`History`, `holds`): what the correspondence harness and a client of the gateway
  see — API calls one at a time, with their instant, their headers and (for `Allowed` / a limiter
  call) the verdict.  Which ancestors an arrival reaches is reconstructed by the fixed-window rule
  itself ("an arrival is charged to a quota whose current window has room and passed on to the parent;
  if a quota further up has no room the charges are given back"); the verdicts are taken from the history.  This is the predicate the judge evaluates on the
  implementation's answers.
-/
namespace LunarVerif.C01

/-- One reconstructed window: its start (unix seconds), what was charged to it (sum of the amounts the
    arrivals count: 1 each for `fixed_window`, the header value for a custom counter) and what the
    requests let through while it was the current window had counted. -/
structure Win where
  start    : Nat
  charged  : Nat
  admitted : Nat
deriving Repr, DecidableEq

/-- Does an arrival at instant `t` fall outside the window that started at second `s`? -/
def outside (win s t : Nat) : Bool := decide (win ≤ t - s * nsPerSec)

/-- An arrival at instant `t` charged `cost`: open a new window or count in the current one (newest first). -/
def chargeWin (win t cost : Nat) : List Win → List Win
  | [] => [⟨t / nsPerSec, cost, 0⟩]
  | w :: ws => if outside win w.start t then ⟨t / nsPerSec, cost, 0⟩ :: w :: ws
               else { w with charged := w.charged + cost } :: ws

/-- A request let through that had counted `amt`: counted in the current window. -/
def admitWin (amt : Nat) : List Win → List Win
  | [] => []
  | w :: ws => { w with admitted := w.admitted + amt } :: ws

/-- A charge of `amt` given back: the current window counts that much less. -/
def refundWin (amt : Nat) : List Win → List Win
  | [] => []
  | w :: ws => { w with charged := w.charged - amt } :: ws

/-! ### Level layer -/

/-- Does a level event concern level `k`? -/
def LEv.at (k : Key) : LEv → Bool
  | .inc k' _ _ _ _ => k' == k
  | .allowed k' _ _ _ => k' == k
  | .dec k' _ => k' == k
  | .refund k' _ _ _ => k' == k
  | .verdict _ _ _ _ => false

def tallyStep (win : Nat) (ws : List Win) : LEv → List Win
  | .inc _ _ t cost .increased => chargeWin win t cost ws
  | .allowed _ _ true amt => admitWin amt ws
  | .refund _ _ true amt => refundWin amt ws
  | _ => ws

/-- Windows of level `k` (newest first) reconstructed from a level log given most recent first. -/
def tally (win : Nat) (k : Key) : List LEv → List Win
  | [] => []
  | e :: older => if LEv.at k e then tallyStep win (tally win k older) e else tally win k older

/-- Window starts (seconds), oldest first. -/
def windowsOf (win : Nat) (k : Key) (log : List LEv) : List Nat :=
  ((tally win k log).map (·.start)).reverse

/-- Consecutive window starts (newest first) are at least `winSec` seconds apart. -/
def spacedBy (winSec : Nat) : List Win → Bool
  | w :: v :: rest => decide (v.start + winSec ≤ w.start) && spacedBy winSec (v :: rest)
  | _ => true

/-! ### API layer -/

/-- One API call with the implementation's answer (`none` for `Inc`/`Dec`). -/
structure Obs where
  op  : Op
  ans : Option Bool
deriving Repr, DecidableEq

abbrev History := List Obs   -- oldest first

abbrev SSt := KMap (List Win)

def SSt.init : SSt := []
/-- The windows of level `k` so far, newest first. -/
def SSt.at (ss : SSt) (k : Key) : List Win := KMap.get [] ss k

/-- Charged arrivals in the window that is current for an arrival at `t` (0 when `t` opens a new one). -/
def curCharged (win t : Nat) : List Win → Nat
  | [] => 0
  | w :: _ => if outside win w.start t then 0 else w.charged

/-- Requests let through in the window that is current for an arrival at `t`. -/
def curAdmitted (win t : Nat) : List Win → Nat
  | [] => 0
  | w :: _ => if outside win w.start t then 0 else w.admitted

/-- An arrival walks up the chain: at each level it is charged what it counts there if the current
    window has room for that much, and only then passed on to the parent; when a quota further up has no
    room the charge is given back.  The flag says whether the arrival ended up charged to the whole chain. -/
def sInc (ss : SSt) : List (QId × QuotaCfg) → Nat → Hdrs → SSt × Bool
  | [], _, _ => (ss, true)
  | (a, c) :: rest, t, h =>
    let k := (a, groupOf c h)
    if c.max < curCharged c.win t (ss.at k) + costOf c h then (ss, false)
    else
      let up := sInc (ss.set k (chargeWin c.win t (costOf c h) (ss.at k))) rest t h
      if up.2 then (up.1, true) else (up.1.set k (refundWin (costOf c h) (up.1.at k)), false)

/-- A request let through counts in the current window of every level of its chain. -/
def sAdmit (ss : SSt) : List (QId × QuotaCfg) → Hdrs → SSt
  | [], _ => ss
  | (a, c) :: rest, h =>
    let k := (a, groupOf c h)
    sAdmit (ss.set k (admitWin (costOf c h) (ss.at k))) rest h

def sStep (cfg : Cfg) (ss : SSt) (o : Obs) : SSt :=
  match o.op.kind, o.ans with
  | .inc, _ => (sInc ss (chain cfg o.op.q) o.op.t o.op.h).1
  | .req, some true => sAdmit (sInc ss (chain cfg o.op.q) o.op.t o.op.h).1 (chain cfg o.op.q) o.op.h
  | .req, _ => (sInc ss (chain cfg o.op.q) o.op.t o.op.h).1
  | .allowed, some true => sAdmit ss (chain cfg o.op.q) o.op.h
  | _, _ => ss

def sRun (cfg : Cfg) (ss : SSt) (h : History) : SSt := h.foldl (sStep cfg) ss

/-- The reconstruction is meaningful when every request id arrives (`Inc` or limiter call) once. -/
def arrivals (h : History) : List Rid :=
  (h.filter (fun o => o.op.kind == .inc || o.op.kind == .req)).map (·.op.r)

def nodupB : List Nat → Bool
  | [] => true
  | x :: xs => !(xs.contains x) && nodupB xs

/-- The calls of one request carry the same headers as its arrival. -/
def consistentFrom (arr : List (Rid × Hdrs)) : History → Bool
  | [] => true
  | o :: rest =>
    if o.op.kind == .inc || o.op.kind == .req then consistentFrom ((o.op.r, o.op.h) :: arr) rest
    else (match arr.lookup o.op.r with
          | some h' => h' == o.op.h
          | none => true) && consistentFrom arr rest

def regular (h : History) : Bool := nodupB (arrivals h) && consistentFrom [] h

/-- Requests handled one at a time: only complete limiter calls. -/
def sequential (h : History) : Bool := h.all (fun o => o.op.kind == .req)

/-- The clock never goes back. -/
def monotone : History → Bool
  | a :: b :: rest => decide (a.op.t ≤ b.op.t) && monotone (b :: rest)
  | _ => true

/-- (i) Bound, checked on the levels the history touches. -/
def boundAt (cfg : Cfg) (ss : SSt) (o : Obs) : Bool :=
  (chain cfg o.op.q).all fun (a, c) => (ss.at (a, groupOf c o.op.h)).all fun w => decide (w.admitted ≤ c.max)

def boundHolds (cfg : Cfg) (h : History) : Bool :=
  let ss := sRun cfg SSt.init h
  h.all (boundAt cfg ss)

/-- (ii) Spacing of the reconstructed windows. -/
def spacedAt (cfg : Cfg) (ss : SSt) (o : Obs) : Bool :=
  (chain cfg o.op.q).all fun (a, c) => spacedBy (c.win / nsPerSec) (ss.at (a, groupOf c o.op.h))

def spacedHolds (cfg : Cfg) (h : History) : Bool :=
  let ss := sRun cfg SSt.init h
  h.all (spacedAt cfg ss)

/-- Some quota of the chain has no room left for what the request counts there, given what it has
    already let through in its current window (for `fixed_window`: it has let `max` requests through). -/
def fullAdmitted (ss : SSt) (ch : List (QId × QuotaCfg)) (t : Nat) (h : Hdrs) : Bool :=
  ch.any fun (a, c) => decide (c.max < curAdmitted c.win t (ss.at (a, groupOf c h)) + costOf c h)

/-- (iii) Exactness along a history: every refused limiter call meets `full` in the state before it. -/
def exactFrom (cfg : Cfg) (full : SSt → List (QId × QuotaCfg) → Nat → Hdrs → Bool) : SSt → History → Bool
  | _, [] => true
  | ss, o :: rest =>
    (if o.op.kind == .req && o.ans == some false
     then full ss (chain cfg o.op.q) o.op.t o.op.h else true)
    && exactFrom cfg full (sStep cfg ss o) rest

/-- Strict reading of the property: refused ⇒ some quota of the chain let `max` through already. -/
def exactStrict (cfg : Cfg) (h : History) : Bool :=
  !sequential h || exactFrom cfg fullAdmitted SSt.init h

/-- Every limiter call and every `Allowed` got a verdict. -/
def answered (h : History) : Bool :=
  h.all fun o => match o.op.kind with
    | .req | .allowed => o.ans.isSome
    | _ => true

/-- The whole property on a history: bound, spacing, strict exactness for one-at-a-time histories.
    Histories in which a request id arrives twice are outside the reconstruction and are not judged. -/
def holds (cfg : Cfg) (h : History) : Bool :=
  !(regular h && monotone h) || (boundHolds cfg h && spacedHolds cfg h && exactStrict cfg h)

/-! ### Engine level, any history (request ids may arrive more than once: live system-flow increments)

A necessary condition for a refusal that needs no reconstruction: a limiter call handled one at a time is
refused only if some quota of its chain has no room — and what that quota has counted in its current window
is at most what all *other* requests that arrived within the last window length count there, whether they
were let through or not (the current window started less than one window length ago).  So a refused call
for which every quota of the chain has room *even if every such arrival had been counted* is refused
wrongly.  (Judged at engine level only; not among the theorems about the model.) -/

/-- What the other requests that arrived in `(t − win, t]` count at level `(a, g)`. -/
def arrivedAmt (cfg : Cfg) (before : History) (a : QId) (c : QuotaCfg) (g : Grp) (r : Rid) (t : Nat) : Nat :=
  before.foldl (fun acc o =>
    if (o.op.kind == .inc || o.op.kind == .req) && o.op.r != r && decide (t < o.op.t + c.win) && decide (o.op.t ≤ t)
        && (chain cfg o.op.q).any (fun p => p.1 == a && groupOf p.2 o.op.h == g)
    then acc + costOf c o.op.h else acc) 0

/-- The refused limiter call `o` had room in every quota of its chain even counting every arrival. -/
def refusedWithRoom (cfg : Cfg) (before : History) (o : Obs) : Bool :=
  o.op.kind == .req && o.ans == some false &&
  (chain cfg o.op.q).all fun (a, c) =>
    decide (arrivedAmt cfg before a c (groupOf c o.op.h) o.op.r o.op.t + costOf c o.op.h ≤ c.max)

/-- No limiter call of the history (oldest first) is refused with room everywhere; `before` = what precedes. -/
def arrivalExactFrom (cfg : Cfg) : History → History → Bool
  | _, [] => true
  | before, o :: rest => !refusedWithRoom cfg before o && arrivalExactFrom cfg (before ++ [o]) rest

/-- The observable history of a run of the model: every call paired with the model's answer. -/
def observe (cfg : Cfg) : St → List Op → History
  | _, [] => []
  | st, o :: os => ⟨o, (apiStep cfg st o).2⟩ :: observe cfg (apiStep cfg st o).1 os

/-- Configuration as the loader admits it: windows are whole seconds (≥ 1 s), a parent precedes its
    children.  (Limits written in the file are positive; the effective limit of an
    `allocation_percentage` child may be 0.) -/
def wellFormed (cfg : Cfg) : Bool :=
  (List.range cfg.quotas.length).all fun i =>
    match cfg.quotas[i]? with
    | none => true
    | some c => decide (0 < c.win) && decide (c.win % nsPerSec = 0)
                && (match c.parent with | none => true | some p => decide (p < i))

end LunarVerif.C01
