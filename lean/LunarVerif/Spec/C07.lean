import LunarVerif.Model.C07
/-
Property C07 over what can be observed at the fold sites: the action values handed to the fold
(in order), the action that comes out, and the SPOE variables produced for it.  The data types
`ReqAct`, `RespAct`, `SVar` of the model file are the vocabulary of these observations; nothing
of `reqPrio` / `respPrio` / `merge` / `encode*` is used here.
-/
namespace LunarVerif.C07

/-! ### Views -/

def ReqAct.isEarly : ReqAct → Bool
  | .early .. => true
  | _ => false

def ReqAct.isNoop : ReqAct → Bool
  | .noop => true
  | _ => false

/-- A request modification: headers only, whole request, or generated request. -/
def ReqAct.isMod : ReqAct → Bool
  | .modHdr .. | .modReq .. | .genReq .. => true
  | _ => false

/-- The header edits an action carries (`HeadersToSet`; for an early response its `Headers`). -/
def ReqAct.hdrs : ReqAct → Hdrs
  | .noop => []
  | .early _ _ h => h
  | .modHdr h => h
  | .modReq h .. => h
  | .genReq h .. => h

/-- `HeadersToRemove` is not part of the SPOE encoding (it is applied engine-side only). -/
def ReqAct.eraseRm : ReqAct → ReqAct
  | .genReq h _ b => .genReq h [] b
  | a => a

def RespAct.isNoop : RespAct → Bool
  | .noop => true
  | _ => false

def RespAct.isMod : RespAct → Bool
  | .modResp .. => true
  | _ => false

def RespAct.isRetry : RespAct → Bool
  | .retry .. => true
  | _ => false

def RespAct.hdrs : RespAct → Hdrs
  | .noop => []
  | .modResp h .. => h
  | .retry h => h

/-- Equality of actions up to the order in which a header map is listed. -/
def ReqAct.sim : ReqAct → ReqAct → Bool
  | .noop, .noop => true
  | .early s b h, .early s' b' h' => s == s' && b == b' && h.isPerm h'
  | .modHdr h, .modHdr h' => h.isPerm h'
  | .modReq h ho p q b, .modReq h' ho' p' q' b' =>
    h.isPerm h' && ho == ho' && p == p' && q == q' && b == b'
  | .genReq h rm b, .genReq h' rm' b' => h.isPerm h' && rm == rm' && b == b'
  | _, _ => false

def RespAct.sim : RespAct → RespAct → Bool
  | .noop, .noop => true
  | .modResp h b s, .modResp h' b' s' => h.isPerm h' && b == b' && s == s'
  | .retry h, .retry h' => h.isPerm h'
  | _, _ => false

/-! ### Reading a header dump back (split lines at `\n`, each line at its first `:`) -/

/-- Pieces between newlines (the piece after the last newline included). -/
def linesOf : List Char → List (List Char)
  | [] => [[]]
  | c :: cs =>
    if c = '\n' then [] :: linesOf cs
    else match linesOf cs with
      | l :: ls => (c :: l) :: ls
      | [] => [[c]]

def splitColon : List Char → Option (List Char × List Char)
  | [] => none
  | c :: r =>
    if c = ':' then some ([], r)
    else match splitColon r with
      | some (k, v) => some (c :: k, v)
      | none => none

def parseDumpChars (cs : List Char) : List (List Char × List Char) :=
  (linesOf cs).filterMap splitColon

def parseHeaders (s : String) : Hdrs :=
  (parseDumpChars s.toList).map fun kv => (String.ofList kv.1, String.ofList kv.2)

/-- Header maps that are valid HTTP: every name an RFC 7230 token, no CR/LF in a value. -/
def hdrsValid (h : Hdrs) : Bool :=
  h.all fun kv => validName kv.1 && !kv.2.toList.contains '\r' && !kv.2.toList.contains '\n'

/-- The action as the proxy is meant to see it: headers that are not valid HTTP are dropped
    (names) or cleaned (line breaks in values), see `sanitizeHdrs`; valid maps are unchanged. -/
def ReqAct.sanitized : ReqAct → ReqAct
  | .noop => .noop
  | .early s b h => .early s b (sanitizeHdrs h)
  | .modHdr h => .modHdr (sanitizeHdrs h)
  | .modReq h ho p q b => .modReq (sanitizeHdrs h) ho p q b
  | .genReq h rm b => .genReq (sanitizeHdrs h) rm b

def RespAct.sanitized : RespAct → RespAct
  | .noop => .noop
  | .modResp h b s => .modResp (sanitizeHdrs h) b s
  | .retry h => .retry (sanitizeHdrs h)

/-! ### Bytes

Go strings are byte strings and need not be valid UTF-8.  A model `String` stands for a byte
string: the character with code `b < 256` stands for the byte `b` (`ofBytes` / `toBytes`; the
driver decodes the percent-encoded bytes of the line protocol exactly this way).  The byte-level
reading of the header dump: -/

abbrev Bytes := List UInt8

def byteChar (b : UInt8) : Char := Char.ofNat b.toNat
def charByte (c : Char) : UInt8 := UInt8.ofNat c.toNat
def ofBytes (bs : Bytes) : String := String.ofList (bs.map byteChar)
def toBytes (s : String) : Bytes := s.toList.map charByte

/-- RFC 7230 `tchar` as a byte. -/
def isTcharB (b : UInt8) : Bool :=
  (0x30 ≤ b && b ≤ 0x39) || (0x41 ≤ b && b ≤ 0x5A) || (0x61 ≤ b && b ≤ 0x7A) ||
  [0x21, 0x23, 0x24, 0x25, 0x26, 0x27, 0x2A, 0x2B, 0x2D, 0x2E, 0x5E, 0x5F, 0x60, 0x7C, 0x7E].contains b

def validNameB (k : Bytes) : Bool := k != [] && k.all isTcharB

/-- Sanitising on bytes: entries whose name is not a token are dropped, the bytes 0x0D and 0x0A are
    dropped from values, everything else is kept byte for byte. -/
def sanitizeB (h : List (Bytes × Bytes)) : List (Bytes × Bytes) :=
  (h.filter fun kv => validNameB kv.1).map fun kv => (kv.1, kv.2.filter fun b => b != 0x0D && b != 0x0A)

/-- The dump of a list of entries, byte for byte: `name 0x3A value 0x0A` each; `0x0A` alone if none. -/
def dumpSpecB : List (Bytes × Bytes) → Bytes
  | [] => [0x0A]
  | p :: ps => (p :: ps).flatMap fun kv => kv.1 ++ 0x3A :: kv.2 ++ [0x0A]

/-- `DumpHeaders` on byte strings (through the model). -/
def dumpB (h : List (Bytes × Bytes)) : Bytes :=
  toBytes (dumpHeaders (h.map fun kv => (ofBytes kv.1, ofBytes kv.2)))

/-- Reading a dump back, on byte strings. -/
def parseB (bs : Bytes) : List (Bytes × Bytes) :=
  (parseHeaders (ofBytes bs)).map fun kv => (toBytes kv.1, toBytes kv.2)

/-! ### Decoding the SPOE variables -/

def getVar (sc : Scope) (name : String) (vs : List SVar) : Option SVal :=
  (vs.find? fun v => v.scope == sc && v.name == name).map (·.val)

def getText (sc : Scope) (name : String) (vs : List SVar) : String :=
  match getVar sc name vs with
  | some (.str s) => s
  | some (.bytes s) => s
  | _ => ""

/-- What the proxy can read out of the variables of a request action. -/
def decodeReq (vs : List SVar) : Option ReqAct :=
  if vs.isEmpty then some .noop
  else if getVar .txn "return_early_response" vs == some (.bool true) then
    match getVar .txn "status_code" vs, getVar .txn "response_body" vs,
          getVar .txn "response_headers" vs with
    | some (.int s), some (.bytes b), some (.str d) => some (.early s b (parseHeaders d))
    | _, _, _ => none
  else if getVar .req "modify_request" vs == some (.bool true) then
    match getVar .req "request_headers" vs with
    | some (.str d) =>
      some (.modReq (parseHeaders d) (getText .req "request_host" vs) (getText .req "request_path" vs)
        (getText .req "request_query_params" vs) (getText .req "request_body" vs))
    | _ => none
  else if getVar .req "generate_request" vs == some (.bool true) then
    match getVar .req "request_headers" vs, getVar .req "request_body" vs with
    | some (.str d), some (.bytes b) => some (.genReq (parseHeaders d) [] b)
    | _, _ => none
  else
    match vs with
    | [⟨.req, "request_headers", .str d⟩] => some (.modHdr (parseHeaders d))
    | _ => none

def decodeResp (vs : List SVar) : Option RespAct :=
  if vs.isEmpty then some .noop
  else if getVar .res "modify_response" vs == some (.bool true) then
    match getVar .res "response_headers" vs, getVar .res "response_body" vs,
          getVar .res "status_code" vs with
    | some (.str d), some (.str b), some (.int s) => some (.modResp (parseHeaders d) b s)
    | _, _, _ => none
  else if getVar .res "retry_request" vs == some (.bool true) then
    match getVar .res "retry_headers" vs with
    | some (.str d) => some (.retry (parseHeaders d))
    | _ => none
  else none

/-! ### The combination rule -/

def firstEarly : List ReqAct → Option ReqAct
  | [] => none
  | a :: as => if a.isEarly then some a else firstEarly as

/-- The value the LAST map of the list that binds `k` gives to it. -/
def lastWriter (k : String) : List Hdrs → Option String
  | [] => none
  | h :: rest =>
    match lastWriter k rest with
    | some v => some v
    | none => h.lookup k

/-- `out` is the union of `ins`, later maps winning: checked on every key in sight. -/
def hdrsUnion (ins : List Hdrs) (out : Hdrs) : Bool :=
  (out.map (·.1) ++ ins.flatMap (·.map (·.1))).all fun k => out.lookup k == lastWriter k ins

/-- Request side: `ins` = the actions given so far (in order), `out` = the combined action. -/
def reqFoldOk (ins : List ReqAct) (out : ReqAct) : Bool :=
  match firstEarly ins with
  | some e => out.sim e
  | none =>
    !out.isEarly && (out.isNoop == ins.all (·.isNoop)) && (out.isNoop || out.isMod) &&
    hdrsUnion (ins.map (·.hdrs)) out.hdrs

/-- The variables carry exactly the (sanitized) action: kind, status, body, path …, headers. -/
def reqEncOk (out : ReqAct) (enc : List SVar) : Bool :=
  match decodeReq enc with
  | some d => d.sim out.sanitized.eraseRm
  | none => false

def reqHolds (ins : List ReqAct) (out : ReqAct) (enc : List SVar) : Bool :=
  reqFoldOk ins out && reqEncOk out enc

/-- Response side, whole sequence: `ins` = the actions given (in order), `out` = the combined one. -/
def respRuleOk (ins : List RespAct) (out : RespAct) : Bool :=
  (out.isNoop == ins.all (·.isNoop)) &&
  -- modifications merge their header edits, retries likewise
  (let ks := ins.filter (!·.isNoop)
   (!(ks.all (·.isMod)) || ((ks.isEmpty || out.isMod) && hdrsUnion (ins.map (·.hdrs)) out.hdrs)) &&
   (!(ks.all (·.isRetry)) || ((ks.isEmpty || out.isRetry) && hdrsUnion (ins.map (·.hdrs)) out.hdrs)))

/-- Response side, one fold step: `ins` = the actions given so far INCLUDING the one just
    combined (`ins.getLast?`), `prev` = the combined action before this step, `out` = after. -/
def respFoldOk (ins : List RespAct) (prev out : RespAct) : Bool :=
  -- a no-op never displaces anything
  (match ins.getLast? with
   | some a => !a.isNoop || out.sim prev
   | none => true) &&
  respRuleOk ins out

def respEncOk (out : RespAct) (enc : List SVar) : Bool :=
  match decodeResp enc with
  | some d => d.sim out.sanitized
  | none => false

def respHolds (ins : List RespAct) (prev out : RespAct) (enc : List SVar) : Bool :=
  respFoldOk ins prev out && respEncOk out enc

/-! ### One observed case and the judge predicate -/

/-- At a fold SITE (`getSPOEReqActions` / `getSPOERespActions`) only the variables are visible:
    what they decode to must obey the combination rule for the (sanitized) actions handed in. -/
def reqSiteHolds (ins : List ReqAct) (enc : List SVar) : Bool :=
  match decodeReq enc with
  | some d => reqFoldOk (ins.map (·.sanitized)) d
  | none => false

def respSiteHolds (ins : List RespAct) (enc : List SVar) : Bool :=
  match decodeResp enc with
  | some d => respRuleOk (ins.map (·.sanitized)) d
  | none => false

/-! ### Legacy (policies) mode sites: `DispatchOnRequest` / `DispatchOnResponse`

Observed: the request's header map (and, from the earlier transactions of the case, what the
authentication plugins have cached), the configured remedies (in order) and the variables that
come back.  A transaction's variables may carry only what ITS OWN remedies answered.  `scriptReq` / `scriptResp` (environment section of the model file) say what each
configured remedy answers; nothing of the fold is used. -/

/-- Header edits of the response-side modifications, in order. -/
def respEdits (as : List RespAct) : List Hdrs :=
  as.filterMap fun a => match a with | .modResp h _ _ => some h | _ => none

/-- The variables of `DispatchOnRequest` obey the rule for the remedies' answers.  When a remedy
    answered the request itself, the first such answer wins UNCHANGED in status and body; its
    header map may only gain the header edits of the response-side modifications that run on
    that answer (`obtainModifiedEarlyResponse`), later edit winning. -/
def legacyReqHolds (env : ReqEnv) (rs : List Remedy) (enc : List SVar) : Bool :=
  let ins := scriptReq env rs
  match decodeReq enc with
  | none => false
  | some d =>
    match firstEarly ins with
    | none => reqFoldOk (ins.map (·.sanitized)) d
    | some (.early s b h) =>
      (match d with
       | .early s' b' h' =>
         s' == s && b' == b && hdrsUnion ((h :: respEdits (scriptResp s rs)).map sanitizeHdrs) h'
       | _ => false)
    | some _ => false

def legacyRespHolds (status : Int) (rs : List Remedy) (enc : List SVar) : Bool :=
  respSiteHolds (scriptResp status rs) enc

/-- One observation: a fold step (action and variables visible) or a call of a fold site. -/
inductive Obs where
  | req (ins : List ReqAct) (out : ReqAct) (enc : List SVar)
  | resp (ins : List RespAct) (prev out : RespAct) (enc : List SVar)
  | reqSite (ins : List ReqAct) (enc : List SVar)
  | respSite (ins : List RespAct) (enc : List SVar)
  | legacyReq (env : ReqEnv) (rs : List Remedy) (enc : List SVar)
  | legacyResp (status : Int) (rs : List Remedy) (enc : List SVar)

def Obs.holds : Obs → Bool
  | .req ins out enc => reqHolds ins out enc
  | .resp ins prev out enc => respHolds ins prev out enc
  | .reqSite ins enc => reqSiteHolds ins enc
  | .respSite ins enc => respSiteHolds ins enc
  | .legacyReq env rs enc => legacyReqHolds env rs enc
  | .legacyResp st rs enc => legacyRespHolds st rs enc

def holds (h : List Obs) : Bool := h.all Obs.holds

end LunarVerif.C07
