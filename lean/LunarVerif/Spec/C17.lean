import LunarVerif.Model.C17
/-
Property C17 over the OBSERVABLE history only: per response, which processor settings / counter key
(flows mode) or which sequence, first-flag and in/out of the retry conditions (policy mode), and the
answer (retry + cool-down, failed, NoOp).  No counter map, cache or timer appears here.
-/
namespace LunarVerif.C17

/-! ### flows mode (histories most recent first) -/

/-- Number of `retry` answers on counter key `k` since the last `failed` on `k` (or the start). -/
def retriesSince (k : Key) : List FEvent → Nat
  | [] => 0
  | e :: older =>
    if e.key = k then
      match e.out with
      | .failed => 0
      | .retry _ => retriesSince k older + 1
    else retriesSince k older

/-- The newest event given everything before it: the `(n+1)`-th consecutive call on a key is
    answered `retry` (with the configured cool-down) while `n+1 ≤ attempts`, and `failed` after
    that — and the count restarts after a `failed`. -/
def fEventOk (e : FEvent) (older : List FEvent) : Bool :=
  let n := retriesSince e.key older
  if n + 1 > e.cfg.attempts then e.out == .failed
  else e.out == .retry (waitSec e.cfg (n + 1))

def fholdsRev : List FEvent → Bool
  | [] => true
  | e :: older => fEventOk e older && fholdsRev older

/-- Flows-mode property on a history given oldest first. -/
def fholds (h : List FEvent) : Bool := fholdsRev h.reverse

/-- Number of `retry` answers on key `k` in a list of events. -/
def countRetryOn (k : Key) (l : List FEvent) : Nat :=
  (l.filter fun e => decide (e.key = k) && (e.out != .failed)).length

/-- No `failed` answer on key `k` in a list of events. -/
def noFailedOn (k : Key) (l : List FEvent) : Bool :=
  l.all fun e => !(decide (e.key = k) && (e.out == .failed))

/-- Engine mode (status filter in front of the processor): a response outside the retry conditions
    never reaches the processor and never carries a retry action; one inside always reaches it;
    the retry action is present exactly on `retry`. -/
def gateOk (inRange skipped act isRetry : Bool) : Bool :=
  (inRange != skipped) && (act == isRetry) && (!skipped || !isRetry)

/-! ### policy mode (histories oldest first): a monitor with a per-sequence retry budget -/

/-- One monitor step; `none` = the answer is not allowed.
    * outside the retry conditions the answer must be NoOp, and the sequence's budget is dropped;
    * an in-range NoOp drops the budget — and is not allowed on a *first* response (`ID = SequenceID`)
      when `A ≥ 1`: a sequence that was forgotten (exhausted, ended or expired) starts afresh;
    * a retry header is allowed on a *first* response (it may open a budget of `A`, this answer
      being the first unit) when `A ≥ 1`, otherwise only while budget is left. -/
def pmon (A : Int) (b : AMap Nat) (e : PEvent) : Option (AMap Nat) :=
  let cur := (lookup e.seq b).getD 0
  if !e.inRange then
    (if e.out == .noop then some (erase e.seq b) else none)
  else match e.out with
    | .noop =>
      -- the first response of a (new life of a) sequence is always granted its retries
      if e.first && decide (1 ≤ A) then none else some (erase e.seq b)
    | .retry _ =>
      if e.first && decide (1 ≤ A) then some (insert e.seq (max (cur - 1) (A.toNat - 1)) b)
      else if cur > 0 then some (insert e.seq (cur - 1) b)
      else none

def pholdsFrom (A : Int) : AMap Nat → List PEvent → Bool
  | _, [] => true
  | b, e :: es => match pmon A b e with
    | none => false
    | some b' => pholdsFrom A b' es

/-- Policy-mode property for configured attempts `A`. -/
def pholds (A : Int) (h : List PEvent) : Bool := pholdsFrom A [] h

def countRetryHdr (s : Key) (l : List PEvent) : Nat :=
  (l.filter fun e => decide (e.seq = s) && (e.out != .noop)).length

/-- in-range *first* responses of sequence `s` (each may open one budget) -/
def countFirstIn (s : Key) (l : List PEvent) : Nat :=
  (l.filter fun e => decide (e.seq = s) && e.first && e.inRange).length

end LunarVerif.C17
