import LunarVerif.Spec.C04
import LunarVerif.Model.C04Ref
/-
Meaning of a flow REFERENCE for the reference interpreter: the referenced flow's connection list of the same
direction is SPLICED IN at the point of the reference, giving a plain (reference-free) connection list on
which `Spec/C04.lean` works unchanged.

  `flow g (at: end) → processor P`   (g runs first, then P):  P is the provisional entry; g's connections
        without its stream entries, every `→ stream end` of g redirected to P; the entry becomes g's entry;
  `processor P (cond) → flow g (at: start)`  (P's output `cond` continues into g):  g's connections without
        its stream entries; then the connection `P (cond) → g's entry`;
  the entry of a spliced list is, as everywhere, the target of its last `stream start → processor` connection.

Both rules are the same in the request and in the response direction.
-/
namespace LunarVerif.C04
open LunarVerif.FlowGraph LunarVerif.FlowExec

def isEntryConn (c : Conn) : Bool :=
  match c.src, c.dst with
  | .stream _ a, .proc _ _ => a == "start"
  | _, _ => false

/-- `Y → stream end` becomes `Y → p` -/
def redirectEnd (p : String) (c : Conn) : Conn :=
  match c.src, c.dst with
  | .proc y cond, .stream _ a => if a == "end" then ⟨.proc y cond, .proc p ""⟩ else c
  | _, _ => c

/-- what one connection contributes to the spliced list; `sub g` = the spliced list of flow `g` -/
def spliceConn (sub : String → Option (List Conn)) (c : RConn) : Option (List Conn) :=
  match c.src, c.dst with
  | .proc f cond, .proc t tc => some [⟨.proc f cond, .proc t tc⟩]
  | .stream n a, .proc t tc => some [⟨.stream n a, .proc t tc⟩]
  | .proc f cond, .stream n a => some [⟨.proc f cond, .stream n a⟩]
  | .stream _ _, .stream _ _ => some []
  | .flow g a, .proc p tc =>
    if a == "end" then
      (sub g).bind fun G =>
        (entry G).map fun x =>
          [⟨.stream g "start", .proc p tc⟩] ++ (G.filter (!isEntryConn ·)).map (redirectEnd p) ++
          [⟨.stream g "start", .proc x ""⟩]
    else none
  | .proc p cond, .flow g a =>
    if a == "start" then
      (sub g).bind fun G =>
        (entry G).map fun x => G.filter (!isEntryConn ·) ++ [⟨.proc p cond, .proc x ""⟩]
    else none
  | _, _ => none

def spliceList (sub : String → Option (List Conn)) : List RConn → Option (List Conn)
  | [] => some []
  | c :: cs =>
    match spliceConn sub c, spliceList sub cs with
    | some a, some b => some (a ++ b)
    | _, _ => none

/-- the spliced connection list of direction `d` of flow `g` (`none`: a reference that cannot be resolved,
    a referenced direction without entry, or recursion deeper than `fuel`) -/
def spliceFlow (reps : List RFlowRep) (d : Dir) : Nat → String → Option (List Conn)
  | 0, _ => none
  | fuel + 1, g =>
    match findRep reps g with
    | none => none
    | some rg => spliceList (spliceFlow reps d fuel) (rg.conns d)

def spliceDir (reps : List RFlowRep) (fuel : Nat) (rep : RFlowRep) (d : Dir) : Option (List Conn) :=
  spliceList (spliceFlow reps d fuel) (rep.conns d)

/-- reference view of one declaration -/
def convR (reps : List RFlowRep) (fuel : Nat) (d : FlowDeclR) : SFlow :=
  ⟨d.rep.name, (spliceDir reps fuel d.rep .req).getD [], (spliceDir reps fuel d.rep .res).getD []⟩

/-- Spec view of a configuration with references: the flows that take part, in engine order. -/
def specCfgR (c : CfgR) (order : List String) : SCfg :=
  let fl := sortByR order (c.flows.filter yamlOkR) ++ (sysDecls chainConns c.quotas).map FlowDecl.toR
  { start := (fl.filter (·.kind == .sysStart)).map (convR c.reps c.fuel)
    user := (fl.filter (·.kind == .user)).map (convR c.reps c.fuel)
    finish := (fl.filter (·.kind == .sysEnd)).map (convR c.reps c.fuel) }

/-- Finding F04f as a decidable class of configurations: some flow direction is built by the engine
    differently from the spliced list — the engine connects the end of a referenced flow to what follows only
    in the REQUEST direction (`connectProcessorToStream`), and connects it to the CURRENT root also for
    `processor → flow(start)` references. -/
def refDiverges (c : CfgR) : Bool :=
  c.decls.any fun d =>
    [Dir.req, Dir.res].any fun dir =>
      match flattenDir (c.ptypes ++ sysPTypes) c.reps c.fuel d.rep dir with
      | .ok s => some s.acc != spliceDir c.reps c.fuel d.rep dir
      | .error _ => false

end LunarVerif.C04
