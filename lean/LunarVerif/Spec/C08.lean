import LunarVerif.Model.C08
/-
Property C08 over what an outside observer sees of ONE configuration request:
the request itself (endpoint, method, payload, whether a transaction arrived during the switch),
the HTTP status and the phase named by the response body, the configuration tree before/after,
and the verdicts of probe transactions before / during (at the publish points) / after.
`V` is the type of a probe-verdict vector (the model uses the loaded flow contents, the judge the
status codes answered by the real engine); only equality of verdict vectors is used.
Nothing of the handler's internals appears here.
-/
namespace LunarVerif.C08

structure Obs (V : Type) where
  ep : Endpoint
  methodPut : Bool
  items : Option (List Item)    -- the decoded payload (`none`: undecodable / null body)
  gate : Bool
  status : Nat
  phase : Phase
  before : Disk
  after : Disk
  probesBefore : V
  probesAfter : V
  mid : List V

/-- Same path set, same bytes. -/
def sameDisk (a b : Disk) : Bool :=
  (a.keys ++ b.keys).all (fun p => decide (a.get p = b.get p))

/-- Last write to `p` in a list of writes. -/
def lastWrite : List (Path × Bytes) → Path → Option Bytes
  | [], _ => none
  | (q, c) :: rest, p =>
    match lastWrite rest p with
    | some x => some x
    | none => if q = p then some c else none

/-- What the payload asks for (`metrics` is the USER metrics file). Only for decodable payloads. -/
def payloadWrites (items : List Item) : List (Path × Bytes) :=
  items.filterMap (fun i => i.content.map (fun c => (i.path, c)))

/-- Content of `p` after a successful request. `/configuration` overlays the payload on the tree,
    `/apply_flows` replaces everything in the scope of the file-system operation by the payload. -/
def expectedGet (ep : Endpoint) (items : List Item) (before : Disk) (p : Path) : Option Bytes :=
  match lastWrite (payloadWrites items) p with
  | some c => some c
  | none =>
    match ep with
    | .configuration => before.get p
    | .applyFlows => if p.covered then none else before.get p

def itemPaths (items : List Item) : List Path := items.map (·.path)

/-- (success, disk): the tree is the payload applied. -/
def successDisk {V : Type} (o : Obs V) : Bool :=
  match o.items with
  | none => false
  | some items =>
    (o.after.keys ++ o.before.keys ++ itemPaths items).all
      (fun p => decide (o.after.get p = expectedGet o.ep items o.before p))

/-- The property for one request. -/
def holds {V : Type} [DecidableEq V] (o : Obs V) : Bool :=
  if o.status ≠ 200 then
    -- (A) rejected / failed: disk byte for byte as before, running flows behave as before
    sameDisk o.after o.before && decide (o.probesAfter = o.probesBefore) &&
    o.mid.all (fun m => decide (m = o.probesBefore))
  else
    -- (B) accepted: every transaction is served entirely by the old or entirely by the new
    -- configuration; the tree is the payload applied
    o.mid.all (fun m => decide (m = o.probesBefore) || decide (m = o.probesAfter)) &&
    successDisk o

/-! ### The one class of requests for which the code is still known to break the property
    (it does not look at the state after the request). -/

/-- The failed request had already switched engines once: two switch points were reached
    (first reload: Initialize succeeded, engine switched, then HAProxy / metrics failed; second
    reload after the restore). Between the two switches traffic is served by the REJECTED
    configuration. -/
def switchedThenFailed {V : Type} (o : Obs V) : Bool :=
  o.status ≠ 200 && decide (2 ≤ o.mid.length)

/-- The known-finding classifier (`none` = outside every known class). -/
def finding {V : Type} (o : Obs V) : Option String :=
  if switchedThenFailed o then some "F08f" else none

/-- Steps of `Restore()` and of the part of the reload after it that precedes the switch: a fault
    there is a second fault on top of the one being rolled back, which no in-place protocol can
    undo. The property is stated (and judged) for fault plans without such steps. -/
def Step.inRestore : Step → Bool
  | .restoreRead | .restoreStore _ => true
  | .validate r | .initialize r => decide (r = 2)
  | _ => false

/-- A payload never names the built-in metrics file (the JSON has no field for it). -/
def itemsWF (items : List Item) : Prop := Path.defaultMetrics ∉ itemPaths items

def bodyItems : Body → Option (List Item)
  | .payload items => some items
  | _ => none

def Req.WF (req : Req) : Prop :=
  match req.body with
  | .payload items => itemsWF items
  | _ => True

/-- The observation of one model step, probing the paths `probes`. -/
def observe (probes : List Path) (st : State) (req : Req) (r : Result) : Obs (List (Option Bytes)) :=
  { ep := req.ep, methodPut := req.methodPut, items := bodyItems req.body, gate := req.gate,
    status := r.status, phase := r.phase, before := st.disk, after := r.disk,
    probesBefore := probes.map st.engine.probe, probesAfter := probes.map r.engine.probe,
    mid := r.mid.map (fun e => probes.map e.probe) }

end LunarVerif.C08
