import LunarVerif.Model.C05
/-
Property C05 over the OBSERVABLE history only: what the loader answered for a configuration
directory and what every transaction against it answered.

  accepted  ⇒  (a) the live load succeeded,
               (b) every transaction ended with actions (`ok n`) or an error (`err n`) after
                   n ≤ B(cfg) processor executions — no crash, no panic, no timeout;
  and loading itself ended with accept or reject — it neither crashed, panicked nor hung.

`B` is computed from the graphs the connection lists describe (no validation involved): per direction 1 + D + D² + … + D^N (`N` the number of nodes, `D` the largest
out-degree), summed over all flows and both directions.
-/
namespace LunarVerif.C05
open LunarVerif.FlowGraph LunarVerif.FlowExec

inductive LoadObs where
  | accept (liveOk : Bool)
  | reject
  | panic
  | crash
  | timeout
deriving DecidableEq, Repr, Inhabited

inductive TxnObs where
  | ok (n : Nat)        -- returned actions after n processor executions
  | err (n : Nat)       -- returned an error after n processor executions
  | done                -- returned (transaction with arbitrary content; executions not counted)
  | notLoaded
  | panic
  | crash
  | timeout
deriving DecidableEq, Repr, Inhabited

structure Obs where
  load : LoadObs
  txns : List TxnObs
deriving DecidableEq, Repr, Inhabited

/-- 1 + d + d² + … + d^(n-1): executions of a walk of depth ≤ n and out-degree ≤ d -/
def bnd (d : Nat) : Nat → Nat
  | 0 => 0
  | n + 1 => 1 + d * bnd d n

def maxDeg (g : DirGraph) : Nat := g.nodes.foldl (fun m n => max m n.edges.length) 0

def dirBound (g : DirGraph) : Nat := bnd (maxDeg g) (depthOf g)

def flowBound (f : Flow) : Nat := dirBound f.req + dirBound f.res

/-- B: bound on the processor executions of one transaction -/
def bound (fls : List Flow) : Nat := (fls.map flowBound).sum

/-- the graphs the YAML connection lists describe, built WITHOUT the loader's validation (so that the
    bound does not depend on the loader's verdict): reference-free flows through the shared
    `buildConnections`, flows with references through `buildX` -/
def rawFlow (pts : List PType) (fs : List XFlow) (f : XFlow) : Option Flow :=
  if f.refFree then
    match buildConnections pts f.rep.procs .req {} f.rep.req, buildConnections pts f.rep.procs .res {} f.rep.res with
    | .ok rq, .ok rs => some ⟨f.name, rq, rs⟩
    | _, _ => none
  else
    match buildX pts fs f.name .req (buildFuel fs) [] f.name {} f.req, buildX pts fs f.name .res (buildFuel fs) [] f.name {} f.res with
    | .ok s1, .ok s2 => some ⟨f.name, s1.g, s2.g⟩
    | _, _ => none

def rawFlows (c : Cfg) : List Flow := c.flows.filterMap (rawFlow c.ptypes c.flows)

/-- B(cfg) -/
def cfgBound (c : Cfg) : Nat :=
  match load c with
  | .accept fls => bound fls         -- the loaded graphs
  | _ => bound (rawFlows c)          -- the model refuses `c`: the graphs its connection lists describe

def txnOk (b : Nat) : TxnObs → Bool
  | .ok n => n ≤ b
  | .err n => n ≤ b
  | .done => true
  | _ => false

/-- The property. -/
def holds (c : Cfg) (o : Obs) : Bool :=
  match o.load with
  | .accept live => live && o.txns.all (txnOk (cfgBound c))
  | .reject => o.txns.all (· == .notLoaded)
  | _ => false

/-! No defect class is open: F05a, F05b, F05c are repaired (`fixes/F05{a,b,c}.patch`); their former
    witnesses are regression cases in `corpus/C05/regress-F05*.ops`. -/

/-- the flows of a configuration that use no flow reference (scope of `rawFlows_eq`) -/
def refFree (c : Cfg) : Bool := c.flows.all (·.refFree)

/-! ### what the model observes -/

def modelLoadObs (c : Cfg) : LoadObs :=
  match load c with
  | .accept _ => .accept true
  | .reject _ => .reject
  | .crash => .crash
  | .hang => .timeout

def resObs (r : TxnRes) : TxnObs :=
  match r.err with
  | none => .ok (steps r.trace)
  | some .fuel => .crash
  | some _ => .err (steps r.trace)

def modelTxnObs (c : Cfg) (t : Oracle × Dir) : TxnObs :=
  match load c with
  | .accept fls => resObs (runTxn c fls t.1 t.2)
  | _ => .notLoaded

def modelObs (c : Cfg) (txns : List (Oracle × Dir)) : Obs :=
  ⟨modelLoadObs c, txns.map (modelTxnObs c)⟩

end LunarVerif.C05
