/-
C18 (b): lockset discipline over the fact base regenerated from /repo on every run
(`Generated/C18Facts.lean`, written by harness/go/cmd/extract; rules in
harness/go/internal/lockfacts/lockfacts.go).  Core Lean only.

An access is a read or write of a field of a shared engine struct inside a method of that struct,
with the struct's own mutexes syntactically held at that point.
-/
namespace LunarVerif.C18

structure Lock where
  name : String
  excl : Bool            -- Lock() (true) or RLock() (false)
deriving Repr, DecidableEq

structure Access where
  struct : String        -- "<pkg>.<Type>"
  field  : String
  func   : String        -- method; `m$go` / `m$returned` = closure started with `go` / returned by m
  write  : Bool
  locks  : List Lock
  atomic : Bool          -- through sync/atomic
  init   : Bool          -- inside an init-only function (object not yet shared)
  region : Nat := 0      -- critical-section number inside `func` (0 = no lock held; ≥ 1000 = inside a
                         -- callee of the same receiver that locks for itself)
deriving Repr, DecidableEq

/-- `a` is protected by mutex `m`: holds it, exclusively if it writes. -/
def protectedBy (m : String) (a : Access) : Bool :=
  a.locks.any fun l => l.name == m && (!a.write || l.excl)

/-- Lockset (Eraser) discipline for the accesses of ONE field: after initialisation either nobody
    writes, or every access is atomic, or one mutex protects every access. -/
def fieldOk (as : List Access) : Bool :=
  let live := as.filter (!·.init)
  !(live.any (·.write)) || live.all (·.atomic) ||
  (match live with
   | [] => true
   | a :: _ => a.locks.any fun l => live.all (protectedBy l.name))

def sameField (s f : String) (a : Access) : Bool := a.struct == s && a.field == f

def fieldsOf (facts : List Access) : List (String × String) :=
  (facts.map fun a => (a.struct, a.field)).eraseDups

/-- Fields for which the discipline fails. -/
def violating (facts : List Access) : List (String × String) :=
  (fieldsOf facts).filter fun (s, f) => !fieldOk (facts.filter (sameField s f))

/-- Every violating field is listed in `allowed` (recorded findings + reviewed exemptions). -/
def disciplineHolds (facts : List Access) (allowed : List (String × String)) : Bool :=
  (violating facts).all fun sf => allowed.contains sf

/-- Reviewed exemptions: synchronisation the syntactic walk cannot see (documented in DESIGN.md). -/
def exempt : List (String × String) := [
  -- read in Wait() after waitGroup.Wait(): ordered by the WaitGroup (Done happens-before Wait returns)
  ("processorqueue.Request", "result"),
  -- written and read only by the processor's own `process` goroutine (drainQueue / tryProcessQueueItems)
  ("processorqueue.queueProcessor", "inDrainMode")
]

/-- Recorded OPEN findings (known_findings.json): unsynchronised shared fields of the current tree.
    F18b, F18c, F18d, F18e, F18f, F18g, F18h were repaired by `fix:` commits and are no longer listed: they must satisfy the
    discipline now. -/
def knownRacy : List (String × String × String) := [
  ("F18a", "lunarcontext.lunarContext", "transactionalContext")
]

def allowed : List (String × String) := exempt ++ knownRacy.map fun (_, s, f) => (s, f)

def findingOf (s f : String) : Option String :=
  (knownRacy.find? fun (_, s', f') => s' == s && f' == f).map (·.1)

/-- Atomicity facts the interleaving models of C01/C02/C06/C09/C10/C11/C12 rely on
    (DESIGN.md §4.4): every post-initialisation USE of the field (read or write; for pointer and map
    fields a read of the field is a use of what it points to) happens with the named mutex held —
    exclusively when writing.  (struct, field, mutex) -/
def requiredCoverage : List (String × String × String × List String) := [
  ("quotaresource.quota", "allowedByReqID", "mutex", ["Inc", "refund", "Allowed", "Dec"]),
  ("quotaresource.quota", "chargedByReqID", "mutex", ["Inc", "refund", "Allowed", "Dec"]),
  ("quotaresource.concurrentStrategy", "allowedReq", "mutex", []),
  -- the plain Get/Set/Pop/Exists delegates rely on the context's own lock; the read-modify-write
  -- operations of the quota strategies must be atomic under the state's mutex:
  ("lunarcontext.memoryState", "contextMemory", "mutex",
     ["AtomicIncWindow", "AtomicWindowReset", "AtomicWindowResetIn", "AtomicSAddWithMaxValuesAllowed",
      "AtomicIncr", "AtomicDecrBy", "SRem", "SMembers", "SCard"]),
  -- get-or-create of the per-key state/queue must be ONE critical section (look up, create, store):
  ("limit.RateLimitState", "groupsStateByLimiter", "mutex", ["getLimiterState"]),
  ("concurrentmap.ConcurrentMap", "simpleMap", "mutex", ["LookupOrAssign"]),
  ("quotaresource.fixedWindow", "quotaGroups", "getQuotaLock", ["getQuota"]),
  ("remedies.StrategyBasedQueuePlugin", "queues", "queuesMutex", ["OnRequest"]),
  ("limit.singleRateLimitState", "counter", "mutex", ["TryToIncrement"]),
  ("limit.singleRateLimitState", "windowEndTime", "mutex", []),
  ("limit.singleRateLimitState", "spillover", "mutex", []),
  ("queue.DelayedPriorityQueue", "currentWindowCounter", "mutex", []),
  ("queue.DelayedPriorityQueue", "requestCounts", "mutex", []),
  ("queue.DelayedPriorityQueue", "queue", "mutex", []),
  -- the locked section of Enqueue (window update, serve waiters, take a slot | reject | push) and the
  -- roll-over pass are ONE critical section each (step granularity of Model/C10: `enq`, `roll`):
  ("queue.DelayedPriorityQueue", "currentWindowCounter", "mutex", ["Enqueue", "process"]),
  ("queue.DelayedPriorityQueue", "queue", "mutex", ["Enqueue", "process"]),
  ("queue.DelayedPriorityQueue", "currentWindowEndTime", "mutex", ["Enqueue"]),
  ("config.TxnPoliciesAccessor", "txnVersions", "mutex", []),
  ("utils.MemoryCache", "cache", "mutex", []),
  -- removal (Del and every TTL sleeper) looks the entry up, subtracts its size and deletes it in ONE section:
  ("utils.MemoryCache", "cache", "mutex", ["clearKey"]),
  ("utils.MemoryCache", "currentCacheSize", "mutex", ["clearKey"]),
  ("routing.StreamsData", "stream", "streamLock", []),
  ("processorqueue.Request", "state", "inProcessMutex", []),
  ("processorqueue.RequestWatcher", "requests", "requestsMapMutex", []),
  ("processorqueue.RequestWatcher", "requestsExpireAt", "expireMapMutex", [])
]

/-- All accesses of one function lie in ONE critical section (a read-modify-write split over two
    lock/unlock pairs — e.g. by calling a self-locking getter first — is check-then-act, not atomic). -/
def oneRegion (as : List Access) : Bool :=
  match as with
  | [] => true
  | a :: rest => a.region != 0 && rest.all (·.region == a.region)

def covered (facts : List Access) (r : String × String × String × List String) : Bool :=
  let (s, f, m, fns) := r
  let as := ((facts.filter (sameField s f)).filter (!·.init)).filter
              fun a => fns.isEmpty || fns.contains a.func
  !as.isEmpty && as.all (protectedBy m) &&
  fns.all fun fn => oneRegion (as.filter (·.func == fn))

end LunarVerif.C18
