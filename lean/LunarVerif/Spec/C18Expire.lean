import LunarVerif.Model.C18Expire
/-! The observable requirement on the clean-up goroutine: whenever the store is inspected, every
    request that was stored and not discarded since, and whose LATEST store has not reached its
    deadline, still holds its value.  (C18: a background goroutine never clears per-transaction state
    that a running transaction still uses.) -/
namespace LunarVerif.C18.Expire

def liveKept (s : St) (presentKeys : List String) : Bool :=
  s.want.all fun e => !(decide (s.now < e.2)) || presentKeys.contains e.1

end LunarVerif.C18.Expire
