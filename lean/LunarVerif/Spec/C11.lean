import LunarVerif.Model.C11
/-
Property C11 over the *observable* history only: answers of `GetTxnPoliciesData` (instant,
transaction, data returned) and applied policy updates (instant, data).  Nothing of the accessor's
internal state (version numbers, pins, queues, vacuum runs) appears here.
Histories are given most-recent-first (`e :: older`).
-/
namespace LunarVerif.C11

/-- The policies in force after a history: data of the latest applied update, else the initial data. -/
def curData (d0 : Nat) : List Ev → Nat
  | [] => d0
  | .update _ d :: _ => d
  | .lookup _ _ _ :: older => curData d0 older

/-- The OLDEST lookup of transaction `x` in the history (instant and answer): "its request was first seen". -/
def firstLookup : List Ev → Nat → Option (Nat × Option Nat)
  | [], _ => none
  | e :: older, x =>
    match firstLookup older x with
    | some p => some p
    | none =>
      match e with
      | .lookup t y r => if y = x then some (t, r) else none
      | .update _ _ => none

/-- Conditions on the newest event given everything observed before it (`ttl` = retention period). -/
def eventOk (ttl : Nat) (d0 : Nat) (e : Ev) (older : List Ev) : Bool :=
  match e with
  | .update _ _ => true
  | .lookup t x r =>
    match firstLookup older x with
    -- a transaction that starts now sees the policies in force now (never the empty policies)
    | none => r == some (curData d0 older)
    -- within the retention period the transaction keeps seeing what its first lookup saw
    | some (t1, r1) => r.isSome && (!decide (t ≤ t1 + ttl) || r == r1)

/-- The whole property, history most recent first. -/
def holdsRev (ttl : Nat) (d0 : Nat) : List Ev → Bool
  | [] => true
  | e :: older => eventOk ttl d0 e older && holdsRev ttl d0 older

/-- The property on a history given oldest first; the retention period is the pin ttl. -/
def holds (cfg : Cfg) (h : List Ev) : Bool := holdsRev cfg.pinTTL cfg.d0 h.reverse

/-- No lookup of `x` occurs in `h`. -/
def noLookupOf (x : Nat) (h : List Ev) : Prop := ∀ t r, Ev.lookup t x r ∉ h

/-- No applied update occurs in `h`. -/
def noUpdate (h : List Ev) : Prop := ∀ t d, Ev.update t d ∉ h

/-- Queue entries are in `vacuumAt` order. -/
def sortedQ (q : List (Nat × Nat)) : Prop := q.Pairwise (fun a b => a.1 ≤ b.1)

end LunarVerif.C11
