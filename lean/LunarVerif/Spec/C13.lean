import LunarVerif.Model.C13
import LunarVerif.Spec.UrlMatch
/-
Property C13 over OBSERVABLE data only: the declared endpoints (in declaration order), the request
(method, URL) and what the gateway reports for it — which policy was applied (its declared URL, the
remedy / diagnosis names), the normalised URL and the extracted path parameters.  No trie, no store.

Reading that is formalised (per request, `reqOk`):
  (S) sound          a policy is applied only if it was declared for the request's method and its declared
                     pattern `matches` the request URL (`Spec.UrlMatch`);
  (M) most specific  the applied policy's pattern is at least as specific (`specLE`) as every declared
                     pattern that matches the URL (a trailing `*` matches any remainder INCLUDING none) —
                     except patterns that were `passedOver` AND are `shadowed`: the applied pattern ends in
                     `*`, the other pattern follows the same trie path up to that `*`, continues there, and
                     further down has a parameter where a third declared pattern has the literal equal to the
                     request's segment (the lookup takes the literal, never backtracks, and only falls back to
                     the deepest wildcard it has seen);
  (P) params         every extracted (name, value) is `{name}` in the applied pattern at a position where the
                     request has segment `value`, and every parameter position of the pattern is reported
                     (`expectedParams`);
  (N) normalised     the reported normalised URL IS the applied declared pattern (which matches, by S);
  (D) dispatcher     the remedy answering through `DispatchOnRequest` is entitled to (global, or S);
  (G) globals        global remedies/diagnoses are the enabled global ones; `shouldDiagnose` is their disjunction
                     with the applied endpoint diagnoses.
and per case (`orderOk`): (O) the answers do not depend on the declaration order.

Duplicated declarations (same method, same pattern) are one policy whose remedies and diagnoses are those of
all of them in the order they are written (`group`); the reported policy URL is the text of one of them.

Classes in which the code still violates this (decidable classifiers = excluded hypotheses of the
`_partial` theorems = finding ids named by the judge).  Repaired and no longer excluded: F13a, F13e
(fixes/F13a.patch, F13e.patch, builder) and F13b, F13d, F13f and the wildcard half of F13c (fixes/F13b.patch,
F13d.patch, F13f.patch, F13c-wildcard.patch, trie).
  F13c `boundaryMix`    host/path boundary, literal/parameter half: trie children are keyed by VALUE only, so a
                        declared pattern can follow the URL across `/` (`a.com/x/y` declared after the host
                        `a.com.x` answers for `a.com.x/y`); `cfgBoundaryMix`: ... follows another declared URL
  F13g `crossMatch`     ACCEPTANCE depends on the order: `checkForDuplicates` looks the new URL up as a request,
                        so `x/{id}` then `x/me` with remedies of one type is rejected and the reverse accepted
                        (judged only: the theorems speak about declaration lists that build)
-/
namespace LunarVerif.C13
open LunarVerif.UrlTree LunarVerif.UrlMatch

/-! ### observables -/

/-- What the implementation (or the model) reports for one request. -/
structure Answer where
  hasValue : Bool
  pol : Option String                 -- declared URL of the applied policy (`EndpointPolicy.URL`)
  rem : List String                   -- endpoint-scoped remedies applied (enabled ones, in order)
  diag : List String
  grem : List String
  gdiag : List String
  sd : Bool                           -- shouldDiagnose
  norm : String
  normParts : List Part               -- `norm`, split
  params : List (String × String)
deriving Repr

structure Req where
  method : String
  url : String
  parts : List Part
  ans : Answer
deriving Repr

/-- An early response obtained through `runner.DispatchOnRequest`: the remedy that answered. -/
structure Disp where
  method : String
  url : String
  parts : List Part
  first : String
  resp : Nat := 0                     -- remedies active on the response leg of the early answer
deriving Repr

/-- Credentials seen leaving the engine on a forwarded request: the authentication remedies they belong to. -/
structure Auth where
  method : String
  url : String
  parts : List Part
  keys : List String
deriving Repr

/-- One `build` (a declaration order) with the requests answered by that tree. -/
structure Round where
  eps : List Endpoint
  built : String
  reqs : List Req
  disps : List Disp := []
  auths : List Auth := []
  glob : Option Globals := none       -- globals in force when they differ from the declared ones (after a revert)
  mode : String := "full"             -- "full" | "free" (after the diagnosis-free revert)
deriving Repr

/-- Answer of the raw trie `Lookup` (L1). -/
structure LookAnswer where
  isMatch : Bool
  value : Option Nat
  norm : String
  normParts : List Part
  params : List (String × String)
deriving Repr

structure Verdict where
  finding : String
  msg : String

def enabledRemedies (e : Endpoint) : List String := (e.remedies.filter (·.enabled)).map (·.name)
def enabledDiags (e : Endpoint) : List String := (e.diags.filter (·.enabled)).map (·.name)

/-- The model's selection as an `Answer` (what the driver prints, before rendering). -/
def observe (pt : PTree) (g : Globals) (method : String) (us : List Part) : Answer :=
  let s := select pt method us
  { hasValue := s.hasValue
    pol := s.policy.map (·.url)
    rem := (getRemedies pt g method us).1
    diag := (getDiagnoses pt g method us).1
    grem := (getRemedies pt g method us).2
    gdiag := (getDiagnoses pt g method us).2
    sd := shouldDiagnose pt g method us
    norm := renderParts s.norm
    normParts := s.norm
    params := s.params }

/-! ### excluded classes -/

/-- F13g (acceptance only): two declared endpoints with different patterns, one (as the trie keeps it: cut
    after its first `*`) laxly matching the other's URL. -/
def crossMatch (eps : List Endpoint) : Bool :=
  eps.any fun e1 => eps.any fun e2 => e1.parts != e2.parts && matchesLax (trunc e1.parts) e2.parts

/-- F13c: some declared pattern follows the URL across the host/path boundary. -/
def boundaryMix (eps : List Endpoint) (u : Url) : Bool := eps.any fun e => !flagsOK e.parts u

/-- `flagsOK` without the `*` clause: since fixes/F13c-wildcard.patch a wildcard child is a fallback only for a URL
    part on its own side of the host/path boundary, so a `*` no longer carries a pattern across the boundary; what
    is left of F13c is the literal/parameter half (trie children keyed by value only). -/
def flagsOKlp : Pattern → Url → Bool
  | [], _ => true
  | _ :: _, [] => true
  | p :: ps, u :: us =>
    match p.seg with
    | .wild => true
    | .lit s => if u.seg == .lit s then u.host == p.host && flagsOKlp ps us else true
    | .par _ => u.host == p.host && flagsOKlp ps us

/-- F13c as the JUDGE classifies it (literal/parameter half only).  It is narrower than the hypothesis
    `boundaryMix` of the `_partial` theorems (`boundaryMix = false` implies `boundaryMixLP = false`, not the
    converse): where only a `*` sits on the other side of the boundary the judge demands the property of the
    implementation although no theorem is proved there yet — stricter, never masking. -/
def boundaryMixLP (eps : List Endpoint) (u : Url) : Bool := eps.any fun e => !flagsOKlp e.parts u

def cfgBoundaryMixLP (eps : List Endpoint) : Bool := eps.any fun e => boundaryMixLP eps e.parts

/-- F13c among the declarations themselves: a declared pattern follows another declared URL across `/`. -/
def cfgBoundaryMix (eps : List Endpoint) : Bool := eps.any fun e => boundaryMix eps e.parts

/-! ### the property, per request -/

/-- The parameter map pattern `p` extracts from `u`: one Go-map assignment `name := segment` per `{name}`
    position, left to right (a repeated name keeps the LAST segment; a URL segment that is itself written
    `{x}` binds nothing, as in `lookupNode`). -/
def expectedFrom : List (String × String) → Pattern → Url → List (String × String)
  | ps, p :: q, u :: us =>
    match p.seg with
    | .par n => expectedFrom (if u.seg.isPar then ps else setParam n u.seg.text ps) q us
    | _ => expectedFrom ps q us
  | ps, _, _ => ps

def expectedParams (p : Pattern) (u : Url) : List (String × String) := expectedFrom [] p u

/-- (P) both ways: every reported `(name, value)` is `{name}` in the pattern at a position where the request
    has segment `value`, AND every binding the pattern's parameter positions give is reported (no parameter
    is dropped). -/
def paramsOk (p : Pattern) (u : Url) (params : List (String × String)) : Bool :=
  (params.all fun kv => (p.zip u).any fun pu => pu.1.seg == .par kv.1 && pu.2.seg.text == kv.2) &&
  (expectedParams p u).all fun kv => params.contains kv

/-- The declarations for one method and pattern, in the order they are written: ONE policy. -/
def group (eps : List Endpoint) (method : String) (p : Pattern) : List Endpoint :=
  eps.filter fun x => x.method == method && x.parts == p

/-- (S): `e` is one of the declarations applied, and is entitled to be: declared for this method with a
    pattern that matches; what is applied is exactly the enabled remedies/diagnoses of its group. -/
def soundFor (eps : List Endpoint) (method : String) (u : Url) (a : Answer) (e : Endpoint) : Bool :=
  e.method == method && «matches» e.parts u &&
  (group eps method e.parts).any (fun x => a.pol == some x.url) &&
  a.rem == (group eps method e.parts).flatMap enabledRemedies &&
  a.diag == (group eps method e.parts).flatMap enabledDiags

/-- The patterns that continue along trie edge `k`, each without its first part. -/
def stepP (k : Key) (pats : List Pattern) : List Pattern :=
  pats.filterMap fun p => match p with
    | a :: rest => if a.seg.key = k then some rest else none
    | [] => none

def segIsLit : Seg → Bool
  | .lit _ => true
  | _ => false

/-- `shadowed pats q u`: walking `u` along `q`, at some position `q` has a PARAMETER where another declared
    pattern on the same trie path has the LITERAL equal to the request's segment.  The lookup prefers the
    literal child and never comes back: `q` cannot be reached although it may match. -/
def shadowed : List Pattern → Pattern → Url → Bool
  | pats, a :: q, u :: us =>
    (a.seg.isPar && segIsLit u.seg && pats.any (fun r => match r with
      | b :: _ => b.seg == u.seg
      | [] => false)) ||
    shadowed (stepP a.seg.key pats) q us
  | _, _, _ => false

/-- (M) the applied pattern `e` is at least as specific as every declared pattern that matches — except a
    pattern that was passed over in favour of the applied `*` BECAUSE it is shadowed (no backtracking). -/
def mostSpecificFor (eps : List Endpoint) (u : Url) (e : Endpoint) : Bool :=
  eps.all fun e' => !(«matches» e'.parts u) || specLE e'.parts e.parts ||
    (passedOver e.parts e'.parts && shadowed (eps.map (·.parts)) e'.parts u)

def globalsOk (g : Globals) (a : Answer) : Bool :=
  a.grem == (g.remedies.filter (·.enabled)).map (·.name) &&
  a.gdiag == (g.diags.filter (·.enabled)).map (·.name) &&
  a.sd == (g.diags.any (·.enabled) || !a.diag.isEmpty)

def soundOk (eps : List Endpoint) (method : String) (u : Url) (a : Answer) : Bool :=
  match a.pol with
  | none => a.rem.isEmpty && a.diag.isEmpty
  | some _ => eps.any (soundFor eps method u a)

def mostSpecificOk (eps : List Endpoint) (method : String) (u : Url) (a : Answer) : Bool :=
  match a.pol with
  | none => true
  | some _ => eps.any fun e => soundFor eps method u a e && mostSpecificFor eps u e

def paramsOkA (eps : List Endpoint) (method : String) (u : Url) (a : Answer) : Bool :=
  match a.pol with
  | none => true
  | some _ => eps.any fun e => soundFor eps method u a e && paramsOk e.parts u a.params

def normOk (eps : List Endpoint) (method : String) (u : Url) (a : Answer) : Bool :=
  match a.pol with
  | none => true
  | some _ => eps.any fun e => soundFor eps method u a e && a.normParts == e.parts

/-- (D) the remedy that answered through the dispatcher is an enabled global one, or an enabled remedy of an
    endpoint declared for this method whose pattern matches the URL. -/
def dispOk (eps : List Endpoint) (g : Globals) (method : String) (u : Url) (first : String) : Bool :=
  g.remedies.any (fun r => r.enabled && r.name == first) ||
  eps.any fun e => e.method == method && «matches» e.parts u &&
    e.remedies.any (fun r => r.enabled && r.name == first)

/-- (D) credentials: every authentication remedy whose account's credentials leave the engine with the request
    is an enabled global one or an enabled remedy of an endpoint declared for the request's method whose pattern
    matches the URL (the remedy of ANOTHER method of the same pattern is not). -/
def authOk (eps : List Endpoint) (g : Globals) (method : String) (u : Url) (keys : List String) : Bool :=
  keys.all fun k => dispOk eps g method u k

/-- (D) response leg of an early answer: the remedies run on the synthesised response are those of the SAME
    endpoint policy the request's (method, URL) selects (answer `a`), plus the global ones — observed through
    the retry remedies, the ones that act on a response (at most one acts: `resp` is 1 iff one is selected). -/
def respLegOk (eps : List Endpoint) (g : Globals) (method : String) (u : Url) (a : Answer) (resp : Nat) : Bool :=
  match a.pol with
  | none => resp == (if retryCount g.remedies > 0 then 1 else 0)
  | some _ => eps.any fun e => soundFor eps method u a e &&
      resp == (if retryCount ((group eps method e.parts).flatMap (·.remedies)) + retryCount g.remedies > 0
               then 1 else 0)

/-- The whole per-request property. -/
def reqOk (eps : List Endpoint) (g : Globals) (method : String) (u : Url) (a : Answer) : Bool :=
  soundOk eps method u a && mostSpecificOk eps method u a && paramsOkA eps method u a &&
  normOk eps method u a && globalsOk g a

/-! ### order independence, per case -/

/-- Two answers to one request under two declaration orders agree: same policy or none, the same remedies and
    diagnoses (as multisets: duplicated declarations run "in the order they are written"), same normalised
    URL and parameters. -/
def sameAnswer (a b : Answer) : Bool :=
  a.hasValue == b.hasValue && a.pol.isSome == b.pol.isSome && a.rem.isPerm b.rem && a.diag.isPerm b.diag &&
  a.grem == b.grem && a.gdiag == b.gdiag && a.sd == b.sd && a.normParts == b.normParts && a.params == b.params

/-- Both orders are accepted, or both rejected. -/
def statusAgree (r1 r2 : Round) : Bool := (r1.built == "ok") == (r2.built == "ok")

/-- Requests of `r2` get the answers they got in `r1` (when both rounds built). -/
def roundsAgree (r1 r2 : Round) : Bool :=
  r1.built != "ok" || r2.built != "ok" ||
    r2.reqs.all fun q2 => r1.reqs.all fun q1 =>
      !(q1.method == q2.method && q1.parts == q2.parts) || sameAnswer q1.ans q2.ans

/-! ### verdicts (used by the judge) -/

def classifyReq (eps : List Endpoint) (u : Url) : String :=
  if boundaryMixLP eps u then "F13c" else "-"

def classifyNorm (eps : List Endpoint) (u : Url) : String := classifyReq eps u

def reqVerdicts (g0 : Globals) (r : Round) : List Verdict :=
  let g := r.glob.getD g0
  if r.built != "ok" then [] else
  r.reqs.filterMap fun q =>
    let a := q.ans
    let who := s!"{q.method} {q.url} pol={a.pol.getD "-"} norm={a.norm}"
    if !soundOk r.eps q.method q.parts a then some ⟨classifyReq r.eps q.parts, "unsound " ++ who⟩
    else if !mostSpecificOk r.eps q.method q.parts a then some ⟨classifyReq r.eps q.parts, "not-most-specific " ++ who⟩
    else if !paramsOkA r.eps q.method q.parts a then some ⟨classifyNorm r.eps q.parts, "params " ++ who⟩
    else if !normOk r.eps q.method q.parts a then
      some ⟨classifyNorm r.eps q.parts, "normalised-url-not-the-declared-pattern " ++ who⟩
    else if !globalsOk g a then some ⟨"-", "globals " ++ who⟩
    else none

def dispVerdicts (g0 : Globals) (r : Round) : List Verdict :=
  let g := r.glob.getD g0
  if r.built != "ok" then [] else
  r.disps.filterMap fun d =>
    if !dispOk r.eps g d.method d.parts d.first then
      some ⟨classifyReq r.eps d.parts, s!"dispatcher-applied-unentitled-remedy {d.method} {d.url} first={d.first}"⟩
    else
      -- the response leg, against what the request leg selected for the same (method, URL) in this round
      match r.reqs.find? (fun q => q.method == d.method && q.parts == d.parts) with
      | some q =>
        if respLegOk r.eps g d.method d.parts q.ans d.resp then none
        else some ⟨classifyReq r.eps d.parts,
          s!"early-response-leg-ran-another-policy {d.method} {d.url} resp={d.resp} pol={q.ans.pol.getD "-"}"⟩
      | none => none

def authVerdicts (g0 : Globals) (r : Round) : List Verdict :=
  let g := r.glob.getD g0
  if r.built != "ok" then [] else
  r.auths.filterMap fun a =>
    if authOk r.eps g a.method a.parts a.keys then none
    else some ⟨classifyReq r.eps a.parts,
      s!"credentials-of-an-unentitled-remedy {a.method} {a.url} keys={String.intercalate "," a.keys}"⟩

def classifyOrder (eps : List Endpoint) : String :=
  -- two `*` patterns that differ only in the side of the boundary still share ONE wildcard node (last wins):
  -- among the declarations the `*` clause stays part of the class
  if cfgBoundaryMix eps then "F13c" else "-"

def orderVerdicts : List Round → List Verdict
  | [] => []
  | r1 :: rest =>
    (rest.flatMap fun r2 =>
      if r1.mode != r2.mode then [] else
      (if statusAgree r1 r2 then [] else
        [⟨(if crossMatch r1.eps then "F13g" else "-"), s!"acceptance-order-dependent built={r1.built}/{r2.built}"⟩]) ++
      (if roundsAgree r1 r2 then [] else
        [⟨classifyOrder r1.eps, "order-dependent"⟩])) ++ orderVerdicts rest

def caseVerdicts (g : Globals) (rounds : List Round) : List Verdict :=
  (rounds.flatMap (reqVerdicts g)) ++ (rounds.flatMap (dispVerdicts g)) ++ (rounds.flatMap (authVerdicts g)) ++
    orderVerdicts rounds

/-- Per case: everything observed satisfies the property. -/
def holds (g : Globals) (rounds : List Round) : Bool := (caseVerdicts g rounds).isEmpty

/-! ### L1: the raw trie -/

def trieSoundOk (ins : List (List Part × Nat)) (u : Url) (a : LookAnswer) : Bool :=
  match a.value with
  | none => true
  | some v => ins.any fun e => e.2 == v && «matches» e.1 u

def trieVerdicts (ins : List (List Part × Nat)) (looks : List (List Part × LookAnswer)) : List Verdict :=
  looks.filterMap fun (u, a) =>
    if trieSoundOk ins u a then none
    else
      let cls := if ins.any (fun e => !flagsOKlp e.1 u) then "F13c" else "-"
      some ⟨cls, s!"trie-lookup-unsound v={a.value.getD 0} norm={a.norm}"⟩

end LunarVerif.C13
