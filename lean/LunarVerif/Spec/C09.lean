import LunarVerif.Model.C09
/-
Property C09 over the OBSERVABLE history only: a list of limiter events
(key, instant, window data that applied, passed?).  No counter, stored window end or stored spill-over
appears here.  The grid window of instant `t` for window size `W` is index `t / W`
(an instant exactly on a grid boundary belongs to the NEW window).

Reading formalised (one event `e`, `older` = earlier events of the SAME key, most recent first):

    e passes  ⇔  #{ earlier passes of the key in e's grid window }  <  cap (allowed + spill-over) ratio

(earlier passes = those since the key's last window-size change, if any)

which is the bound ("a pass never makes the window exceed its cap") and sequential exactness
("a request is rejected only if its key's share of the current grid window is used up") at once.
`cap` is a parameter: the judge uses the exact rational `capExact` ("scaled by the percentage, rounded
up"); the implementation (after fix F09b) computes it in integer units of 1e-8 (`capUnits`), which is the
same for percentages with up to six decimals (theorem `capUnits_eq_capExact`).

Spill-over is an opt-in feature the property text does not mention; its reference semantics here is the
documented one, per grid window: when a key enters a new grid window of an unchanged window size (and it is
not the key's first request) its spill-over becomes 0 on the renew day, else grows by `allowed − passes in
the previously active window`; a window-size change leaves it as it is; a request whose configuration has the
feature switched off sees none (and drops what was collected); it is added to `allowed` before scaling.
-/
namespace LunarVerif.C09

/-- "allowed × percentage, rounded up", exactly: ⌈ total · num / (den · 100) ⌉. -/
def capExact : CapFn := fun total r =>
  match r with
  | .one => total
  | .pct n d => -((-(total * (n : Int))) / ((d : Int) * 100))

section
variable {κ : Type} [DecidableEq κ]

/-- Passes inside grid window `idx` (window size `W`) of a single-key history. -/
def passesInWin (W idx : Nat) : List (Event κ) → Nat
  | [] => 0
  | e :: older => (if e.pass && e.t / W == idx then 1 else 0) + passesInWin W idx older

/-- Events of a single-key history (most recent first) handled under window size `W` without interruption. -/
def regimeW (W : Nat) (l : List (Event κ)) : List (Event κ) := l.takeWhile (fun p => p.wd.W == W)

/-- The key's earlier events handled under the same window size as `e`, i.e. since the key's last
    window-size change (counting starts afresh when the configured window length changes). -/
def regime (e : Event κ) (older : List (Event κ)) : List (Event κ) := regimeW e.wd.W older

/-- Reference spill-over in force for the most recent event of a single-key history (most recent first):
    none while the feature is off for the request's configuration. -/
def refSpill : List (Event κ) → Int
  | [] => 0
  | e :: older =>
    if !e.wd.spillOn then 0
    else match older with
    | [] => 0
    | p :: _ =>
      if p.wd.W != e.wd.W then refSpill older                      -- window size changed: carried over as is
      else if e.t / e.wd.W == p.t / e.wd.W then refSpill older     -- same grid window
      else if dayOfMonth e.t == e.wd.renewDay then 0
      else refSpill older + e.wd.allowed - passesInWin e.wd.W (p.t / e.wd.W) (regime e older)

/-- The newest event `e` of a key against the key's earlier events. -/
def eventOk (cap : CapFn) (e : Event κ) (older : List (Event κ)) : Bool :=
  e.pass == decide ((passesInWin e.wd.W (e.t / e.wd.W) (regime e older) : Int)
                      < cap (e.wd.allowed + refSpill (e :: older)) e.wd.ratio)

/-- Single-key history, most recent first. -/
def holdsKeyRev (cap : CapFn) : List (Event κ) → Bool
  | [] => true
  | e :: older => eventOk cap e older && holdsKeyRev cap older

/-- Events of key `k`, most recent first. -/
def keyHist (k : κ) (h : List (Event κ)) : List (Event κ) := (h.filter (fun e => e.key == k)).reverse

/-- The whole property on a history given oldest first: every key's own history is right
    (keys never influence each other: only the key's own events enter `eventOk`). -/
def holds (cap : CapFn) (h : List (Event κ)) : Bool :=
  h.all fun e => holdsKeyRev cap (keyHist e.key h)

/-! ### Classes of inputs (decidable, on the requests that the history echoes) -/

/-- the clock never goes back -/
def monotone (rs : List (Req κ)) : Bool := decide (rs.Pairwise (fun a b => a.t ≤ b.t))

/-- every window size is positive (a zero window makes the code divide by zero; the plugin layer never
    turns such a request into a limiter event) -/
def posW (rs : List (Req κ)) : Bool := rs.all fun r => decide (0 < r.wd.W)

def admissible (rs : List (Req κ)) : Bool := monotone rs && posW rs

def inputs (h : List (Event κ)) : List (Req κ) := h.map Event.req

/-- The domain of the theorems, as a predicate on the observable history: monotone clock, positive windows.
    (Before the repairs fix F09a / fix F09c it also excluded boundary instants and window-size changes.) -/
def clean (h : List (Event κ)) : Bool := admissible (inputs h)

/-- percentages with at most six decimals (`num·10^6/den` is an integer): the code's 1e-8 ratio units
    represent them exactly -/
def sixDecimals : Ratio → Bool
  | .one => true
  | .pct n d => d != 0 && (n * 1000000) % d == 0

end

/-! ### Plugin level: from (request, answer) pairs to limiter events -/

/-- The limiter event an observer reconstructs from one plugin request and the answer it got:
    requests that resolve to a (remedy, group) key with a non-zero window are events, `noop` = passed,
    early response = rejected.  Requests answered by a default behaviour are not limiter events. -/
def observe1 (p : PReq) (a : Answer) : Option (Event Key) :=
  match resolve p.remedy p.hdrs with
  | .limited key wd =>
    if wd.W == 0 then none
    else match a with
      | .noop => some ⟨key, p.t, wd, true⟩
      | .early _ => some ⟨key, p.t, wd, false⟩
      | _ => none
  | .direct _ => none

def observe : List PReq → List Answer → List (Event Key)
  | p :: ps, a :: as => (match observe1 p a with | some e => [e] | none => []) ++ observe ps as
  | _, _ => []

/-- The limiter requests a plugin request sequence amounts to. -/
def limitedReqs : List PReq → List (Req Key)
  | [] => []
  | p :: ps =>
    (match resolve p.remedy p.hdrs with
     | .limited key wd => if wd.W == 0 then [] else [⟨key, p.t, wd⟩]
     | .direct _ => []) ++ limitedReqs ps

/-- The answer the configuration alone dictates, if any (default behaviours), and the status every
    rejection must carry. -/
def answerOk (p : PReq) (a : Answer) : Bool :=
  match resolve p.remedy p.hdrs with
  | .direct (.noop) => a == .noop
  | .direct (.early s) => a == .early s
  | .direct _ => true
  | .limited _ wd => wd.W == 0 || a == .noop || a == .early (effStatus p.remedy)

/-! ### Groups as the allocation table distinguishes them -/

/-- an event with another key, everything observable unchanged -/
def rekey {κ κ' : Type} (f : κ → κ') (e : Event κ) : Event κ' := ⟨f e.key, e.t, e.wd, e.pass⟩

/-- Both identities of a plugin-level event: `code` = the counter key `buildGroupID` builds,
    `spec` = (remedy, group header value exactly as the allocation table matches it). -/
structure PKey where
  code : Key
  spec : Key
deriving DecidableEq, Repr

def observe1P (p : PReq) (a : Answer) : Option (Event PKey) :=
  (observe1 p a).map (rekey fun k => ⟨k, specKey p.remedy p.hdrs⟩)

def observeP : List PReq → List Answer → List (Event PKey)
  | p :: ps, a :: as => (match observe1P p a with | some e => [e] | none => []) ++ observeP ps as
  | _, _ => []

/-- What the judge evaluates: the limiter events keyed by (remedy, group) as the ALLOCATION TABLE tells groups
    apart — per group and aligned window, the group's own share. -/
def observeS (ps : List PReq) (as : List Answer) : List (Event Key) := (observeP ps as).map (rekey (·.spec))

/-- The counter keys tell groups apart exactly as the allocation table does (on the events of this history).
    Since fix F09e this holds for every run (theorem `counters_follow_allocation_groups`); before, under the
    identity wiring, group values differing only in surrounding white space shared one counter. -/
def groupFaithful (h : List (Event PKey)) : Bool :=
  h.all fun a => h.all fun b => (a.key.code == b.key.code) == (a.key.spec == b.key.spec)

end LunarVerif.C09
