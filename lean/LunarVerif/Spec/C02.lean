import LunarVerif.Model.C02
/-
Property C02 over the OBSERVABLE history only: the configuration (an input), the events (inputs, which fix the
clock and the instants at which the GC is due) and, after every event, the verdict and the in-flight set of
every concurrent quota (members `expiry::request id`, in set order).  Nothing of the strategy's bookkeeping
(`allowedReq`, `reqIDToQuota`) appears here.

Every condition is local to one event: it relates the sets observed before and after it.
 (i)   bound: a set never holds more than `max` members, and never two members of one transaction;
 (ii)  exactly-once release at the first ending event:
       * a request event of `r` leaves the set as it was, or appends exactly `r`'s new member
         (`now + expiry`), or removes exactly `r`'s member; every other transaction's member stays;
         an admitted `r` holds a member in every concurrent quota its limiters consulted, a refused or
         early-answered `r` holds none anywhere;
       * a response or a proxy error of `r` removes exactly `r`'s members, from every quota;
       * a clock advance removes only members whose expiry is at or before the last GC instant passed, and
         all of those;
 (iii) a request is refused only if some concurrent quota it consulted was full — so once every transaction
       has ended (all sets empty) a fresh probe is admitted.
-/
namespace LunarVerif.C02

abbrev Snap := Nat → List Member

/-- Input-derived clock and the last observed sets. -/
structure Tracker where
  now : Nat
  nextGC : Nat
  snap : Snap

def Tracker.init (cfg : Cfg) : Tracker := ⟨cfg.t0, cfg.t0 + cfg.gc, fun _ => []⟩

/-- The last GC instant in `(.., now + d]`, if one is passed. -/
def Tracker.lastTick (t : Tracker) (cfg : Cfg) (d : Nat) : Option Nat :=
  match dueCount t.nextGC cfg.gc (t.now + d) with
  | 0 => none
  | k + 1 => some (t.nextGC + k * cfg.gc)

def Tracker.next (t : Tracker) (cfg : Cfg) (o : Obs) : Tracker :=
  match o.ev with
  | .adv d => ⟨t.now + d, t.nextGC + dueCount t.nextGC cfg.gc (t.now + d) * cfg.gc, o.mem⟩
  | _ => { t with snap := o.mem }

/-- Members of other transactions than `r`. -/
def others (r : Nat) (l : List Member) : List Member := l.filter (fun m => m.req != r)

def holdsSlot (r : Nat) (l : List Member) : Bool := l.any (fun m => m.req == r)

/-- Concurrent quotas the user flow's limiters consult (with ancestors). -/
def Cfg.concPath (cfg : Cfg) : List Nat := (cfg.order.filter cfg.isConc).flatMap cfg.chainOf

/-- (i) for one observed set. -/
def snapOk (cfg : Cfg) (q : Nat) (a : List Member) : Bool :=
  decide (a.length ≤ cfg.max q) && decide (a.map (·.req)).Nodup

/-- Conditions on quota `q`'s set across one event (`b` before, `a` after). -/
def quotaOk (cfg : Cfg) (t : Tracker) (o : Obs) (q : Nat) : Bool :=
  let b := t.snap q
  let a := o.mem q
  snapOk cfg q a &&
  match o.ev with
  | .req r _ =>
    (a == b || a == others r b || a == b ++ [⟨t.now + cfg.exp q, r⟩]) &&
    (match o.verdict with
     | .admitted => !cfg.concPath.contains q || holdsSlot r a
     | .refused => !holdsSlot r a
     | .early => !holdsSlot r a
     | .none => false)
  | .resp r => a == others r b && o.verdict == .none
  | .err r => a == others r b && o.verdict == .none
  | .adv d =>
    o.verdict == .none &&
    match t.lastTick cfg d with
    | none => a == b
    | some tick =>
      a.isSublist b && b.all (fun m => a.contains m || decide (m.expiry ≤ tick)) &&
      a.all (fun m => decide (tick < m.expiry))

/-- (iii): a refusal needs a full quota among those consulted. -/
def refusalOk (cfg : Cfg) (t : Tracker) (o : Obs) : Bool :=
  match o.ev, o.verdict with
  | .req _ _, .refused => cfg.concPath.any (fun q => decide (cfg.max q ≤ (t.snap q).length))
  | _, _ => true

def stepOk (cfg : Cfg) (t : Tracker) (o : Obs) : Bool :=
  (List.range cfg.quotas.length).all (fun q => !cfg.isConc q || quotaOk cfg t o q) && refusalOk cfg t o

def holdsFrom (cfg : Cfg) : Tracker → List Obs → Bool
  | _, [] => true
  | t, o :: os => stepOk cfg t o && holdsFrom cfg (t.next cfg o) os

/-- The whole property on an observed history (oldest first). -/
def holds (cfg : Cfg) (obs : List Obs) : Bool := holdsFrom cfg (Tracker.init cfg) obs

/-- Is transaction `r` still open at the end of the observed history?  Open = its last event is a request
    that was admitted (not refused, not answered early, no response, no proxy error since). -/
def lastOpen (r : Nat) : List Obs → Bool → Bool
  | [], b => b
  | o :: os, b => lastOpen r os (match o.ev with
      | .req r' _ => if r' = r then o.verdict == .admitted else b
      | .resp r' => if r' = r then false else b
      | .err r' => if r' = r then false else b
      | .adv _ => b)

/-- The sets observed last. -/
def lastSnap (cfg : Cfg) : Tracker → List Obs → Snap
  | t, [] => t.snap
  | t, o :: os => lastSnap cfg (t.next cfg o) os

/-! ### Classes of known defects (decidable on configuration + observations) -/

inductive FindingId | F02a | F02b | F02c
deriving DecidableEq, Repr

def FindingId.name : FindingId → String
  | .F02a => "F02a" | .F02b => "F02b" | .F02c => "F02c"

/-- A `Dec` that starts at `q` walks up the ancestors only while it finds the request at each level. -/
def decReach (cfg : Cfg) (snap : Snap) (r : Nat) (q : Nat) : List Nat :=
  if cfg.isConc q then (cfg.chainOf q).takeWhile (fun q' => holdsSlot r (snap q')) else []

/-- Quotas a proxy error releases: `OnRequestDrop` decrements only the first quota the request touched. -/
def dropReach (cfg : Cfg) (snap : Snap) (r : Nat) : List Nat :=
  match cfg.firstTouched with
  | none => []
  | some q => decReach cfg snap r q

/-- Quotas a response releases: only the last `QuotaProcessorDec` of the filter's system flow is wired. -/
def respReach (cfg : Cfg) (snap : Snap) (r : Nat) : List Nat :=
  match cfg.wiredDec with
  | none => []
  | some q => decReach cfg snap r q

def leaky (cfg : Cfg) (snap : Snap) (r : Nat) (reach : List Nat) : Bool :=
  (List.range cfg.quotas.length).any (fun q => cfg.isConc q && holdsSlot r (snap q) && !reach.contains q)

/-- F02a: a proxy error for a transaction that holds a slot in a concurrent quota outside `dropReach`. -/
def errLeaky (cfg : Cfg) (snap : Snap) (r : Nat) : Bool := leaky cfg snap r (dropReach cfg snap r)

/-- F02c: a response for a transaction that holds a slot in a concurrent quota outside `respReach`. -/
def respLeaky (cfg : Cfg) (snap : Snap) (r : Nat) : Bool := leaky cfg snap r (respReach cfg snap r)

/-- Set-ups in which a refused / early-answered request is sure to give everything back: the flow has exactly
    one limiter on a concurrent quota `c`, every concurrent quota is `c` or an ancestor of `c`, `c`'s is the
    wired `QuotaProcessorDec`, and no concurrent quota is incremented by a live system flow. -/
def Cfg.simple (cfg : Cfg) : Bool :=
  cfg.sysStart.all (fun q => !cfg.isConc q) &&
  match cfg.order.filter cfg.isConc with
  | [c] => (List.range cfg.quotas.length).all (fun q => !cfg.isConc q || (cfg.chainOf c).contains q) &&
           cfg.wiredDec == some c
  | _ => false

/-- `r`'s slots along `c`'s ancestor chain form a prefix of it (no level without a slot below one with). -/
def prefixClosed (cfg : Cfg) (snap : Snap) (r : Nat) : Bool :=
  match cfg.order.filter cfg.isConc with
  | [c] => (cfg.chainOf c).filter (fun q => holdsSlot r (snap q)) ==
           (cfg.chainOf c).takeWhile (fun q => holdsSlot r (snap q))
  | _ => true

/-- F02c for a request the gateway answers itself: outside the simple set-ups the release may be partial. -/
def reqRisk (cfg : Cfg) (snap : Snap) (r : Nat) : Bool := !cfg.simple || !prefixClosed cfg snap r

/-- F02b: the GC runs while a set holds three or more members (its loop reads the array `SRem` is shifting). -/
def gcCrowded (cfg : Cfg) (snap : Snap) : Bool :=
  (List.range cfg.quotas.length).any (fun q => cfg.isConc q && decide (3 ≤ (snap q).length))

def finding (cfg : Cfg) (t : Tracker) (o : Obs) : Option FindingId :=
  match o.ev with
  | .err r => if errLeaky cfg t.snap r then some .F02a else none
  | .resp r => if respLeaky cfg t.snap r then some .F02c else none
  | .req r _ =>
    if (o.verdict == .refused || o.verdict == .early) && reqRisk cfg t.snap r then some .F02c else none
  | .adv d => if (t.lastTick cfg d).isSome && gcCrowded cfg t.snap then some .F02b else none

/-- No event of the history falls in a known-defect class. -/
def cleanFrom (cfg : Cfg) : Tracker → List Obs → Bool
  | _, [] => true
  | t, o :: os => (finding cfg t o).isNone && cleanFrom cfg (t.next cfg o) os

def clean (cfg : Cfg) (obs : List Obs) : Bool := cleanFrom cfg (Tracker.init cfg) obs

/-- The judge: `none` = every event satisfied its conditions; `some c` = the FIRST event that does not, with
    its known-defect class (`c = none`: not in any class). -/
def judgeFrom (cfg : Cfg) : Tracker → List Obs → Option (Option FindingId)
  | _, [] => none
  | t, o :: os => if stepOk cfg t o then judgeFrom cfg (t.next cfg o) os else some (finding cfg t o)

def judge (cfg : Cfg) (obs : List Obs) : Option (Option FindingId) := judgeFrom cfg (Tracker.init cfg) obs

/-- Which condition failed (for the judge's message). -/
def stepWhy (cfg : Cfg) (t : Tracker) (o : Obs) : String :=
  if !refusalOk cfg t o then "refused-although-no-consulted-quota-was-full"
  else match (List.range cfg.quotas.length).find? (fun q => cfg.isConc q && !quotaOk cfg t o q) with
    | some q =>
      if !snapOk cfg q (o.mem q) then s!"bound-or-duplicate-broken-in-q{q}"
      else match o.ev with
        | .req _ _ => s!"request-changed-set-wrongly-or-verdict-inconsistent-in-q{q}"
        | .resp _ => s!"slot-not-released-exactly-on-response-in-q{q}"
        | .err _ => s!"slot-not-released-exactly-on-proxy-error-in-q{q}"
        | .adv _ => s!"gc-did-not-remove-exactly-the-expired-in-q{q}"
    | none => "spec-violated"

end LunarVerif.C02
