import LunarVerif.Model.C02
/-
Property C02 over the OBSERVABLE history only: the configuration (an input), the events (inputs, which fix the
clock and the instants at which the GC is due) and, after every event, the verdict and the in-flight set of
every concurrent quota (members `expiry::request id`, in set order).  Nothing of the strategy's bookkeeping
(`allowedReq`, `reqIDToQuota`) appears here.

Every condition is local to one event: it relates the sets observed before and after it.
 (i)   bound: a set never holds more than `max` members, and never two members of one transaction;
 (ii)  exactly-once release at the first ending event:
       * a request event of `r` leaves the set as it was, or appends exactly `r`'s new member
         (`now + expiry`), or removes exactly `r`'s member; every other transaction's member stays;
         an admitted `r` holds a member in every concurrent quota its limiters consulted, a refused or
         early-answered `r` holds none anywhere;
       * a response or a proxy error of `r` removes exactly `r`'s members, from every quota;
       * a clock advance removes only members whose expiry is at or before the last GC instant passed, and
         all of those;
 (iii) a request is refused only if some concurrent quota it consulted was full — so once every transaction
       has ended (all sets empty) a fresh probe is admitted.
-/
namespace LunarVerif.C02

abbrev Snap := Nat → List Member

/-- Input-derived clock and the last observed sets. -/
structure Tracker where
  now : Nat
  nextGC : Nat
  snap : Snap

def Tracker.init (cfg : Cfg) : Tracker := ⟨cfg.t0, cfg.t0 + cfg.gc, fun _ => []⟩

/-- The last GC instant in `(.., now + d]`, if one is passed. -/
def Tracker.lastTick (t : Tracker) (cfg : Cfg) (d : Nat) : Option Nat :=
  match dueCount t.nextGC cfg.gc (t.now + d) with
  | 0 => none
  | k + 1 => some (t.nextGC + k * cfg.gc)

def Tracker.next (t : Tracker) (cfg : Cfg) (o : Obs) : Tracker :=
  match o.ev with
  | .adv d => ⟨t.now + d, t.nextGC + dueCount t.nextGC cfg.gc (t.now + d) * cfg.gc, o.mem⟩
  | _ => { t with snap := o.mem }

/-- Members of other transactions than `r`. -/
def others (r : Nat) (l : List Member) : List Member := l.filter (fun m => m.req != r)

def holdsSlot (r : Nat) (l : List Member) : Bool := l.any (fun m => m.req == r)

/-- Concurrent quotas the user flow's limiters consult (with ancestors). -/
def Cfg.concPath (cfg : Cfg) : List Nat := (cfg.order.flatMap cfg.chainOf).filter cfg.isConc

/-- (i) for one observed set. -/
def snapOk (cfg : Cfg) (q : Nat) (a : List Member) : Bool :=
  decide (a.length ≤ cfg.max q) && decide (a.map (·.req)).Nodup

/-- Conditions on quota `q`'s set across one event (`b` before, `a` after). -/
def quotaOk (cfg : Cfg) (t : Tracker) (o : Obs) (q : Nat) : Bool :=
  let b := t.snap q
  let a := o.mem q
  snapOk cfg q a &&
  match o.ev with
  | .req r _ =>
    (a == b || a == others r b || a == b ++ [⟨t.now + cfg.exp q, r⟩]) &&
    (match o.verdict with
     | .admitted => !cfg.concPath.contains q || holdsSlot r a
     | .refused => !holdsSlot r a
     | .early => !holdsSlot r a
     | .none => false)
  | .resp r _ => a == others r b && o.verdict == .none
  | .err r => a == others r b && o.verdict == .none
  | .adv d =>
    o.verdict == .none &&
    match t.lastTick cfg d with
    | none => a == b
    | some tick =>
      a.isSublist b && b.all (fun m => a.contains m || decide (m.expiry ≤ tick)) &&
      a.all (fun m => decide (tick < m.expiry))

/-- (iii): a refusal of a transaction that holds nothing needs a full quota among those consulted. -/
def refusalOk (cfg : Cfg) (t : Tracker) (o : Obs) : Bool :=
  match o.ev, o.verdict with
  | .req r _, .refused =>
    cfg.concPath.any (fun q => decide (cfg.max q ≤ (t.snap q).length)) ||
    -- a repeated request id that still holds a slot is outside the claim (mixed trees refuse it)
    cfg.concPath.any (fun q => holdsSlot r (t.snap q))
  | _, _ => true

def stepOk (cfg : Cfg) (t : Tracker) (o : Obs) : Bool :=
  (List.range cfg.quotas.length).all (fun q => !cfg.isConc q || quotaOk cfg t o q) && refusalOk cfg t o

def holdsFrom (cfg : Cfg) : Tracker → List Obs → Bool
  | _, [] => true
  | t, o :: os => stepOk cfg t o && holdsFrom cfg (t.next cfg o) os

/-- The whole property on an observed history (oldest first). -/
def holds (cfg : Cfg) (obs : List Obs) : Bool := holdsFrom cfg (Tracker.init cfg) obs

/-- Is transaction `r` still open at the end of the observed history?  Open = its last event is a request
    that was admitted (not refused, not answered early, no response, no proxy error since). -/
def lastOpen (r : Nat) : List Obs → Bool → Bool
  | [], b => b
  | o :: os, b => lastOpen r os (match o.ev with
      | .req r' _ => if r' = r then o.verdict == .admitted else b
      | .resp r' _ => if r' = r then false else b
      | .err r' => if r' = r then false else b
      | .adv _ => b)

/-- The sets observed last. -/
def lastSnap (cfg : Cfg) : Tracker → List Obs → Snap
  | t, [] => t.snap
  | t, o :: os => lastSnap cfg (t.next cfg o) os

/-- Which condition failed (for the judge's message). -/
def stepWhy (cfg : Cfg) (t : Tracker) (o : Obs) : String :=
  if !refusalOk cfg t o then "refused-although-no-consulted-quota-was-full"
  else match (List.range cfg.quotas.length).find? (fun q => cfg.isConc q && !quotaOk cfg t o q) with
    | some q =>
      if !snapOk cfg q (o.mem q) then s!"bound-or-duplicate-broken-in-q{q}"
      else match o.ev with
        | .req _ _ => s!"request-changed-set-wrongly-or-verdict-inconsistent-in-q{q}"
        | .resp _ _ => s!"slot-not-released-exactly-on-response-in-q{q}"
        | .err _ => s!"slot-not-released-exactly-on-proxy-error-in-q{q}"
        | .adv _ => s!"gc-did-not-remove-exactly-the-expired-in-q{q}"
    | none => "spec-violated"

end LunarVerif.C02
