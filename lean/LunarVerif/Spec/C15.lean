import LunarVerif.Model.C15
/-
Property C15 over OBSERVABLES only: the record stream that was fed in, how each run cut it into batches /
restarted, and what the state file contained at the end of each run (endpoint, consumer and interceptor
entries with whole-second times, counts, status-code maps, and the harness's verdict on the float means).

`sem M P` is the summary of all entries of a map whose key satisfies `P` (count, sums, per-status counts,
min of mins, max of maxes); it tolerates duplicate keys, so it also describes "the entries that WOULD merge".
-/
namespace LunarVerif.C15

/-- summary of a set of entries -/
structure Sem where
  cnt : Nat
  sd : Int
  st : Int
  stc : Nat → Nat
  mn : Option Nat
  mx : Nat

def omin : Option Nat → Option Nat → Option Nat
  | none, b => b
  | a, none => a
  | some a, some b => some (Nat.min a b)

def Sem.zero : Sem := ⟨0, 0, 0, fun _ => 0, none, 0⟩

def Sem.add (a b : Sem) : Sem :=
  ⟨a.cnt + b.cnt, a.sd + b.sd, a.st + b.st, fun c => a.stc c + b.stc c, omin a.mn b.mn, Nat.max a.mx b.mx⟩

/-- total count recorded for status code `c` -/
def stCount (s : List (Nat × Nat)) (c : Nat) : Nat :=
  s.foldr (fun p acc => if p.1 = c then p.2 + acc else acc) 0

/-- total of a status map -/
def stTotal (s : List (Nat × Nat)) : Nat := s.foldr (fun p acc => p.2 + acc) 0

def semOf (a : EAgg) : Sem :=
  ⟨a.count, a.sumDur, a.sumTot, stCount a.status, some a.minT, a.maxT⟩

def sem {κ : Type} (M : List (κ × EAgg)) (P : κ → Bool) : Sem :=
  M.foldr (fun p acc => if P p.1 then (semOf p.2).add acc else acc) Sem.zero

/-- interceptor maps: latest timestamp among the entries satisfying `P` -/
def omax : Option Nat → Option Nat → Option Nat
  | none, b => b
  | a, none => a
  | some a, some b => some (Nat.max a b)

def isem {κ : Type} (M : List (κ × Nat)) (P : κ → Bool) : Option Nat :=
  M.foldr (fun p acc => if P p.1 then omax (some p.2) acc else acc) none

/-- the invariant `agg.count = Σ agg.statusCodes` -/
def countOk (a : EAgg) : Bool := a.count == stTotal a.status

/-- `strings.Trim(url, "./")` on characters -/
def trimC (l : List Char) : List Char :=
  let p := fun c : Char => c = '.' || c = '/'
  ((l.dropWhile p).reverse.dropWhile p).reverse


/-- the stream as a map of one-record aggregates keyed by the RAW endpoint (method, url) -/
def singles (rs : List Rec) : EMap := rs.map fun r => ((r.method, r.url), single r)
def singlesC (rs : List Rec) : CMap := rs.map fun r => ((consumerOf r.consumer, (r.method, r.url)), single r)
def singlesI (rs : List Rec) : IMap := rs.map fun r => (interceptorOf r.interceptor, r.ts)

/-! ### Equality "as maps" and the laws asked of a URL normaliser -/

/-- Two aggregations hold the same statistics: for EVERY set of keys (given as a predicate) the entries in
    that set sum up to the same count / sums / per-status counts / min / max.  With `P := (· = k)` this is
    equality of the entry at `k`; with `P := fun _ => true` equality of the grand totals. -/
def AggEq (A B : Agg) : Prop :=
  (∀ P, sem A.endpoints P = sem B.endpoints P) ∧
  (∀ P, sem A.consumers P = sem B.consumers P) ∧
  (∀ P, isem A.interceptors P = isem B.interceptors P)

/-- Reference attribution: every record contributes its one-record aggregate to the key it is attributed to. -/
def bagAgg (f : String → String) (rs : List Rec) : Agg :=
  { endpoints := rs.map fun r => (keyOf f r, single r)
    consumers := rs.map fun r => ((consumerOf r.consumer, keyOf f r), single r)
    interceptors := rs.map fun r => (interceptorOf r.interceptor, r.ts) }

/-- URLs a batch teaches the tree -/
def urlsOf (rs : List Rec) : List String := (external rs).map (·.url)

/-- The laws under which batching cannot matter.  `T0` is the freshly built tree.
    They are HYPOTHESES of `batch_invariant`; for the real convergence algorithm they are only tested
    (and found to fail in the class of finding F15c). -/
structure Laws {τ : Type} (N : Normaliser τ) (T0 : τ) : Prop where
  /-- L2: learning is insensitive to batch boundaries -/
  learn_nil : N.learn T0 [] = T0
  learn_append : ∀ xs ys, N.learn (N.learn T0 xs) ys = N.learn T0 (xs ++ ys)
  /-- L1: normalising an already normalised URL of a seen URL under a later tree = normalising the URL itself -/
  norm_factor : ∀ xs ys u, u ∈ xs →
    N.norm (N.learn T0 (xs ++ ys)) (N.norm (N.learn T0 xs) u) = N.norm (N.learn T0 (xs ++ ys)) u
  /-- L3: if `NormalizeTree` signals no convergence, the normal form of every URL seen so far is unchanged -/
  conv_sound : ∀ xs ys u, u ∈ xs → N.conv (N.learn T0 xs) ys = false →
    N.norm (N.learn T0 (xs ++ ys)) u = N.norm (N.learn T0 xs) u

/-! ### Guards of the persistence round trip -/

/-- every endpoint key survives `METHOD:::URL` → `strings.Split` → `parts[0], parts[1]` -/
def KeysOK (A : Agg) : Prop :=
  (∀ p ∈ A.endpoints, restoreKey (dumpKey p.1) = p.1) ∧ (∀ p ∈ A.consumers, restoreKey (dumpKey p.1.2) = p.1.2)

/-- Go maps have unique keys -/
def NodupKeys (A : Agg) : Prop :=
  (A.endpoints.map (·.1)).Nodup ∧ (A.consumers.map (·.1)).Nodup ∧ (A.interceptors.map (·.1)).Nodup

/-- all timestamps are whole seconds (what the `2006-01-02T15:04:05Z` layout can print) -/
def TimesAligned (A : Agg) : Prop :=
  (∀ p ∈ A.endpoints, p.2.minT % 1000 = 0 ∧ p.2.maxT % 1000 = 0) ∧
  (∀ p ∈ A.consumers, p.2.minT % 1000 = 0 ∧ p.2.maxT % 1000 = 0) ∧
  (∀ p ∈ A.interceptors, p.2 % 1000 = 0)

/-- the aggregation with every timestamp truncated to the whole second -/
def floorAgg (A : Agg) : Agg :=
  { endpoints := A.endpoints.map fun p => (p.1, toMs (toSec p.2))
    consumers := A.consumers.map fun p => (p.1, toMs (toSec p.2))
    interceptors := A.interceptors.map fun p => (p.1, p.2 / 1000 * 1000) }

/-- summaries agree up to whole seconds -/
def SecEq (a b : Sem) : Prop :=
  a.cnt = b.cnt ∧ a.sd = b.sd ∧ a.st = b.st ∧ (∀ c, a.stc c = b.stc c) ∧
  a.mn.map (· / 1000) = b.mn.map (· / 1000) ∧ a.mx / 1000 = b.mx / 1000

/-- "The totals are preserved": for every set of methods `Q` (resp. of consumer-tag × method pairs) the
    entries of `A` whose method lies in `Q` account — up to whole seconds in min/max — for exactly the
    records `rs` with such a method: count, per-status counts, duration sums, earliest and latest time;
    every interceptor carries the latest time of its records.  (Only the URL part of a key may differ.) -/
def Totals (A : Agg) (rs : List Rec) : Prop :=
  (∀ Q : String → Bool, SecEq (sem A.endpoints (fun k => Q k.1)) (sem (singles rs) (fun k => Q k.1))) ∧
  (∀ Q : String × String → Bool,
    SecEq (sem A.consumers (fun k => Q (k.1, k.2.1))) (sem (singlesC rs) (fun k => Q (k.1, k.2.1)))) ∧
  (∀ P : IKey → Bool, (isem A.interceptors P).map (· / 1000) = (isem (singlesI rs) P).map (· / 1000))

/-- all records fed to a run, in order -/
def recsOf : List Seg → List Rec
  | [] => []
  | Seg.batch rs :: rest => rs ++ recsOf rest
  | Seg.batchNoDump rs :: rest => rs ++ recsOf rest
  | Seg.restart :: rest => recsOf rest
  | Seg.treeReset :: rest => recsOf rest

/-- Is the state file up to date (= the dump of the in-memory aggregation) after these segments, given that
    it was (`f`) before?  A successful non-empty `Run` makes it so, a `Run` whose dump failed makes it stale. -/
def freshAfter : Bool → List Seg → Bool
  | f, [] => f
  | f, Seg.batch rs :: rest => freshAfter (f || !rs.isEmpty) rest
  | f, Seg.batchNoDump rs :: rest => freshAfter (f && rs.isEmpty) rest
  | _, Seg.restart :: rest => freshAfter true rest
  | f, Seg.treeReset :: rest => freshAfter f rest

/-- Every restart finds an up-to-date file.  (A process that dies while records exist only in memory loses
    them whatever the code does; the property is about what the code can guarantee.) -/
def RestartsFresh : Bool → List Seg → Prop
  | _, [] => True
  | f, Seg.batch rs :: rest => RestartsFresh (f || !rs.isEmpty) rest
  | f, Seg.batchNoDump rs :: rest => RestartsFresh (f && rs.isEmpty) rest
  | f, Seg.restart :: rest => f = true ∧ RestartsFresh true rest
  | f, Seg.treeReset :: rest => RestartsFresh f rest

/-- the same run with every flush succeeding -/
def clearFaults : List Seg → List Seg
  | [] => []
  | Seg.batchNoDump rs :: rest => Seg.batch rs :: clearFaults rest
  | s :: rest => s :: clearFaults rest

def noRestart : List Seg → Bool
  | [] => true
  | Seg.restart :: _ => false
  | Seg.treeReset :: _ => false
  | _ :: rest => noRestart rest

/-- a batch with the outcome of its flush (`true` = the dump fails) -/
def segOf (b : List Rec × Bool) : Seg := if b.2 then Seg.batchNoDump b.1 else Seg.batch b.1

/-! ### Observations -/

/-- What one run left in the state file (times in whole seconds; `sumDur`/`sumTot` are not observable
    exactly — the float means are checked by the harness and reported in `avgOk`).
    `full = false`: the run contained a restart; only totals are promised, so the harness reports the
    entries merged per method (URL replaced by `*`). -/
structure RunObs where
  full : Bool
  nondet : Bool := false      -- the harness saw two executions of the same run end differently
  fails : Nat                 -- batches rejected by `Run`
  eps : EMap
  ces : CMap
  its : IMap
  avgOk : Bool
deriving Repr

structure CaseObs where
  thr : Nat := 50
  known : List String := []
  recs : List Rec
  runs : List RunObs
deriving Repr

def dedupS (l : List String) : List String :=
  l.foldl (fun acc s => if acc.contains s then acc else acc ++ [s]) []

def dedupN (l : List Nat) : List Nat :=
  l.foldl (fun acc s => if acc.contains s then acc else acc ++ [s]) []


/-- two summaries agree on what is observable in the file (counts, status counts for the listed codes,
    whole-second min/max); `a` is in seconds already, `b` in milliseconds -/
def semAgrees (codes : List Nat) (a b : Sem) : Bool :=
  a.cnt == b.cnt && codes.all (fun c => a.stc c == b.stc c) &&
  a.mn == b.mn.map (· / 1000) && a.mx == b.mx / 1000

/-- "lose no traffic": per method (and per consumer tag × method) the file accounts for exactly the
    external records: count, per-status counts, earliest and latest time; every entry has
    count = Σ status counts; interceptors carry their latest time; float means within tolerance. -/
def conserves (recs : List Rec) (o : RunObs) : Bool :=
  let rs := external recs
  let methods := dedupS (rs.map (·.method) ++ o.eps.map (·.1.1) ++ o.ces.map (·.1.2.1))
  let tags := dedupS (rs.map (fun r => consumerOf r.consumer) ++ o.ces.map (·.1.1))
  let codes := dedupN (rs.map (·.status) ++ (o.eps.flatMap (·.2.status)).map (·.1) ++ (o.ces.flatMap (·.2.status)).map (·.1))
  let ikeys := (rs.map (fun r => interceptorOf r.interceptor) ++ o.its.map (·.1))
  methods.all (fun m =>
    semAgrees codes (sem o.eps (fun k => k.1 == m)) (sem (singles rs) (fun k => k.1 == m)) &&
    tags.all (fun t =>
      semAgrees codes (sem o.ces (fun k => k.1 == t && k.2.1 == m))
        (sem (singlesC rs) (fun k => k.1 == t && k.2.1 == m)))) &&
  o.eps.all (fun p => countOk p.2) && o.ces.all (fun p => countOk p.2) &&
  ikeys.all (fun i => isem o.its (· == i) == (isem (singlesI rs) (· == i)).map (· / 1000)) &&
  o.avgOk

/-- two files hold the same statistics (as maps, entry order irrelevant) -/
def sameStats (a b : RunObs) : Bool :=
  let keys := a.eps.map (·.1) ++ b.eps.map (·.1)
  let ckeys := a.ces.map (·.1) ++ b.ces.map (·.1)
  let ikeys := a.its.map (·.1) ++ b.its.map (·.1)
  let codes := dedupN (((a.eps ++ b.eps).flatMap (·.2.status)).map (·.1) ++ ((a.ces.map (·.2) ++ b.ces.map (·.2)).flatMap (·.status)).map (·.1))
  let agree := fun (x y : Sem) => x.cnt == y.cnt && codes.all (fun c => x.stc c == y.stc c) && x.mn == y.mn && x.mx == y.mx
  keys.all (fun k => agree (sem a.eps (· == k)) (sem b.eps (· == k))) &&
  ckeys.all (fun k => agree (sem a.ces (· == k)) (sem b.ces (· == k))) &&
  ikeys.all (fun k => isem a.its (· == k) == isem b.its (· == k))

/-- batch independence: every restart-free run of the same stream ends with the same statistics -/
def batchInvariant : List RunObs → Bool
  | [] => true
  | o :: rest => rest.all (fun p => sameStats o p) && batchInvariant rest

/-! ### Known defect class (decidable classifier on the INPUT) -/

/-- a method without `:` (every HTTP token): then `METHOD:::URL` splits back at the first `:::` whatever the URL -/
def cleanMethod (m : String) : Bool := m.toList.all (· != ':')

/-- well-formedness of the input: no method contains `:` -/
def MethodsClean (rs : List Rec) : Prop := ∀ r ∈ external rs, cleanMethod r.method = true

/-- URL as `/`-separated segments, host first -/
def segsC (u : String) : List (List Char) := splitCh '/' (trimC u.toList)

def dedupL (l : List (List Char)) : List (List Char) :=
  l.foldl (fun acc s => if acc.contains s then acc else acc ++ [s]) []

def isTemplateSeg (g : List Char) : Bool := g.head? = some '{' && g.getLast? = some '}'

/-- F15c class: some URL prefix `P` has more than `thr` distinct next segments (so the tree will replace them
    by an inferred path parameter), with deeper URLs below them (so whole SUBTREES are merged), and the merged
    node inherits at least one CONSTANT child: a segment two levels below `P` that is not a `{template}` and
    that the tree keeps as a constant — it is declared as such, or its parent has no declared `{param}` child
    that would absorb it.  Only then can a later insertion below the merged node converge again without
    `NormalizeTree` signalling it, or an inner inferred parameter be renamed over valueless nodes.
    Declared endpoints (`known`) count as URLs. -/
def deepFanout (thr : Nat) (known urls : List String) : Bool :=
  let ks := known.map segsC
  let us := ks ++ urls.map segsC
  us.any fun u =>
    (List.range u.length).any fun i =>
      decide (1 ≤ i) &&
      (let under := us.filter fun v => v.take i == u.take i && decide (i < v.length)
       let constCapable := fun (v : List (List Char)) =>
         match v[i + 1]? with
         | none => false
         | some g =>
           !isTemplateSeg g &&
           (ks.any (fun k => k.take (i + 2) == v.take (i + 2)) ||
            !(ks.any fun k => k.take (i + 1) == v.take (i + 1) &&
                (match k[i + 1]? with | some kg => isTemplateSeg kg | none => false)))
       decide (thr < (dedupL (under.filterMap (·[i]?))).length) && under.any constCapable)

/-- What an observer reconstructs from a state file: its content read back, times in whole seconds;
    entries merged per method (URL replaced by `*`) when the run contained a restart. -/
def observe (full : Bool) (fails : Nat) (p : Persisted) : RunObs :=
  let A := restore p
  let eps : EMap := A.endpoints.map fun e => (e.1, toSec e.2)
  let ces : CMap := A.consumers.map fun e => (e.1, toSec e.2)
  { full := full, nondet := false, fails := fails
    eps := if full then eps else rekeyAny (fun k : Key => (k.1, "*")) eps
    ces := if full then ces else rekeyAny (fun k : CKey => (k.1, (k.2.1, "*"))) ces
    its := A.interceptors.map fun e => (e.1, e.2 / 1000)
    avgOk := true }

/-- the observation of a whole model run -/
def observeRun {τ : Type} (N : Normaliser τ) (T0 : τ) (full : Bool) (segs : List Seg) : RunObs :=
  observe full 0 (runSegs N T0 (St.init T0) segs).file

/-- The whole property on one case. -/
def holds (c : CaseObs) : Bool :=
  c.runs.all (fun o => !o.nondet && o.fails == 0 && conserves c.recs o) &&
  batchInvariant (c.runs.filter (·.full))

/-- In-memory observation (`runmem`: `GetUpdatedAggregations` batch by batch, no state file): the aggregation itself,
    with EXACT timestamps (no truncation to seconds; any int64 magnitude, e.g. nanosecond-resolution sources). -/
structure MemObs where
  eps : EMap
  ces : CMap
  its : IMap
deriving Repr

/-- exact conservation for an in-memory observation: per method (and consumer tag × method) count, per-status counts,
    EXACT earliest and latest timestamp; `count = Σ status`; interceptors carry exactly their latest timestamp -/
def memConserves (recs : List Rec) (o : MemObs) : Bool :=
  let rs := external recs
  let methods := dedupS (rs.map (·.method) ++ o.eps.map (·.1.1) ++ o.ces.map (·.1.2.1))
  let tags := dedupS (rs.map (fun r => consumerOf r.consumer) ++ o.ces.map (·.1.1))
  let codes := dedupN (rs.map (·.status) ++ (o.eps.flatMap (·.2.status)).map (·.1) ++ (o.ces.flatMap (·.2.status)).map (·.1))
  let ikeys := (rs.map (fun r => interceptorOf r.interceptor) ++ o.its.map (·.1))
  let agree := fun (a b : Sem) =>
    a.cnt == b.cnt && codes.all (fun c => a.stc c == b.stc c) && a.mn == b.mn && a.mx == b.mx
  methods.all (fun m =>
    agree (sem o.eps (fun k => k.1 == m)) (sem (singles rs) (fun k => k.1 == m)) &&
    tags.all (fun t =>
      agree (sem o.ces (fun k => k.1 == t && k.2.1 == m)) (sem (singlesC rs) (fun k => k.1 == t && k.2.1 == m)))) &&
  o.eps.all (fun p => countOk p.2) && o.ces.all (fun p => countOk p.2) &&
  ikeys.all (fun i => isem o.its (· == i) == isem (singlesI rs) (· == i))

/-- Which known finding (if any) explains a failing case. -/
def finding (c : CaseObs) : Option String :=
  -- F15c explains statistics that depend on the batch boundaries, never traffic that is missing
  if c.runs.all (fun o => o.nondet || (o.fails == 0 && conserves c.recs o)) &&
      deepFanout c.thr c.known ((external c.recs).map (·.url)) then some "F15c"
  else none

end LunarVerif.C15
