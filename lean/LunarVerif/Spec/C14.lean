import LunarVerif.Model.C14
import LunarVerif.Spec.UrlMatch
/-
Spec for C14 in observable terms (state after the repairs F14a, F14b, F14c, F14f and the trie repairs).

Observable per request `(method, url)` of a case:
  * `sel`     — the names of the declared flows / endpoint policies the ENGINE selects for it,
  * `managed` — whether the PROXY would forward it to the engine (manage-all, or some registered expression
                is found in `method:::url`).
Property: `sel ≠ [] → managed` (one way: over-forwarding is not a violation).

`classify` = the decidable classes in which the code is still known to violate the property; the same
predicate is the excluded hypothesis of `c14_holds_partial`:

  F14d  pattern or URL text has leading/trailing `.` or `/`: the engine trims both, the expression and
        the subject string are not trimmed — e.g. the trailing-slash URL
  F14e  the ENGINE selects a declaration whose own filter accepts the request only UP TO the host/path
        boundary (`matchesLax` but not `matches`): what is left open in C03/C13 after the trie repairs — the
        boundary is not part of the trie key (F03e/F13c: `a/b/y` declared after `a.b/x` is selected for
        `a.b/y`); the expression is right not to cover it.  Any OTHER selection of a declaration that does not
        accept the request (e.g. a host matched case-insensitively) is no known class: it is a violation.

`assumptionsOK` = what the theorems assume about the inputs (NOT defect classes; the judge does not excuse a
failure by them): the pattern is one `validateURL` accepts (`safe`: structure only), texts are canonical
(`render (splitURL s) = s`: no doubled braces), methods are HTTP tokens.
-/
namespace LunarVerif.C14
open LunarVerif.UrlTree LunarVerif.UrlMatch LunarVerif.Regex

/-- Characters with a meaning in the regex syntax (= what `QuoteMeta` escapes). -/
def metaChars : List Char := specialChars

/-- Literal for the regex parser when written unquoted (method text). -/
def plainChar (c : Char) : Bool := !metaChars.contains c && c != '/' && c != '\n'

/-- An HTTP method as the expression needs it: non-empty, no regex metacharacter, no `:`. -/
def tokenMethod (m : String) : Bool := !m.toList.isEmpty && m.toList.all fun c => plainChar c && c != ':'

/-- A character that may occur inside one part: not the delimiter of its side (`/`; in the host also `.`). -/
def partChar (host : Bool) (c : Char) : Bool := c != '/' && (!host || c != '.')

/-- A literal or parameter part whose text splits back into itself and is classified the way it is meant. -/
def segOK (host : Bool) : Seg → Bool
  | .lit t => !isParamText t.toList && t.toList != ['*'] && t.toList.all (partChar host)
  | .par n => n.toList.all (partChar host)
  | .wild => false

/-- Path part of a pattern: literals, parameters, `*` only as the last part. -/
def pathTailOK : List Part → Bool
  | [] => true
  | p :: ps =>
    !p.host && (match p.seg with
      | .wild => ps.isEmpty
      | s => segOK false s && pathTailOK ps)

/-- Host labels (a `*` label only at the very end of a host-only pattern) followed by a path. -/
def tailOK : List Part → Bool
  | [] => true
  | p :: ps =>
    if p.host then
      (match p.seg with
        | .wild => ps.isEmpty
        | s => segOK true s && tailOK ps)
    else pathTailOK (p :: ps)

/-- The patterns of the theorems: STRUCTURE only (what `validateURL` accepts, as parts). -/
def safe : List Part → Bool
  | [] => false
  | p :: ps => p.host && segOK true p.seg && tailOK ps

/-- Well-formed request URL (as parts): host labels first; every part non-empty, without its delimiter and
    without newline. -/
def segWF (host : Bool) (s : Seg) : Bool :=
  !(segChars s).isEmpty && (segChars s).all fun c => partChar host c && c != '\n'

def pathWF : List Part → Bool
  | [] => true
  | p :: ps => !p.host && segWF false p.seg && pathWF ps

def urlTailWF : List Part → Bool
  | [] => true
  | p :: ps => if p.host then segWF true p.seg && urlTailWF ps else pathWF (p :: ps)

def urlWF : List Part → Bool
  | [] => false
  | p :: ps => p.host && segWF true p.seg && urlTailWF ps

/-- A declaration the engine loads: a flow filter (methods may be empty = any method) or an endpoint policy
    (one method, may be disabled). -/
structure Decl where
  name : String
  url : String
  methods : List String
  enabled : Bool
deriving DecidableEq, Repr

def declsOf : Cfg → List Decl
  | .flows fs => fs.map fun f => ⟨f.name, f.url, f.methods, true⟩
  | .policies ps _ => ps.map fun p => ⟨p.name, p.url, [p.method], p.enabled⟩

inductive Cls where
  | F14d | F14e
  | overmatch     -- NOT a known class: the engine selects a declaration that does not accept the request
deriving DecidableEq, Repr

def Cls.id : Cls → String
  | .F14d => "F14d" | .F14e => "F14e" | .overmatch => "-"

def Decl.acceptsMethod (d : Decl) (method : String) : Bool := d.methods.isEmpty || d.methods.contains method

/-- What the declaration's OWN filter says about the request (the declarative oracle). -/
def accepts (d : Decl) (method url : String) : Bool :=
  d.enabled && d.acceptsMethod method && «matches» (splitURL d.url) (splitURL url) && urlWF (splitURL url)

/-- Neither text loses characters to the engine's `strings.Trim(url, "./")`. -/
def untrimmed (d : Decl) (url : String) : Bool := trimURL d.url == d.url && trimURL url == url

/-- Input assumptions of the theorems (not defect classes). -/
def assumptionsOK (d : Decl) (method url : String) : Bool :=
  safe (splitURL d.url) && render (splitURL d.url) == d.url.toList && render (splitURL url) == url.toList &&
  tokenMethod method && d.methods.all tokenMethod

/-- The declaration accepts the request EXCEPT for the host/path boundary (`matchesLax`): the class of the
    engine over-matches that stay open in C03/C13 (the boundary is not part of the trie key). -/
def acceptsUpToBoundary (d : Decl) (method url : String) : Bool :=
  d.enabled && d.acceptsMethod method && matchesLax (splitURL d.url) (splitURL url)

/-- The known-defect class of (declaration, request), `none` = clean; `overmatch` = the engine has no business
    selecting this declaration (a violation of C03/C13's soundness, reported as a violation here too). -/
def classify (d : Decl) (method url : String) : Option Cls :=
  if !untrimmed d url then some .F14d
  else if accepts d method url then none
  else if acceptsUpToBoundary d method url then some .F14e
  else some .overmatch

def findDecl (ds : List Decl) (name : String) : Option Decl := ds.find? (·.name == name)

inductive Verdict where
  | ok
  | known (c : Cls)
  | violated (why : String)
deriving DecidableEq, Repr

/-- Verdict for one request: the property holds, or every selected declaration lies in a known class
    (the first one is reported), or the property is violated outside every known class. -/
def reqVerdict (ds : List Decl) (method url : String) (sel : List String) (managed : Bool) : Verdict :=
  if sel.isEmpty || managed then .ok
  else
    let cs := sel.map fun n => (findDecl ds n).map fun d => classify d method url
    if cs.any (· == none) then .violated "selected-undeclared-name"
    else if cs.any (· == some none) then .violated "engine-selects-clean-declaration-but-not-managed"
    else if cs.any (· == some (some .overmatch)) then .violated "engine-selects-declaration-that-does-not-accept-the-request"
    else match cs.head? with
      | some (some (some c)) => .known c
      | _ => .ok

/-- The property predicate proper. -/
def reqOk (sel : List String) (managed : Bool) : Bool := sel.isEmpty || managed

end LunarVerif.C14
