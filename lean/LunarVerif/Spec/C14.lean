import LunarVerif.Model.C14
import LunarVerif.Spec.UrlMatch
/-
Spec for C14 in observable terms.

Observable per request `(method, url)` of a case:
  * `sel`     — the names of the declared flows / endpoint policies the ENGINE selects for it,
  * `managed` — whether the PROXY would forward it to the engine (manage-all, or some registered expression
                is found in `method:::url`).
Property: `sel ≠ [] → managed` (one way: over-forwarding is not a violation).

`classify` = the decidable classes in which the unchanged code is known to violate the property; the same
predicate is the excluded hypothesis of `managed_covers_engine_partial` / `c14_holds_partial`:

  F14b  the declaration names no method (engine: any method; registered: GET/POST/PUT/DELETE/PATCH)
  F14d  pattern or URL text has leading/trailing `.` or `/`: the engine trims both, the expression and
        the subject string are not trimmed — e.g. the trailing-slash URL
  F14c  `{param}` or `*` in HOST position (not translated: the path-parameter rule needs a leading `/`)
  F14f  path parameter whose name is outside `[a-zA-Z0-9-_]+` (`{user.id}`, `{id:int}`, `{}`) or whose braces
        are doubled (`{id}}`): the engine treats it as a parameter, the expression keeps (part of) it as
        literal text
  F14a  anything else outside the safe alphabet: regex metacharacters in a literal segment or in the
        method, `*` not in last position
  F14e  the ENGINE selects a declaration whose own filter does not accept the request (pattern does not
        match under `UrlMatch.matches`, method not in its list, empty/odd URL segment, disabled policy):
        the trie defects of C03/C13; the expression is right not to cover it
-/
namespace LunarVerif.C14
open LunarVerif.UrlTree LunarVerif.UrlMatch LunarVerif.Regex

/-- Characters with a meaning in the regex syntax. -/
def metaChars : List Char := ['\\', '.', '+', '*', '?', '(', ')', '|', '[', ']', '{', '}', '^', '$']

/-- Literal for the regex parser and inert for the formatter. -/
def plainChar (c : Char) : Bool := !metaChars.contains c && c != '/' && c != '\n'

def hostLitOK : Seg → Bool
  | .lit t => !t.toList.isEmpty && t.toList.all plainChar
  | _ => false

def pathLitOK (t : String) : Bool := !t.toList.isEmpty && t.toList.all fun c => plainChar c || c == '.'

def nameOK (n : String) : Bool := !n.toList.isEmpty && n.toList.all isNameChar

/-- Path part of a safe pattern: literals, well-named parameters, `*` only as the last part. -/
def pathTailOK : List Part → Bool
  | [] => true
  | p :: ps =>
    !p.host && (match p.seg with
      | .lit t => pathLitOK t && pathTailOK ps
      | .par n => nameOK n && pathTailOK ps
      | .wild => ps.isEmpty)

/-- Host labels (literal, plain) followed by a safe path. -/
def tailOK : List Part → Bool
  | [] => true
  | p :: ps => if p.host then hostLitOK p.seg && tailOK ps else pathTailOK (p :: ps)

/-- The SAFE alphabet of `managed_covers_engine_partial`. -/
def safe : List Part → Bool
  | [] => false
  | p :: ps => p.host && hostLitOK p.seg && tailOK ps

def safeMethod (m : String) : Bool := m.toList.all plainChar

/-- `{param}` or `*` in host position. -/
def hostVar (P : List Part) : Bool := P.any fun p => p.host && (match p.seg with | .lit _ => false | _ => true)

/-- A path parameter with a name the formatter does not recognise. -/
def oddParam (P : List Part) : Bool :=
  P.any fun p => !p.host && (match p.seg with | .par n => !nameOK n | _ => false)

/-- Well-formed request URL (as parts): host labels first, every segment non-empty, no `/`, no newline. -/
def segWF (s : Seg) : Bool := !(segChars s).isEmpty && (segChars s).all fun c => c != '/' && c != '\n'

def pathWF : List Part → Bool
  | [] => true
  | p :: ps => !p.host && segWF p.seg && pathWF ps

def urlTailWF : List Part → Bool
  | [] => true
  | p :: ps => if p.host then segWF p.seg && urlTailWF ps else pathWF (p :: ps)

def urlWF : List Part → Bool
  | [] => false
  | p :: ps => p.host && segWF p.seg && urlTailWF ps

/-- A declaration the engine loads: a flow filter (methods may be empty) or an endpoint policy (one
    method, may be disabled). -/
structure Decl where
  name : String
  url : String
  methods : List String
  enabled : Bool
deriving DecidableEq, Repr

def Decl.supported (d : Decl) : List String := if d.methods.isEmpty then defaultMethods else d.methods

def declsOf : Cfg → List Decl
  | .flows fs => fs.map fun f => ⟨f.name, f.url, f.methods, true⟩
  | .policies ps _ => ps.map fun p => ⟨p.name, p.url, [p.method], p.enabled⟩

inductive Cls where
  | F14a | F14b | F14c | F14d | F14e | F14f
deriving DecidableEq, Repr

def Cls.id : Cls → String
  | .F14a => "F14a" | .F14b => "F14b" | .F14c => "F14c" | .F14d => "F14d" | .F14e => "F14e" | .F14f => "F14f"

/-- What the declaration's OWN filter says about the request (the declarative oracle). -/
def accepts (d : Decl) (method url : String) : Bool :=
  d.enabled && d.supported.contains method && «matches» (splitURL d.url) (splitURL url) && urlWF (splitURL url)

/-- Neither text loses characters to the engine's `strings.Trim(url, "./")`. -/
def untrimmed (d : Decl) (url : String) : Bool := trimURL d.url == d.url && trimURL url == url

/-- The known-defect class of (declaration, request), `none` = clean. -/
def classify (d : Decl) (method url : String) : Option Cls :=
  if d.methods.isEmpty && !defaultMethods.contains method then some .F14b
  else if !untrimmed d url then some .F14d
  else if hostVar (splitURL d.url) then some .F14c
  else if oddParam (splitURL d.url) || render (splitURL d.url) != d.url.toList then some .F14f
  else if !(safe (splitURL d.url) && safeMethod method) then some .F14a
  else if !(accepts d method url && render (splitURL url) == url.toList) then some .F14e
  else none

def findDecl (ds : List Decl) (name : String) : Option Decl := ds.find? (·.name == name)

inductive Verdict where
  | ok
  | known (c : Cls)
  | violated (why : String)
deriving DecidableEq, Repr

/-- Verdict for one request: the property holds, or every selected declaration lies in a known class
    (the first one is reported), or the property is violated outside every known class. -/
def reqVerdict (ds : List Decl) (method url : String) (sel : List String) (managed : Bool) : Verdict :=
  if sel.isEmpty || managed then .ok
  else
    let cs := sel.map fun n => (findDecl ds n).map fun d => classify d method url
    if cs.any (· == none) then .violated "selected-undeclared-name"
    else if cs.any (· == some none) then .violated "engine-selects-clean-declaration-but-not-managed"
    else match cs.head? with
      | some (some (some c)) => .known c
      | _ => .ok

/-- The property predicate proper (what `c14_holds_partial` is about). -/
def reqOk (sel : List String) (managed : Bool) : Bool := sel.isEmpty || managed

end LunarVerif.C14
