import LunarVerif.Model.C20
/-
Property C20 over the *observable* history only (events: observation instant, observed value,
reaction callback if any).  Nothing of the watcher's internal state appears here.
Histories are given most-recent-first (`e :: older`).
-/
namespace LunarVerif.C20

/-- State of the last reaction in the history (most recent first); the watcher starts "healthy". -/
def lastReaction : List Event → Bool
  | [] => true
  | e :: older => match e.react with
    | some s => s
    | none => lastReaction older

/-- The events immediately before `e` (most recent first) that observed the same value. -/
def sameRun (v : Bool) : List Event → List Event
  | [] => []
  | e :: older => if e.obs == v then e :: sameRun v older else []

/-- Instant at which the current run of equal observations started. -/
def runStart (e : Event) (older : List Event) : Nat :=
  match (sameRun e.obs older).getLast? with
  | some f => f.t
  | none => e.t

/-- Conditions on the newest event `e` given everything observed before it. -/
def eventOk (cfg : Cfg) (e : Event) (older : List Event) : Bool :=
  -- (cool-down) nothing is observed during the cool-down that follows an `unhealthy` reaction
  (match older with
   | p :: _ => (p.react != some false || decide (p.rt + cfg.cooldown ≤ e.t)) && decide (p.t ≤ e.t)
   | [] => true) &&
  (match e.react with
   | none => true
   | some s =>
     -- (alternation) each reaction is the opposite of the previous one, the first is `unhealthy`
     (s != lastReaction older) &&
     -- (stability) the reaction is for the value just observed ...
     (e.obs == s) &&
     -- ... seen in at least max(N,2) consecutive checks ...
     decide (2 ≤ (sameRun e.obs older).length + 1) &&
     decide (cfg.n ≤ ((sameRun e.obs older).length + 1 : Nat)) &&
     -- ... spanning at least the stable period
     decide (runStart e older + cfg.period ≤ e.t) &&
     decide (e.rt = e.t))

/-- The whole property, history most recent first. -/
def holdsRev (cfg : Cfg) : List Event → Bool
  | [] => true
  | e :: older => eventOk cfg e older && holdsRev cfg older

/-- The property on a history given oldest first. -/
def holds (cfg : Cfg) (h : List Event) : Bool := holdsRev cfg h.reverse

/-- Reactions of a history (oldest first). -/
def reactions (h : List Event) : List Bool := h.filterMap (·.react)

/-- `unhealthy, healthy, unhealthy, …` -/
def alternating : Bool → List Bool → Bool
  | _, [] => true
  | expect, r :: rs => (r == expect) && alternating (!expect) rs

/-- A flapping signal: no two consecutive observations are equal. -/
def flapping : List Bool → Bool
  | a :: b :: rest => (a != b) && flapping (b :: rest)
  | _ => true

end LunarVerif.C20
