import LunarVerif.Model.C14Reload
/-
Spec for the lifetime dimension of C14, in observable terms: the sequence of requests the engine registered
(answers to `reload`), the passage of time (`advance`) and the proxy's managed set (answers to `managed?`).

Lifetime property: at every instant at which the last (re)load has SETTLED (at least `ttl` ago, hence every
scheduled un-manage has fired), everything the configuration in force requires is managed: manage-all is set if
the request asked for it, else every expression of the request is a key of the map.
-/
namespace LunarVerif.C14.Reload

/-- Is everything the request requires managed? -/
def requiredOK (req : Req) (all : Bool) (managed : List String) : Bool :=
  if req.ma then all else req.eps.all fun e => managed.contains e

/-- The expressions that are required and missing. -/
def missing (req : Req) (all : Bool) (managed : List String) : List String :=
  if req.ma then (if all then [] else ["<manage_all>"]) else req.eps.filter fun e => !managed.contains e

/-- Observable history of a case (most recent first): the registered requests with their instants. -/
structure Hist where
  now : Nat := 0
  reqs : List (Nat × Req) := []      -- the requests that went through
  last : Option Nat := none          -- instant of the last update ATTEMPT (also a refused one)
deriving Repr

def Hist.settled (h : Hist) : Bool :=
  match h.last with
  | none => false
  | some t => decide (t + ttl ≤ h.now)

/-- F14g class: everything that is required and missing was ALSO part of an earlier request — it was
    registered again by the request in force and can only have been removed by the un-manage a reload scheduled
    for its previous request; the code schedules EVERY previous entry (pointer identity), also those that are
    still in the new request (and a stale job of an earlier reload removes what a later one registered again). -/
def classF14g (h : Hist) (force : Req) (all : Bool) (managed : List String) : Bool :=
  match h.reqs with
  | [] => false
  | _ :: earlier =>
    (missing force all managed).all fun e =>
      earlier.any fun r => if e == "<manage_all>" then r.2.ma else r.2.eps.contains e

inductive Verdict where
  | ok
  | known (id : String)
  | violated (why : String)
deriving DecidableEq, Repr

/-- The finding that is open in a given state of the code: F14g as long as entries are compared as pointers,
    F14h (stale job) once they are compared by text, none once registrations are stamped. -/
def openFinding : Mode → Option String
  | .ptr => some "F14g"
  | .byString => some "F14h"
  | .stamped => none

/-- Verdict of one `managed?` observation (`m` = the state of the code the slice currently describes; `force` =
    the request of the configuration IN FORCE in the engine at that instant, which after a refused update is
    still the old one). -/
def observe (m : Mode) (h : Hist) (force : Req) (all : Bool) (managed : List String) : Verdict :=
  if !h.settled then .ok
  else if requiredOK force all managed then .ok
  else match openFinding m with
    | some id => if classF14g h force all managed then .known id
                 else .violated "required-expression-not-managed-after-first-load"
    | none => .violated "in-force-configuration-not-managed-after-update-settled"

/-- Verdict of one `txn?` observation: while the engine still serves an in-flight transaction from the policies
    version it is anchored to (its response leg would get that version's remedies), the proxy must still manage
    what that version requires — at EVERY instant, not only settled ones.  `none` = the anchor is no longer
    retained (or was voided by an immediate un-manage): nothing to check. -/
def observeTxn (view : Option Req) (all : Bool) (managed : List String) : Verdict :=
  match view with
  | none => .ok
  | some req =>
    if requiredOK req all managed then .ok
    else .violated "anchored-transaction-still-handled-by-the-engine-but-endpoint-unmanaged"

end LunarVerif.C14.Reload
