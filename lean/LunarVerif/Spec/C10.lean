import LunarVerif.Model.C10
/-
Property C10 over the OBSERVABLE history only: the events a harness around the real queue sees
(clock ticks, result of each Enqueue's locked section, "r is now blocked in select", which waiters a
roll-over released, which TTL timers fired, which Enqueue calls returned what).  The observer
re-builds, from the events alone, each request's phase, the grant instants and the window for which
the queue was last served.  Nothing of the queue's hidden state (heap, counter, window end, timer)
appears here.  Only `Cfg`, `Req`, `Phase`, `Ev`, `keyLt` and list helpers are shared with the model.
-/
namespace LunarVerif.C10

structure Obs where
  now    : Nat
  reqs   : List Req
  grants : List Nat   -- instants of every grant (immediate pass or hand-off)
  served : Nat        -- window index of construction / of the latest roll-over
deriving Repr, DecidableEq

def Obs.init (cfg : Cfg) (t0 : Nat) : Obs := ⟨t0, [], [], t0 / cfg.win⟩

/-- Grants whose instant lies in aligned window `w`. -/
def grantsIn (cfg : Cfg) (w : Nat) (grants : List Nat) : Nat := grants.countP (fun t => t / cfg.win == w)

def setAll (reqs : List Req) (ph : Phase) : List Nat → List Req
  | [] => reqs
  | r :: rs => setAll (setPhase reqs r ph) ph rs

def obsStep (cfg : Cfg) (o : Obs) : Ev → Obs
  | .tick d => { o with now := o.now + d }
  | .enq p ttl .pass => { o with reqs := o.reqs ++ [⟨p, o.now, ttl, .passed⟩], grants := o.now :: o.grants }
  | .enq p ttl .full => { o with reqs := o.reqs ++ [⟨p, o.now, ttl, .full⟩] }
  | .enq p ttl .push => { o with reqs := o.reqs ++ [⟨p, o.now, ttl, .gap⟩] }
  | .park r => { o with reqs := setPhase o.reqs r (.parked (o.now + (getReq o.reqs r).ttl)) }
  | .roll rel => { o with reqs := setAll o.reqs .wokeDone rel,
                          grants := rel.map (fun _ => o.now) ++ o.grants,
                          served := o.now / cfg.win }
  | .expire r => { o with reqs := setPhase o.reqs r .wokeTTL }
  | .finish r ok => { o with reqs := setPhase o.reqs r (if ok then .retT else .retF) }

/-- ids of the requests still waiting for their turn (pushed, neither handed off nor expired). -/
def liveIds (reqs : List Req) : List Nat := (List.range reqs.length).filter (fun i => (phaseOf reqs i).live)

def gapIds (reqs : List Req) : List Nat := (List.range reqs.length).filter (fun i => phaseOf reqs i == .gap)

/-- SAFETY part — claimed for every schedule:
    releases per aligned window ≤ quota; waiters ≤ size; a request is rejected only when the queue is
    full (and the window quota used up) or when its TTL really elapsed; well-formedness of the events. -/
def safeOk (cfg : Cfg) (o : Obs) : Ev → Bool
  | .tick _ => true
  | .enq _ _ .pass => decide (grantsIn cfg (o.now / cfg.win) o.grants < cfg.quota)
  | .enq _ _ .full => decide (cfg.quota ≤ grantsIn cfg (o.now / cfg.win) o.grants) &&
                      decide (cfg.size ≤ waitingCount o.reqs)
  | .enq _ _ .push => decide (cfg.quota ≤ grantsIn cfg (o.now / cfg.win) o.grants) &&
                      decide (waitingCount o.reqs < cfg.size)
  | .park r => phaseOf o.reqs r == .gap
  | .roll rel => rel.all (fun a => (phaseOf o.reqs a).isParked) && decide rel.Nodup &&
                 decide (grantsIn cfg (o.now / cfg.win) o.grants + rel.length ≤ cfg.quota)
  | .expire r => match phaseOf o.reqs r with
                 | .parked dl => decide (dl ≤ o.now)
                 | _ => false
  | .finish r ok => if ok then phaseOf o.reqs r == .wokeDone else phaseOf o.reqs r == .wokeTTL

/-- FAIRNESS part (order and no stranding) at full strength:
    * a newcomer takes a slot at once only when nobody is waiting for a turn;
    * a roll-over never releases `a` while a waiting `b` with a strictly better key stays behind;
    * after a roll-over either every waiting request was released or the window quota is used up. -/
def fairOk (cfg : Cfg) (o : Obs) : Ev → Bool
  | .enq _ _ .pass => (liveIds o.reqs).isEmpty
  | .roll rel =>
    (liveIds o.reqs).all (fun b => rel.contains b ||
        rel.all (fun a => !keyLt (getReq o.reqs b) (getReq o.reqs a))) &&
    ((liveIds o.reqs).all (fun b => rel.contains b) ||
      decide (grantsIn cfg (o.now / cfg.win) o.grants + rel.length = cfg.quota))
  | _ => true

/-- Class of finding F10a (lost hand-off): a roll-over ran while some pushed request was still
    between the unlock and the `select`. -/
def f10aEv (o : Obs) : Ev → Bool
  | .roll _ => !(gapIds o.reqs).isEmpty
  | _ => false

/-- Class of finding F10b (late roll-over): a newcomer took a slot while requests were waiting and the
    roll-over of the current window had not run yet. -/
def f10bEv (cfg : Cfg) (o : Obs) : Ev → Bool
  | .enq _ _ .pass => !(liveIds o.reqs).isEmpty && (o.served != o.now / cfg.win)
  | _ => false

def safeFrom (cfg : Cfg) : Obs → List Ev → Bool
  | _, [] => true
  | o, e :: es => safeOk cfg o e && safeFrom cfg (obsStep cfg o e) es

def fairFrom (cfg : Cfg) : Obs → List Ev → Bool
  | _, [] => true
  | o, e :: es => fairOk cfg o e && fairFrom cfg (obsStep cfg o e) es

/-- No event of the history (oldest first) falls in the class of F10a / F10b. -/
def cleanFrom (cfg : Cfg) : Obs → List Ev → Bool
  | _, [] => true
  | o, e :: es => !f10aEv o e && !f10bEv cfg o e && cleanFrom cfg (obsStep cfg o e) es

/-- The whole property on a history given oldest first. -/
def holds (cfg : Cfg) (t0 : Nat) (es : List Ev) : Bool :=
  safeFrom cfg (Obs.init cfg t0) es && fairFrom cfg (Obs.init cfg t0) es

def safe (cfg : Cfg) (t0 : Nat) (es : List Ev) : Bool := safeFrom cfg (Obs.init cfg t0) es
def fair (cfg : Cfg) (t0 : Nat) (es : List Ev) : Bool := fairFrom cfg (Obs.init cfg t0) es
def clean (cfg : Cfg) (t0 : Nat) (es : List Ev) : Bool := cleanFrom cfg (Obs.init cfg t0) es

/-- Verdict for the judge: `none` = holds; `some (finding, index, what)` for the first offending
    event.  A fairness failure is attributed to F10b when the event itself is a late-roll-over
    overtaking, else to F10a when a roll-over with a request in the gap happened at or before it. -/
def firstFail (cfg : Cfg) : Obs → List Ev → Nat → Bool → Option (String × Nat × String)
  | _, [], _, _ => none
  | o, e :: es, i, a =>
    let a' := a || f10aEv o e
    if !safeOk cfg o e then some ("-", i, "safety")
    else if !fairOk cfg o e then
      some (if f10bEv cfg o e then "F10b" else if a' then "F10a" else "-", i, "fairness")
    else firstFail cfg (obsStep cfg o e) es (i + 1) a'

end LunarVerif.C10
