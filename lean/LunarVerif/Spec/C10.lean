import LunarVerif.Model.C10
/-
Property C10 over the OBSERVABLE history only: the events a harness around the real queue sees
(clock ticks, result of each Enqueue's locked section and the waiters it served, "r entered its
select", which waiters a roll-over handed off, which TTL timers fired, which Enqueue calls returned
what).  The observer re-builds, from the events alone, each request's phase and the grant instants.
Nothing of the queue's hidden state (heap, counter, window end, timer) appears here.  Only `Cfg`,
`Req`, `Phase`, `Ev`, `keyLt` and list helpers are shared with the model.
-/
namespace LunarVerif.C10

structure Obs where
  now    : Nat
  reqs   : List Req
  grants : List Nat   -- instants of every grant (immediate pass or hand-off)
deriving Repr, DecidableEq

def Obs.init (_cfg : Cfg) (t0 : Nat) : Obs := ⟨t0, [], []⟩

/-- Grants whose instant lies in aligned window `w`. -/
def grantsIn (cfg : Cfg) (w : Nat) (grants : List Nat) : Nat := grants.countP (fun t => t / cfg.win == w)

/-- Hand-off to each request of the list, in order. -/
def handAll (reqs : List Req) : List Nat → List Req
  | [] => reqs
  | r :: rs => handAll (setPhase reqs r (phaseOf reqs r).handoff) rs

/-- Phase of a request after it entered its select at instant `now`. -/
def parkPhase (now : Nat) (q : Req) : Phase :=
  match q.ph with
  | .gapDone => .wokeDone
  | _ => .parked (now + q.ttl)

def obsStep (_cfg : Cfg) (o : Obs) : Ev → Obs
  | .tick d => { o with now := o.now + d }
  | .enq p ttl .pass rel => { o with reqs := handAll o.reqs rel ++ [⟨p, o.now, ttl, .passed⟩],
                                     grants := o.now :: (rel.map (fun _ => o.now) ++ o.grants) }
  | .enq p ttl .full rel => { o with reqs := handAll o.reqs rel ++ [⟨p, o.now, ttl, .full⟩],
                                     grants := rel.map (fun _ => o.now) ++ o.grants }
  | .enq p ttl .push rel => { o with reqs := handAll o.reqs rel ++ [⟨p, o.now, ttl, .gap⟩],
                                     grants := rel.map (fun _ => o.now) ++ o.grants }
  | .park r => { o with reqs := setPhase o.reqs r (parkPhase o.now (getReq o.reqs r)) }
  | .roll rel => { o with reqs := handAll o.reqs rel, grants := rel.map (fun _ => o.now) ++ o.grants }
  | .expire r => { o with reqs := setPhase o.reqs r .wokeTTL }
  | .finish r ok => { o with reqs := setPhase o.reqs r (if ok then .retT else .retF) }

/-- ids of the requests still waiting for their turn (pushed, neither handed off nor expired). -/
def eligIds (reqs : List Req) : List Nat :=
  (List.range reqs.length).filter (fun i => (phaseOf reqs i).eligible)

/-- Safety of one batch of hand-offs: only waiting requests, each once, within the window quota. -/
def relSafe (cfg : Cfg) (o : Obs) (rel : List Nat) : Bool :=
  rel.all (fun a => (phaseOf o.reqs a).eligible) && decide rel.Nodup &&
  decide (grantsIn cfg (o.now / cfg.win) o.grants + rel.length ≤ cfg.quota)

/-- Fairness of one batch of hand-offs: no waiting request with a strictly better key than a
    released one stays behind, and either every waiting request was released or the quota is used up. -/
def relFair (cfg : Cfg) (o : Obs) (rel : List Nat) : Bool :=
  (eligIds o.reqs).all (fun b => rel.contains b ||
      rel.all (fun a => !keyLt (getReq o.reqs b) (getReq o.reqs a))) &&
  ((eligIds o.reqs).all (fun b => rel.contains b) ||
    decide (grantsIn cfg (o.now / cfg.win) o.grants + rel.length = cfg.quota))

/-- SAFETY part: releases per aligned window ≤ quota; waiters ≤ size; a request is rejected only
    when the queue is full (and the window quota used up) or when its TTL really elapsed and no
    hand-off reached it; well-formedness of the events. -/
def safeOk (cfg : Cfg) (o : Obs) : Ev → Bool
  | .tick _ => true
  | .enq _ _ .pass rel => relSafe cfg o rel &&
      decide (grantsIn cfg (o.now / cfg.win) o.grants + rel.length < cfg.quota)
  | .enq _ _ .full rel => relSafe cfg o rel &&
      decide (cfg.quota ≤ grantsIn cfg (o.now / cfg.win) o.grants + rel.length) &&
      decide (cfg.size ≤ waitingCount o.reqs)
  | .enq _ _ .push rel => relSafe cfg o rel &&
      decide (cfg.quota ≤ grantsIn cfg (o.now / cfg.win) o.grants + rel.length) &&
      decide (waitingCount o.reqs < cfg.size)
  | .park r => phaseOf o.reqs r == .gap || phaseOf o.reqs r == .gapDone
  | .roll rel => relSafe cfg o rel
  | .expire r => match phaseOf o.reqs r with
                 | .parked dl => decide (dl ≤ o.now)
                 | _ => false
  | .finish r ok => if ok then phaseOf o.reqs r == .wokeDone || phaseOf o.reqs r == .wokeTTLDone
                    else phaseOf o.reqs r == .wokeTTL

/-- FAIRNESS part (order and no stranding): every batch of hand-offs — by a roll-over or by an
    Enqueue serving the waiters before the newcomer — is fair.  Together with the safety clause of
    `pass` (quota not used up after the batch) this means: a newcomer takes a slot at once only when
    nobody is left waiting. -/
def fairOk (cfg : Cfg) (o : Obs) : Ev → Bool
  | .enq _ _ _ rel => relFair cfg o rel
  | .roll rel => relFair cfg o rel
  | _ => true

def safeFrom (cfg : Cfg) : Obs → List Ev → Bool
  | _, [] => true
  | o, e :: es => safeOk cfg o e && safeFrom cfg (obsStep cfg o e) es

def fairFrom (cfg : Cfg) : Obs → List Ev → Bool
  | _, [] => true
  | o, e :: es => fairOk cfg o e && fairFrom cfg (obsStep cfg o e) es

/-- The whole property on a history given oldest first. -/
def holds (cfg : Cfg) (t0 : Nat) (es : List Ev) : Bool :=
  safeFrom cfg (Obs.init cfg t0) es && fairFrom cfg (Obs.init cfg t0) es

def safe (cfg : Cfg) (t0 : Nat) (es : List Ev) : Bool := safeFrom cfg (Obs.init cfg t0) es
def fair (cfg : Cfg) (t0 : Nat) (es : List Ev) : Bool := fairFrom cfg (Obs.init cfg t0) es

/-- Verdict for the judge: `none` = holds; `some (finding, index, what)` for the first offending
    event (no open finding class is left for C10: the finding id is always `-`). -/
def firstFail (cfg : Cfg) : Obs → List Ev → Nat → Option (String × Nat × String)
  | _, [], _ => none
  | o, e :: es, i =>
    if !safeOk cfg o e then some ("-", i, "safety")
    else if !fairOk cfg o e then some ("-", i, "fairness")
    else firstFail cfg (obsStep cfg o e) es (i + 1)

/-- Plugin level (`StrategyBasedQueuePlugin`): `k` concurrent FIRST requests for one fresh remedy
    key at one instant.  Observables: queues created for the key, requests answered NoOp at once,
    requests left waiting, requests answered 429.  One queue per key; its window quota and size hold;
    nobody is rejected unless the queue is full and the quota used up. -/
def burstOk (cfg : Cfg) (k created pass wait rej : Nat) : Bool :=
  decide (created = 1) && decide (pass ≤ cfg.quota) && decide (wait ≤ cfg.size) &&
  decide (pass + wait + rej = k) &&
  (decide (rej = 0) || (decide (cfg.quota ≤ pass) && decide (cfg.size ≤ wait)))

/-- Policies-file level: a declared strategy_based_queue remedy (endpoint 0 = global). -/
structure Decl where
  ep : Nat
  name : Nat
  quota : Nat
  winsec : Nat
  size : Nat
  ttlsec : Nat
deriving Repr, DecidableEq

def Decl.valid (d : Decl) : Bool :=
  decide (1 ≤ d.quota) && decide (1 ≤ d.winsec) && decide (1 ≤ d.size) && decide (1 ≤ d.ttlsec) &&
  decide (d.ttlsec < 30)   -- TTL must stay below the (default) SPOE processing timeout

inductive FileVerdict | accepted | duplicateNames | other
deriving Repr, DecidableEq

/-- What the policies reader must answer: policy names are unique across the WHOLE file (global and
    every endpoint), because the name is what identifies a remedy's queue. -/
def fileVerdict (ds : List Decl) : FileVerdict :=
  if !(decide (ds.map (·.name)).Nodup) then .duplicateNames
  else if ds.all (·.valid) then .accepted else .other

/-- Release order of a real-clock burst (quota 1 per window): by priority, then arrival. -/
def burstOrderOk (prios : List Nat) (order : List Nat) : Bool :=
  decide (order.length = prios.length) && decide order.Nodup && order.all (· < prios.length) &&
  (List.range order.length).all fun i => (List.range order.length).all fun j =>
    !(decide (i < j)) ||
      (let a := order.getD i 0; let b := order.getD j 0
       decide (prios.getD a 0 < prios.getD b 0) || (decide (prios.getD a 0 = prios.getD b 0) && decide (a < b)))

/-- Number of immediate passes in a history. -/
def passCount : List Ev → Nat
  | [] => 0
  | .enq _ _ .pass _ :: es => passCount es + 1
  | _ :: es => passCount es

end LunarVerif.C10
