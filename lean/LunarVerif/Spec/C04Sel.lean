import LunarVerif.Spec.C04
import LunarVerif.Model.C04Sel
/-
Reference interpreter with flow filters: the flows that take part in a phase are those whose filter accepts the
transaction (`Filter.qualifies`, the subject of C03 — taken as given here); after a processor answered the
request the response phase runs over the flows whose filter accepts the SAME request seen as a response that does
not exist yet (same method; status-code filters cannot be satisfied).
-/
namespace LunarVerif.C04
open LunarVerif.FlowGraph LunarVerif.FlowExec

def sselectFor (filters : List (String × Filter)) (t : TxnAttrs) (p : Phase) (c : SCfg) : SCfg :=
  let ok := fun (f : SFlow) =>
    match filters.find? (·.1 == f.name) with
    | some (_, fl) => fl.qualifies t p
    | none => true
  let wild := fun (f : SFlow) =>
    match filters.find? (·.1 == f.name) with
    | some (_, fl) => fl.url == "*"
    | none => false
  let arrange := fun (l : List SFlow) => (l.filter ok).filter wild ++ (l.filter ok).filter (!wild ·)
  { start := arrange c.start, user := arrange c.user, finish := arrange c.finish }

/-- request transaction: `c` = flows of the request phase, `c'` = flows of the early-response phase -/
def stxnReq2 (c c' : SCfg) (o : Oracle) (fuel : Nat) : STxn :=
  let a := sall o .req fuel c.start
  if a.err.isSome then { trace := a.trace, err := a.err } else
  let (bt, sc, be) := suserReq o fuel c.user
  if be.isSome then { trace := a.trace ++ bt, err := be } else
  let e := sall o .req fuel c.finish
  if e.err.isSome then { trace := a.trace ++ bt ++ e.trace, err := e.err, answered := sc } else
  match sc with
  | none => { trace := a.trace ++ bt ++ e.trace }
  | some (f, k) =>
    let (rt, re) := sresponse c' o fuel (some (f.name, k))
    { trace := a.trace ++ bt ++ e.trace ++ rt, err := re, answered := sc }

theorem stxnReq2_same (c : SCfg) (o : Oracle) (fuel : Nat) : stxnReq2 c c o fuel = stxn c o fuel .req := rfl

def stxnSel (filters : List (String × Filter)) (t : TxnAttrs) (c : SCfg) (o : Oracle) (fuel : Nat) : Dir → STxn
  | .req => stxnReq2 (sselectFor filters t .req c) (sselectFor filters t .early c) o fuel
  | .res => stxn (sselectFor filters t .res c) o fuel .res

/-- judge of one transaction with filters -/
def judgeTxnSel (filters : List (String × Filter)) (t : TxnAttrs) (c : SCfg) (users : List String)
    (inst : String → String → String) (o : Oracle) (d : Dir) (observed : List Event) (err : Option ExecErr) :
    Option (String × String) :=
  if !sysQuiet c o then none else
  let s := stxnSel filters t c o (specFuel c) d
  let tr := observable users inst s.trace
  if observed == tr && err == s.err then none
  else
    let fid := (finding s).getD "-"
    let n := (List.zip observed tr).takeWhile (fun p => p.1 == p.2) |>.length
    some (fid, s!"observed-differs-from-reference-at-event {n} (observed {observed.length} events, reference {tr.length})")

end LunarVerif.C04
