import LunarVerif.Model.C12Conc
import LunarVerif.Spec.C12
/-
C12 for concurrent callers, over the observable log only (`IRec`, most recent first):
  * a Get that returns `v` (Has that returns true) having read the clock at `tc`, whose map lookup happened when
    the log held its oldest `pos` records: the most recent successful Set of that key among those records stored
    `v` (for Get) and `tc ≤ stamp + ttl`, `stamp` being the clock value that Set read — "same key, fresh, no later
    Set of the key before the lookup";
  * size clause (only with `sizeClause = true`): every probe sees held ≤ tracked ≤ max.
-/
namespace LunarVerif.C12

section
variable {κ ν : Type} [DecidableEq κ] [DecidableEq ν]

/-- most recent successful Set of `k` (value, clock reading, ttl); log most recent first -/
def lastIns (k : κ) : List (IRec κ ν) → Option (ν × Int × Int)
  | [] => none
  | .ins k' v st ttl _ :: older => if k' = k then some (v, st, ttl) else lastIns k older
  | _ :: older => lastIns k older

/-- the oldest `pos` records -/
def oldest {α : Type} (h : List α) (pos : Nat) : List α := h.drop (h.length - pos)

def freshIns (v? : Option ν) (tc : Int) : Option (ν × Int × Int) → Bool
  | none => false
  | some (v, st, ttl) => (match v? with | some w => decide (w = v) | none => true) && decide (tc ≤ st + ttl)

def iRecOk (sizeClause : Bool) (cfg : Cfg) (r : IRec κ ν) (older : List (IRec κ ν)) : Bool :=
  match r with
  | .ret k (some v) tc pos => decide (pos ≤ older.length) && freshIns (some v) tc (lastIns k (oldest older pos))
  | .hasRet k true tc pos => decide (pos ≤ older.length) && freshIns none tc (lastIns k (oldest older pos))
  | .probe tracked held =>
    !sizeClause || !cfg.sizeOn ||
      (decide ((held : Int) ≤ tracked) && decide (tracked ≤ cfg.max) && decide ((held : Int) ≤ cfg.max))
  | _ => true

/-- the property on a log given most recent first -/
def iholdsRev (sizeClause : Bool) (cfg : Cfg) : List (IRec κ ν) → Bool
  | [] => true
  | r :: older => iRecOk sizeClause cfg r older && iholdsRev sizeClause cfg older

end

end LunarVerif.C12
