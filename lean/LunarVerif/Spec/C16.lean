import LunarVerif.Model.C16
/-
Property C16 in observable terms: the input document, the exclusion list, the entry point and the
output document.  Nothing of the walk (`isCursorInExcludedPath`, cursor threading, prefix trimming)
appears here: positions are structural paths, an exclusion *denotes* a position only by exact
equality with the rendering of that position in the notation of the entry point, and a position is
covered when it or one of its ancestors is denoted.
-/
namespace LunarVerif.C16

/-- One step of a structural path. The index of an array step does not show in the rendering. -/
inductive Step where
  | key (k : Str)
  | elem (i : Nat)
deriving DecidableEq, Repr

def Step.render : Step → Str
  | .key k => '.' :: k
  | .elem _ => ['[', ']']

/-- Path (root first) in the dotted notation: `.a.b[]`. -/
def render : List Step → Str
  | [] => []
  | s :: p => s.render ++ render p

/-- The two supported notations.  Dotted: the exclusion IS the dotted path (`.user.name`).  JSONPath:
    the exclusion is `$.request.body` / `$.response.body` followed by the dotted path.
    `raw` (`ObfuscateJSON` called with the list as is — the policy-mode lists `request_body_paths` /
    `response_body_paths`) accepts both; the flow-mode collector (`req` / `resp`) accepts the JSONPath
    notation rooted at ITS side of the transaction. -/
def denotes (side : Side) (e c : Str) : Bool :=
  match side with
  | .raw => e == c || e == reqPrefix ++ c || e == respPrefix ++ c
  | .req => e == reqPrefix ++ c
  | .resp => e == respPrefix ++ c

/-- The position with rendering `c` is explicitly excluded. -/
def specExcluded (side : Side) (ex : List Str) (c : Str) : Bool := ex.any (fun e => denotes side e c)

/-- Walking from the position `p0` down the remaining path: true as soon as the position reached so
    far satisfies `E` (on its rendering). -/
def coveredFrom (E : Str → Bool) (p0 : List Step) : List Step → Bool
  | [] => E (render p0)
  | s :: p => E (render p0) || coveredFrom E (p0 ++ [s]) p

/-- `p` or one of its ancestors (root included) satisfies `E`. -/
def coveredBy (E : Str → Bool) (p : List Step) : Bool := coveredFrom E [] p

/-- `p` lies on or under an explicitly excluded path. -/
def covered (side : Side) (ex : List Str) (p : List Step) : Bool := coveredBy (specExcluded side ex) p

def isLeaf : Json → Bool
  | .arr _ => false
  | .obj _ => false
  | _ => true

/-- Sub-document at a structural path (first field of that name, as every JSON reader does). -/
def getAt : List Step → Json → Option Json
  | [], v => some v
  | .key k :: p, .obj kvs => (getFirst k kvs).bind (getAt p)
  | .elem i :: p, .arr xs => xs[i]?.bind (getAt p)
  | _ :: _, _ => none

mutual
/-- `out` is what the property demands for document `d` rooted at path `p`, for an exclusion predicate
    `E` on rendered paths: excluded ⇒ verbatim; otherwise containers keep their keys (in order) /
    length and primitives become the string `H(pre-image)`. -/
def conformsWith (H : Str → Str) (E : Str → Bool) (p : List Step) : Json → Json → Bool
  | .arr xs, out =>
    if E (render p) then out.beq (.arr xs)
    else match out with
      | .arr ys => conformsList H E p 0 xs ys
      | _ => false
  | .obj kvs, out =>
    if E (render p) then out.beq (.obj kvs)
    else match out with
      | .obj ovs => conformsFields H E p kvs ovs
      | _ => false
  | v, out => if E (render p) then out.beq v else out.beq (.str (H (leafPre v)))
def conformsList (H : Str → Str) (E : Str → Bool) (p : List Step) (i : Nat) : List Json → List Json → Bool
  | [], [] => true
  | x :: xs, y :: ys => conformsWith H E (p ++ [.elem i]) x y && conformsList H E p (i + 1) xs ys
  | _, _ => false
def conformsFields (H : Str → Str) (E : Str → Bool) (p : List Step) :
    List (Str × Json) → List (Str × Json) → Bool
  | [], [] => true
  | (k, v) :: r, (k', o) :: r' => k == k' && conformsWith H E (p ++ [.key k]) v o && conformsFields H E p r r'
  | _, _ => false
end

/-- THE property: output `out` for input `d`, exclusions `ex`, entry point `side`. -/
def holds (H : Str → Str) (side : Side) (ex : List Str) (d out : Json) : Bool :=
  conformsWith H (specExcluded side ex) [] d out

/-- No two fields with the same name. -/
def noDupKeys : List (Str × Json) → Bool
  | [] => true
  | (k, _) :: r => !(r.any (fun kv => kv.1 == k)) && noDupKeys r

mutual
/-- Well-formed document: no object has two fields with the same name (RFC 8259 "SHOULD"). -/
def wellFormed : Json → Bool
  | .arr xs => wellFormedList xs
  | .obj kvs => noDupKeys kvs && wellFormedFields kvs
  | _ => true
def wellFormedList : List Json → Bool
  | [] => true
  | x :: xs => wellFormed x && wellFormedList xs
def wellFormedFields : List (Str × Json) → Bool
  | [] => true
  | (_, v) :: r => wellFormed v && wellFormedFields r
end

mutual
/-- Keys, nesting and array lengths: the document with every primitive replaced by `null`. -/
def shape : Json → Json
  | .arr xs => .arr (shapeList xs)
  | .obj kvs => .obj (shapeFields kvs)
  | _ => .null
def shapeList : List Json → List Json
  | [] => []
  | x :: xs => shape x :: shapeList xs
def shapeFields : List (Str × Json) → List (Str × Json)
  | [] => []
  | (k, v) :: r => (k, shape v) :: shapeFields r
end

/-- The property on any body and any answer: a JSON body (without repeated names) must come back as
    a document satisfying `holds`; a body that is not JSON has no paths, so nothing of it may come
    back in clear: an error (`raw`), the hash of the whole body, or the empty body when it was empty.
    (Bodies with repeated names in one object are outside the property: only a document is required.) -/
def holdsOutcome (H : Str → Str) (side : Side) (ex : List Str) : Input → Outcome → Bool
  | .json d, .doc out => !(wellFormed d) || holds H side ex d out
  | .json _, _ => false
  | .notJson _, .parseError => side == .raw
  | .notJson e, .whole => side != .raw && !e
  | .notJson e, .empty => side != .raw && e
  | .notJson _, _ => false

/-- The property on a whole transaction exported by the flow-mode collector: each body is judged
    against the exclusions of ITS OWN side only (a request-body exclusion says nothing about the
    response body and vice versa). -/
def holdsTxn (H : Str → Str) (ex : List Str) (reqBody respBody : Input) (o : Outcome × Outcome) : Bool :=
  holdsOutcome H .req ex reqBody o.1 && holdsOutcome H .resp ex respBody o.2

/-- The property on several overlapping calls: every answer satisfies the property for ITS OWN body and
    exclusions (nothing of another call's body may appear in it, nothing of its own may be missing). -/
def holdsMany (H : Str → Str) : List (List Str × Input) → List Outcome → Bool
  | [], [] => true
  | c :: cs, o :: os => holdsOutcome H .raw c.1 c.2 o && holdsMany H cs os
  | _, _ => false

/-- One body exported in policy mode under the settings `(obfuscate, paths)` that must apply to it: with
    obfuscation on, a JSON body comes back as a document satisfying the property and any other body as the
    hash of the whole body; with obfuscation off the body is exported as is. -/
def holdsExported (H : Str → Str) (obfuscate : Bool) (paths : List Str) : Input → Outcome → Bool
  | _, .clear => !obfuscate
  | .json d, .doc out => obfuscate && (!(wellFormed d) || holds H .raw paths d out)
  | .notJson _, .whole => obfuscate
  | _, _ => false

def holdsRecords (H : Str → Str) (reqBody respBody : Input) : List Diag → List (Outcome × Outcome) → Bool
  | [], [] => true
  | d :: ds, o :: os =>
    holdsExported H d.obfuscate d.reqPaths reqBody o.1 && holdsExported H d.obfuscate d.respPaths respBody o.2 &&
      holdsRecords H reqBody respBody ds os
  | _, _ => false

/-- The property on a policy-mode transaction: exactly one record per ENABLED diagnosis (endpoint ones
    first, declaration order), each obeying the obfuscation settings of THAT diagnosis — never those of
    a disabled or of another diagnosis. -/
def holdsPolicy (H : Str → Str) (ds : List Diag) (reqBody respBody : Input) (records : List (Outcome × Outcome)) : Bool :=
  holdsRecords H reqBody respBody
    ((ds.filter fun d => d.endpoint && d.enabled) ++ (ds.filter fun d => !d.endpoint && d.enabled)) records

/-- Classifier of a failing case: no finding of C16 is open (F16a, F16b repaired by fixes/F16a.patch). -/
def finding (_side : Side) (_ex : List Str) (_d : Json) : Option String := none

end LunarVerif.C16
