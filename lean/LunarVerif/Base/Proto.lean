/-
Line protocol shared by every driver (core Lean only, no Mathlib).

ops file   : one operation per line, words separated by single spaces; strings are
             percent-encoded (`pctEnc`) so that no word contains a space, tab, '%' or newline.
run mode   : the driver prints exactly one output line per op line.
judge mode : stdin lines are `<op>\t<implementation output>`; the driver prints one verdict
             line per case:  `case <id> ok` | `case <id> fail <finding-id|-> <message>`.
A case starts with the op `case <id>`; both sides answer it with `case <id>`.
-/
namespace LunarVerif.Proto

def hexDigit (n : Nat) : Char :=
  if n < 10 then Char.ofNat (48 + n) else Char.ofNat (55 + n)

def hexVal (c : Char) : Option Nat :=
  if '0' ≤ c ∧ c ≤ '9' then some (c.toNat - 48)
  else if 'A' ≤ c ∧ c ≤ 'F' then some (c.toNat - 55)
  else if 'a' ≤ c ∧ c ≤ 'f' then some (c.toNat - 87)
  else none

/-- Percent-encode every byte outside `[A-Za-z0-9._~:/{}*,=+@$-]`; the empty string is `%00%`-free
    and written as `%e`. -/
def pctEnc (s : String) : String :=
  if s.isEmpty then "%e" else
  s.toUTF8.foldl (init := "") fun acc b =>
    let c := Char.ofNat b.toNat
    if c.isAlphanum || "._~:/{}*,=+@$-".contains c then acc.push c
    else acc ++ "%" ++ String.singleton (hexDigit (b.toNat / 16)) ++ String.singleton (hexDigit (b.toNat % 16))

def pctDecBytes : List Char → ByteArray → ByteArray
  | [], acc => acc
  | '%' :: a :: b :: rest, acc =>
    match hexVal a, hexVal b with
    | some x, some y => pctDecBytes rest (acc.push (UInt8.ofNat (x * 16 + y)))
    | _, _ => pctDecBytes rest acc
  | c :: rest, acc => pctDecBytes rest (c.toString.toUTF8.foldl (fun a b => a.push b) acc)

def pctDec (s : String) : String :=
  if s == "%e" then "" else
  match String.fromUTF8? (pctDecBytes s.toList ByteArray.empty) with
  | some r => r
  | none => s

def words (line : String) : List String :=
  (line.splitOn " ").filter (· ≠ "")

def stripNl (s : String) : String :=
  let s := if s.endsWith "\n" then (s.dropEnd 1).toString else s
  if s.endsWith "\r" then (s.dropEnd 1).toString else s

/-- `k=v` lookup in a word list. -/
def kv (ws : List String) (k : String) : Option String :=
  ws.findSome? fun w => if w.startsWith (k ++ "=") then some ((w.drop (k.length + 1)).toString) else none

def kvNat (ws : List String) (k : String) : Option Nat := (kv ws k).bind String.toNat?
def kvInt (ws : List String) (k : String) : Option Int := (kv ws k).bind String.toInt?

/-- Run a line-by-line state machine over stdin: one output line per input line. -/
partial def runLoop {σ : Type} (step : σ → String → σ × String) (init : σ) : IO Unit := do
  let stdin ← IO.getStdin
  let stdout ← IO.getStdout
  let rec loop (s : σ) : IO Unit := do
    let line ← stdin.getLine
    if line.isEmpty then
      stdout.flush
      return ()
    let (s', out) := step s (stripNl line)
    stdout.putStrLn out
    loop s'
  loop init

/-- Judge loop: `step` sees (op, implOutput) pairs; `finish` is called at each case end and
    returns the verdict text (`ok` or `fail <finding|-> <msg>`). -/
partial def judgeLoop {σ : Type} (fresh : σ) (step : σ → String → String → σ)
    (finish : σ → String) : IO Unit := do
  let stdin ← IO.getStdin
  let stdout ← IO.getStdout
  let rec loop (cur : Option String) (s : σ) : IO Unit := do
    let line ← stdin.getLine
    if line.isEmpty then
      match cur with
      | some id => stdout.putStrLn s!"case {id} {finish s}"
      | none => pure ()
      stdout.flush
      return ()
    let l := stripNl line
    let (op, out) := match l.splitOn "\t" with
      | [a, b] => (a, b)
      | a :: _ => (a, "")
      | [] => ("", "")
    match words op with
    | ["case", id] =>
      match cur with
      | some old => stdout.putStrLn s!"case {old} {finish s}"
      | none => pure ()
      loop (some id) fresh
    | _ => loop cur (step s op out)
  loop none fresh

end LunarVerif.Proto
