#!/usr/bin/env python3
"""Print the auto-generated status tables for DESIGN.md section 10 (checks, findings, seeds)."""
import json, os, subprocess, sys
ROOT = os.path.dirname(os.path.dirname(os.path.abspath(__file__)))
man = json.load(open(os.path.join(ROOT, "MANIFEST.json")))
print("### 10.2 Registered checks (from MANIFEST.json and the last evidence files)\n")
print("| property | theorems (discharged/obligations) | quick-tier cases | known findings re-observed | wall s (quick) |")
print("|---|---|---|---|---|")
for c in man["checks"]:
    pid = c["property_id"]
    ev = {}
    p = os.path.join(ROOT, "evidence", pid + ".json")
    if os.path.exists(p):
        ev = json.load(open(p))
    cov = ev.get("coverage", {})
    print("| %s | %s/%s | %s | %s | %s |" % (pid, cov.get("discharged", "?"), cov.get("obligations", "?"),
          cov.get("traces_validated_against_impl", "?"), ", ".join(sorted(cov.get("known_findings_reobserved", {}))) or "–",
          ev.get("wall_s", "?")))
na = man.get("not_applicable", [])
if na:
    print("\nNot (yet) claimed: " + ", ".join(n["property_id"] for n in na))
k = json.load(open(os.path.join(ROOT, "known_findings.json")))
print("\n### 10.3 Findings\n")
print("Open (recorded in known_findings.json; each re-observed by its corpus replay on every run):\n")
print("| id | property | what fails | site |")
print("|---|---|---|---|")
for f in sorted(k["findings"], key=lambda f: f["id"]):
    print("| %s | %s | %s | %s |" % (f["id"], f["property"], f["what"].replace("|", "/")[:220], f.get("site", "").replace("|", "/")[:90]))
print("\nRepaired by `fix:` commits in /repo (entries `fixed:` in known_findings.json; they suppress nothing):\n")
print("| id | property | /repo commit | patch |")
print("|---|---|---|---|")
for f in sorted(k["fixed"], key=lambda f: f["id"]):
    print("| %s | %s | %s | %s |" % (f["id"], f["property"], f["commit"], f.get("patch", "")))
print("\n### 10.4 Seeded changes (independent sub-agents; confirmed by the lead; see seeded/<id>/)\n")
sys.stdout.flush()
subprocess.call([sys.executable, os.path.join(ROOT, "tools", "seed_table.py")])
