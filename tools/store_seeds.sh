#!/bin/bash
# tools/store_seeds.sh <worktree> <Cxx> <first-number> <round>  — copy <worktree>/SEEDS/s1,s2 to seeded/Cxx-s<first>,<first+1>, mark the round, remove the worktree
wt=$1; c=$2; n=$3; round=$4
cd "$(dirname "$0")/.."
for s in 1 2; do
  src=$wt/SEEDS/s$s; [ -d "$src" ] || continue
  dst=seeded/$c-s$((n+s-1)); mkdir -p $dst; cp -r $src/. $dst/
  python3 - $dst $round <<'PY'
import json,sys,os
p=os.path.join(sys.argv[1],'meta.json')
try: m=json.load(open(p))
except Exception: m={}
m['round']=int(sys.argv[2]); json.dump(m,open(p,'w'),indent=1)
PY
  echo "stored $dst: $(ls $dst | tr '\n' ' ')"
done
for f in $wt/SEEDS/*; do [ -f "$f" ] && mkdir -p seeded/$c-tools && cp "$f" seeded/$c-tools/; done
git -C /repo worktree remove --force $wt && git -C /repo worktree prune
