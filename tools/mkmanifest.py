#!/usr/bin/env python3
"""Regenerate MANIFEST.json from props/*.json (registered properties) + tools/manifest_base.json."""
import json, os
ROOT = os.path.dirname(os.path.dirname(os.path.abspath(__file__)))
base = json.load(open(os.path.join(ROOT, "tools", "manifest_base.json")))
ids = [json.loads(l)["id"] for l in open(os.path.join(ROOT, "properties.jsonl")) if l.strip()]
checks, na = [], []
for pid in ids:
    p = os.path.join(ROOT, "props", pid + ".json")
    props = json.load(open(p)) if os.path.exists(p) else {}
    m = props.get("manifest")
    if props.get("registered") and m:
        checks.append({
            "property_id": pid,
            "quick_cmd": "./check %s quick" % pid,
            "thorough_cmd": "./check %s thorough" % pid,
            "evidence_file": "/verif/evidence/%s.json" % pid,
            "replay_cmd_template": "./check %s --replay {path}" % pid,
            "engine": "lean4-proof+correspondence",
            "level_claimed": {"category": props.get("level", "proof"), "text": m["level_text"],
                              "design_ref": m.get("design_ref", "DESIGN.md section 5, " + pid)},
            "level_note": m["level_note"],
            "technique": m["technique"],
        })
    else:
        na.append({"property_id": pid, "reason": base["na_reasons"].get(pid, base["na_default"])})
man = {"version": 1, "setup_cmd": base["setup_cmd"], "hooks": base["hooks"], "engines": base["engines"],
       "checks": checks, "notes": base["notes"], "not_applicable": na}
json.dump(man, open(os.path.join(ROOT, "MANIFEST.json"), "w"), indent=1)
print("checks:", [c["property_id"] for c in checks], "not_applicable:", [n["property_id"] for n in na])
