#!/usr/bin/env python3
"""Replace the auto-generated block of DESIGN.md (between the AUTO:STATUS markers) by fresh tables."""
import os, subprocess, sys
ROOT = os.path.dirname(os.path.dirname(os.path.abspath(__file__)))
out = subprocess.check_output([sys.executable, os.path.join(ROOT, "tools", "design_status.py")], text=True)
p = os.path.join(ROOT, "DESIGN.md")
s = open(p).read()
b, e = "<!-- AUTO:STATUS BEGIN -->", "<!-- AUTO:STATUS END -->"
assert b in s and e in s
s = s[:s.index(b) + len(b)] + "\n" + out + "\n" + s[s.index(e):]
open(p, "w").write(s)
print("DESIGN.md status tables refreshed")
