#!/bin/bash
# tools/sweep.sh <tier> <seed>...   — run every registered check for the given seeds; print one line per run
tier=$1; shift
cd "$(dirname "$0")/.."
./check setup > /dev/null 2>&1
for s in "$@"; do
  for p in $(python3 -c "import json;print(' '.join(c['property_id'] for c in json.load(open('MANIFEST.json'))['checks']))"); do
    out=$(VERIF_SEED=$s ./check $p $tier 2>&1); rc=$?
    echo "seed=$s $p rc=$rc $(echo "$out" | grep -c '^VIOLATION') violations :: $(echo "$out" | tail -1 | cut -c1-150)"
    if [ $rc -ne 0 ]; then echo "$out" | grep '^VIOLATION'; fi
  done
done
