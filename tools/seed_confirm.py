#!/usr/bin/env python3
"""
tools/seed_confirm.py <seed-src-dir> <seed-id> [--tier quick|thorough] [--skip-suite]

Confirms a seeded change independently of the sub-agent that wrote it, in a fresh scratch worktree
of /repo (never in /repo itself), then runs the registered check of its property against it:
  1. git apply patch.diff; go build ./... in every touched Go module
  2. the module's existing test suite still passes (only the known offline failure
     TestLLMTokensProcessor is tolerated, as on the unchanged tree)
  3. the demonstration FAILS with the patch and PASSES without it
  4. VERIF_REPO=<worktree> ./check <property> <tier>   (expected: VIOLATION)
Copies patch.diff, the demonstration and meta.json to /verif/seeded/<seed-id>/ and records what was
run and observed in meta.json["lead_confirmation"].  The worktree is removed afterwards.
"""
import json
import os
import re
import shutil
import subprocess
import sys
import time

ROOT = os.path.dirname(os.path.dirname(os.path.abspath(__file__)))
GOENV = dict(os.environ, GOFLAGS="-mod=mod", GOPROXY="off", GOSUMDB="off", GOTOOLCHAIN="local")
KNOWN_OFFLINE_FAILURES = {"TestLLMTokensProcessor"}


def sh(cmd, cwd, timeout=3000, env=None, shell=False):
    p = subprocess.run(cmd, cwd=cwd, env=env or GOENV, shell=shell, timeout=timeout,
                       stdout=subprocess.PIPE, stderr=subprocess.STDOUT, text=True, errors="replace")
    return p.returncode, p.stdout


def modules_of(patch_text, wt):
    mods = set()
    for m in re.finditer(r"^\+\+\+ b/(\S+)", patch_text, re.M):
        d = os.path.dirname(os.path.join(wt, m.group(1)))
        while d.startswith(wt) and d != wt:
            if os.path.exists(os.path.join(d, "go.mod")):
                mods.add(d)
                break
            d = os.path.dirname(d)
    return sorted(mods)


ENGINE = "proxy/src/services/lunar-engine"
TOOLKIT = "proxy/src/libs/toolkit-core"
META_FILES = {"patch.diff", "demo.txt", "meta.json", "check_replay.ops", "confirm.json"}


def parse_demo(src, wt):
    """returns (copies [(file, dest dir relative to wt)], run command string).
    A hand-written confirm.json {"copies": [[file, destdir]], "cmd": "..."} overrides the heuristics."""
    cj = os.path.join(src, "confirm.json")
    if os.path.exists(cj):
        c = json.load(open(cj))
        return [tuple(x) for x in c["copies"]], c["cmd"]
    txt = open(os.path.join(src, "demo.txt")).read()
    demos = [f for f in sorted(os.listdir(src)) if f not in META_FILES and not f.startswith(".")]
    # the run command: the first line mentioning `go test` / `python3 <demo>`
    line = None
    for l in txt.splitlines():
        if re.search(r"\bgo test\b", l) or (re.search(r"\bpython3?\b", l) and any(d in l for d in demos)):
            line = l
            break
    if line is None:
        return [], None
    m = re.search(r"(go test[^`\n]*|python3?[^`\n]*)", line)
    core = m.group(1).strip().rstrip("\\").rstrip("&").strip().rstrip("` ")
    copies = []
    if core.startswith("go test"):
        pk = re.search(r"(?<![\w.])\./([\w./-]+)", core)
        pkg = pk.group(1).rstrip("/").rstrip(".") if pk else ""
        pkg = re.sub(r"/\.\.\.$", "", pkg)
        mod = None
        cdm = re.search(r"\bcd\s+(\S+)\s*&&", line)
        if cdm and pkg and os.path.isdir(os.path.join(wt, cdm.group(1).rstrip("/"), pkg)):
            mod = cdm.group(1).rstrip("/")
        for cand in () if mod else (ENGINE, TOOLKIT, "proxy/src/libs/shared-model", "proxy/src/services/aggregation-output-plugin"):
            if os.path.isdir(os.path.join(wt, cand, pkg)) and pkg:
                mod = cand
                break
        if mod is None:
            return [], None
        for d in demos:
            if d.endswith(".go"):
                copies.append((d, os.path.join(mod, pkg)))
        cmd = "cd %s && %s" % (mod, core)
    else:
        # python demo: run it from the seed directory against the worktree
        cmd = core
        for d in demos:
            cmd = re.sub(r"(?:\S*/)?" + re.escape(d), os.path.join(src, d), cmd)
        cmd = "cd %s && %s" % (wt, cmd)
    return copies, cmd


def main():
    src, sid = sys.argv[1], sys.argv[2]
    tier = "quick"
    if "--tier" in sys.argv:
        tier = sys.argv[sys.argv.index("--tier") + 1]
    skip_suite = "--skip-suite" in sys.argv
    meta = json.load(open(os.path.join(src, "meta.json")))
    pid = meta["property"]
    prev = meta.get("lead_confirmation")
    dst = os.path.join(ROOT, "seeded", sid)
    os.makedirs(dst, exist_ok=True)
    if os.path.realpath(src) != os.path.realpath(dst):
        for fn in os.listdir(src):
            shutil.copy(os.path.join(src, fn), os.path.join(dst, fn))
    wt = "/tmp/sv-" + sid
    subprocess.run(["git", "-C", "/repo", "worktree", "remove", "--force", wt], stderr=subprocess.DEVNULL)
    rc, out = sh(["git", "-C", "/repo", "worktree", "add", "-q", "--detach", wt, "HEAD"], "/")
    conf = {"when": time.strftime("%Y-%m-%dT%H:%M:%SZ", time.gmtime()), "repo_head": subprocess.check_output(
        ["git", "-C", "/repo", "rev-parse", "HEAD"], text=True).strip(), "steps": []}
    ok = True

    def step(name, good, detail):
        nonlocal ok
        conf["steps"].append({"step": name, "ok": bool(good), "detail": detail[-600:]})
        print("  [%s] %s" % ("ok" if good else "FAIL", name), flush=True)
        if not good:
            ok = False

    try:
        patch = os.path.join(dst, "patch.diff")
        rc, out = sh(["git", "apply", patch], wt)
        if rc != 0:
            # /repo moved on (fix: commits): fall back to a 3-way merge and keep the rebased patch
            rc3, out3 = sh(["git", "apply", "--3way", patch], wt)
            unmerged = subprocess.run(["git", "diff", "--name-only", "--diff-filter=U"], cwd=wt, stdout=subprocess.PIPE, text=True).stdout.strip()
            if rc3 == 0 and not unmerged:
                rebased = subprocess.run(["git", "diff", "HEAD"], cwd=wt, stdout=subprocess.PIPE, text=True).stdout
                subprocess.run(["git", "reset", "-q"], cwd=wt)
                shutil.copy(patch, patch + ".orig")
                open(patch, "w").write(rebased)
                meta["rebased_by_lead"] = "patch.diff re-generated by `git apply --3way` on the current /repo HEAD (the original, made before later fix: commits, is patch.diff.orig)"
                rc, out = 0, out3
            else:
                subprocess.run(["git", "reset", "-q", "--hard"], cwd=wt)
        step("git apply patch.diff", rc == 0, out)
        mods = modules_of(open(patch).read(), wt)
        is_go = bool(mods)
        if any(m.endswith("toolkit-core") for m in mods) and not any(m.endswith("lunar-engine") for m in mods):
            mods.append(os.path.join(wt, ENGINE))   # the engine's suite exercises toolkit-core through its replace
        for m in mods:
            if m.endswith("toolkit-core"):
                # `go build ./...` fails there on the unchanged tree too (package network); build/test what can be
                pk = subprocess.run("go list -e ./... | grep -v /network | grep -v /ai$", cwd=m, env=GOENV, shell=True,
                                    stdout=subprocess.PIPE, text=True).stdout.split()
                rc, out = sh(["go", "build"] + pk, m)
                step("go build (all but network/ai) in " + os.path.relpath(m, wt), rc == 0, out)
                tests = ["go", "test", "-vet=off", "-count=1", "-timeout", "25m"] + pk
            else:
                rc, out = sh(["go", "build", "./..."], m)
                step("go build ./... in " + os.path.relpath(m, wt), rc == 0, out)
                tests = ["go", "test", "-vet=off", "-count=1", "-timeout", "25m", "./..."]
            if not skip_suite:
                rc, out = sh(tests, m, timeout=3000)
                fails = set(re.findall(r"^\s*--- FAIL: (\S+)", out, re.M))
                fails = {f.split("/")[0] for f in fails}
                # timing-sensitive tests flake on a loaded machine: re-run unexpected failures alone
                flaky = set()
                for tname in sorted(fails - KNOWN_OFFLINE_FAILURES):
                    for _ in range(2):
                        rcx, outx = sh(["go", "test", "-vet=off", "-count=1", "-run", "^%s$" % tname, "./..."], m, timeout=1800)
                        if rcx == 0:
                            flaky.add(tname)
                            break
                fails -= flaky
                step("existing suite in %s (failures: %s; flaky, passed alone: %s)" % (
                    os.path.relpath(m, wt), sorted(fails) or "none", sorted(flaky) or "none"),
                     fails <= KNOWN_OFFLINE_FAILURES, out)
                # the suite dirties two tracked/untracked yaml files; restore
                sh("git checkout -- proxy/src/services/lunar-engine/streams/validation/policies.yaml 2>/dev/null; "
                   "rm -f proxy/src/services/lunar-engine/streams/policies.yaml", wt, shell=True)
        cj = os.path.join(dst, "confirm.json")
        if os.path.exists(cj) and json.load(open(cj)).get("suite_cmd") and not skip_suite:
            sc = json.load(open(cj))["suite_cmd"]
            rcs, outs = sh(sc, wt, shell=True, timeout=1800)
            step("existing tests that can run offline: " + sc, rcs == 0, outs)
        copies, cmd = parse_demo(dst, wt)
        if not cmd:
            step("parse demo.txt", False, "no run command found")
        else:
            copied = []
            for fn, dest in copies:
                d = os.path.join(wt, dest, fn)
                os.makedirs(os.path.dirname(d), exist_ok=True)
                shutil.copy(os.path.join(dst, fn), d)
                copied.append(d)
            conf["demo_cmd"] = cmd
            rc1, out1 = sh(cmd, wt, shell=True, timeout=1800)
            step("demonstration FAILS with the change", rc1 != 0, out1)
            rcr, outr = sh(["git", "apply", "-R", patch], wt)
            rc2, out2 = sh(cmd, wt, shell=True, timeout=1800)
            step("demonstration PASSES without the change", rcr == 0 and rc2 == 0, out2)
            for d in copied:
                os.unlink(d)
            sh(["git", "apply", patch], wt)
        # the registered check against the changed tree
        env = dict(os.environ, VERIF_REPO=wt)
        t0 = time.time()
        rc, out = sh([os.path.join(ROOT, "check"), pid, tier], ROOT, env=env, timeout=7200)
        vio = [l for l in out.splitlines() if l.startswith("VIOLATION")]
        conf["check"] = {"cmd": "VERIF_REPO=%s ./check %s %s" % (wt, pid, tier), "exit": rc, "violation_lines": vio,
                         "summary": out.strip().splitlines()[-1] if out.strip() else "", "wall_s": round(time.time() - t0, 1)}
        caught = rc == 1 and bool(vio)
        conf["caught"] = caught
        conf["caught_with_failing_input"] = caught and not vio[0].rstrip().endswith("no-failing-input-found")
        if vio:
            m = re.search(r"replay=(\S+)", vio[0])
            if m and os.path.exists(m.group(1)):
                shutil.copy(m.group(1), os.path.join(dst, "check_replay.ops"))
        print("  check: exit=%d %s" % (rc, vio[0] if vio else "(no VIOLATION line)"), flush=True)
    finally:
        subprocess.run(["git", "-C", "/repo", "worktree", "remove", "--force", wt])
        subprocess.run(["git", "-C", "/repo", "worktree", "prune"])
    if skip_suite and prev:
        conf["suite_confirmed_in_earlier_run"] = [st for st in prev.get("steps", []) if "existing suite" in st["step"]]
        conf["earlier_check_results"] = prev.get("earlier_check_results", []) + [prev.get("check")]
    conf["confirmed"] = ok
    meta["lead_confirmation"] = conf
    json.dump(meta, open(os.path.join(dst, "meta.json"), "w"), indent=1)
    print("%s: confirmed=%s caught=%s failing_input=%s" % (sid, ok, conf.get("caught"), conf.get("caught_with_failing_input")))


if __name__ == "__main__":
    main()
