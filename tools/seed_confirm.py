#!/usr/bin/env python3
"""
tools/seed_confirm.py <seed-src-dir> <seed-id> [--tier quick|thorough] [--skip-suite]

Confirms a seeded change independently of the sub-agent that wrote it, in a fresh scratch worktree
of /repo (never in /repo itself), then runs the registered check of its property against it:
  1. git apply patch.diff; go build ./... in every touched Go module
  2. the module's existing test suite still passes (only the known offline failure
     TestLLMTokensProcessor is tolerated, as on the unchanged tree)
  3. the demonstration FAILS with the patch and PASSES without it
  4. VERIF_REPO=<worktree> ./check <property> <tier>   (expected: VIOLATION)
Copies patch.diff, the demonstration and meta.json to /verif/seeded/<seed-id>/ and records what was
run and observed in meta.json["lead_confirmation"].  The worktree is removed afterwards.
"""
import json
import os
import re
import shutil
import subprocess
import sys
import time

ROOT = os.path.dirname(os.path.dirname(os.path.abspath(__file__)))
GOENV = dict(os.environ, GOFLAGS="-mod=mod", GOPROXY="off", GOSUMDB="off", GOTOOLCHAIN="local")
KNOWN_OFFLINE_FAILURES = {"TestLLMTokensProcessor"}


def sh(cmd, cwd, timeout=3000, env=None, shell=False):
    p = subprocess.run(cmd, cwd=cwd, env=env or GOENV, shell=shell, timeout=timeout,
                       stdout=subprocess.PIPE, stderr=subprocess.STDOUT, text=True, errors="replace")
    return p.returncode, p.stdout


def modules_of(patch_text, wt):
    mods = set()
    for m in re.finditer(r"^\+\+\+ b/(\S+)", patch_text, re.M):
        d = os.path.dirname(os.path.join(wt, m.group(1)))
        while d.startswith(wt) and d != wt:
            if os.path.exists(os.path.join(d, "go.mod")):
                mods.add(d)
                break
            d = os.path.dirname(d)
    return sorted(mods)


def parse_demo(src, wt):
    """returns (copies [(file, destdir-or-file)], run command string)"""
    txt = open(os.path.join(src, "demo.txt")).read()
    copies = []
    for m in re.finditer(r"cp\s+(?:\S*?/)?SEEDS/s\d+/(\S+)\s+(\S+)", txt):
        copies.append((m.group(1), m.group(2)))
    lines = txt.splitlines()
    cmd = None
    for i, l in enumerate(lines):
        if re.search(r"\b(go test|go run|python3?)\b", l) and "cp " not in l:
            # gather the command block: previous lines ending with && or \ belong to it
            j = i
            while j > 0 and re.search(r"(&&|\\)\s*$", lines[j - 1]):
                j -= 1
            k = i
            while re.search(r"(&&|\\)\s*$", lines[k]) and k + 1 < len(lines):
                k += 1
            block = " ".join(x.strip().rstrip("\\").strip() for x in lines[j:k + 1])
            # also pick up a preceding plain `cd …` / `export …` line pair
            pre = []
            jj = j - 1
            while jj >= 0 and re.match(r"\s*(cd |export )", lines[jj]):
                pre.insert(0, lines[jj].strip())
                jj -= 1
            cmd = " && ".join(pre + [block])
            break
    return copies, cmd


def main():
    src, sid = sys.argv[1], sys.argv[2]
    tier = "quick"
    if "--tier" in sys.argv:
        tier = sys.argv[sys.argv.index("--tier") + 1]
    skip_suite = "--skip-suite" in sys.argv
    meta = json.load(open(os.path.join(src, "meta.json")))
    pid = meta["property"]
    prev = meta.get("lead_confirmation")
    dst = os.path.join(ROOT, "seeded", sid)
    os.makedirs(dst, exist_ok=True)
    if os.path.realpath(src) != os.path.realpath(dst):
        for fn in os.listdir(src):
            shutil.copy(os.path.join(src, fn), os.path.join(dst, fn))
    wt = "/tmp/sv-" + sid
    subprocess.run(["git", "-C", "/repo", "worktree", "remove", "--force", wt], stderr=subprocess.DEVNULL)
    rc, out = sh(["git", "-C", "/repo", "worktree", "add", "-q", "--detach", wt, "HEAD"], "/")
    conf = {"when": time.strftime("%Y-%m-%dT%H:%M:%SZ", time.gmtime()), "repo_head": subprocess.check_output(
        ["git", "-C", "/repo", "rev-parse", "HEAD"], text=True).strip(), "steps": []}
    ok = True

    def step(name, good, detail):
        nonlocal ok
        conf["steps"].append({"step": name, "ok": bool(good), "detail": detail[-600:]})
        print("  [%s] %s" % ("ok" if good else "FAIL", name), flush=True)
        if not good:
            ok = False

    try:
        patch = os.path.join(dst, "patch.diff")
        rc, out = sh(["git", "apply", patch], wt)
        step("git apply patch.diff", rc == 0, out)
        mods = modules_of(open(patch).read(), wt)
        is_go = bool(mods)
        for m in mods:
            rc, out = sh(["go", "build", "./..."], m)
            step("go build ./... in " + os.path.relpath(m, wt), rc == 0, out)
            if not skip_suite:
                rc, out = sh(["go", "test", "-vet=off", "-count=1", "-timeout", "25m", "./..."], m, timeout=3000)
                fails = set(re.findall(r"^\s*--- FAIL: (\S+)", out, re.M))
                fails = {f.split("/")[0] for f in fails}
                # timing-sensitive tests flake on a loaded machine: re-run unexpected failures alone
                flaky = set()
                for tname in sorted(fails - KNOWN_OFFLINE_FAILURES):
                    for _ in range(2):
                        rcx, outx = sh(["go", "test", "-vet=off", "-count=1", "-run", "^%s$" % tname, "./..."], m, timeout=1800)
                        if rcx == 0:
                            flaky.add(tname)
                            break
                fails -= flaky
                step("existing suite in %s (failures: %s; flaky, passed alone: %s)" % (
                    os.path.relpath(m, wt), sorted(fails) or "none", sorted(flaky) or "none"),
                     fails <= KNOWN_OFFLINE_FAILURES, out)
                # the suite dirties two tracked/untracked yaml files; restore
                sh("git checkout -- proxy/src/services/lunar-engine/streams/validation/policies.yaml 2>/dev/null; "
                   "rm -f proxy/src/services/lunar-engine/streams/policies.yaml", wt, shell=True)
        copies, cmd = parse_demo(dst, wt)
        if not cmd:
            step("parse demo.txt", False, "no run command found")
        else:
            copied = []
            for fn, dest in copies:
                d = os.path.join(wt, dest)
                if os.path.isdir(d) or dest.endswith("/"):
                    os.makedirs(d, exist_ok=True)
                    d = os.path.join(d, fn)
                else:
                    os.makedirs(os.path.dirname(d), exist_ok=True)
                shutil.copy(os.path.join(dst, fn), d)
                copied.append(d)
            conf["demo_cmd"] = cmd
            rc1, out1 = sh(cmd, wt, shell=True, timeout=1800)
            step("demonstration FAILS with the change", rc1 != 0, out1)
            rcr, outr = sh(["git", "apply", "-R", patch], wt)
            rc2, out2 = sh(cmd, wt, shell=True, timeout=1800)
            step("demonstration PASSES without the change", rcr == 0 and rc2 == 0, out2)
            for d in copied:
                os.unlink(d)
            sh(["git", "apply", patch], wt)
        # the registered check against the changed tree
        env = dict(os.environ, VERIF_REPO=wt)
        t0 = time.time()
        rc, out = sh([os.path.join(ROOT, "check"), pid, tier], ROOT, env=env, timeout=7200)
        vio = [l for l in out.splitlines() if l.startswith("VIOLATION")]
        conf["check"] = {"cmd": "VERIF_REPO=%s ./check %s %s" % (wt, pid, tier), "exit": rc, "violation_lines": vio,
                         "summary": out.strip().splitlines()[-1] if out.strip() else "", "wall_s": round(time.time() - t0, 1)}
        caught = rc == 1 and bool(vio)
        conf["caught"] = caught
        conf["caught_with_failing_input"] = caught and not vio[0].rstrip().endswith("no-failing-input-found")
        if vio:
            m = re.search(r"replay=(\S+)", vio[0])
            if m and os.path.exists(m.group(1)):
                shutil.copy(m.group(1), os.path.join(dst, "check_replay.ops"))
        print("  check: exit=%d %s" % (rc, vio[0] if vio else "(no VIOLATION line)"), flush=True)
    finally:
        subprocess.run(["git", "-C", "/repo", "worktree", "remove", "--force", wt])
        subprocess.run(["git", "-C", "/repo", "worktree", "prune"])
    if skip_suite and prev:
        conf["suite_confirmed_in_earlier_run"] = [st for st in prev.get("steps", []) if "existing suite" in st["step"]]
        conf["earlier_check_results"] = prev.get("earlier_check_results", []) + [prev.get("check")]
    conf["confirmed"] = ok
    meta["lead_confirmation"] = conf
    json.dump(meta, open(os.path.join(dst, "meta.json"), "w"), indent=1)
    print("%s: confirmed=%s caught=%s failing_input=%s" % (sid, ok, conf.get("caught"), conf.get("caught_with_failing_input")))


if __name__ == "__main__":
    main()
