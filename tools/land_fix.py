#!/usr/bin/env python3
"""tools/land_fix.py <FindingId[,FindingId…]> <Cxx> <patch> "<commit subject>" [<go test package patterns…>]
Applies a prepared repair to /repo as ONE unguarded `fix:` commit, after building and running the
affected packages' existing tests; moves the finding(s) to `fixed` in known_findings.json."""
import json, os, subprocess, sys
ROOT = os.path.dirname(os.path.dirname(os.path.abspath(__file__)))
fids, pid, patch, subject = sys.argv[1].split(","), sys.argv[2], sys.argv[3], sys.argv[4]
pkgs = sys.argv[5:]
env = dict(os.environ, GOFLAGS="-mod=mod", GOPROXY="off", GOSUMDB="off", GOTOOLCHAIN="local")
assert subject.startswith("fix:")
patch = os.path.join(ROOT, patch)
subprocess.check_call(["git", "-C", "/repo", "apply", "--check", patch])
subprocess.check_call(["git", "-C", "/repo", "apply", patch])
files = subprocess.check_output(["git", "-C", "/repo", "diff", "--name-only"], text=True).split()
try:
    mod = "/repo/proxy/src/services/lunar-engine"
    if any(f.endswith(".go") for f in files):
        for f in files:
            if "/libs/toolkit-core/" in f:
                mod = "/repo/proxy/src/libs/toolkit-core"
        subprocess.check_call(["go", "build", "./..."], cwd="/repo/proxy/src/services/lunar-engine", env=env)
        if pkgs:
            out = subprocess.run(["go", "test", "-vet=off", "-count=1"] + pkgs, cwd=mod, env=env,
                                 stdout=subprocess.PIPE, stderr=subprocess.STDOUT, text=True)
            print(out.stdout[-1500:])
            if out.returncode != 0:
                raise SystemExit("tests failed")
except BaseException:
    subprocess.call(["git", "-C", "/repo", "checkout", "--"] + files)
    raise
subprocess.call("cd /repo && git checkout -- proxy/src/services/lunar-engine/streams/validation/policies.yaml 2>/dev/null; true", shell=True)
subprocess.check_call(["git", "-C", "/repo", "add"] + files)
subprocess.check_call(["git", "-C", "/repo", "commit", "-q", "-m", subject])
commit = subprocess.check_output(["git", "-C", "/repo", "rev-parse", "--short", "HEAD"], text=True).strip()
k = json.load(open(os.path.join(ROOT, "known_findings.json")))
# fragments may hold the entry instead
keep = []
for f in k["findings"]:
    if f["id"] in fids and f["property"] == pid:
        k["fixed"].append({"id": f["id"], "property": pid, "commit": commit, "patch": os.path.relpath(patch, ROOT),
                           "entry": "fixed: property=%s %s %s" % (pid, commit, f["what"])})
    else:
        keep.append(f)
k["findings"] = keep
json.dump(k, open(os.path.join(ROOT, "known_findings.json"), "w"), indent=1)
frag = os.path.join(ROOT, "known_findings.d", pid + ".json")
if os.path.exists(frag):
    fr = json.load(open(frag))
    fr["findings"] = [f for f in fr.get("findings", []) if f["id"] not in fids]
    fr["fixed"] = []
    if fr["findings"]:
        json.dump(fr, open(frag, "w"), indent=1)
    else:
        os.unlink(frag)
print("landed", fids, "as", commit)
