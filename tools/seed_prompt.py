#!/usr/bin/env python3
"""Print the prompt for a seeding sub-agent: only the property text + its scratch worktree."""
import json, sys
pid, wt = sys.argv[1], sys.argv[2]
n = sys.argv[3] if len(sys.argv) > 3 else "2"
for l in open('/verif/properties.jsonl'):
    p = json.loads(l)
    if p['id'] == pid:
        break
print(f"""You are helping to evaluate a verification effort by playing the adversary. The repository at {wt} is a scratch git worktree of TheLunarCompany/lunar (an API consumption gateway: a Go HAProxy SPOE engine under proxy/src/services/lunar-engine with libraries under proxy/src/libs, a Python interceptor under interceptors/). Work ONLY inside {wt}; never touch /repo or /verif (do not read /verif at all).

Here is a semantic property the system is supposed to satisfy:

  Title: {p['title']}
  Statement: {p['statement']}
  Quantified over: {p['quantifier']['text']}
  Code it is anchored in: {', '.join(p['anchors']['files'])}

Your task: produce {n} DIFFERENT, realistic code changes (each a small bug a developer could plausibly introduce — flipped comparison, dropped or reordered call, wrong variable, narrowed lock, off-by-one, stale cache, swapped arguments …) to the code in {wt} such that, for each change:
  1. the code still compiles (`go build ./...` in the affected Go module, or the Python still imports),
  2. the EXISTING test suite of the affected module still passes unchanged (run `go test -vet=off -count=1 ./...` in the affected Go module directory, e.g. {wt}/proxy/src/services/lunar-engine or {wt}/proxy/src/libs/toolkit-core; every shell call needs `export GOFLAGS=-mod=mod GOPROXY=off GOSUMDB=off GOTOOLCHAIN=local`; there is no network),
  3. the property above is genuinely BROKEN by the change (not merely some behaviour changed), and
  4. the breakage needs something SPECIFIC to manifest — a particular interleaving, a crash or fault at a particular point, a multi-step sequence of operations, an unusual input, a boundary instant, or two cooperating sites that each look fine alone — NOT something ordinary use would expose at once.
For each change also write a DEMONSTRATION: a new Go test file (or small program / Python script) that FAILS with the change applied and PASSES on the unchanged code, exercising the real code.

Deliverables — create the directory {wt}/SEEDS/ and for each change i = 1..{n} a sub-directory {wt}/SEEDS/s<i>/ containing:
  - patch.diff : `git diff` of ONLY the code change (not the demo), applicable with `git apply` at the root of a clean checkout of this commit;
  - the demonstration file(s), plus demo.txt saying where to copy them in the tree and the exact command to run them;
  - meta.json : {{"property": "{pid}", "summary": "<one line>", "needs": "<what specific circumstance makes it manifest>", "why_tests_pass": "<why the existing suite does not notice>", "commands_run": ["…"]}}.
Before finishing, verify for each change from a CLEAN state of the worktree (`git stash`/`git checkout -- .` as needed): apply patch.diff → build passes → existing tests of the module pass → demo FAILS; revert the patch → demo PASSES. Leave the worktree clean (no applied patches) except for the SEEDS/ directory. Report briefly what each change is and the verification you ran.""")
