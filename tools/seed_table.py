#!/usr/bin/env python3
"""Print the markdown table of seeded changes and which check caught them (from seeded/*/meta.json)."""
import json, os
ROOT = os.path.dirname(os.path.dirname(os.path.abspath(__file__)))
rows = []
for d in sorted(os.listdir(os.path.join(ROOT, "seeded"))):
    mp = os.path.join(ROOT, "seeded", d, "meta.json")
    if not os.path.exists(mp):
        continue
    m = json.load(open(mp))
    c = m.get("lead_confirmation", {})
    ck = c.get("check", {})
    how = "not run"
    if c:
        if c.get("caught_with_failing_input"):
            how = "VIOLATION with failing input"
        elif c.get("caught"):
            how = "VIOLATION no-failing-input-found"
        else:
            how = "MISSED (exit %s)" % ck.get("exit")
    if m.get("obsolete"):
        how = "obsolete: " + str(m["obsolete"]).replace("|", "/")[:200]
    earlier = [e for e in c.get("earlier_check_results", []) if e]
    hist = ""
    if earlier and not all(e.get("exit") == 1 for e in earlier):
        hist = " (missed before the check was strengthened)"
    rows.append("| %s | %s | %s | %s | %s%s |" % (d + (" (r%s)" % m["round"] if m.get("round") else ""), m["property"], m["summary"].replace("|", "/")[:160],
                m.get("needs", "").replace("|", "/")[:120], how, hist))
print("| seed | property | change | needs | `./check <property> quick` result |\n|---|---|---|---|---|")
print("\n".join(rows))
