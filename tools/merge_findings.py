#!/usr/bin/env python3
"""Merge known_findings.d/*.json fragments into known_findings.json and delete the fragments."""
import json, os, sys
only = sys.argv[1] if len(sys.argv) > 1 else None
ROOT = os.path.dirname(os.path.dirname(os.path.abspath(__file__)))
main = json.load(open(os.path.join(ROOT, "known_findings.json")))
d = os.path.join(ROOT, "known_findings.d")
if os.path.isdir(d):
    for fn in sorted(os.listdir(d)):
        if fn.endswith(".json") and (only is None or fn == only + ".json"):
            frag = json.load(open(os.path.join(d, fn)))
            for key in ("findings", "fixed"):
                ids = {f.get("id") for f in main[key]}
                for f in frag.get(key, []):
                    if f.get("id") in ids:
                        main[key] = [g for g in main[key] if g.get("id") != f.get("id")]
                    main[key].append(f)
            os.unlink(os.path.join(d, fn))
main["findings"].sort(key=lambda f: f["id"])
json.dump(main, open(os.path.join(ROOT, "known_findings.json"), "w"), indent=1)
print(len(main["findings"]), "findings")
