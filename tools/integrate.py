#!/usr/bin/env python3
"""tools/integrate.py Cxx — flip registered, merge findings fragment, regenerate MANIFEST."""
import json, os, subprocess, sys
ROOT = os.path.dirname(os.path.dirname(os.path.abspath(__file__)))
pid = sys.argv[1]
p = os.path.join(ROOT, "props", pid + ".json")
props = json.load(open(p))
props["registered"] = True
assert "manifest" in props and all(k in props["manifest"] for k in ("level_text", "level_note", "technique")), "manifest block missing"
json.dump(props, open(p, "w"), indent=1)
subprocess.check_call([sys.executable, os.path.join(ROOT, "tools", "merge_findings.py"), pid])
subprocess.check_call([sys.executable, os.path.join(ROOT, "tools", "mkmanifest.py")])
