import LunarVerif.Spec.C03
import LunarVerif.Proofs.UrlTree
/-! Tree-level lemmas for C03: the loop of `lookupFlow` equals a structurally recursive traversal `travS`,
and — for residual lists whose entries agree on the parts they share and follow the URL on its side of the
host/path boundary — membership in its result is characterised declaratively (`mem_travS_iff`). -/
namespace LunarVerif.C03
open LunarVerif.UrlTree LunarVerif.UrlMatch

variable {V : Type}

/-! ### structural form of the traversal -/

/-- What is appended after a complete walk, for `currentNode = cur`. -/
def endSel (cur : Res V) : List V :=
  wildVal cur ++ (match nodeValue cur with | some v => [v] | none => [])

/-- `lookupFlow` on a non-empty URL, by structural recursion. -/
def travS (res : Res V) : List Part → List V
  | [] => endSel res
  | u :: us => wildVal res ++ (match nextF res u with
      | some c => travS c us
      | none => [])

theorem loopGo_spec (us : List Part) : ∀ (st : LoopSt V), st.matchedAll = true →
    (if (loopGo st us).matchedAll then (loopGo st us).flows ++ endSel (loopGo st us).cur else (loopGo st us).flows) =
      st.flows ++ travS st.cur us := by
  induction us with
  | nil => intro st h; simp [loopGo, travS, h]
  | cons u us ih =>
    intro st h
    unfold loopGo
    simp only
    cases hnx : nextF st.cur u with
    | none => simp [travS, hnx]
    | some c =>
      simp only [travS, hnx]
      rw [ih _ (by simpa using h)]
      simp [List.append_assoc]

/-- The loop and the structural traversal agree on every tree and URL. -/
theorem lookupFlow_eq_travS (t : Tree V) (us : List Part) :
    lookupFlow t us = if us = [] then [] else travS t us := by
  cases us with
  | nil => simp [lookupFlow, loopGo]
  | cons u rest =>
    have := loopGo_spec (u :: rest) (⟨t, [], true⟩ : LoopSt V) rfl
    simp only [List.nil_append] at this
    simp only [lookupFlow, List.isEmpty_cons, Bool.not_false, reduceCtorEq, if_false]
    rw [← this]
    unfold endSel
    split
    · simp only [List.append_assoc]
      congr 2
    · rfl

/-! ### the step taken by `nextF` -/

theorem nextF_noconst {res : Res V} {u : Part} (hno : ∀ s, u.seg = .lit s → constFlag? res s ≠ some u.host) :
    nextF res u = (match parChild? res with
      | some (_, h) => if h = u.host ∧ u.seg ≠ .lit "" then some (step .par res) else none
      | none => none) := by
  have hvia : ∀ {α : Type} (a : String → α) (b : α),
      (match (match u.seg with
        | .lit s => if constFlag? res s = some u.host then some s else none
        | _ => (none : Option String)) with
      | some s => a s
      | none => b) = b := by
    intro α a b
    cases hs : u.seg with
    | lit s => simp [hno s hs]
    | par n => rfl
    | wild => rfl
  unfold nextF
  refine (hvia _ _).trans ?_
  cases parChild? res with
  | none => rfl
  | some nh => obtain ⟨_, _⟩ := nh; rfl

/-- what `nextF` does, by cases -/
theorem nextF_cases (res : Res V) (u : Part) :
    (∃ s, u.seg = .lit s ∧ constFlag? res s = some u.host ∧ nextF res u = some (step (.lit s) res)) ∨
    ((∀ s, u.seg = .lit s → constFlag? res s ≠ some u.host) ∧
      ((∃ n, parChild? res = some (n, u.host) ∧ u.seg ≠ .lit "" ∧ nextF res u = some (step .par res)) ∨
       nextF res u = none)) := by
  by_cases hc : ∃ s, u.seg = .lit s ∧ constFlag? res s = some u.host
  · obtain ⟨s, hs, hf⟩ := hc
    exact .inl ⟨s, hs, hf, by simp [nextF, hs, hf]⟩
  · right
    have hno : ∀ s, u.seg = .lit s → constFlag? res s ≠ some u.host := fun s hs hf => hc ⟨s, hs, hf⟩
    refine ⟨hno, ?_⟩
    rw [nextF_noconst hno]
    cases hp : parChild? res with
    | none => right; simp
    | some nh =>
      obtain ⟨n, h⟩ := nh
      by_cases hh : h = u.host ∧ u.seg ≠ .lit ""
      · left; obtain ⟨h1, h2⟩ := hh; subst h1; exact ⟨n, rfl, h2, by simp [h2]⟩
      · right; simp only [hh, if_false]

theorem stepOK_lit {s : String} {u : Part} (hs : u.seg = .lit s) :
    ∀ p : Part, p.seg.key = Key.lit s → trieStep p u := by
  intro p hk
  exact .inl ⟨s, key_eq_lit hk, hs⟩

theorem stepOK_par {u : Part} : ∀ p : Part, p.seg.key = Key.par → trieStep p u := by
  intro p hk
  obtain ⟨n, hn⟩ := key_eq_par hk
  exact .inr (by simp [hn, Seg.isPar])

theorem acc_lit {s : String} {u : Part} (hs : u.seg = .lit s) :
    ∀ p : Part, p.seg.key = Key.lit s → p.seg ≠ .wild ∧ segAccepts p.seg u.seg = true := by
  intro p hk
  have := key_eq_lit hk
  simp [this, hs, segAccepts]

theorem acc_par {u : Part} (hu : u.seg ≠ .lit "") :
    ∀ p : Part, p.seg.key = Key.par → p.seg ≠ .wild ∧ segAccepts p.seg u.seg = true := by
  intro p hk
  obtain ⟨n, hn⟩ := key_eq_par hk
  simp [hn, segAccepts, hu]

/-! ### hypotheses of the characterisation and their preservation along a step -/

structure TravHyp (res : Res V) (us : Url) : Prop where
  wl : WildLast res
  parts : PartsOK res
  coh : RCoh res
  al : Aligned res us

theorem TravHyp.step {res : Res V} {u : Part} {us : Url} {k : Key} (h : TravHyp res (u :: us))
    (hk : ∀ p, p.seg.key = k → trieStep p u) : TravHyp (step k res) us :=
  ⟨h.wl.step k, h.parts.step k, h.coh.step h.parts k, h.al.step hk⟩

/-! ### small facts about the node queries under `PartsOK` / `RCoh` / `Aligned` -/

theorem wildChild?_entry {res : Res V} (hwl : WildLast res) {wv : Option V} (h : wildChild? res = some wv) :
    ∃ w : Part, w.seg = .wild ∧ ([w], wv) ∈ res := by
  obtain ⟨p, rest, hmem, hp⟩ := wildChild?_some h
  have := wildLast_wild_head (hwl _ hmem) hp
  subst this
  exact ⟨p, hp, hmem⟩

theorem wildChild?_of_mem {res : Res V} (hwl : WildLast res) (hp : PartsOK res) (hc : RCoh res)
    {w : Part} {ov : Option V} (hw : w.seg = .wild) (hm : ([w], ov) ∈ res) : wildChild? res = some ov := by
  cases h : wildChild? res with
  | none => exact absurd hw (wildChild?_none h hm)
  | some wv =>
    obtain ⟨w', hw', hm'⟩ := wildChild?_entry hwl h
    have hww : w = w' := hp.head_eq hm hm' (by rw [hw, hw'])
    subst hww
    have := hc _ hm _ hm' rfl
    simp only at this
    rw [this]

theorem mem_wildVal {res : Res V} {v : V} : v ∈ wildVal res ↔ wildChild? res = some (some v) := by
  unfold wildVal
  cases h : wildChild? res with
  | none => simp
  | some wv => cases wv <;> simp [eq_comm]

theorem constFlag?_aligned {res : Res V} {u : Part} {us : Url} (hal : Aligned res (u :: us)) {s : String}
    (hus : u.seg = .lit s) {b : Part} {e' : List Part} {ev : Option V} (hmem : (b :: e', ev) ∈ res)
    (hb : b.seg = .lit s) : constFlag? res s = some u.host := by
  cases hc : constFlag? res s with
  | none => exact absurd hb (constFlag?_none hc hmem)
  | some f =>
    obtain ⟨p, rest, v, hm, hp, hf⟩ := constFlag?_some hc
    have := hal.head hm (.inl (.inl ⟨s, hp, hus⟩))
    rw [← hf, this]

theorem parChild?_aligned {res : Res V} {u : Part} {us : Url} (hal : Aligned res (u :: us))
    {b : Part} {e' : List Part} {ev : Option V} (hmem : (b :: e', ev) ∈ res)
    (hb : b.seg.isPar = true) : ∃ n, parChild? res = some (n, u.host) := by
  cases hc : parChild? res with
  | none => have := parChild?_none hc hmem; rw [hb] at this; simp at this
  | some nh =>
    obtain ⟨n, f⟩ := nh
    obtain ⟨p, rest, v, hm, hp, hf⟩ := parChild?_some hc
    have := hal.head hm (.inl (.inr (by simp [hp, Seg.isPar])))
    exact ⟨n, by rw [← hf, this]⟩

/-! ### matcher / shadow unfoldings -/

theorem matchesLax_wild {w : Part} (hw : w.seg = .wild) (us : Url) : matchesLax [w] us = true := by
  cases us <;> simp [matchesLax, matchesG, hw]

theorem matchesLax_cons_step {p u : Part} (hnw : p.seg ≠ .wild) (q : Pattern) (us : Url) :
    matchesLax (p :: q) (u :: us) = (segAccepts p.seg u.seg && matchesLax q us) := by
  cases hs : p.seg with
  | wild => exact absurd hs hnw
  | lit s => simp [matchesLax, matchesG, hs]
  | par n => simp [matchesLax, matchesG, hs]

theorem matchesLax_nil_right {q : Pattern} (h : matchesLax q [] = true) :
    q = [] ∨ ∃ w : Part, w.seg = .wild ∧ q = [w] := by
  cases q with
  | nil => exact .inl rfl
  | cons p ps =>
    right
    cases hs : p.seg with
    | wild =>
      simp [matchesLax, matchesG, hs] at h
      exact ⟨p, hs, by rw [h]⟩
    | lit s => simp [matchesLax, matchesG, hs] at h
    | par n => simp [matchesLax, matchesG, hs] at h

theorem shadows_nil_mid (e : Pattern) (us : Url) : shadows e [] us = false := by
  cases e <;> cases us <;> rfl

theorem shadows_nil_right (e q : Pattern) : shadows e q [] = false := by
  cases e <;> cases q <;> rfl

theorem shadows_wild (e : Pattern) {w : Part} (hw : w.seg = .wild) (us : Url) : shadows e [w] us = false := by
  cases e with
  | nil => rfl
  | cons b e' =>
    cases us with
    | nil => rfl
    | cons x u => simp [shadows, hw, Seg.isPar, shadows_nil_mid]

/-! ### soundness direction -/

theorem sound_wild {res : Res V} {us : Url} (hwl : WildLast res) {v : V} (hv : v ∈ wildVal res) :
    ∃ q, (q, some v) ∈ res ∧ matchesLax q us = true ∧ ∀ e ∈ res, shadows e.1 q us = false := by
  obtain ⟨w, hw, hm⟩ := wildChild?_entry hwl (mem_wildVal.mp hv)
  exact ⟨[w], hm, matchesLax_wild hw us, fun e _ => shadows_wild e.1 hw us⟩

/-- Lift a selection made below the child along edge `k` to this node. -/
theorem lift_sound {res : Res V} {u : Part} {us : Url} {k : Key} (h : TravHyp res (u :: us))
    (hacc : ∀ p : Part, p.seg.key = k → p.seg ≠ .wild ∧ segAccepts p.seg u.seg = true)
    (hnolit : k = .par → ∀ s, u.seg = .lit s → constFlag? res s ≠ some u.host)
    {v : V} {q' : Pattern} (hq' : (q', some v) ∈ step k res) (hm : matchesLax q' us = true)
    (hsh : ∀ e ∈ step k res, shadows e.1 q' us = false) :
    ∃ q, (q, some v) ∈ res ∧ matchesLax q (u :: us) = true ∧ ∀ e ∈ res, shadows e.1 q (u :: us) = false := by
  obtain ⟨p, hp, hpk⟩ := mem_step.mp hq'
  obtain ⟨hnw, hsa⟩ := hacc p hpk
  refine ⟨p :: q', hp, ?_, ?_⟩
  · rw [matchesLax_cons_step hnw, hsa, hm]; rfl
  · intro ⟨e, ev⟩ he
    cases e with
    | nil => rfl
    | cons b e' =>
      simp only [shadows, Bool.or_eq_false_iff, Bool.and_eq_false_iff]
      constructor
      · by_cases hpar : p.seg.isPar = true
        · right
          cases hb : b.seg with
          | lit s =>
            simp only
            by_cases hus : u.seg = .lit s
            · exfalso
              have hkp : k = .par := by
                cases hs : p.seg with
                | par n => rw [hs] at hpk; exact hpk.symm
                | lit s' => simp [hs, Seg.isPar] at hpar
                | wild => simp [hs, Seg.isPar] at hpar
              exact hnolit hkp s hus (constFlag?_aligned h.al hus he hb)
            · simp [hus]
          | par n => rfl
          | wild => rfl
        · left; simpa using hpar
      · by_cases hkey : p.seg.key = b.seg.key
        · right
          have : (e', ev) ∈ step k res := mem_step.mpr ⟨b, he, by rw [← hkey, hpk]⟩
          exact hsh _ this
        · left; simpa using hkey

theorem travS_sound (us : Url) : ∀ (res : Res V) (v : V), TravHyp res us → v ∈ travS res us →
    ∃ q, (q, some v) ∈ res ∧ matchesLax q us = true ∧ ∀ e ∈ res, shadows e.1 q us = false := by
  induction us with
  | nil =>
    intro res v h hv
    simp only [travS, endSel, List.mem_append] at hv
    rcases hv with hv | hv
    · exact sound_wild h.wl hv
    · cases hn : nodeValue res with
      | none => rw [hn] at hv; simp at hv
      | some v' =>
        rw [hn] at hv; simp at hv; subst hv
        exact ⟨[], nodeValue_some hn, by simp [matchesLax, matchesG], fun e _ => shadows_nil_mid e.1 []⟩
  | cons u rest ih =>
    intro res v h hv
    simp only [travS, List.mem_append] at hv
    rcases hv with hv | hv
    · exact sound_wild h.wl hv
    · rcases nextF_cases res u with ⟨s, hs, hf, hnx⟩ | ⟨hno, ⟨n, hpc, hu, hnx⟩ | hnx⟩
      · rw [hnx] at hv
        simp only at hv
        obtain ⟨q', hq', hm, hsh⟩ := ih _ v (h.step (stepOK_lit hs)) hv
        exact lift_sound h (acc_lit hs) (by intro hk; cases hk) hq' hm hsh
      · rw [hnx] at hv
        simp only at hv
        obtain ⟨q', hq', hm, hsh⟩ := ih _ v (h.step (k := .par) stepOK_par) hv
        exact lift_sound h (acc_par hu) (fun _ => hno) hq' hm hsh
      · rw [hnx] at hv
        simp at hv

/-! ### completeness direction -/

theorem travS_complete (us : Url) : ∀ (res : Res V) (v : V) (q : Pattern), TravHyp res us →
    (q, some v) ∈ res → matchesLax q us = true → (∀ e ∈ res, shadows e.1 q us = false) →
    v ∈ travS res us := by
  induction us with
  | nil =>
    intro res v q h hq hm _
    simp only [travS, endSel, List.mem_append]
    rcases matchesLax_nil_right hm with hnil | ⟨w, hw, hqw⟩
    · subst hnil
      right
      rw [nodeValue_eq_of_mem h.coh hq]
      simp
    · subst hqw
      exact .inl (mem_wildVal.mpr (wildChild?_of_mem h.wl h.parts h.coh hw hq))
  | cons u rest ih =>
    intro res v q h hq hm hsh
    cases q with
    | nil => simp [matchesLax, matchesG] at hm
    | cons p q' =>
      simp only [travS, List.mem_append]
      by_cases hpw : p.seg = .wild
      · have hq'nil : q' = [] := by simpa [matchesLax, matchesG, hpw] using hm
        subst hq'nil
        exact .inl (mem_wildVal.mpr (wildChild?_of_mem h.wl h.parts h.coh hpw hq))
      · right
        rw [matchesLax_cons_step hpw] at hm
        simp only [Bool.and_eq_true] at hm
        obtain ⟨hacc, hm'⟩ := hm
        have hnext : nextF res u = some (step p.seg.key res) ∧ (∀ p', p'.seg.key = p.seg.key → trieStep p' u) := by
          cases hs : p.seg with
          | wild => exact absurd hs hpw
          | lit s =>
            have hus : u.seg = .lit s := by simpa [hs, segAccepts] using hacc
            have hf := constFlag?_aligned h.al hus hq hs
            exact ⟨by simp [nextF, hus, hf, Seg.key], stepOK_lit hus⟩
          | par n =>
            have hu : u.seg ≠ .lit "" := by simpa [hs, segAccepts] using hacc
            have hno : ∀ s, u.seg = .lit s → constFlag? res s ≠ some u.host := by
              intro s hus hf
              obtain ⟨b, rest', bv, hb, hbs, _⟩ := constFlag?_some hf
              have := hsh _ hb
              simp [shadows, hs, Seg.isPar, hbs, hus] at this
            obtain ⟨n', hpc⟩ := parChild?_aligned h.al hq (by simp [hs, Seg.isPar])
            rw [nextF_noconst hno, hpc]
            exact ⟨by simp [Seg.key, hu], stepOK_par⟩
        obtain ⟨hnx, hk⟩ := hnext
        rw [hnx]
        simp only
        apply ih _ v q' (h.step hk) (mem_step.mpr ⟨p, hq, rfl⟩) hm'
        intro ⟨e', ev⟩ he'
        obtain ⟨b, hb, hbk⟩ := mem_step.mp he'
        have := hsh _ hb
        simp only [shadows, Bool.or_eq_false_iff, Bool.and_eq_false_iff] at this
        rcases this.2 with hne | hok
        · simp [hbk] at hne
        · exact hok

/-- Closed form of the traversal under `TravHyp`: a value is returned iff it belongs to an entry whose
    pattern (laxly) matches the URL and that no other entry shadows. -/
theorem mem_travS_iff {res : Res V} {us : Url} (h : TravHyp res us) (v : V) :
    v ∈ travS res us ↔
      ∃ q, (q, some v) ∈ res ∧ matchesLax q us = true ∧ ∀ e ∈ res, shadows e.1 q us = false :=
  ⟨travS_sound us res v h, fun ⟨q, hq, hm, hsh⟩ => travS_complete us res v q h hq hm hsh⟩

end LunarVerif.C03
