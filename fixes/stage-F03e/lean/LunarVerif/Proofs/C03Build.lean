import LunarVerif.Proofs.C03Trav
/-! The load invariant of the filter tree (after the repair of `AddFlow`): every loaded flow sits in the node
of its OWN pattern and every pattern has exactly one node — provided the side-table key identifies the
pattern (`keysOK`) and no two patterns cross the host/path boundary (F03e). -/
namespace LunarVerif.C03
open LunarVerif.UrlTree LunarVerif.UrlMatch

theorem FNode.group_add (n : FNode) (f : Flow) (k : Kind) :
    (n.add f).group k = if f.kind = k then n.group k ++ [f] else n.group k := by
  cases hk : f.kind <;> cases k <;> simp [FNode.add, FNode.group, hk]

theorem FNode.group_fresh (f : Flow) (k : Kind) : (FNode.fresh f).group k = if f.kind = k then [f] else [] := by
  cases hk : f.kind <;> cases k <;> simp [FNode.fresh, FNode.group, hk]

theorem getD_set_eq' {α : Type} (l : List α) (i : Nat) (a d : α) (h : i < l.length) :
    (l.set i a).getD i d = a := by
  simp [List.getD, h]

theorem getD_set_ne' {α : Type} (l : List α) (i j : Nat) (a d : α) (h : i ≠ j) :
    (l.set i a).getD j d = l.getD j d := by
  simp [List.getD, List.getElem?_set_ne h]

theorem getD_append_left' {α : Type} (l : List α) (a d : α) (j : Nat) (h : j < l.length) :
    (l ++ [a]).getD j d = l.getD j d := by
  simp [List.getD, List.getElem?_append_left h]

theorem getD_append_new' {α : Type} (l : List α) (a d : α) : (l ++ [a]).getD l.length d = a := by
  simp [List.getD]

theorem findNode_append (k : String) (l : List (String × Nat)) (k' : String) (n : Nat) :
    findNode k (l ++ [(k', n)]) = (match findNode k l with
      | some i => some i
      | none => if k' = k then some n else none) := by
  induction l with
  | nil => simp [findNode]
  | cons a rest ih =>
    obtain ⟨ka, ia⟩ := a
    simp only [List.cons_append, findNode]
    split
    · rfl
    · exact ih

/-! ### the invariant -/

structure Inv (ft : FTree) (done : List Flow) : Prop where
  wl : WildLast ft.tree
  names : NamesOK ft.tree
  vals : ∀ q ov, (q, ov) ∈ ft.tree → ∃ i, ov = some i ∧ i < ft.store.length
  dom : ∀ q ov, (q, ov) ∈ ft.tree → ∃ g ∈ done, g.parts = q
  uniq : ∀ q i j, (q, some i) ∈ ft.tree → (q, some j) ∈ ft.tree → i = j
  inj : ∀ q q' i, (q, some i) ∈ ft.tree → (q', some i) ∈ ft.tree → q = q'
  node : ∀ q i, (q, some i) ∈ ft.tree → ∀ k, ∀ g ∈ (ft.store.getD i .empty).group k,
    g.parts = q ∧ g ∈ done ∧ g.kind = k
  cov : ∀ g ∈ done, ∃ i, (g.parts, some i) ∈ ft.tree ∧ g ∈ (ft.store.getD i .empty).group g.kind
  keys : ∀ g ∈ done, ∃ i, findNode g.key ft.nodes = some i ∧ (g.parts, some i) ∈ ft.tree
  keysDom : ∀ k i, findNode k ft.nodes = some i → ∃ g ∈ done, g.key = k ∧ (g.parts, some i) ∈ ft.tree

theorem inv_empty : Inv .empty [] := by
  constructor <;> simp [FTree.empty, WildLast, NamesOK, findNode]

/-- What is asked of the flow `f` about to be added after `done`. -/
structure Fresh (done : List Flow) (f : Flow) : Prop where
  flags : ∀ g ∈ done ++ [f], ∀ g' ∈ done ++ [f], sameSide g.parts g'.parts = true
  keyOK : ∀ g ∈ done, (g.key = f.key ↔ g.parts = f.parts)

theorem sameSide_eq_hostsAgree (p : Pattern) : ∀ q, sameSide p q = hostsAgree p q := by
  induction p with
  | nil => intro q; cases q <;> rfl
  | cons a p ih =>
    intro q
    cases q with
    | nil => rfl
    | cons b q => simp only [sameSide, hostsAgree, ih q]

theorem Inv.partsOK {ft : FTree} {done : List Flow} (h : Inv ft done)
    (hfl : ∀ g ∈ done, ∀ g' ∈ done, sameSide g.parts g'.parts = true) : PartsOK ft.tree := by
  intro ⟨q1, v1⟩ h1 ⟨q2, v2⟩ h2
  obtain ⟨g1, hg1, hq1⟩ := h.dom _ _ h1
  obtain ⟨g2, hg2, hq2⟩ := h.dom _ _ h2
  apply partsAgree_of _ _ (h.names _ h1 _ h2)
  have := hfl g1 hg1 g2 hg2
  rw [hq1, hq2, sameSide_eq_hostsAgree] at this
  exact this

theorem Inv.rcoh {ft : FTree} {done : List Flow} (h : Inv ft done) : RCoh ft.tree := by
  intro ⟨q1, v1⟩ h1 ⟨q2, v2⟩ h2 heq
  simp only at heq
  subst heq
  obtain ⟨i, hi, _⟩ := h.vals _ _ h1
  obtain ⟨j, hj, _⟩ := h.vals _ _ h2
  subst hi; subst hj
  simp only [Option.some.injEq]
  exact h.uniq _ _ _ h1 h2

theorem any_false_of {α : Type} {l : List α} {p : α → Bool} (h : l.any p = false) : ∀ a ∈ l, p a = false := by
  intro a ha
  rw [List.any_eq_false] at h
  simpa using h a ha

theorem mem_append_entry {t : Tree Nat} {ps : List Part} {n : Nat} {q : List Part} {ov : Option Nat}
    (hwl : wildLast ps = true)
    (h : (q, ov) ∈ t ++ [(trunc ps, if (trunc ps).length < ps.length then none else some n)]) :
    (q, ov) ∈ t ∨ (q = ps ∧ ov = some n) := by
  rcases List.mem_append.mp h with hm | hm
  · exact .inl hm
  · right
    rw [trunc_of_wildLast _ hwl] at hm
    simpa using hm

theorem entry_mem_append {t : Tree Nat} {ps : List Part} {n : Nat} (hwl : wildLast ps = true) :
    (ps, some n) ∈ t ++ [(trunc ps, if (trunc ps).length < ps.length then none else some n)] := by
  apply List.mem_append_right
  rw [trunc_of_wildLast _ hwl]
  simp

/-- One `AddFlow` preserves the invariant. -/
theorem addFlow_inv {ft ft' : FTree} {done : List Flow} {f : Flow}
    (hinv : Inv ft done) (hf : Fresh done f) (h : addFlow ft f = .ok ft') : Inv ft' (done ++ [f]) := by
  have hsub : ∀ g, g ∈ done → g ∈ done ++ [f] := fun g hg => by simp [hg]
  unfold addFlow at h
  cases hfn : findNode f.key ft.nodes with
  | some i =>
    -- the node of the declared URL exists: the flow is merged into it
    rw [hfn] at h
    simp only [Except.ok.injEq] at h
    subst h
    obtain ⟨g, hg, hgk, hgm⟩ := hinv.keysDom _ _ hfn
    have hgp : g.parts = f.parts := (hf.keyOK g hg).mp hgk
    have hmem : (f.parts, some i) ∈ ft.tree := by rw [← hgp]; exact hgm
    have hi : i < ft.store.length := by
      obtain ⟨j, hj, hlt⟩ := hinv.vals _ _ hmem
      simp only [Option.some.injEq] at hj; subst hj; exact hlt
    have hqi : ∀ q, (q, some i) ∈ ft.tree → q = f.parts := fun q hq => hinv.inj _ _ _ hq hmem
    refine ⟨hinv.wl, hinv.names, ?_, ?_, hinv.uniq, hinv.inj, ?_, ?_, ?_, ?_⟩
    · intro q ov hm
      obtain ⟨j, hj, hlt⟩ := hinv.vals q ov hm
      exact ⟨j, hj, by simpa using hlt⟩
    · intro q ov hm
      obtain ⟨g', hg', hq⟩ := hinv.dom q ov hm
      exact ⟨g', hsub _ hg', hq⟩
    · intro q j hm k g' hg'
      simp only at hg'
      by_cases hji : j = i
      · subst hji
        rw [getD_set_eq' _ _ _ _ hi, FNode.group_add] at hg'
        by_cases hk : f.kind = k
        · rw [if_pos hk] at hg'
          rcases List.mem_append.mp hg' with hg' | hg'
          · obtain ⟨a, b, c⟩ := hinv.node q j hm k g' hg'
            exact ⟨a, hsub _ b, c⟩
          · simp only [List.mem_singleton] at hg'
            subst hg'
            exact ⟨(hqi q hm).symm, by simp, hk⟩
        · rw [if_neg hk] at hg'
          obtain ⟨a, b, c⟩ := hinv.node q j hm k g' hg'
          exact ⟨a, hsub _ b, c⟩
      · rw [getD_set_ne' _ _ _ _ _ (Ne.symm hji)] at hg'
        obtain ⟨a, b, c⟩ := hinv.node q j hm k g' hg'
        exact ⟨a, hsub _ b, c⟩
    · intro g' hg'
      simp only
      rcases List.mem_append.mp hg' with hg' | hg'
      · obtain ⟨j, hj, hin⟩ := hinv.cov g' hg'
        refine ⟨j, hj, ?_⟩
        by_cases hji : j = i
        · subst hji
          rw [getD_set_eq' _ _ _ _ hi, FNode.group_add]
          split
          · exact List.mem_append_left _ hin
          · exact hin
        · rw [getD_set_ne' _ _ _ _ _ (Ne.symm hji)]; exact hin
      · simp only [List.mem_singleton] at hg'
        subst hg'
        refine ⟨i, hmem, ?_⟩
        rw [getD_set_eq' _ _ _ _ hi, FNode.group_add]
        simp
    · intro g' hg'
      simp only
      rcases List.mem_append.mp hg' with hg' | hg'
      · exact hinv.keys g' hg'
      · simp only [List.mem_singleton] at hg'
        subst hg'
        exact ⟨i, hfn, hmem⟩
    · intro k j hkj
      obtain ⟨g', hg', a, b⟩ := hinv.keysDom k j hkj
      exact ⟨g', hsub _ hg', a, b⟩
  | none =>
    -- no node for the declared URL yet: a fresh node is inserted and recorded
    rw [hfn] at h
    simp only at h
    have hown : ¬ ∃ g ∈ done, g.parts = f.parts := by
      rintro ⟨g, hg, hgp⟩
      obtain ⟨i, hi, _⟩ := hinv.keys g hg
      rw [(hf.keyOK g hg).mpr hgp, hfn] at hi
      cases hi
    split at h
    · simp at h
    · rename_i t' hins
      simp only [Except.ok.injEq] at h
      subst h
      have hnames := insertParts_namesOK hinv.names hins
      have hwl' := insertParts_wildLast hinv.wl hins
      have ht' := insertParts_declared hins
      have hfwl : wildLast f.parts = true := validateParts_wildLast (insertParts_ok hins).1
      have hnew := fun q ov => @mem_append_entry ft.tree f.parts ft.store.length q ov hfwl
      refine ⟨hwl', hnames, ?_, ?_, ?_, ?_, ?_, ?_, ?_, ?_⟩
      · intro q ov hm
        simp only at hm ⊢
        rw [ht'] at hm
        rcases hnew q ov hm with hold | ⟨_, hov⟩
        · obtain ⟨j, hj, hlt⟩ := hinv.vals q ov hold
          exact ⟨j, hj, by simp; omega⟩
        · exact ⟨ft.store.length, hov, by simp⟩
      · intro q ov hm
        simp only at hm
        rw [ht'] at hm
        rcases hnew q ov hm with hold | ⟨hq, _⟩
        · obtain ⟨g, hg, hgq⟩ := hinv.dom q ov hold
          exact ⟨g, hsub _ hg, hgq⟩
        · exact ⟨f, by simp, hq.symm⟩
      · intro q i j h1 h2
        simp only at h1 h2
        rw [ht'] at h1 h2
        rcases hnew _ _ h1 with o1 | ⟨e1, j1⟩ <;> rcases hnew _ _ h2 with o2 | ⟨e2, j2⟩
        · exact hinv.uniq _ _ _ o1 o2
        · exfalso
          obtain ⟨g, hg, hgq⟩ := hinv.dom _ _ o1
          exact hown ⟨g, hg, by rw [hgq, e2]⟩
        · exfalso
          obtain ⟨g, hg, hgq⟩ := hinv.dom _ _ o2
          exact hown ⟨g, hg, by rw [hgq, e1]⟩
        · simp only [Option.some.injEq] at j1 j2; rw [j1, j2]
      · intro q q' i h1 h2
        simp only at h1 h2
        rw [ht'] at h1 h2
        rcases hnew _ _ h1 with o1 | ⟨e1, j1⟩ <;> rcases hnew _ _ h2 with o2 | ⟨e2, j2⟩
        · exact hinv.inj _ _ _ o1 o2
        · exfalso
          obtain ⟨j, hj, hlt⟩ := hinv.vals _ _ o1
          simp only [Option.some.injEq] at hj j2; omega
        · exfalso
          obtain ⟨j, hj, hlt⟩ := hinv.vals _ _ o2
          simp only [Option.some.injEq] at hj j1; omega
        · rw [e1, e2]
      · intro q i hm k g hg
        simp only at hm hg
        rw [ht'] at hm
        rcases hnew _ _ hm with hold | ⟨hq, hi⟩
        · obtain ⟨j, hj, hlt⟩ := hinv.vals _ _ hold
          simp only [Option.some.injEq] at hj; subst hj
          rw [getD_append_left' _ _ _ _ hlt] at hg
          obtain ⟨a, b, c⟩ := hinv.node q i hold k g hg
          exact ⟨a, hsub _ b, c⟩
        · simp only [Option.some.injEq] at hi; subst hi
          rw [getD_append_new', FNode.group_fresh] at hg
          by_cases hk : f.kind = k
          · rw [if_pos hk] at hg
            simp only [List.mem_singleton] at hg
            subst hg
            exact ⟨hq.symm, by simp, hk⟩
          · rw [if_neg hk] at hg; simp at hg
      · intro g hg
        simp only
        rw [ht']
        rcases List.mem_append.mp hg with hg | hg
        · obtain ⟨j, hj, hin⟩ := hinv.cov g hg
          obtain ⟨j', hj', hlt⟩ := hinv.vals _ _ hj
          simp only [Option.some.injEq] at hj'; subst hj'
          exact ⟨j, List.mem_append_left _ hj, by rw [getD_append_left' _ _ _ _ hlt]; exact hin⟩
        · simp only [List.mem_singleton] at hg
          subst hg
          exact ⟨ft.store.length, entry_mem_append hfwl, by rw [getD_append_new', FNode.group_fresh]; simp⟩
      · intro g hg
        simp only
        rw [ht', findNode_append]
        rcases List.mem_append.mp hg with hg | hg
        · obtain ⟨j, hj, hjm⟩ := hinv.keys g hg
          exact ⟨j, by rw [hj], List.mem_append_left _ hjm⟩
        · simp only [List.mem_singleton] at hg
          subst hg
          exact ⟨ft.store.length, by rw [hfn]; simp, entry_mem_append hfwl⟩
      · intro k j hkj
        simp only at hkj ⊢
        rw [findNode_append] at hkj
        rw [ht']
        cases hk : findNode k ft.nodes with
        | some i =>
          rw [hk] at hkj
          simp only [Option.some.injEq] at hkj
          subst hkj
          obtain ⟨g', hg', a, b⟩ := hinv.keysDom k i hk
          exact ⟨g', hsub _ hg', a, List.mem_append_left _ b⟩
        | none =>
          rw [hk] at hkj
          simp only at hkj
          split at hkj
          · rename_i hfk
            simp only [Option.some.injEq] at hkj
            subst hkj
            exact ⟨f, by simp, hfk, entry_mem_append hfwl⟩
          · cases hkj

/-! ### the whole load -/

/-- `Fresh` for every flow relative to the flows loaded before it. -/
def FreshAll : List Flow → List Flow → Prop
  | _, [] => True
  | done, f :: rest => Fresh done f ∧ FreshAll (done ++ [f]) rest

theorem buildFrom_inv (fs : List Flow) : ∀ (ft ft' : FTree) (done : List Flow),
    Inv ft done → FreshAll done fs → buildFrom ft fs = .ok ft' → Inv ft' (done ++ fs) := by
  induction fs with
  | nil => intro ft ft' done hinv _ h; simp [buildFrom] at h; subst h; simpa using hinv
  | cons f rest ih =>
    intro ft ft' done hinv hfa h
    unfold buildFrom at h
    split at h
    · simp at h
    · rename_i ft1 hadd
      obtain ⟨hf, hrest⟩ := hfa
      have := ih ft1 ft' (done ++ [f]) (addFlow_inv hinv hf hadd) hrest h
      simpa using this

theorem freshAll_of (rest : List Flow) : ∀ (done : List Flow),
    (∀ g ∈ done ++ rest, ∀ g' ∈ done ++ rest, sameSide g.parts g'.parts = true) →
    (∀ g ∈ done ++ rest, ∀ g' ∈ done ++ rest, (g.key = g'.key ↔ g.parts = g'.parts)) →
    FreshAll done rest := by
  induction rest with
  | nil => intro done _ _; trivial
  | cons f rest ih =>
    intro done hflags hkeys
    refine ⟨⟨?_, ?_⟩, ?_⟩
    · intro g hg g' hg'
      apply hflags
      · rcases List.mem_append.mp hg with hg | hg
        · simp [hg]
        · simp at hg; simp [hg]
      · rcases List.mem_append.mp hg' with hg' | hg'
        · simp [hg']
        · simp at hg'; simp [hg']
    · intro g hg
      exact hkeys g (by simp [hg]) f (by simp)
    · apply ih (done ++ [f])
      · simpa using hflags
      · simpa using hkeys

theorem cfgBoundaryMix_false {cfg : List Flow} (h : cfgBoundaryMix cfg = false) :
    ∀ g ∈ cfg, ∀ g' ∈ cfg, sameSide g.parts g'.parts = true := by
  intro g hg g' hg'
  have h1 := any_false_of h g hg
  have h2 := any_false_of h1 g' hg'
  simpa using h2

theorem keysOK_true {cfg : List Flow} (h : keysOK cfg = true) :
    ∀ g ∈ cfg, ∀ g' ∈ cfg, (g.key = g'.key ↔ g.parts = g'.parts) := by
  intro g hg g' hg'
  unfold keysOK at h
  rw [List.all_eq_true] at h
  have := h g hg
  rw [List.all_eq_true] at this
  have := this g' hg'
  by_cases hk : g.key = g'.key <;> by_cases hp : g.parts = g'.parts <;> simp [hk, hp] at this ⊢

/-- The invariant holds of every tree loaded from a configuration whose patterns do not cross the
    host/path boundary (F03e) and whose keys identify the patterns. -/
theorem build_inv {cfg : List Flow} {ft : FTree} (hk : keysOK cfg = true) (hbm : cfgBoundaryMix cfg = false)
    (h : build cfg = .ok ft) : Inv ft cfg := by
  have hfa := freshAll_of cfg [] (by simpa using cfgBoundaryMix_false hbm) (by simpa using keysOK_true hk)
  have := buildFrom_inv cfg .empty ft [] inv_empty hfa h
  simpa using this

end LunarVerif.C03
