import LunarVerif.Spec.C03
import LunarVerif.Proofs.UrlTree
/-! Tree-level lemmas for C03: the loop of `lookupFlow` equals a structurally recursive traversal `travS`,
and — for residual lists whose entries agree on the parts they share and follow the URL on its side of the
host/path boundary — membership in its result is characterised declaratively (`mem_travS_iff`). -/
namespace LunarVerif.C03
open LunarVerif.UrlTree LunarVerif.UrlMatch

variable {V : Type}

/-! ### structural form of the traversal -/

/-- What is appended after a complete walk, for `currentNode = cur`. -/
def endSel (cur : Res V) : List V :=
  wildVal cur ++ (match nodeValue cur with | some v => [v] | none => [])

/-- `lookupFlow` on a non-empty URL, by structural recursion; `atRoot` = first iteration. -/
def travS (atRoot : Bool) (res : Res V) : List Part → List V
  | [] => endSel res
  | u :: us => wildValAt atRoot res u ++ (match nextF res u with
      | some c => travS false c us
      | none => [])

theorem loopGo_spec (us : List Part) : ∀ (st : LoopSt V), st.matchedAll = true →
    (if (loopGo st us).matchedAll then (loopGo st us).flows ++ endSel (loopGo st us).cur else (loopGo st us).flows) =
      st.flows ++ travS st.atRoot st.cur us := by
  induction us with
  | nil => intro st h; simp [loopGo, travS, h]
  | cons u us ih =>
    intro st h
    unfold loopGo
    simp only
    cases hnx : nextF st.cur u with
    | none => simp [travS, hnx]
    | some c =>
      simp only [travS, hnx]
      rw [ih _ (by simpa using h)]
      simp [List.append_assoc]

/-- The loop and the structural traversal agree on every tree and URL. -/
theorem lookupFlow_eq_travS (t : Tree V) (us : List Part) :
    lookupFlow t us = if us = [] then [] else travS true t us := by
  cases us with
  | nil => simp [lookupFlow, loopGo]
  | cons u rest =>
    have := loopGo_spec (u :: rest) (⟨t, [], true, true⟩ : LoopSt V) rfl
    simp only [List.nil_append] at this
    simp only [lookupFlow, List.isEmpty_cons, Bool.not_false, reduceCtorEq, if_false]
    rw [← this]
    unfold endSel
    split
    · simp only [List.append_assoc]
      congr 2
    · rfl

/-! ### the step taken by `nextF` -/

theorem nextF_noconst {res : Res V} {u : Part} (hno : ∀ s, u.seg = .lit s → constFlag? res s ≠ some u.host) :
    nextF res u = (match parChild? res with
      | some (_, h) => if h = u.host ∧ u.seg ≠ .lit "" then some (step .par res) else none
      | none => none) := by
  have hvia : ∀ {α : Type} (a : String → α) (b : α),
      (match (match u.seg with
        | .lit s => if constFlag? res s = some u.host then some s else none
        | _ => (none : Option String)) with
      | some s => a s
      | none => b) = b := by
    intro α a b
    cases hs : u.seg with
    | lit s => simp [hno s hs]
    | par n => rfl
    | wild => rfl
  unfold nextF
  refine (hvia _ _).trans ?_
  cases parChild? res with
  | none => rfl
  | some nh => obtain ⟨_, _⟩ := nh; rfl

/-- what `nextF` does, by cases -/
theorem nextF_cases (res : Res V) (u : Part) :
    (∃ s, u.seg = .lit s ∧ constFlag? res s = some u.host ∧ nextF res u = some (step (.lit s) res)) ∨
    ((∀ s, u.seg = .lit s → constFlag? res s ≠ some u.host) ∧
      ((∃ n, parChild? res = some (n, u.host) ∧ u.seg ≠ .lit "" ∧ nextF res u = some (step .par res)) ∨
       nextF res u = none)) := by
  by_cases hc : ∃ s, u.seg = .lit s ∧ constFlag? res s = some u.host
  · obtain ⟨s, hs, hf⟩ := hc
    exact .inl ⟨s, hs, hf, by simp [nextF, hs, hf]⟩
  · right
    have hno : ∀ s, u.seg = .lit s → constFlag? res s ≠ some u.host := fun s hs hf => hc ⟨s, hs, hf⟩
    refine ⟨hno, ?_⟩
    rw [nextF_noconst hno]
    cases hp : parChild? res with
    | none => right; simp
    | some nh =>
      obtain ⟨n, h⟩ := nh
      by_cases hh : h = u.host ∧ u.seg ≠ .lit ""
      · left; obtain ⟨h1, h2⟩ := hh; subst h1; exact ⟨n, rfl, h2, by simp [h2]⟩
      · right; simp only [hh, if_false]

theorem stepOK_lit {s : String} {u : Part} (hs : u.seg = .lit s) :
    ∀ p : Part, p.seg.key = Key.lit s → trieStep p u := by
  intro p hk
  exact .inl ⟨s, key_eq_lit hk, hs⟩

theorem stepOK_par {u : Part} : ∀ p : Part, p.seg.key = Key.par → trieStep p u := by
  intro p hk
  obtain ⟨n, hn⟩ := key_eq_par hk
  exact .inr (by simp [hn, Seg.isPar])

theorem acc_lit {s : String} {u : Part} (hs : u.seg = .lit s) :
    ∀ p : Part, p.seg.key = Key.lit s → p.seg ≠ .wild ∧ segAccepts p.seg u.seg = true := by
  intro p hk
  have := key_eq_lit hk
  simp [this, hs, segAccepts]

theorem acc_par {u : Part} (hu : u.seg ≠ .lit "") :
    ∀ p : Part, p.seg.key = Key.par → p.seg ≠ .wild ∧ segAccepts p.seg u.seg = true := by
  intro p hk
  obtain ⟨n, hn⟩ := key_eq_par hk
  simp [hn, segAccepts, hu]

/-! ### hypotheses of the characterisation and their preservation along a step -/

/-- Directly under the root the wildcard child is collected without looking at the side: harmless when the
    wildcard heads there and the URL's first part lie on the same side (both are host parts). -/
def RootOK (atRoot : Bool) (res : Res V) (us : Url) : Prop :=
  atRoot = true → ∀ (p : Part) (rest : List Part) (ov : Option V) (u : Part) (us' : Url),
    (p :: rest, ov) ∈ res → p.seg = .wild → us = u :: us' → p.host = u.host

structure TravHyp (atRoot : Bool) (res : Res V) (us : Url) : Prop where
  wl : WildLast res
  parts : PartsOK res
  coh : RCoh res
  root : RootOK atRoot res us

theorem TravHyp.step {r : Bool} {res : Res V} {u : Part} {us : Url} (h : TravHyp r res (u :: us)) (k : Key) :
    TravHyp false (step k res) us :=
  ⟨h.wl.step k, h.parts.step k, h.coh.step h.parts k, fun hf => by cases hf⟩

/-! ### small facts about the node queries under `PartsOK` / `RCoh` -/

theorem wildChild?_entry {res : Res V} (hwl : WildLast res) {wv : Option V} (h : wildChild? res = some wv) :
    ∃ w : Part, w.seg = .wild ∧ ([w], wv) ∈ res := by
  obtain ⟨p, rest, hmem, hp⟩ := wildChild?_some h
  have := wildLast_wild_head (hwl _ hmem) hp
  subst this
  exact ⟨p, hp, hmem⟩

theorem wildChild?_of_mem {res : Res V} (hwl : WildLast res) (hp : PartsOK res) (hc : RCoh res)
    {w : Part} {ov : Option V} (hw : w.seg = .wild) (hm : ([w], ov) ∈ res) : wildChild? res = some ov := by
  cases h : wildChild? res with
  | none => exact absurd hw (wildChild?_none h hm)
  | some wv =>
    obtain ⟨w', hw', hm'⟩ := wildChild?_entry hwl h
    have hww : w = w' := hp.head_eq hm hm' (by rw [hw, hw'])
    subst hww
    have := hc _ hm _ hm' rfl
    simp only at this
    rw [this]

theorem wildNode?_of_mem {res : Res V} (hwl : WildLast res) (hp : PartsOK res) (hc : RCoh res)
    {w : Part} {ov : Option V} (hw : w.seg = .wild) (hm : ([w], ov) ∈ res) :
    wildNode? res = some (ov, w.host) := by
  cases h : wildNode? res with
  | none => exact absurd hw (wildNode?_none h hm)
  | some wf =>
    obtain ⟨wv, f⟩ := wf
    obtain ⟨w', hm', hw', hf⟩ := wildNode_entry hwl h
    have hww : w = w' := hp.head_eq hm hm' (by rw [hw, hw'])
    subst hww
    have := hc _ hm _ hm' rfl
    simp only at this
    rw [this, hf]

theorem mem_wildVal {res : Res V} {v : V} : v ∈ wildVal res ↔ wildChild? res = some (some v) := by
  unfold wildVal
  cases h : wildChild? res with
  | none => simp
  | some wv => cases wv <;> simp [eq_comm]

theorem mem_wildValAt {r : Bool} {res : Res V} {u : Part} {v : V} :
    v ∈ wildValAt r res u ↔ ∃ h, wildNode? res = some (some v, h) ∧ (r = true ∨ h = u.host) := by
  unfold wildValAt
  cases hw : wildNode? res with
  | none => simp
  | some wf =>
    obtain ⟨wv, f⟩ := wf
    cases wv with
    | none => simp
    | some v' =>
      simp only
      by_cases hc : (r || f == u.host) = true
      · rw [if_pos hc]
        simp only [Bool.or_eq_true, beq_iff_eq] at hc
        simp only [List.mem_singleton, Option.some.injEq, Prod.mk.injEq]
        constructor
        · rintro rfl; exact ⟨f, ⟨rfl, rfl⟩, hc⟩
        · rintro ⟨h, ⟨h1, _⟩, _⟩; exact h1.symm
      · rw [if_neg hc]
        simp only [Bool.or_eq_true, beq_iff_eq, not_or] at hc
        simp only [List.not_mem_nil, false_iff, Option.some.injEq, Prod.mk.injEq, not_exists, not_and]
        rintro h ⟨_, rfl⟩ hor
        rcases hor with h1 | h1
        · exact hc.1 h1
        · exact hc.2 h1

/-- the constant child carries the flag of every entry that goes through it -/
theorem constFlag?_of_mem {res : Res V} (hp : PartsOK res) {s : String} {b : Part} {e' : List Part}
    {ev : Option V} (hmem : (b :: e', ev) ∈ res) (hb : b.seg = .lit s) : constFlag? res s = some b.host := by
  cases hc : constFlag? res s with
  | none => exact absurd hb (constFlag?_none hc hmem)
  | some f =>
    obtain ⟨p, rest, v, hm, hps, hf⟩ := constFlag?_some hc
    have : p = b := hp.head_eq hm hmem (by rw [hps, hb])
    rw [← hf, this]

theorem parChild?_of_mem {res : Res V} (hp : PartsOK res) {n : String} {b : Part} {e' : List Part}
    {ev : Option V} (hmem : (b :: e', ev) ∈ res) (hb : b.seg = .par n) : parChild? res = some (n, b.host) := by
  cases hc : parChild? res with
  | none => have := parChild?_none hc hmem; simp [hb, Seg.isPar] at this
  | some nh =>
    obtain ⟨n', f⟩ := nh
    obtain ⟨p, rest, v, hm, hps, hf⟩ := parChild?_some hc
    have hpb : p = b := hp.head_eq hm hmem (by rw [hps, hb]; rfl)
    subst hpb
    rw [hb] at hps
    simp only [Seg.par.injEq] at hps
    rw [hps, hf]

/-! ### matcher / shadow unfoldings -/

theorem matches_wild_nil {w : Part} (hw : w.seg = .wild) : «matches» [w] [] = true := by
  simp [«matches», matchesG, hw]

theorem matches_wild_cons {w : Part} (hw : w.seg = .wild) (q : Pattern) (u : Part) (us : Url) :
    «matches» (w :: q) (u :: us) = (q.isEmpty && (u.host == w.host)) := by
  simp [«matches», matchesG, hw]

theorem matches_cons_step {p u : Part} (hnw : p.seg ≠ .wild) (q : Pattern) (us : Url) :
    «matches» (p :: q) (u :: us) = ((u.host == p.host) && segAccepts p.seg u.seg && «matches» q us) := by
  cases hs : p.seg with
  | wild => exact absurd hs hnw
  | lit s => simp [«matches», matchesG, hs]
  | par n => simp [«matches», matchesG, hs]

theorem matches_nil_right {q : Pattern} (h : «matches» q [] = true) :
    q = [] ∨ ∃ w : Part, w.seg = .wild ∧ q = [w] := by
  cases q with
  | nil => exact .inl rfl
  | cons p ps =>
    right
    cases hs : p.seg with
    | wild =>
      simp [«matches», matchesG, hs] at h
      exact ⟨p, hs, by rw [h]⟩
    | lit s => simp [«matches», matchesG, hs] at h
    | par n => simp [«matches», matchesG, hs] at h

theorem shadows_nil_mid (e : Pattern) (us : Url) : shadows e [] us = false := by
  cases e <;> cases us <;> rfl

theorem shadows_wild (e : Pattern) {w : Part} (hw : w.seg = .wild) (us : Url) : shadows e [w] us = false := by
  cases e with
  | nil => rfl
  | cons b e' =>
    cases us with
    | nil => rfl
    | cons x u => simp [shadows, hw, Seg.isPar, shadows_nil_mid]

/-! ### soundness direction -/

theorem sound_wild_end {res : Res V} (hwl : WildLast res) {v : V} (hv : v ∈ wildVal res) :
    ∃ q, (q, some v) ∈ res ∧ «matches» q [] = true ∧ ∀ e ∈ res, shadows e.1 q [] = false := by
  obtain ⟨w, hw, hm⟩ := wildChild?_entry hwl (mem_wildVal.mp hv)
  exact ⟨[w], hm, matches_wild_nil hw, fun e _ => shadows_wild e.1 hw []⟩

theorem sound_wild_at {r : Bool} {res : Res V} {u : Part} {us : Url} (h : TravHyp r res (u :: us)) {v : V}
    (hv : v ∈ wildValAt r res u) :
    ∃ q, (q, some v) ∈ res ∧ «matches» q (u :: us) = true ∧ ∀ e ∈ res, shadows e.1 q (u :: us) = false := by
  obtain ⟨f, hwn, hor⟩ := mem_wildValAt.mp hv
  obtain ⟨w, hm, hw, hf⟩ := wildNode_entry h.wl hwn
  refine ⟨[w], hm, ?_, fun e _ => shadows_wild e.1 hw _⟩
  rw [matches_wild_cons hw]
  have : w.host = u.host := by
    rcases hor with hr | hh
    · exact h.root hr w [] (some v) u us hm hw rfl
    · rw [hf, hh]
  simp [this]

/-- Lift a selection made below the child along edge `k` to this node. -/
theorem lift_sound {r : Bool} {res : Res V} {u : Part} {us : Url} {k : Key} (h : TravHyp r res (u :: us))
    (hacc : ∀ p : Part, ∀ rest ov, (p :: rest, ov) ∈ res → p.seg.key = k →
      p.seg ≠ .wild ∧ segAccepts p.seg u.seg = true ∧ p.host = u.host)
    (hnolit : k = .par → ∀ s, u.seg = .lit s → constFlag? res s ≠ some u.host)
    {v : V} {q' : Pattern} (hq' : (q', some v) ∈ step k res) (hm : «matches» q' us = true)
    (hsh : ∀ e ∈ step k res, shadows e.1 q' us = false) :
    ∃ q, (q, some v) ∈ res ∧ «matches» q (u :: us) = true ∧ ∀ e ∈ res, shadows e.1 q (u :: us) = false := by
  obtain ⟨p, hp, hpk⟩ := mem_step.mp hq'
  obtain ⟨hnw, hsa, hph⟩ := hacc p _ _ hp hpk
  refine ⟨p :: q', hp, ?_, ?_⟩
  · rw [matches_cons_step hnw, hsa, hm, hph]; simp
  · intro ⟨e, ev⟩ he
    cases e with
    | nil => rfl
    | cons b e' =>
      simp only [shadows, Bool.or_eq_false_iff, Bool.and_eq_false_iff]
      constructor
      · by_cases hpar : p.seg.isPar = true
        · right
          cases hb : b.seg with
          | lit s =>
            simp only
            by_cases hus : u.seg = .lit s
            · by_cases hbh : b.host = u.host
              · exfalso
                have hkp : k = .par := by
                  cases hs : p.seg with
                  | par n => rw [hs] at hpk; exact hpk.symm
                  | lit s' => simp [hs, Seg.isPar] at hpar
                  | wild => simp [hs, Seg.isPar] at hpar
                exact hnolit hkp s hus (by rw [constFlag?_of_mem h.parts he hb, hbh])
              · simp [hbh]
            · simp [hus]
          | par n => rfl
          | wild => rfl
        · left; simpa using hpar
      · by_cases hkey : p.seg.key = b.seg.key
        · right
          have : (e', ev) ∈ step k res := mem_step.mpr ⟨b, he, by rw [← hkey, hpk]⟩
          exact hsh _ this
        · left; simpa using hkey

theorem acc_lit_of {res : Res V} (hp : PartsOK res) {s : String} {u : Part} (hs : u.seg = .lit s)
    (hf : constFlag? res s = some u.host) :
    ∀ p : Part, ∀ rest ov, (p :: rest, ov) ∈ res → p.seg.key = Key.lit s →
      p.seg ≠ .wild ∧ segAccepts p.seg u.seg = true ∧ p.host = u.host := by
  intro p rest ov hm hk
  have hps := key_eq_lit hk
  have := constFlag?_of_mem hp hm hps
  rw [hf] at this
  simp only [Option.some.injEq] at this
  exact ⟨by simp [hps], by simp [hps, hs, segAccepts], this.symm⟩

theorem acc_par_of {res : Res V} (hp : PartsOK res) {n : String} {u : Part} (hu : u.seg ≠ .lit "")
    (hf : parChild? res = some (n, u.host)) :
    ∀ p : Part, ∀ rest ov, (p :: rest, ov) ∈ res → p.seg.key = Key.par →
      p.seg ≠ .wild ∧ segAccepts p.seg u.seg = true ∧ p.host = u.host := by
  intro p rest ov hm hk
  obtain ⟨m, hps⟩ := key_eq_par hk
  have := parChild?_of_mem hp hm hps
  rw [hf] at this
  simp only [Option.some.injEq, Prod.mk.injEq] at this
  exact ⟨by simp [hps], by simp [hps, segAccepts, hu], this.2.symm⟩

theorem travS_sound (us : Url) : ∀ (r : Bool) (res : Res V) (v : V), TravHyp r res us → v ∈ travS r res us →
    ∃ q, (q, some v) ∈ res ∧ «matches» q us = true ∧ ∀ e ∈ res, shadows e.1 q us = false := by
  induction us with
  | nil =>
    intro r res v h hv
    simp only [travS, endSel, List.mem_append] at hv
    rcases hv with hv | hv
    · exact sound_wild_end h.wl hv
    · cases hn : nodeValue res with
      | none => rw [hn] at hv; simp at hv
      | some v' =>
        rw [hn] at hv; simp at hv; subst hv
        exact ⟨[], nodeValue_some hn, by simp [«matches», matchesG], fun e _ => shadows_nil_mid e.1 []⟩
  | cons u rest ih =>
    intro r res v h hv
    simp only [travS, List.mem_append] at hv
    rcases hv with hv | hv
    · exact sound_wild_at h hv
    · rcases nextF_cases res u with ⟨s, hs, hf, hnx⟩ | ⟨hno, ⟨n, hpc, hu, hnx⟩ | hnx⟩
      · rw [hnx] at hv
        simp only at hv
        obtain ⟨q', hq', hm, hsh⟩ := ih false _ v (h.step _) hv
        exact lift_sound h (acc_lit_of h.parts hs hf) (by intro hk; cases hk) hq' hm hsh
      · rw [hnx] at hv
        simp only at hv
        obtain ⟨q', hq', hm, hsh⟩ := ih false _ v (h.step _) hv
        exact lift_sound h (acc_par_of h.parts hu hpc) (fun _ => hno) hq' hm hsh
      · rw [hnx] at hv
        simp at hv

/-! ### completeness direction -/

theorem travS_complete (us : Url) : ∀ (r : Bool) (res : Res V) (v : V) (q : Pattern), TravHyp r res us →
    (q, some v) ∈ res → «matches» q us = true → (∀ e ∈ res, shadows e.1 q us = false) →
    v ∈ travS r res us := by
  induction us with
  | nil =>
    intro r res v q h hq hm _
    simp only [travS, endSel, List.mem_append]
    rcases matches_nil_right hm with hnil | ⟨w, hw, hqw⟩
    · subst hnil
      right
      rw [nodeValue_eq_of_mem h.coh hq]
      simp
    · subst hqw
      exact .inl (mem_wildVal.mpr (wildChild?_of_mem h.wl h.parts h.coh hw hq))
  | cons u rest ih =>
    intro r res v q h hq hm hsh
    cases q with
    | nil => simp [«matches», matchesG] at hm
    | cons p q' =>
      simp only [travS, List.mem_append]
      by_cases hpw : p.seg = .wild
      · rw [matches_wild_cons hpw] at hm
        simp only [Bool.and_eq_true, List.isEmpty_iff, beq_iff_eq] at hm
        obtain ⟨hq'nil, hh⟩ := hm
        subst hq'nil
        left
        exact mem_wildValAt.mpr ⟨p.host, wildNode?_of_mem h.wl h.parts h.coh hpw hq, .inr hh.symm⟩
      · right
        rw [matches_cons_step hpw] at hm
        simp only [Bool.and_eq_true, beq_iff_eq] at hm
        obtain ⟨⟨hhost, hacc⟩, hm'⟩ := hm
        have hnext : nextF res u = some (step p.seg.key res) := by
          cases hs : p.seg with
          | wild => exact absurd hs hpw
          | lit s =>
            have hus : u.seg = .lit s := by simpa [hs, segAccepts] using hacc
            have hf : constFlag? res s = some u.host := by rw [constFlag?_of_mem h.parts hq hs, hhost]
            simp [nextF, hus, hf, Seg.key]
          | par n =>
            have hu : u.seg ≠ .lit "" := by simpa [hs, segAccepts] using hacc
            have hno : ∀ s, u.seg = .lit s → constFlag? res s ≠ some u.host := by
              intro s hus hf
              obtain ⟨b, rest', bv, hb, hbs, hbh⟩ := constFlag?_some hf
              have := hsh _ hb
              simp [shadows, hs, Seg.isPar, hbs, hus, hbh] at this
            have hpc : parChild? res = some (n, u.host) := by rw [parChild?_of_mem h.parts hq hs, hhost]
            rw [nextF_noconst hno, hpc]
            simp [Seg.key, hu]
        rw [hnext]
        simp only
        apply ih false _ v q' (h.step _) (mem_step.mpr ⟨p, hq, rfl⟩) hm'
        intro ⟨e', ev⟩ he'
        obtain ⟨b, hb, hbk⟩ := mem_step.mp he'
        have := hsh _ hb
        simp only [shadows, Bool.or_eq_false_iff, Bool.and_eq_false_iff] at this
        rcases this.2 with hne | hok
        · simp [hbk] at hne
        · exact hok

/-- Closed form of the traversal under `TravHyp`: a value is returned iff it belongs to an entry whose
    pattern matches the URL (strictly: on the right side of the host/path boundary everywhere) and that no other
    entry shadows. -/
theorem mem_travS_iff {r : Bool} {res : Res V} {us : Url} (h : TravHyp r res us) (v : V) :
    v ∈ travS r res us ↔
      ∃ q, (q, some v) ∈ res ∧ «matches» q us = true ∧ ∀ e ∈ res, shadows e.1 q us = false :=
  ⟨travS_sound us r res v h, fun ⟨q, hq, hm, hsh⟩ => travS_complete us r res v q h hq hm hsh⟩

end LunarVerif.C03
