import LunarVerif.Base.Proto
import LunarVerif.Spec.C14
/-! Driver for C14: `lvdriver_c14 run` (model outputs) / `lvdriver_c14 judge` (Spec on impl outputs).

Ops (one answer line each; strings percent-encoded):
  L1  fmt m=<method> url=<url>                      -> <expression>            (HaproxyEndpointFormat)
  L2  re e=<expression> s=<subject>                 -> match | nomatch | err:syntax | unsupported
  L3  mode flows|policy                             -> ok
      flow name=<n> url=<url> methods=<a,b|->       -> ok | err | dead                 (FilterTree.AddFlow)
      policy name=<n> m=<method> url=<url> on=<0|1> -> ok
      global on=<0|1>                               -> ok
      build                                         -> ma=<0|1> n=<k> eps=<e1;e2;…|-> | err | dead
      req m=<method> url=<url>                      -> sel=<names|-> managed=<0|1|?>   (| no-build)
-/
open LunarVerif LunarVerif.Proto LunarVerif.UrlTree LunarVerif.Regex LunarVerif.C14

def ofChars (cs : List Char) : String := String.ofList cs

def fmtNames (ns : List String) : String := if ns.isEmpty then "-" else String.intercalate "," ns

def parseMethods (s : String) : List String := if s == "-" then [] else (s.splitOn ",").map pctDec

def reAnswer (e s : String) : String :=
  if !inSubset e.toList then "unsupported"
  else match parseRe e.toList with
    | none => "err:syntax"
    | some r => if reSearch r s.toList then "match" else "nomatch"

structure Built where
  cfg : Cfg
  pt : Option C13.PTree := none
  supported : Bool := true         -- every registered expression is inside the regex subset

structure RunSt where
  mode : Nat := 0                  -- 1 flows, 2 policy
  flows : List Flow := []
  ft : FTree := {}
  dead : Bool := false
  pols : List Policy := []
  glob : Bool := false
  built : Option Built := none

def fmtBuild (cfg : Cfg) : String :=
  let eps := (registered cfg).map fun e => pctEnc (ofChars e)
  let eps := eps.mergeSort (fun a b => decide (a ≤ b))
  s!"ma={if manageAll cfg then 1 else 0} n={eps.length} eps={if eps.isEmpty then "-" else String.intercalate ";" eps}"

def allSupported (cfg : Cfg) : Bool := (registered cfg).all inSubset

def runStep (s : RunSt) (line : String) : RunSt × String :=
  match words line with
  | ["case", id] => ({}, s!"case {id}")
  | "fmt" :: ws =>
    match kv ws "m", kv ws "url" with
    | some m, some u => (s, pctEnc (ofChars (formatEndpoint (pctDec m).toList (pctDec u).toList)))
    | _, _ => (s, "bad-op")
  | "re" :: ws =>
    match kv ws "e", kv ws "s" with
    | some e, some subj => (s, reAnswer (pctDec e) (pctDec subj))
    | _, _ => (s, "bad-op")
  | ["mode", "flows"] => ({ s with mode := 1 }, "ok")
  | ["mode", "policy"] => ({ s with mode := 2 }, "ok")
  | "flow" :: ws =>
    match kv ws "name", kv ws "url", kv ws "methods" with
    | some n, some u, some ms =>
      if s.mode != 1 then (s, "bad-op")
      else if s.dead then (s, "dead")
      else
        let f : Flow := ⟨n, pctDec u, parseMethods ms⟩
        match addFlow s.ft f with
        | .ok ft => ({ s with ft := ft, flows := s.flows ++ [f] }, "ok")
        | .err => ({ s with dead := true }, "err")
    | _, _, _ => (s, "bad-op")
  | "policy" :: ws =>
    match kv ws "name", kv ws "m", kv ws "url", kv ws "on" with
    | some n, some m, some u, some on =>
      if s.mode != 2 then (s, "bad-op")
      else ({ s with pols := s.pols ++ [⟨n, pctDec m, pctDec u, on == "1"⟩] }, "ok")
    | _, _, _, _ => (s, "bad-op")
  | "global" :: ws =>
    match kv ws "on" with
    | some on => if s.mode != 2 then (s, "bad-op") else ({ s with glob := on == "1" }, "ok")
    | none => (s, "bad-op")
  | ["build"] =>
    if s.mode == 1 then
      if s.dead then (s, "dead")
      else
        let cfg := Cfg.flows s.flows
        ({ s with built := some { cfg := cfg, supported := allSupported cfg } }, fmtBuild cfg)
    else if s.mode == 2 then
      match buildPolicies s.pols with
      | .error _ => ({ s with dead := true }, "err")
      | .ok pt =>
        let cfg := Cfg.policies s.pols s.glob
        ({ s with built := some { cfg := cfg, pt := some pt, supported := allSupported cfg } }, fmtBuild cfg)
    else (s, "bad-op")
  | "req" :: ws =>
    match kv ws "m", kv ws "url" with
    | some m, some u =>
      let m := pctDec m
      let u := pctDec u
      if s.dead then (s, "sel=- managed=0")
      else match s.built with
        | none => (s, "no-build")
        | some b =>
          let sel := match b.pt with
            | some pt => selectPolicies pt m u
            | none => getFlow s.ft m u
          let managed := if manageAll b.cfg then "1"
            else if !b.supported then "?"
            else if managedB b.cfg m u then "1" else "0"
          (s, s!"sel={fmtNames sel} managed={managed}")
    | _, _ => (s, "bad-op")
  | _ => (s, "bad-op")

/-! ### judge: the Spec on the implementation's answers -/

structure JudgeSt where
  decls : List Decl := []
  worst : Option String := none     -- first violation
  known : Option String := none     -- first known-finding verdict
  bad : Option String := none

def judgeStep (s : JudgeSt) (op out : String) : JudgeSt :=
  if out == "bad-op" then s else
  match words op with
  | "flow" :: ws =>
    match kv ws "name", kv ws "url", kv ws "methods" with
    | some n, some u, some ms =>
      -- a flow the engine refused to load is not a loaded filter
      if out == "ok" then { s with decls := s.decls ++ [⟨n, pctDec u, parseMethods ms, true⟩] } else s
    | _, _, _ => { s with bad := some "unparsable-flow" }
  | "policy" :: ws =>
    match kv ws "name", kv ws "m", kv ws "url", kv ws "on" with
    | some n, some m, some u, some on => { s with decls := s.decls ++ [⟨n, pctDec u, [pctDec m], on == "1"⟩] }
    | _, _, _, _ => { s with bad := some "unparsable-policy" }
  | "req" :: ws =>
    let ows := words out
    match kv ws "m", kv ws "url", kv ows "sel", kv ows "managed" with
    | some m, some u, some sel, some managed =>
      if managed == "?" then s
      else
        let names := if sel == "-" then [] else sel.splitOn ","
        match reqVerdict s.decls (pctDec m) (pctDec u) names (managed == "1") with
        | .ok => s
        | .known c =>
          if s.known.isSome then s
          else { s with known := some s!"{c.id} not-managed m={m} url={u} sel={sel}" }
        | .violated why =>
          if s.worst.isSome then s
          else { s with worst := some s!"- {why} m={m} url={u} sel={sel}" }
    | _, _, _, _ => if out == "no-build" then s else { s with bad := some ("unparsable-output:" ++ pctEnc out) }
  | _ => s

def judgeFinish (s : JudgeSt) : String :=
  match s.bad, s.worst, s.known with
  | some b, _, _ => s!"fail - {b}"
  | none, some w, _ => s!"fail {w}"
  | none, none, some k => s!"fail {k}"
  | none, none, none => "ok"

def main (args : List String) : IO Unit :=
  match args with
  | ["run"] => runLoop runStep {}
  | ["judge"] => judgeLoop ({} : JudgeSt) judgeStep judgeFinish
  | _ => IO.eprintln "usage: lvdriver_c14 run|judge"
