import LunarVerif.Proofs.C14Text
import LunarVerif.Proofs.Regex
/-!
Helper lemmas for C14, part A (semantics): the INTENDED regex of a safe pattern matches the whole subject
`method:::url` of every URL the declarative matcher accepts.

  `covers_full` : safe P → urlWF U → matches P U → Matches true (formatAST meth P) (subject m (render U)) true
-/
set_option linter.unusedSimpArgs false
namespace LunarVerif.C14
open LunarVerif.UrlTree LunarVerif.UrlMatch LunarVerif.Regex

/-- "The rest of the expression matches the rest of the subject up to its very end, whatever is on the left". -/
def TailM (rs : List Re) (w : List Char) : Prop := ∀ b, Matches b (catList rs) w true

theorem tailM_nil : TailM [] [] := fun _ => .eps _ _

theorem tailM_eol : TailM [.eol] [] := by
  intro b
  have h1 : Matches b .eol [] (true && ([] : List Char).isEmpty) := .eol _
  have h2 : Matches (b && ([] : List Char).isEmpty) (catList []) [] true := .eps _ _
  exact matches_catList_cons h1 h2

theorem tailM_lits (w : List Char) {rest : List Re} {w' : List Char} (h : TailM rest w') :
    TailM (w.map Re.char ++ rest) (w ++ w') :=
  matches_lits w rest w' true h

/-- A context-independent piece in front. -/
theorem tailM_cons {r : Re} {rs : List Re} {w1 w2 : List Char} (h1 : ∀ b e, Matches b r w1 e)
    (h2 : TailM rs w2) : TailM (r :: rs) (w1 ++ w2) := by
  intro b
  exact matches_catList_cons (h1 _ _) (h2 _)

/-- `[^…]+` matches any non-empty word whose characters the class accepts. -/
theorem matches_negPlus (rs : List (Char × Char)) (w : List Char) (hne : w ≠ [])
    (hs : ∀ c ∈ w, clsOK true rs c = true) : ∀ b e, Matches b (.plus (.cls true rs)) w e := by
  have hstar : ∀ (w : List Char), (∀ c ∈ w, clsOK true rs c = true) → ∀ b e, Matches b (.star (.cls true rs)) w e := by
    intro w
    induction w with
    | nil => intro _ b e; exact .starNil _ _ _
    | cons c cs ih =>
      intro hs b e
      have h1 : Matches b (.cls true rs) [c] (e && cs.isEmpty) := .cls _ _ _ _ _ (hs c (by simp))
      exact .starCons _ _ _ [c] cs h1 (ih (fun x hx => hs x (by simp [hx])) _ _)
  intro b e
  cases w with
  | nil => exact absurd rfl hne
  | cons c cs =>
    have h1 : Matches b (.cls true rs) [c] (e && cs.isEmpty) := .cls _ _ _ _ _ (hs c (by simp))
    have h2 := hstar cs (fun x hx => hs x (by simp [hx])) (b && ([c] : List Char).isEmpty) e
    exact .plus _ _ _ _ (matches_cat (w1 := [c]) h1 h2)

theorem clsOK_single (a c : Char) (h : c ≠ a) : clsOK true [(a, a)] c = true := by
  have hn : c.toNat ≠ a.toNat := fun hh => h (Char.toNat_inj.mp hh)
  simp [clsOK, clsMem]
  omega

theorem clsOK_two (a a' c : Char) (h : c ≠ a) (h' : c ≠ a') : clsOK true [(a, a), (a', a')] c = true := by
  have hn : c.toNat ≠ a.toNat := fun hh => h (Char.toNat_inj.mp hh)
  have hn' : c.toNat ≠ a'.toNat := fun hh => h' (Char.toNat_inj.mp hh)
  simp [clsOK, clsMem]
  omega

/-- `.*` matches any newline-free word. -/
theorem matches_star_any (w : List Char) (hs : ∀ c ∈ w, c ≠ '\n') : ∀ b e, Matches b (.star .any) w e := by
  induction w with
  | nil => intro b e; exact .starNil _ _ _
  | cons c cs ih =>
    intro b e
    have h1 : Matches b .any [c] (e && cs.isEmpty) := .any _ _ _ (hs c (by simp))
    exact .starCons _ _ _ [c] cs h1 (ih (fun x hx => hs x (by simp [hx])) _ _)

/-- `(d.*)?` matches the empty word and any newline-free word that starts with `d`. -/
theorem matches_wildD (d : Char) (w : List Char) (h : w = [] ∨ ∃ w', w = d :: w' ∧ ∀ c ∈ w', c ≠ '\n') :
    ∀ b e, Matches b (.opt (.group (.cat (.char d) (.cat (.star .any) .eps)))) w e := by
  intro b e
  rcases h with h | ⟨w', h, hs⟩
  · subst h; exact .optNil _ _ _
  · subst h
    refine .optSome _ _ _ _ (.group _ _ _ _ ?_)
    have h1 : Matches b (.char d) [d] (e && w'.isEmpty) := .char _ _ _
    have h3 : Matches ((b && ([d] : List Char).isEmpty) && w'.isEmpty) .eps [] e := .eps _ _
    have h2 : Matches (b && ([d] : List Char).isEmpty) (.cat (.star .any) .eps) (w' ++ []) e :=
      matches_cat (matches_star_any w' hs _ _) h3
    have := matches_cat (w1 := [d]) (w2 := w' ++ []) (by simpa using h1) h2
    simpa using this

/-! ### Facts read off the declarative matcher -/

theorem matches_nil_left {us : List Part} (h : matchesG true [] us = true) : us = [] := by
  cases us with
  | nil => rfl
  | cons u us => simp [matchesG] at h

theorem matches_lit_inv {p : Part} {t : String} {ps us : List Part} (hp : p.seg = .lit t)
    (h : matchesG true (p :: ps) us = true) :
    ∃ u us', us = u :: us' ∧ u.host = p.host ∧ u.seg = .lit t ∧ matchesG true ps us' = true := by
  cases us with
  | nil => simp [matchesG, hp] at h
  | cons u us' =>
    simp [matchesG, hp, segAccepts] at h
    exact ⟨u, us', rfl, h.1.1, h.1.2, h.2⟩

theorem matches_par_inv {p : Part} {n : String} {ps us : List Part} (hp : p.seg = .par n)
    (h : matchesG true (p :: ps) us = true) :
    ∃ u us', us = u :: us' ∧ u.host = p.host ∧ matchesG true ps us' = true := by
  cases us with
  | nil => simp [matchesG, hp] at h
  | cons u us' =>
    simp [matchesG, hp, segAccepts] at h
    exact ⟨u, us', rfl, h.1.1, h.2⟩

theorem matches_wild_inv {p : Part} {ps us : List Part} (hp : p.seg = .wild)
    (h : matchesG true (p :: ps) us = true) : ∀ u us', us = u :: us' → u.host = p.host := by
  intro u us' hus
  subst hus
  simp [matchesG, hp] at h
  exact h.2

theorem matches_head_host {p : Part} {ps us : List Part} (h : matchesG true (p :: ps) us = true) :
    ∀ u us', us = u :: us' → u.host = p.host := by
  intro u us' hus
  subst hus
  cases hs : p.seg with
  | wild => exact matches_wild_inv hs h u us' rfl
  | lit t => obtain ⟨_, _, h1, h2, _⟩ := matches_lit_inv hs h; cases h1; exact h2
  | par n => obtain ⟨_, _, h1, h2, _⟩ := matches_par_inv hs h; cases h1; exact h2

/-! ### Shape of a rendered URL tail -/

theorem segWF_chars {hst : Bool} {s : Seg} (h : segWF hst s = true) :
    segChars s ≠ [] ∧ (∀ c ∈ segChars s, c ≠ '/') ∧ (∀ c ∈ segChars s, c ≠ '\n') ∧
    (hst = true → ∀ c ∈ segChars s, c ≠ '.') := by
  simp only [segWF, Bool.and_eq_true, Bool.not_eq_true', List.all_eq_true, partChar, bne_iff_ne, ne_eq,
    Bool.or_eq_true] at h
  refine ⟨by intro hn; rw [hn] at h; simp at h, fun c hc => (h.2 c hc).1.1, fun c hc => (h.2 c hc).2, ?_⟩
  intro hh c hc
  rcases (h.2 c hc).1.2 with h1 | h1
  · simp [hh] at h1
  · exact h1

theorem renderTail_path_noNL : ∀ (us : List Part), pathWF us = true → ∀ c ∈ renderTail us, c ≠ '\n' := by
  intro us
  induction us with
  | nil => intro _ c hc; simp [renderTail] at hc
  | cons u us ih =>
    intro h c hc
    simp only [pathWF, Bool.and_eq_true, Bool.not_eq_true'] at h
    obtain ⟨⟨hh, hw⟩, hr⟩ := h
    have hs := segWF_chars hw
    simp [renderTail, hh] at hc
    rcases hc with hc | hc | hc
    · subst hc; decide
    · exact hs.2.2.1 c hc
    · exact ih hr c hc

theorem renderTail_noNL : ∀ (us : List Part), urlTailWF us = true → ∀ c ∈ renderTail us, c ≠ '\n' := by
  intro us
  induction us with
  | nil => intro _ c hc; simp [renderTail] at hc
  | cons u us ih =>
    intro h c hc
    by_cases hh : u.host = true
    · simp only [urlTailWF, hh, if_true, Bool.and_eq_true] at h
      have hs := segWF_chars h.1
      simp [renderTail, hh] at hc
      rcases hc with hc | hc | hc
      · subst hc; decide
      · exact hs.2.2.1 c hc
      · exact ih h.2 c hc
    · have hf : u.host = false := by simpa using hh
      simp only [urlTailWF, hf] at h
      exact renderTail_path_noNL (u :: us) (by simpa using h) c hc

/-- What a trailing `*` has to swallow: nothing, or a text that starts with the delimiter of its first part. -/
theorem renderTail_shape (us : List Part) (hst : Bool) (h : urlTailWF us = true)
    (hh : ∀ u us', us = u :: us' → u.host = hst) :
    renderTail us = [] ∨ ∃ w', renderTail us = (if hst then '.' else '/') :: w' ∧ ∀ c ∈ w', c ≠ '\n' := by
  cases us with
  | nil => left; rfl
  | cons u us =>
    right
    have hnl := renderTail_noNL (u :: us) h
    have hu := hh u us rfl
    refine ⟨segChars u.seg ++ renderTail us, by simp [renderTail, hu], ?_⟩
    intro c hc
    apply hnl
    simp [renderTail] at hc ⊢
    right
    exact hc

/-- The closing pieces: `$` unless the pattern ends with `*`. -/
def fin (d : Bool) (ps : List Part) : List Re := if endsWildT d ps then [] else [.eol]

theorem tailM_fin_nil (d : Bool) : TailM (fin d []) [] := by
  cases d
  · exact tailM_eol
  · exact tailM_nil

theorem pathWF_of_tail {us : List Part} (h : urlTailWF us = true) (hh : ∀ u us', us = u :: us' → u.host = false) :
    pathWF us = true := by
  cases us with
  | nil => rfl
  | cons u us' =>
    have := hh u us' rfl
    simpa [urlTailWF, this] using h

theorem urlTailWF_of_path {us : List Part} (h : pathWF us = true) : urlTailWF us = true := by
  cases us with
  | nil => rfl
  | cons u us' =>
    have hu : u.host = false := by
      simp only [pathWF, Bool.and_eq_true, Bool.not_eq_true'] at h
      exact h.1.1
    simpa [urlTailWF, hu] using h

/-! ### The path part -/

theorem path_covers : ∀ (ps us : List Part) (d : Bool), pathTailOK ps = true → pathWF us = true →
    matchesG true ps us = true → TailM (tailPieces ps ++ fin d ps) (renderTail us) := by
  intro ps
  induction ps with
  | nil =>
    intro us d _ _ hm
    have := matches_nil_left hm
    subst this
    simpa [tailPieces, renderTail] using tailM_fin_nil d
  | cons p ps ih =>
    intro us d hok hwf hm
    simp only [pathTailOK, Bool.and_eq_true, Bool.not_eq_true'] at hok
    obtain ⟨hph, hseg⟩ := hok
    cases hs : p.seg with
    | lit t =>
      rw [hs] at hseg
      simp only [Bool.and_eq_true] at hseg
      obtain ⟨u, us', hus, hh, hu, hm'⟩ := matches_lit_inv hs hm
      subst hus
      simp only [pathWF, Bool.and_eq_true, Bool.not_eq_true'] at hwf
      have ih' := ih us' false hseg.2 hwf.2 hm'
      have hfin : fin d (p :: ps) = fin false ps := by simp [fin, endsWildT, hs, lit_beq_wild]
      have hr : renderTail (u :: us') = ('/' :: t.toList) ++ renderTail us' := by
        simp [renderTail, hwf.1.1, hu, segChars]
      have hp : tailPieces (p :: ps) ++ fin d (p :: ps)
          = ('/' :: t.toList).map Re.char ++ (tailPieces ps ++ fin false ps) := by
        simp [tailPieces, segPieces, hph, hs, hfin]
      rw [hr, hp]
      exact tailM_lits _ ih'
    | par n =>
      rw [hs] at hseg
      simp only [Bool.and_eq_true] at hseg
      obtain ⟨u, us', hus, hh, hm'⟩ := matches_par_inv hs hm
      subst hus
      simp only [pathWF, Bool.and_eq_true, Bool.not_eq_true'] at hwf
      have ih' := ih us' false hseg.2 hwf.2 hm'
      have hfin : fin d (p :: ps) = fin false ps := by simp [fin, endsWildT, hs, par_beq_wild]
      have hw := segWF_chars hwf.1.2
      have hr : renderTail (u :: us') = ['/'] ++ (segChars u.seg ++ renderTail us') := by
        simp [renderTail, hwf.1.1]
      have hp : tailPieces (p :: ps) ++ fin d (p :: ps)
          = ['/'].map Re.char ++ (pathParamRe :: (tailPieces ps ++ fin false ps)) := by
        simp [tailPieces, segPieces, hph, hs, hfin]
      rw [hr, hp]
      exact tailM_lits _ (tailM_cons
        (matches_negPlus _ _ hw.1 (fun c hc => clsOK_single '/' c (hw.2.1 c hc))) ih')
    | wild =>
      rw [hs] at hseg
      have hps : ps = [] := by simpa using hseg
      subst hps
      have hp : tailPieces [p] ++ fin d [p] = [wildRe] := by
        simp [tailPieces, hph, hs, fin, endsWildT]
      rw [hp]
      have hshape := renderTail_shape us false (urlTailWF_of_path hwf)
        (fun u us' hus => by
          subst hus
          simp only [pathWF, Bool.and_eq_true, Bool.not_eq_true'] at hwf
          exact hwf.1.1)
      have := tailM_cons (rs := []) (w2 := []) (matches_wildD '/' _ (by simpa using hshape)) tailM_nil
      simpa [wildRe] using this

/-! ### Host labels, then the path -/

theorem tail_covers : ∀ (ps us : List Part), tailOK ps = true → urlTailWF us = true →
    matchesG true ps us = true → TailM (tailPieces ps ++ fin false ps) (renderTail us) := by
  intro ps
  induction ps with
  | nil =>
    intro us _ _ hm
    have := matches_nil_left hm
    subst this
    simpa [tailPieces, renderTail] using tailM_fin_nil false
  | cons p ps ih =>
    intro us hok hwf hm
    by_cases hph : p.host = true
    · simp only [tailOK, hph, if_true] at hok
      cases hs : p.seg with
      | lit t =>
        rw [hs] at hok
        simp only [Bool.and_eq_true] at hok
        obtain ⟨u, us', hus, hh, hu, hm'⟩ := matches_lit_inv hs hm
        subst hus
        rw [hph] at hh
        simp only [urlTailWF, hh, if_true, Bool.and_eq_true] at hwf
        have ih' := ih us' hok.2 hwf.2 hm'
        have hfin : fin false (p :: ps) = fin false ps := by simp [fin, endsWildT, hs, lit_beq_wild]
        have hr : renderTail (u :: us') = ('.' :: t.toList) ++ renderTail us' := by
          simp [renderTail, hh, hu, segChars]
        have hp : tailPieces (p :: ps) ++ fin false (p :: ps)
            = ('.' :: t.toList).map Re.char ++ (tailPieces ps ++ fin false ps) := by
          simp [tailPieces, segPieces, hph, hs, hfin]
        rw [hr, hp]
        exact tailM_lits _ ih'
      | par n =>
        rw [hs] at hok
        simp only [Bool.and_eq_true] at hok
        obtain ⟨u, us', hus, hh, hm'⟩ := matches_par_inv hs hm
        subst hus
        rw [hph] at hh
        simp only [urlTailWF, hh, if_true, Bool.and_eq_true] at hwf
        have ih' := ih us' hok.2 hwf.2 hm'
        have hfin : fin false (p :: ps) = fin false ps := by simp [fin, endsWildT, hs, par_beq_wild]
        have hw := segWF_chars hwf.1
        have hr : renderTail (u :: us') = ['.'] ++ (segChars u.seg ++ renderTail us') := by
          simp [renderTail, hh]
        have hp : tailPieces (p :: ps) ++ fin false (p :: ps)
            = ['.'].map Re.char ++ (hostParamRe :: (tailPieces ps ++ fin false ps)) := by
          simp [tailPieces, segPieces, hph, hs, hfin]
        rw [hr, hp]
        exact tailM_lits _ (tailM_cons
          (matches_negPlus _ _ hw.1 (fun c hc => clsOK_two '.' '/' c (hw.2.2.2 rfl c hc) (hw.2.1 c hc))) ih')
      | wild =>
        rw [hs] at hok
        have hps : ps = [] := by simpa using hok
        subst hps
        have hp : tailPieces [p] ++ fin false [p] = [hostWildRe] := by
          simp [tailPieces, hph, hs, fin, endsWildT]
        rw [hp]
        have hshape := renderTail_shape us true hwf
          (fun u us' hus => by rw [matches_wild_inv hs hm u us' hus, hph])
        have := tailM_cons (rs := []) (w2 := []) (matches_wildD '.' _ (by simpa using hshape)) tailM_nil
        simpa [hostWildRe] using this
    · have hpf : p.host = false := by simpa using hph
      simp only [tailOK, hpf] at hok
      have hhead := matches_head_host hm
      have hpw := pathWF_of_tail hwf (fun u us' hus => by rw [hhead u us' hus, hpf])
      exact path_covers (p :: ps) us false (by simpa using hok) hpw hm

/-- The method part: a named method is matched literally, "any method" by `[^:]+`. -/
theorem method_covers (meth : Option (List Char)) (m : List Char)
    (hm : meth = some m ∨ (meth = none ∧ m ≠ [] ∧ ∀ c ∈ m, c ≠ ':'))
    {rest : List Re} {w : List Char} (h : TailM rest w) : TailM (methodPieces meth ++ rest) (m ++ w) := by
  rcases hm with hm | ⟨hm, hne, hc⟩
  · subst hm
    exact tailM_lits m h
  · subst hm
    exact tailM_cons (matches_negPlus _ _ hne (fun c hcm => clsOK_single ':' c (hc c hcm))) h

/-- Part A: the intended expression of a pattern matches the whole subject of every URL that the declarative
    matcher accepts. -/
theorem covers_full (meth : Option (List Char)) (m : List Char) (P U : List Part)
    (hmeth : meth = some m ∨ (meth = none ∧ m ≠ [] ∧ ∀ c ∈ m, c ≠ ':'))
    (hs : safe P = true) (hu : urlWF U = true)
    (hm : «matches» P U = true) : Matches true (formatAST meth P) (subject m (render U)) true := by
  cases P with
  | nil => simp [safe] at hs
  | cons p ps =>
    simp only [safe, Bool.and_eq_true] at hs
    obtain ⟨⟨hph, hseg⟩, hrest⟩ := hs
    have hnw : (p.seg == Seg.wild) = false := segOK_not_wild hseg
    have hfin : (if endsWild (p :: ps) then [] else [Re.eol]) = fin false ps := by
      simp [fin, endsWild_cons, hnw]
    cases hsg : p.seg with
    | wild => rw [hsg] at hseg; simp [segOK] at hseg
    | lit t =>
      obtain ⟨u, us', hus, hh, huseg, hm'⟩ := matches_lit_inv hsg hm
      subst hus
      simp only [urlWF, Bool.and_eq_true] at hu
      have htail := tail_covers ps us' hrest hu.2 hm'
      have h1 : TailM ((delimiter ++ t.toList).map Re.char ++ (tailPieces ps ++ fin false ps))
          ((delimiter ++ t.toList) ++ renderTail us') := tailM_lits _ htail
      have h2 := method_covers meth m hmeth h1
      have hA : formatAST meth (p :: ps)
          = catList (methodPieces meth ++ ((delimiter ++ t.toList).map Re.char ++ (tailPieces ps ++ fin false ps))) := by
        simp [formatAST, hsg, segPieces, hfin, List.append_assoc]
      have hS : subject m (render (u :: us')) = m ++ ((delimiter ++ t.toList) ++ renderTail us') := by
        simp [subject, render, huseg, segChars, List.append_assoc]
      rw [hA, hS]
      exact h2 true
    | par n =>
      obtain ⟨u, us', hus, hh, hm'⟩ := matches_par_inv hsg hm
      subst hus
      simp only [urlWF, Bool.and_eq_true] at hu
      have htail := tail_covers ps us' hrest hu.2 hm'
      have hw := segWF_chars hu.1.2
      have h0 : TailM (hostParamRe :: (tailPieces ps ++ fin false ps)) (segChars u.seg ++ renderTail us') :=
        tailM_cons (matches_negPlus _ _ hw.1
          (fun c hc => clsOK_two '.' '/' c (hw.2.2.2 rfl c hc) (hw.2.1 c hc))) htail
      have h1 : TailM (delimiter.map Re.char ++ (hostParamRe :: (tailPieces ps ++ fin false ps)))
          (delimiter ++ (segChars u.seg ++ renderTail us')) := tailM_lits _ h0
      have h2 := method_covers meth m hmeth h1
      have hA : formatAST meth (p :: ps)
          = catList (methodPieces meth ++ (delimiter.map Re.char ++ (hostParamRe :: (tailPieces ps ++ fin false ps)))) := by
        simp [formatAST, hsg, segPieces, hfin, List.append_assoc]
      have hS : subject m (render (u :: us')) = m ++ (delimiter ++ (segChars u.seg ++ renderTail us')) := by
        simp [subject, render, List.append_assoc]
      rw [hA, hS]
      exact h2 true

end LunarVerif.C14
