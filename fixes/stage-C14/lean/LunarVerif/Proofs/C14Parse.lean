import LunarVerif.Proofs.C14
/-!
Helper lemmas for C14, part B2 (parser): the regex parser reads the text that `formatEndpoint` produces for a
pattern `validateURL` accepts (`safe`) as exactly the intended AST.

  `parse_format_safe` : safe P → method text plain (or the any-method expression) →
                        parseRe (formatEndpoint (methodText meth) (render P)) = some (formatAST meth P)
-/
set_option linter.unusedSimpArgs false
namespace LunarVerif.C14
open LunarVerif.UrlTree LunarVerif.Regex

/-- The next token is not a repetition operator (nor a lazy marker). -/
def NoRep (rest : List Char) : Prop :=
  rest = [] ∨ ∃ c r, rest = c :: r ∧ c ≠ '*' ∧ c ≠ '+' ∧ c ≠ '?' ∧ c ≠ '{'

/-- Parsed as itself by `parseAtom`'s default case. -/
def litChar (c : Char) : Bool := !metaChars.contains c

theorem litChar_ne {c : Char} (h : litChar c = true) :
    c ≠ '(' ∧ c ≠ ')' ∧ c ≠ '[' ∧ c ≠ '.' ∧ c ≠ '^' ∧ c ≠ '$' ∧ c ≠ '\\' ∧ c ≠ '|' ∧
    c ≠ '*' ∧ c ≠ '+' ∧ c ≠ '?' ∧ c ≠ '{' := by
  simp [litChar, metaChars, specialChars] at h
  refine ⟨?_, ?_, ?_, ?_, ?_, ?_, ?_, ?_, ?_, ?_, ?_, ?_⟩ <;> (intro hc; subst hc; simp_all)

theorem plain_lit {c : Char} (h : plainChar c = true) : litChar c = true := by
  simp [plainChar] at h
  simp [litChar, h.1.1]

theorem noRep_cons {c : Char} {r : List Char} (h : c ≠ '*' ∧ c ≠ '+' ∧ c ≠ '?' ∧ c ≠ '{') : NoRep (c :: r) :=
  Or.inr ⟨c, r, rfl, h⟩

theorem noRep_lit {c : Char} {r : List Char} (h : litChar c = true) : NoRep (c :: r) := by
  have := litChar_ne h
  exact noRep_cons ⟨this.2.2.2.2.2.2.2.2.1, this.2.2.2.2.2.2.2.2.2.1, this.2.2.2.2.2.2.2.2.2.2.1,
    this.2.2.2.2.2.2.2.2.2.2.2⟩

theorem peek_noRep {rest : List Char} (h : NoRep rest) : peekRepeat rest = .notRep := by
  rcases h with h | ⟨c, r, h, h1, h2, h3, h4⟩
  · subst h; rfl
  · subst h
    unfold peekRepeat
    split <;> simp_all

theorem postfix_noRep (a : Re) {rest : List Char} (h : NoRep rest) : parsePostfix a rest = some (a, rest) := by
  simp [parsePostfix, peek_noRep h]

theorem atom_lit (sub : List Char → Option (Re × List Char)) {c : Char} (cs : List Char)
    (h : litChar c = true) : parseAtom sub (c :: cs) = some (.char c, cs) := by
  have hn := litChar_ne h
  unfold parseAtom
  split <;> simp_all

/-- One literal character. -/
theorem pc_lit (sub : List Char → Option (Re × List Char)) {c : Char} {rest : List Char} {f : Nat}
    {rs : List Re} {r : List Char} (hc : litChar c = true) (hr : NoRep rest)
    (h : parseCat sub f rest = some (rs, r)) :
    parseCat sub (f + 1) (c :: rest) = some (.char c :: rs, r) := by
  have hn := litChar_ne hc
  have hp : peekRepeat (c :: rest) = .notRep := peek_noRep (noRep_lit hc)
  unfold parseCat
  split
  · rename_i heq; cases heq
  · rename_i heq; cases heq; exact absurd rfl hn.2.2.2.2.2.2.2.1
  · rename_i heq; cases heq; exact absurd rfl hn.2.1
  · simp [hp, atom_lit sub rest hc, postfix_noRep _ hr, h]

theorem pc_lits (sub : List Char → Option (Re × List Char)) (w : List Char) {rest : List Char} {f : Nat}
    {rs : List Re} {r : List Char} (hw : ∀ c ∈ w, litChar c = true) (hr : NoRep rest)
    (h : parseCat sub f rest = some (rs, r)) :
    parseCat sub (f + w.length) (w ++ rest) = some (w.map Re.char ++ rs, r) := by
  induction w with
  | nil => simpa using h
  | cons c cs ih =>
    have ih' := ih (fun x hx => hw x (by simp [hx]))
    have hnr : NoRep (cs ++ rest) := by
      cases cs with
      | nil => simpa using hr
      | cons d ds => exact noRep_lit (hw d (by simp))
    have := pc_lit sub (hw c (by simp)) hnr ih'
    simpa [Nat.add_assoc] using this

/-- A quoted special character `\c`. -/
theorem special_facts : ∀ c ∈ specialChars, isAlnum c = false ∧ c.toNat < 128 := by decide

theorem pc_esc (sub : List Char → Option (Re × List Char)) {c : Char} {rest : List Char} {f : Nat}
    {rs : List Re} {r : List Char} (hc : c ∈ specialChars) (hr : NoRep rest)
    (h : parseCat sub f rest = some (rs, r)) :
    parseCat sub (f + 1) ('\\' :: c :: rest) = some (.char c :: rs, r) := by
  have hp : peekRepeat ('\\' :: c :: rest) = .notRep := peek_noRep (noRep_cons (by decide))
  obtain ⟨h1, h2⟩ := special_facts c hc
  have ha : parseAtom sub ('\\' :: c :: rest) = some (.char c, rest) := by
    simp [parseAtom, h1, h2]
  unfold parseCat
  split
  · rename_i heq; cases heq
  · rename_i heq; cases heq
  · rename_i heq; cases heq
  · simp [hp, ha, postfix_noRep _ hr, h]

theorem noRep_quoteMeta (w rest : List Char) (hr : NoRep rest) : NoRep (quoteMeta w ++ rest) := by
  cases w with
  | nil => simpa [quoteMeta] using hr
  | cons c cs =>
    by_cases hc : specialChars.contains c = true
    · simp only [quoteMeta, hc, if_true, List.cons_append]
      exact noRep_cons (by decide)
    · simp only [quoteMeta, hc, List.cons_append]
      exact noRep_lit (by simpa [litChar, metaChars] using hc)

/-- A literal part after `QuoteMeta`. -/
theorem pc_quoted (sub : List Char → Option (Re × List Char)) (w : List Char) {rest : List Char} {f : Nat}
    {rs : List Re} {r : List Char} (hr : NoRep rest) (h : parseCat sub f rest = some (rs, r)) :
    parseCat sub (f + w.length) (quoteMeta w ++ rest) = some (w.map Re.char ++ rs, r) := by
  induction w with
  | nil => simpa [quoteMeta] using h
  | cons c cs ih =>
    have hnr := noRep_quoteMeta cs rest hr
    by_cases hc : c ∈ specialChars
    · have := pc_esc sub hc hnr ih
      simpa [quoteMeta, hc, Nat.add_assoc] using this
    · have hl : litChar c = true := by simpa [litChar, metaChars] using hc
      have := pc_lit sub hl hnr ih
      simpa [quoteMeta, hc, Nat.add_assoc] using this

theorem dropLazy_noRep {rest : List Char} (h : NoRep rest) : dropLazy rest = rest := by
  rcases h with h | ⟨c, r, h, _, _, h3, _⟩
  · subst h; rfl
  · subst h
    unfold dropLazy
    split
    · rename_i heq; cases heq; exact absurd rfl h3
    · rfl

theorem postfix_plus (a : Re) {rest : List Char} (hr : NoRep rest) :
    parsePostfix a ('+' :: rest) = some (.plus a, rest) := by
  have hp1 : peekRepeat ('+' :: rest) = .op .plus rest := rfl
  simp [parsePostfix, hp1, dropLazy_noRep hr, peek_noRep hr, applyRep]

/-- One piece `TEXT+` where `TEXT` is a class the atom parser reads as `cls`. -/
theorem pc_atom_plus (sub : List Char → Option (Re × List Char)) (text : List Char) (a : Re) {rest : List Char}
    {f : Nat} {rs : List Re} {r : List Char}
    (hatom : ∀ x, parseAtom sub (text ++ x) = some (a, x))
    (hpeek : ∀ x, peekRepeat (text ++ x) = .notRep) (hne : ∀ x, text ++ x ≠ [] ∧ (∀ y, text ++ x ≠ '|' :: y) ∧ ∀ y, text ++ x ≠ ')' :: y)
    (hr : NoRep rest) (h : parseCat sub f rest = some (rs, r)) :
    parseCat sub (f + 1) (text ++ '+' :: rest) = some (.plus a :: rs, r) := by
  obtain ⟨n1, n2, n3⟩ := hne ('+' :: rest)
  unfold parseCat
  split
  · rename_i heq; exact absurd heq n1
  · rename_i y heq; exact absurd heq (n2 _)
  · rename_i y heq; exact absurd heq (n3 _)
  · simp [hpeek, hatom, postfix_plus a hr, h]

theorem pc_pathParam (sub : List Char → Option (Re × List Char)) {rest : List Char} {f : Nat}
    {rs : List Re} {r : List Char} (hr : NoRep rest) (h : parseCat sub f rest = some (rs, r)) :
    parseCat sub (f + 1) (pathParamRegex ++ rest) = some (pathParamRe :: rs, r) := by
  have := pc_atom_plus sub ['[', '^', '/', ']'] (.cls true [('/', '/')]) (rest := rest)
    (fun x => by simp [parseAtom, parseClass, classItems, classChar])
    (fun x => peek_noRep (noRep_cons (by decide))) (fun x => by simp) hr h
  simpa [pathParamRegex, pathParamRe] using this

theorem pc_hostParam (sub : List Char → Option (Re × List Char)) {rest : List Char} {f : Nat}
    {rs : List Re} {r : List Char} (hr : NoRep rest) (h : parseCat sub f rest = some (rs, r)) :
    parseCat sub (f + 1) (hostParamRegex ++ rest) = some (hostParamRe :: rs, r) := by
  have := pc_atom_plus sub ['[', '^', '.', '/', ']'] (.cls true [('.', '.'), ('/', '/')]) (rest := rest)
    (fun x => by simp [parseAtom, parseClass, classItems, classChar])
    (fun x => peek_noRep (noRep_cons (by decide))) (fun x => by simp) hr h
  simpa [hostParamRegex, hostParamRe] using this

theorem pc_anyMethod (sub : List Char → Option (Re × List Char)) {rest : List Char} {f : Nat}
    {rs : List Re} {r : List Char} (hr : NoRep rest) (h : parseCat sub f rest = some (rs, r)) :
    parseCat sub (f + 1) (anyMethodRegex ++ rest) = some (anyMethodRe :: rs, r) := by
  have := pc_atom_plus sub ['[', '^', ':', ']'] (.cls true [(':', ':')]) (rest := rest)
    (fun x => by simp [parseAtom, parseClass, classItems, classChar])
    (fun x => peek_noRep (noRep_cons (by decide))) (fun x => by simp) hr h
  simpa [anyMethodRegex, anyMethodRe] using this

theorem pc_end (sub : List Char → Option (Re × List Char)) (f : Nat) (hf : 1 ≤ f) :
    parseCat sub f [] = some ([], []) := by
  cases f with
  | zero => omega
  | succ g => simp [parseCat]

/-- `(/.*)?` / `(\..*)?` at the very end, one nesting level available. -/
theorem pc_wild (n f : Nat) :
    parseCat (parseAltN (n + 1)) (f + 2) wildcardRegex = some ([wildRe], []) := by
  have hsub : parseAltN (n + 1) ['/', '.', '*', ')', '?']
      = some (.cat (.char '/') (.cat (.star .any) .eps), [')', '?']) := by rfl
  have hatom : parseAtom (parseAltN (n + 1)) wildcardRegex
      = some (.group (.cat (.char '/') (.cat (.star .any) .eps)), ['?']) := by
    simp [wildcardRegex, parseAtom, hsub]
  have hpost : parsePostfix (.group (.cat (.char '/') (.cat (.star .any) .eps))) ['?'] = some (wildRe, []) := by
    rfl
  have hp : peekRepeat wildcardRegex = .notRep := by rfl
  have hend : parseCat (parseAltN (n + 1)) (f + 1) [] = some ([], []) := pc_end _ _ (by omega)
  unfold parseCat
  simp only [wildcardRegex] at *
  simp [hp, hatom, hpost, hend]

theorem pc_hostWild (n f : Nat) :
    parseCat (parseAltN (n + 1)) (f + 2) hostWildcardRegex = some ([hostWildRe], []) := by
  have hsub : parseAltN (n + 1) ['\\', '.', '.', '*', ')', '?']
      = some (.cat (.char '.') (.cat (.star .any) .eps), [')', '?']) := by rfl
  have hatom : parseAtom (parseAltN (n + 1)) hostWildcardRegex
      = some (.group (.cat (.char '.') (.cat (.star .any) .eps)), ['?']) := by
    simp [hostWildcardRegex, parseAtom, hsub]
  have hpost : parsePostfix (.group (.cat (.char '.') (.cat (.star .any) .eps))) ['?'] = some (hostWildRe, []) := by
    rfl
  have hp : peekRepeat hostWildcardRegex = .notRep := by rfl
  have hend : parseCat (parseAltN (n + 1)) (f + 1) [] = some ([], []) := pc_end _ _ (by omega)
  unfold parseCat
  simp only [hostWildcardRegex] at *
  simp [hp, hatom, hpost, hend]

/-! ### the tail of a pattern -/

/-- `$` unless the pattern ends with `*`. -/
def finText (d : Bool) (ps : List Part) : List Char := if endsWildT d ps then [] else ['$']

/-- Number of pieces (= loop iterations of `parseCat`) of one part's text / of the formatted tail. -/
def segNeed : Seg → Nat
  | .lit t => t.toList.length
  | .par _ => 1
  | .wild => 0

def need : List Part → Nat
  | [] => 0
  | p :: ps =>
    (match p.seg with
      | .wild => 2
      | s => 1 + segNeed s) + need ps

def finNeed (d : Bool) (ps : List Part) : Nat := if endsWildT d ps then 0 else 1

theorem pc_dollar (sub : List Char → Option (Re × List Char)) (f : Nat) (hf : 1 ≤ f) :
    parseCat sub (f + 1) ['$'] = some ([.eol], []) := by
  have hp : peekRepeat ['$'] = .notRep := by rfl
  have ha : parseAtom sub ['$'] = some (.eol, []) := by simp [parseAtom]
  have hq : parsePostfix .eol [] = some (.eol, []) := by rfl
  unfold parseCat
  simp [hp, ha, hq, pc_end sub f hf]

theorem noRep_finText (d : Bool) (ps : List Part) : NoRep (finText d ps) := by
  unfold finText
  split
  · exact Or.inl rfl
  · exact noRep_cons (by decide)

theorem pc_fin (sub : List Char → Option (Re × List Char)) (d : Bool) (f : Nat) (hf : 1 ≤ f) :
    parseCat sub (f + finNeed d []) (finText d []) = some (fin d [], []) := by
  cases d
  · simpa [finNeed, finText, fin, endsWildT] using pc_dollar sub f hf
  · simpa [finNeed, finText, fin, endsWildT] using pc_end sub f hf

theorem noRep_fmtTail (ps : List Part) (d : Bool) : NoRep (fmtTail ps ++ finText d ps) := by
  cases ps with
  | nil => simpa [fmtTail] using noRep_finText d []
  | cons p ps =>
    cases hs : p.seg <;> cases hh : p.host <;>
      simp only [fmtTail, hs, hh, wildcardRegex, hostWildcardRegex, List.cons_append, List.append_assoc,
        if_true, if_false, Bool.false_eq_true] <;>
      exact noRep_cons (by decide)

/-- The text of one literal/parameter part. -/
theorem pc_seg (sub : List Char → Option (Re × List Char)) (host : Bool) (s : Seg) (hs : segOK host s = true)
    {rest : List Char} {f : Nat} {rs : List Re} {r : List Char} (hr : NoRep rest)
    (h : parseCat sub f rest = some (rs, r)) :
    parseCat sub (f + segNeed s) (fmtSeg host s ++ rest) = some (segPieces host s ++ rs, r) := by
  cases s with
  | wild => simp [segOK] at hs
  | lit t => simpa [segNeed, fmtSeg, segPieces] using pc_quoted sub t.toList hr h
  | par n =>
    cases host
    · simpa [segNeed, fmtSeg, segPieces] using pc_pathParam sub hr h
    · simpa [segNeed, fmtSeg, segPieces] using pc_hostParam sub hr h

theorem noRep_seg (host : Bool) (s : Seg) (hs : segOK host s = true) (rest : List Char) (hr : NoRep rest) :
    NoRep (fmtSeg host s ++ rest) := by
  cases s with
  | wild => simp [segOK] at hs
  | lit t => exact noRep_quoteMeta _ _ hr
  | par n =>
    cases host <;> simp only [fmtSeg, pathParamRegex, hostParamRegex, List.cons_append, if_true, if_false,
      Bool.false_eq_true] <;> exact noRep_cons (by decide)

theorem parse_pathTail (n : Nat) : ∀ (ps : List Part) (d : Bool) (f : Nat), pathTailOK ps = true → 1 ≤ f →
    parseCat (parseAltN (n + 1)) (f + finNeed d ps + need ps) (fmtTail ps ++ finText d ps)
      = some (tailPieces ps ++ fin d ps, []) := by
  intro ps
  induction ps with
  | nil =>
    intro d f _ hf
    simpa [need, fmtTail, tailPieces] using pc_fin _ d f hf
  | cons p ps ih =>
    intro d f h hf
    simp only [pathTailOK, Bool.and_eq_true, Bool.not_eq_true'] at h
    obtain ⟨hph, hseg⟩ := h
    by_cases hw : p.seg = .wild
    · rw [hw] at hseg
      have hps : ps = [] := by simpa using hseg
      subst hps
      have e1 : f + finNeed d [p] + need [p] = (f - 1 + 1) + 2 := by
        simp [need, hw, finNeed, endsWildT]; omega
      rw [e1]
      have := pc_wild n (f - 1 + 1)
      simpa [fmtTail, tailPieces, hph, hw, finText, fin, endsWildT] using this
    · have hsok : segOK false p.seg = true ∧ pathTailOK ps = true := by
        cases hs : p.seg with
        | wild => exact absurd hs hw
        | lit t => rw [hs] at hseg; simpa using hseg
        | par nm => rw [hs] at hseg; simpa using hseg
      have hnw : (p.seg == Seg.wild) = false := segOK_not_wild hsok.1
      have ih' := ih false f hsok.2 hf
      have hfin : fin d (p :: ps) = fin false ps := by simp [fin, endsWildT, hnw]
      have hft : finText d (p :: ps) = finText false ps := by simp [finText, endsWildT, hnw]
      have hfn : finNeed d (p :: ps) = finNeed false ps := by simp [finNeed, endsWildT, hnw]
      have h1 := pc_seg _ false p.seg hsok.1 (noRep_fmtTail ps false) ih'
      have h2 := pc_lit _ (c := '/') (by decide) (noRep_seg false p.seg hsok.1 _ (noRep_fmtTail ps false)) h1
      rw [hfin, hft, hfn]
      have e1 : f + finNeed false ps + need (p :: ps) = f + finNeed false ps + need ps + segNeed p.seg + 1 := by
        cases hs : p.seg with
        | wild => exact absurd hs hw
        | lit t => simp [need, hs]; omega
        | par nm => simp [need, hs]; omega
      rw [e1]
      cases hs : p.seg with
      | wild => exact absurd hs hw
      | lit t => rw [hs] at h2; simpa [fmtTail, tailPieces, hph, hs, List.append_assoc] using h2
      | par nm => rw [hs] at h2; simpa [fmtTail, tailPieces, hph, hs, List.append_assoc] using h2

theorem parse_tail (n : Nat) : ∀ (ps : List Part) (f : Nat), tailOK ps = true → 1 ≤ f →
    parseCat (parseAltN (n + 1)) (f + finNeed false ps + need ps) (fmtTail ps ++ finText false ps)
      = some (tailPieces ps ++ fin false ps, []) := by
  intro ps
  induction ps with
  | nil =>
    intro f _ hf
    simpa [need, fmtTail, tailPieces] using pc_fin _ false f hf
  | cons p ps ih =>
    intro f h hf
    by_cases hph : p.host = true
    · simp only [tailOK, hph, if_true] at h
      by_cases hw : p.seg = .wild
      · rw [hw] at h
        have hps : ps = [] := by simpa using h
        subst hps
        have e1 : f + finNeed false [p] + need [p] = (f - 1 + 1) + 2 := by
          simp [need, hw, finNeed, endsWildT]; omega
        rw [e1]
        have := pc_hostWild n (f - 1 + 1)
        simpa [fmtTail, tailPieces, hph, hw, finText, fin, endsWildT] using this
      · have hsok : segOK true p.seg = true ∧ tailOK ps = true := by
          cases hs : p.seg with
          | wild => exact absurd hs hw
          | lit t => rw [hs] at h; simpa using h
          | par nm => rw [hs] at h; simpa using h
        have hnw : (p.seg == Seg.wild) = false := segOK_not_wild hsok.1
        have ih' := ih f hsok.2 hf
        have hfin : fin false (p :: ps) = fin false ps := by simp [fin, endsWildT, hnw]
        have hft : finText false (p :: ps) = finText false ps := by simp [finText, endsWildT, hnw]
        have hfn : finNeed false (p :: ps) = finNeed false ps := by simp [finNeed, endsWildT, hnw]
        have h1 := pc_seg _ true p.seg hsok.1 (noRep_fmtTail ps false) ih'
        have h2 := pc_esc _ (c := '.') (by decide) (noRep_seg true p.seg hsok.1 _ (noRep_fmtTail ps false)) h1
        rw [hfin, hft, hfn]
        have e1 : f + finNeed false ps + need (p :: ps) = f + finNeed false ps + need ps + segNeed p.seg + 1 := by
          cases hs : p.seg with
          | wild => exact absurd hs hw
          | lit t => simp [need, hs]; omega
          | par nm => simp [need, hs]; omega
        rw [e1]
        cases hs : p.seg with
        | wild => exact absurd hs hw
        | lit t => rw [hs] at h2; simpa [fmtTail, tailPieces, hph, hs, List.append_assoc] using h2
        | par nm => rw [hs] at h2; simpa [fmtTail, tailPieces, hph, hs, List.append_assoc] using h2
    · have hpf : p.host = false := by simpa using hph
      simp only [tailOK, hpf] at h
      exact parse_pathTail n (p :: ps) false f (by simpa using h) hf

/-! ### lengths -/

theorem length_quoteMeta_ge (t : List Char) : t.length ≤ (quoteMeta t).length := by
  induction t with
  | nil => simp [quoteMeta]
  | cons c cs ih => by_cases hc : c ∈ specialChars <;> simp [quoteMeta, hc] <;> omega

theorem segNeed_le (host : Bool) (s : Seg) : segNeed s ≤ (fmtSeg host s).length := by
  cases s with
  | wild => simp [segNeed]
  | lit t => simpa [segNeed, fmtSeg] using length_quoteMeta_ge t.toList
  | par n => cases host <;> simp [segNeed, fmtSeg, pathParamRegex, hostParamRegex]

theorem need_le : ∀ (ps : List Part) (d : Bool),
    finNeed d ps + need ps ≤ (fmtTail ps ++ finText d ps).length := by
  intro ps
  induction ps with
  | nil => intro d; cases d <;> simp [need, fmtTail, finNeed, finText, endsWildT]
  | cons p ps ih =>
    intro d
    have ih' := ih (p.seg == .wild)
    have hfn : finNeed d (p :: ps) = finNeed (p.seg == .wild) ps := rfl
    have hft : finText d (p :: ps) = finText (p.seg == .wild) ps := rfl
    rw [hfn, hft]
    simp only [List.length_append] at ih' ⊢
    have hl := segNeed_le p.host p.seg
    cases hs : p.seg with
    | lit t =>
      rw [hs] at ih' hl
      cases hh : p.host <;> simp [need, fmtTail, hh, hs, lit_beq_wild, segNeed] at ih' hl ⊢ <;> omega
    | par nm =>
      rw [hs] at ih' hl
      cases hh : p.host <;> simp [need, fmtTail, hh, hs, par_beq_wild, segNeed] at ih' hl ⊢ <;> omega
    | wild =>
      rw [hs] at ih'
      cases hh : p.host <;> simp [need, fmtTail, hh, hs, wildcardRegex, hostWildcardRegex] at ih' ⊢ <;> omega

/-- Part B: the parser reads the formatted text of a pattern as the intended AST. -/
theorem parse_format_safe (meth : Option (List Char)) (P : List Part) (hs : safe P = true)
    (hm : ∀ m, meth = some m → ∀ c ∈ m, plainChar c = true) :
    parseRe (formatEndpoint (methodText meth) (render P)) = some (formatAST meth P) := by
  cases P with
  | nil => simp [safe] at hs
  | cons p ps =>
    have hfmt := formatURL_safe p ps hs
    simp only [safe, Bool.and_eq_true] at hs
    obtain ⟨⟨hph, hseg⟩, hrest⟩ := hs
    have hnw : (p.seg == Seg.wild) = false := segOK_not_wild hseg
    have hew : endsWild (p :: ps) = endsWildT false ps := by rw [endsWild_cons, hnw]
    have htext : formatEndpoint (methodText meth) (render (p :: ps))
        = methodText meth ++ (delimiter ++ (fmtSeg true p.seg ++ (fmtTail ps ++ finText false ps))) := by
      simp only [formatEndpoint, hfmt, hew, finText]
      cases endsWildT false ps <;> simp [List.append_assoc]
    have hast : formatAST meth (p :: ps)
        = catList (methodPieces meth ++ (delimiter.map Re.char ++ (segPieces true p.seg ++ (tailPieces ps ++ fin false ps)))) := by
      simp [formatAST, hew, fin, List.append_assoc]
    rw [htext, hast]
    generalize hT : fmtTail ps ++ finText false ps = tail
    have hneed : finNeed false ps + need ps ≤ tail.length := by rw [← hT]; exact need_le ps false
    have hsl := segNeed_le true p.seg
    -- total number of characters
    generalize hW : methodText meth ++ (delimiter ++ (fmtSeg true p.seg ++ tail)) = whole
    have hlen : whole.length = (methodText meth).length + 3 + (fmtSeg true p.seg).length + tail.length := by
      rw [← hW]; simp [delimiter]; omega
    have hmlen : 1 ≤ (methodText meth).length ∨ meth = some [] := by
      cases meth with
      | none => left; simp [methodText, anyMethodRegex]
      | some m => cases m with
        | nil => right; rfl
        | cons c cs => left; simp [methodText]
    obtain ⟨n, hn⟩ : ∃ n, whole.length = n + 1 := ⟨whole.length - 1, by omega⟩
    -- pieces of the method
    let mneed : Nat := match meth with | some m => m.length | none => 1
    have hmneed : mneed ≤ (methodText meth).length := by
      cases meth with
      | none => simp [mneed, methodText, anyMethodRegex]
      | some m => simp [mneed, methodText]
    let f0 := whole.length + 1 - (finNeed false ps + need ps) - segNeed p.seg - 3 - mneed
    have hf0 : 1 ≤ f0 := by simp only [f0]; omega
    have htail := parse_tail n ps f0 hrest hf0
    rw [hT] at htail
    have hnr : NoRep tail := by rw [← hT]; exact noRep_fmtTail ps false
    have h1 := pc_seg (parseAltN (n + 1)) true p.seg hseg hnr htail
    have h2 := pc_lits (parseAltN (n + 1)) delimiter (by decide) (noRep_seg true p.seg hseg _ hnr) h1
    have hnr2 : NoRep (delimiter ++ (fmtSeg true p.seg ++ tail)) := noRep_cons (by decide)
    have h3 : parseCat (parseAltN (n + 1)) (f0 + finNeed false ps + need ps + segNeed p.seg + delimiter.length + mneed)
        (methodText meth ++ (delimiter ++ (fmtSeg true p.seg ++ tail)))
        = some (methodPieces meth ++ (delimiter.map Re.char ++ (segPieces true p.seg ++ (tailPieces ps ++ fin false ps))), []) := by
      cases meth with
      | none => simpa [mneed, methodText, methodPieces] using pc_anyMethod (parseAltN (n + 1)) hnr2 h2
      | some m =>
        have := pc_lits (parseAltN (n + 1)) m (fun c hc => plain_lit (hm m rfl c hc)) hnr2 h2
        simpa [mneed, methodText, methodPieces] using this
    rw [hW] at h3
    have hfuel : f0 + finNeed false ps + need ps + segNeed p.seg + delimiter.length + mneed = whole.length + 1 := by
      simp only [f0, delimiter, List.length_cons, List.length_nil]; omega
    rw [hfuel] at h3
    unfold parseRe
    rw [hn]
    have hWp : parseAltN (n + 1 + 1) whole
        = some (catList (methodPieces meth ++ (delimiter.map Re.char ++ (segPieces true p.seg ++ (tailPieces ps ++ fin false ps)))), []) := by
      have e : parseAltN (n + 1 + 1) whole = parseAltW (parseAltN (n + 1)) (whole.length + 1) whole := rfl
      rw [e]
      unfold parseAltW
      simp only [h3]
    simp [hWp]

end LunarVerif.C14
