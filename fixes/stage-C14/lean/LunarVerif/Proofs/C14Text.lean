import LunarVerif.Spec.C14
/-!
Helper lemmas for C14, part B1 (text): what `formatURL` (the transcription of `HaproxyEndpointFormat`'s string
operations: trailing wildcard, `strings.Split` on `/`, host split on `.`, `QuoteMeta` / parameter per part,
`strings.Join`) produces on the rendering of a pattern `validateURL` accepts (`safe`):

  `formatURL_safe` : safe (p :: ps) ⇒ formatURL (render (p :: ps)) = (fmtSeg true p.seg ++ fmtTail ps, endsWild (p :: ps))
-/
set_option linter.unusedSimpArgs false
namespace LunarVerif.C14
open LunarVerif.UrlTree LunarVerif.Regex

/-- `endsWild` continued over a tail: `d` = the previous part was `*`. -/
def endsWildT (d : Bool) : List Part → Bool
  | [] => d
  | p :: ps => endsWildT (p.seg == .wild) ps

theorem endsWild_cons (p : Part) (ps : List Part) : endsWild (p :: ps) = endsWildT (p.seg == .wild) ps := by
  induction ps generalizing p with
  | nil => rfl
  | cons q qs ih => simp [endsWild, endsWildT, ih]

theorem lit_beq_wild (t : String) : (Seg.lit t == Seg.wild) = false := beq_eq_false_iff_ne.mpr (by simp)
theorem par_beq_wild (n : String) : (Seg.par n == Seg.wild) = false := beq_eq_false_iff_ne.mpr (by simp)
theorem wild_beq_wild : (Seg.wild == Seg.wild) = true := by simp

/-- Expected output text of one literal/parameter part. -/
def fmtSeg (host : Bool) : Seg → List Char
  | .lit t => quoteMeta t.toList
  | .par _ => if host then hostParamRegex else pathParamRegex
  | .wild => []

/-- Expected output text of a tail. -/
def fmtTail : List Part → List Char
  | [] => []
  | p :: ps =>
    (match p.seg with
      | .wild => if p.host then hostWildcardRegex else wildcardRegex
      | s => (if p.host then ['\\', '.'] else ['/']) ++ fmtSeg p.host s) ++ fmtTail ps

/-! ### generic string lemmas -/

theorem splitOn_absent (sep : Char) (w : List Char) (h : ∀ c ∈ w, c ≠ sep) : splitOn sep w = [w] := by
  induction w with
  | nil => rfl
  | cons c cs ih =>
    have hc : c ≠ sep := h c (by simp)
    simp [splitOn, hc, ih (fun x hx => h x (by simp [hx]))]

theorem splitOn_append (sep : Char) (w rest : List Char) (h : ∀ c ∈ w, c ≠ sep) :
    splitOn sep (w ++ sep :: rest) = w :: splitOn sep rest := by
  induction w with
  | nil => simp [splitOn]
  | cons c cs ih =>
    have hc : c ≠ sep := h c (by simp)
    simp [splitOn, hc, ih (fun x hx => h x (by simp [hx]))]

theorem joinWith_cons (sep w : List Char) (ws : List (List Char)) :
    joinWith sep (w :: ws) = w ++ (ws.map (sep ++ ·)).flatten := by
  induction ws generalizing w with
  | nil => simp [joinWith]
  | cons v vs ih =>
    have : joinWith sep (w :: v :: vs) = w ++ sep ++ joinWith sep (v :: vs) := rfl
    rw [this, ih]
    simp [List.append_assoc]

theorem strip_some (a b : Char) (pre : List Char) : stripSuffix2 a b (pre ++ [a, b]) = some pre := by
  simp [stripSuffix2]

theorem strip_absent (a b : Char) (s : List Char) (h : ∀ c ∈ s, c ≠ a) : stripSuffix2 a b s = none := by
  unfold stripSuffix2
  split
  · rename_i y x r heq
    have hx : x ∈ s := by
      have : x ∈ s.reverse := by rw [heq]; simp
      simpa using this
    simp [h x hx]
  · rfl

/-- The string ends with `a :: seg` where `seg` is free of `a` and is not `[b]`: no `[a, b]` suffix. -/
theorem strip_last (a b : Char) (pre seg : List Char) (hab : a ≠ b) (h : ∀ c ∈ seg, c ≠ a) (hb : seg ≠ [b]) :
    stripSuffix2 a b (pre ++ a :: seg) = none := by
  unfold stripSuffix2
  have hrev : (pre ++ a :: seg).reverse = seg.reverse ++ a :: pre.reverse := by simp
  rw [hrev]
  cases hs : seg.reverse with
  | nil =>
    cases hp : pre.reverse with
    | nil => rfl
    | cons x r => simp [hab]
  | cons y ys =>
    cases ys with
    | nil =>
      have hseg : seg = [y] := by
        have := congrArg List.reverse hs
        simpa using this
      have hy : y ≠ b := by
        intro hyb; apply hb; rw [hseg, hyb]
      simp [hy]
    | cons x zs =>
      have hx : x ∈ seg := by
        have : x ∈ seg.reverse := by rw [hs]; simp
        simpa using this
      simp [h x hx]

/-! ### parts without the final wildcard -/

/-- The tail cut at its `*` (under `tailOK` the `*` is the last part). -/
def nw : List Part → List Part
  | [] => []
  | p :: ps => if p.seg == .wild then [] else p :: nw ps

/-- Text of the final `*` with its delimiter. -/
def wsuf : List Part → List Char
  | [] => []
  | p :: ps => if p.seg == .wild then [if p.host then '.' else '/', '*'] else wsuf ps

/-- Its expression. -/
def wre : List Part → List Char
  | [] => []
  | p :: ps => if p.seg == .wild then (if p.host then hostWildcardRegex else wildcardRegex) else wre ps

def pathNW : List Part → Bool
  | [] => true
  | p :: ps => !p.host && segOK false p.seg && pathNW ps

def tailNW : List Part → Bool
  | [] => true
  | p :: ps => if p.host then segOK true p.seg && tailNW ps else pathNW (p :: ps)

theorem segOK_not_wild {h : Bool} {s : Seg} (hs : segOK h s = true) : (s == Seg.wild) = false := by
  cases s with
  | lit t => exact lit_beq_wild t
  | par n => exact par_beq_wild n
  | wild => simp [segOK] at hs

theorem pathTail_nw : ∀ (ps : List Part), pathTailOK ps = true →
    pathNW (nw ps) = true ∧ renderTail ps = renderTail (nw ps) ++ wsuf ps ∧ fmtTail ps = fmtTail (nw ps) ++ wre ps ∧
    (endsWildT false ps = true → wsuf ps = ['/', '*'] ∧ wre ps = wildcardRegex) ∧
    (endsWildT false ps = false → wsuf ps = [] ∧ wre ps = []) := by
  intro ps
  induction ps with
  | nil => intro _; simp [nw, wsuf, wre, pathNW, renderTail, fmtTail, endsWildT]
  | cons p ps ih =>
    intro h
    simp only [pathTailOK, Bool.and_eq_true, Bool.not_eq_true'] at h
    obtain ⟨hph, hseg⟩ := h
    cases hs : p.seg with
    | wild =>
      rw [hs] at hseg
      have : ps = [] := by simpa using hseg
      subst this
      simp [nw, wsuf, wre, pathNW, renderTail, fmtTail, endsWildT, hs, hph, segChars]
    | lit t =>
      rw [hs] at hseg
      simp only [Bool.and_eq_true] at hseg
      obtain ⟨i1, i2, i3, i4, i5⟩ := ih hseg.2
      refine ⟨?_, ?_, ?_, ?_, ?_⟩
      · simp [nw, hs, lit_beq_wild, pathNW, hph, hseg.1, i1]
      · simp [nw, wsuf, hs, lit_beq_wild, renderTail, i2]
      · simp [nw, wre, hs, lit_beq_wild, fmtTail, i3]
      · intro he; simp only [endsWildT, hs, lit_beq_wild] at he
        simpa [wsuf, wre, hs, lit_beq_wild] using i4 he
      · intro he; simp only [endsWildT, hs, lit_beq_wild] at he
        simpa [wsuf, wre, hs, lit_beq_wild] using i5 he
    | par n =>
      rw [hs] at hseg
      simp only [Bool.and_eq_true] at hseg
      obtain ⟨i1, i2, i3, i4, i5⟩ := ih hseg.2
      refine ⟨?_, ?_, ?_, ?_, ?_⟩
      · simp [nw, hs, par_beq_wild, pathNW, hph, hseg.1, i1]
      · simp [nw, wsuf, hs, par_beq_wild, renderTail, i2]
      · simp [nw, wre, hs, par_beq_wild, fmtTail, i3]
      · intro he; simp only [endsWildT, hs, par_beq_wild] at he
        simpa [wsuf, wre, hs, par_beq_wild] using i4 he
      · intro he; simp only [endsWildT, hs, par_beq_wild] at he
        simpa [wsuf, wre, hs, par_beq_wild] using i5 he

/-- All parts of the tail are host parts (a host-only pattern). -/
def allHost : List Part → Bool
  | [] => true
  | p :: ps => p.host && allHost ps

theorem tail_nw : ∀ (ps : List Part), tailOK ps = true →
    tailNW (nw ps) = true ∧ renderTail ps = renderTail (nw ps) ++ wsuf ps ∧ fmtTail ps = fmtTail (nw ps) ++ wre ps ∧
    (endsWildT false ps = true →
      (wsuf ps = ['/', '*'] ∧ wre ps = wildcardRegex) ∨
      (wsuf ps = ['.', '*'] ∧ wre ps = hostWildcardRegex ∧ allHost (nw ps) = true)) ∧
    (endsWildT false ps = false → wsuf ps = [] ∧ wre ps = []) := by
  intro ps
  induction ps with
  | nil => intro _; simp [nw, wsuf, wre, tailNW, renderTail, fmtTail, endsWildT]
  | cons p ps ih =>
    intro h
    by_cases hph : p.host = true
    · simp only [tailOK, hph, if_true] at h
      cases hs : p.seg with
      | wild =>
        rw [hs] at h
        have : ps = [] := by simpa using h
        subst this
        simp [nw, wsuf, wre, tailNW, renderTail, fmtTail, endsWildT, hs, hph, segChars, allHost]
      | lit t =>
        rw [hs] at h
        simp only [Bool.and_eq_true] at h
        obtain ⟨i1, i2, i3, i4, i5⟩ := ih h.2
        refine ⟨?_, ?_, ?_, ?_, ?_⟩
        · simp [nw, hs, lit_beq_wild, tailNW, hph, h.1, i1]
        · simp [nw, wsuf, hs, lit_beq_wild, renderTail, i2]
        · simp [nw, wre, hs, lit_beq_wild, fmtTail, i3]
        · intro he; simp only [endsWildT, hs, lit_beq_wild] at he
          simpa [wsuf, wre, nw, allHost, hs, hph, lit_beq_wild] using i4 he
        · intro he; simp only [endsWildT, hs, lit_beq_wild] at he
          simpa [wsuf, wre, hs, lit_beq_wild] using i5 he
      | par n =>
        rw [hs] at h
        simp only [Bool.and_eq_true] at h
        obtain ⟨i1, i2, i3, i4, i5⟩ := ih h.2
        refine ⟨?_, ?_, ?_, ?_, ?_⟩
        · simp [nw, hs, par_beq_wild, tailNW, hph, h.1, i1]
        · simp [nw, wsuf, hs, par_beq_wild, renderTail, i2]
        · simp [nw, wre, hs, par_beq_wild, fmtTail, i3]
        · intro he; simp only [endsWildT, hs, par_beq_wild] at he
          simpa [wsuf, wre, nw, allHost, hs, hph, par_beq_wild] using i4 he
        · intro he; simp only [endsWildT, hs, par_beq_wild] at he
          simpa [wsuf, wre, hs, par_beq_wild] using i5 he
    · have hpf : p.host = false := by simpa using hph
      simp only [tailOK, hpf] at h
      have hp : pathTailOK (p :: ps) = true := by simpa using h
      obtain ⟨j1, j2, j3, j4, j5⟩ := pathTail_nw (p :: ps) hp
      refine ⟨?_, j2, j3, fun he => Or.inl (j4 he), j5⟩
      -- pathNW (nw (p :: ps)) gives tailNW: its head, if any, is a path part
      cases hn : nw (p :: ps) with
      | nil => rfl
      | cons q qs =>
        rw [hn] at j1
        have hq : q.host = false := by
          simp only [pathNW, Bool.and_eq_true, Bool.not_eq_true'] at j1
          exact j1.1.1
        simp only [tailNW, hq]
        simpa using j1

/-! ### texts of the parts of a wildcard-free tail -/

theorem splitOn_joined (sep : Char) : ∀ (segs : List (List Char)) (H : List Char),
    (∀ c ∈ H, c ≠ sep) → (∀ w ∈ segs, ∀ c ∈ w, c ≠ sep) →
    splitOn sep (H ++ (segs.map (sep :: ·)).flatten) = H :: segs := by
  intro segs
  induction segs with
  | nil => intro H hH _; simpa using splitOn_absent sep H hH
  | cons w ws ih =>
    intro H hH hs
    have := splitOn_append sep H (w ++ (ws.map (sep :: ·)).flatten) hH
    simp only [List.map_cons, List.flatten_cons, List.cons_append] at this ⊢
    rw [this, ih w (hs w (by simp)) (fun v hv => hs v (by simp [hv]))]

def hostLabels : List Part → List (List Char)
  | [] => []
  | p :: ps => if p.host then segChars p.seg :: hostLabels ps else []

def pathSegs : List Part → List (List Char)
  | [] => []
  | p :: ps => if p.host then pathSegs ps else (p :: ps).map (fun q => segChars q.seg)

theorem getLast?_brace (n : List Char) : ('{' :: (n ++ ['}'])).getLast? = some '}' := by
  have : '{' :: (n ++ ['}']) = ('{' :: n) ++ ['}'] := by simp
  rw [this, List.getLast?_append]
  simp

def fmtSegR (R : List Char) : Seg → List Char
  | .lit t => quoteMeta t.toList
  | _ => R

/-- Characters and formatting of one literal/parameter part. -/
theorem segOK_facts {h : Bool} {s : Seg} (hs : segOK h s = true) (R : List Char) :
    (∀ c ∈ segChars s, c ≠ '/') ∧ (h = true → ∀ c ∈ segChars s, c ≠ '.') ∧ segChars s ≠ ['*'] ∧
    formatPart R (segChars s) = fmtSegR R s := by
  cases s with
  | wild => simp [segOK] at hs
  | lit t =>
    simp only [segOK, Bool.and_eq_true, Bool.not_eq_true', bne_iff_ne, ne_eq, List.all_eq_true, partChar,
      Bool.or_eq_true] at hs
    obtain ⟨⟨hp, hstar⟩, hch⟩ := hs
    refine ⟨fun c hc => (hch c hc).1, ?_, hstar, by simp [formatPart, segChars, hp, fmtSegR]⟩
    intro hh c hc
    rcases (hch c hc).2 with h1 | h1
    · simp [hh] at h1
    · exact h1
  | par n =>
    simp only [segOK, List.all_eq_true, partChar, Bool.and_eq_true, bne_iff_ne, ne_eq, Bool.or_eq_true,
      Bool.not_eq_true'] at hs
    have hparam : isParamText (segChars (.par n)) = true := by
      simp [isParamText, segChars, getLast?_brace]
    refine ⟨?_, ?_, by simp [segChars], by simp [formatPart, hparam, fmtSegR]⟩
    · intro c hc
      simp [segChars] at hc
      rcases hc with hc | hc | hc
      · subst hc; decide
      · exact (hs c hc).1
      · subst hc; decide
    · intro hh c hc
      simp [segChars] at hc
      rcases hc with hc | hc | hc
      · subst hc; decide
      · rcases (hs c hc).2 with h1 | h1
        · simp [hh] at h1
        · exact h1
      · subst hc; decide

theorem pathNW_render : ∀ (qs : List Part), pathNW qs = true →
    renderTail qs = ((qs.map fun q => segChars q.seg).map ('/' :: ·)).flatten ∧
    (∀ w ∈ (qs.map fun q => segChars q.seg), (∀ c ∈ w, c ≠ '/') ∧ w ≠ ['*']) ∧
    fmtTail qs = (((qs.map fun q => segChars q.seg).map (formatPart pathParamRegex)).map (['/'] ++ ·)).flatten := by
  intro qs
  induction qs with
  | nil => intro _; simp [renderTail, fmtTail]
  | cons q qs ih =>
    intro h
    simp only [pathNW, Bool.and_eq_true, Bool.not_eq_true'] at h
    obtain ⟨⟨hq, hs⟩, hr⟩ := h
    obtain ⟨i1, i2, i3⟩ := ih hr
    obtain ⟨f1, _, f3, f4⟩ := segOK_facts hs pathParamRegex
    refine ⟨by simp [renderTail, hq, i1], ?_, ?_⟩
    · intro w hw
      simp only [List.map_cons, List.mem_cons] at hw
      rcases hw with hw | hw
      · subst hw; exact ⟨f1, f3⟩
      · exact i2 w hw
    · cases hsg : q.seg with
      | wild => rw [hsg] at hs; simp [segOK] at hs
      | lit t => rw [hsg] at f4; simp [fmtTail, hq, hsg, fmtSeg, i3, f4, fmtSegR]
      | par n => rw [hsg] at f4; simp [fmtTail, hq, hsg, fmtSeg, i3, f4, fmtSegR]

theorem tailNW_render : ∀ (ps : List Part), tailNW ps = true →
    renderTail ps = ((hostLabels ps).map ('.' :: ·)).flatten ++ ((pathSegs ps).map ('/' :: ·)).flatten ∧
    (∀ w ∈ hostLabels ps, (∀ c ∈ w, c ≠ '/') ∧ (∀ c ∈ w, c ≠ '.') ∧ w ≠ ['*']) ∧
    (∀ w ∈ pathSegs ps, (∀ c ∈ w, c ≠ '/') ∧ w ≠ ['*']) ∧
    fmtTail ps = (((hostLabels ps).map (formatPart hostParamRegex)).map (['\\', '.'] ++ ·)).flatten ++
      (((pathSegs ps).map (formatPart pathParamRegex)).map (['/'] ++ ·)).flatten := by
  intro ps
  induction ps with
  | nil => intro _; simp [renderTail, fmtTail, hostLabels, pathSegs]
  | cons p ps ih =>
    intro h
    by_cases hph : p.host = true
    · simp only [tailNW, hph, if_true, Bool.and_eq_true] at h
      obtain ⟨i1, i2, i3, i4⟩ := ih h.2
      obtain ⟨f1, f2, f3, f4⟩ := segOK_facts h.1 hostParamRegex
      refine ⟨by simp [renderTail, hostLabels, pathSegs, hph, i1], ?_, by simpa [pathSegs, hph] using i3, ?_⟩
      · intro w hw
        simp only [hostLabels, hph, if_true, List.mem_cons] at hw
        rcases hw with hw | hw
        · subst hw; exact ⟨f1, f2 rfl, f3⟩
        · exact i2 w hw
      · cases hsg : p.seg with
        | wild => rw [hsg] at h; simp [segOK] at h
        | lit t => rw [hsg] at f4; simp [fmtTail, hostLabels, pathSegs, hph, hsg, fmtSeg, i4, f4, fmtSegR]
        | par n => rw [hsg] at f4; simp [fmtTail, hostLabels, pathSegs, hph, hsg, fmtSeg, i4, f4, fmtSegR]
    · have hpf : p.host = false := by simpa using hph
      simp only [tailNW, hpf] at h
      have hp : pathNW (p :: ps) = true := by simpa using h
      obtain ⟨j1, j2, j3⟩ := pathNW_render (p :: ps) hp
      refine ⟨by simpa [hostLabels, pathSegs, hpf] using j1, by simp [hostLabels, hpf],
        by simpa [pathSegs, hpf] using j2, by simpa [hostLabels, pathSegs, hpf] using j3⟩

/-! ### no accidental wildcard suffix -/

theorem strip_joined (sep : Char) (hsep : sep ≠ '*') : ∀ (segs : List (List Char)) (pre X : List Char),
    (∀ w ∈ segs, (∀ c ∈ w, c ≠ sep) ∧ w ≠ ['*']) → (∀ c ∈ X, c ≠ sep) → X ≠ ['*'] →
    ((∀ c ∈ pre, c ≠ sep) ∧ pre = [] ∨ ∃ pre', pre = pre' ++ [sep]) →
    stripSuffix2 sep '*' (pre ++ X ++ (segs.map (sep :: ·)).flatten) = none := by
  intro segs
  induction segs with
  | nil =>
    intro pre X _ hX hXs hpre
    rcases hpre with ⟨_, hp⟩ | ⟨pre', hp⟩
    · subst hp
      simpa using strip_absent sep '*' X hX
    · subst hp
      have := strip_last sep '*' pre' X hsep hX hXs
      simpa [List.append_assoc] using this
  | cons w ws ih =>
    intro pre X hs hX hXs _
    have := ih (pre ++ X ++ [sep]) w (fun v hv => hs v (by simp [hv])) (hs w (by simp)).1 (hs w (by simp)).2
      (Or.inr ⟨pre ++ X, rfl⟩)
    simpa [List.append_assoc] using this

theorem allHost_pathSegs : ∀ (ps : List Part), allHost ps = true → pathSegs ps = [] := by
  intro ps
  induction ps with
  | nil => intro _; rfl
  | cons p ps ih =>
    intro h
    simp only [allHost, Bool.and_eq_true] at h
    simp [pathSegs, h.1, ih h.2]

/-! ### the whole transformation -/

theorem formatURL_safe (p : Part) (ps : List Part) (hs : safe (p :: ps) = true) :
    formatURL (render (p :: ps)) = (fmtSeg true p.seg ++ fmtTail ps, endsWild (p :: ps)) := by
  simp only [safe, Bool.and_eq_true] at hs
  obtain ⟨⟨hph, hseg⟩, hok⟩ := hs
  obtain ⟨x1, x2, x3, x4⟩ := segOK_facts hseg hostParamRegex
  have x2 := x2 rfl
  obtain ⟨n1, n2, n3, n4, n5⟩ := tail_nw ps hok
  obtain ⟨r1, r2, r3, r4⟩ := tailNW_render (nw ps) n1
  have hnotwild : (p.seg == Seg.wild) = false := segOK_not_wild hseg
  have hew : endsWild (p :: ps) = endsWildT false ps := by rw [endsWild_cons, hnotwild]
  -- names
  generalize hX : segChars p.seg = X at x1 x2 x3 x4
  generalize hL : hostLabels (nw ps) = labels at r1 r2 r4
  generalize hS : pathSegs (nw ps) = segs at r1 r3 r4
  have hHLslash : ∀ c ∈ X ++ (labels.map ('.' :: ·)).flatten, c ≠ '/' := by
    intro c hc
    simp only [List.mem_append, List.mem_flatten, List.mem_map] at hc
    rcases hc with hc | ⟨l, ⟨w, hw, hl⟩, hc⟩
    · exact x1 c hc
    · subst hl
      simp only [List.mem_cons] at hc
      rcases hc with hc | hc
      · subst hc; decide
      · exact (r2 w hw).1 c hc
  have hHLstar : X ++ (labels.map ('.' :: ·)).flatten ≠ ['*'] := by
    cases labels with
    | nil => simpa using x3
    | cons w ws =>
      intro h
      have := congrArg (fun l => decide ('.' ∈ l)) h
      simp at this
  have hrender : render (p :: ps)
      = (X ++ (labels.map ('.' :: ·)).flatten ++ (segs.map ('/' :: ·)).flatten) ++ wsuf ps := by
    simp [render, hX, n2, r1, List.append_assoc]
  -- the wildcard
  have hW : splitWildcard (render (p :: ps))
      = (X ++ (labels.map ('.' :: ·)).flatten ++ (segs.map ('/' :: ·)).flatten, wre ps) := by
    rw [hrender]
    unfold splitWildcard
    by_cases he : endsWildT false ps = true
    · rcases n4 he with ⟨w1, w2⟩ | ⟨w1, w2, w3⟩
      · rw [w1, w2, strip_some]
      · have hsegs : segs = [] := by rw [← hS]; exact allHost_pathSegs _ w3
        subst hsegs
        rw [w1, w2]
        simp only [List.map_nil, List.flatten_nil, List.append_nil]
        have hno : ∀ c ∈ X ++ (labels.map ('.' :: ·)).flatten ++ ['.', '*'], c ≠ '/' := by
          intro c hc
          simp only [List.mem_append, List.mem_cons, List.not_mem_nil, or_false] at hc
          rcases hc with hc | hc | hc
          · exact hHLslash c (by simpa using hc)
          · subst hc; decide
          · subst hc; decide
        have hc' : (X ++ (labels.map ('.' :: ·)).flatten ++ ['.', '*']).contains '/' = false := by
          rw [Bool.eq_false_iff]
          intro hcon
          have := List.contains_iff_mem.mp hcon
          exact hno '/' this rfl
        rw [strip_absent '/' '*' _ hno, hc']
        simp only [Bool.not_false, if_true]
        rw [strip_some]
    · have he' : endsWildT false ps = false := by simpa using he
      obtain ⟨w1, w2⟩ := n5 he'
      rw [w1, w2]
      simp only [List.append_nil]
      have h1 := strip_joined '/' (by decide) segs [] (X ++ (labels.map ('.' :: ·)).flatten) r3 hHLslash hHLstar
        (Or.inl ⟨by simp, rfl⟩)
      simp only [List.nil_append] at h1
      rw [h1]
      by_cases hc : (X ++ (labels.map ('.' :: ·)).flatten ++ (segs.map ('/' :: ·)).flatten).contains '/' = true
      · rw [hc]; rfl
      · have hc' : (X ++ (labels.map ('.' :: ·)).flatten ++ (segs.map ('/' :: ·)).flatten).contains '/' = false := by
          simpa using hc
        have hsegs : segs = [] := by
          cases segs with
          | nil => rfl
          | cons w ws =>
            exfalso
            apply hc
            apply List.contains_iff_mem.mpr
            simp
        subst hsegs
        have h2 := strip_joined '.' (by decide) labels [] X (fun w hw => ⟨(r2 w hw).2.1, (r2 w hw).2.2⟩) x2 x3
          (Or.inl ⟨by simp, rfl⟩)
        simp only [List.nil_append] at h2
        simp only [List.map_nil, List.flatten_nil, List.append_nil] at hc' ⊢
        rw [hc', h2]
        rfl
  -- the body
  have hsplit : splitOn '/' (X ++ (labels.map ('.' :: ·)).flatten ++ (segs.map ('/' :: ·)).flatten)
      = (X ++ (labels.map ('.' :: ·)).flatten) :: segs :=
    splitOn_joined '/' segs _ hHLslash (fun w hw => (r3 w hw).1)
  have hhost : splitOn '.' (X ++ (labels.map ('.' :: ·)).flatten) = X :: labels :=
    splitOn_joined '.' labels X x2 (fun w hw => (r2 w hw).2.1)
  have hfirst : formatPart hostParamRegex X = fmtSeg true p.seg := by
    rw [x4]
    cases hsg : p.seg with
    | wild => rw [hsg] at hseg; simp [segOK] at hseg
    | lit t => simp [fmtSegR, fmtSeg]
    | par n => simp [fmtSegR, fmtSeg]
  unfold formatURL
  rw [hW]
  simp only [hsplit, formatHost, hhost, List.map_cons, hfirst, joinWith_cons]
  rw [n3, r4, hew]
  have hwre : (!(wre ps).isEmpty) = endsWildT false ps := by
    by_cases he : endsWildT false ps = true
    · rcases n4 he with ⟨_, w2⟩ | ⟨_, w2, _⟩ <;> simp [w2, he, wildcardRegex, hostWildcardRegex]
    · have he' : endsWildT false ps = false := by simpa using he
      simp [(n5 he').2, he']
  simp [hwre, List.append_assoc]

end LunarVerif.C14
