package main

import (
	"fmt"
	"os"
	"sort"
	"strings"

	"verif/harnessagg/internal/prng"
	"verif/harnessagg/internal/proto"
)

var (
	methods      = []string{"GET", "GET", "GET", "POST", "PUT"}
	statuses     = []int{200, 200, 200, 201, 404, 500, 0}
	interceptors = []string{"lunar-py-interceptor/1.2.3", "lunar-ts-interceptor/0.9.0", "lunar-py-interceptor/1.2.4", "", "garbage", "a/b/c", "/", "x/"}
	consumers    = []string{"", "", "alpha", "beta", "N/A", "team one"}
	hosts        = []string{"a.com", "api.b.io"}
)

type stream struct {
	tz    int // local zone of the process, seconds east of UTC
	thr   int
	known []string
	recs  []string // rec op lines
	n     int
}

func recLine(ts int64, dur, tot, st int, m, u, i, c string, internal bool) string {
	in := 0
	if internal {
		in = 1
	}
	return fmt.Sprintf("rec ts=%d dur=%d tot=%d st=%d m=%s u=%s i=%s c=%s int=%d", ts, dur, tot, st,
		proto.Enc(m), proto.Enc(u), proto.Enc(i), proto.Enc(c), in)
}

// urlPool builds the URLs a stream draws from: families host/p/<id>[/q/<id>] whose fan-out crosses the
// threshold at one or two levels, declared {param} endpoints with literal siblings, a few fixed URLs.
func urlPool(r *prng.R, thr int, known *[]string, maxFam int, extras bool) []string {
	var pool []string
	host := prng.Pick(r, hosts)
	ids := func(n int) []string {
		out := make([]string, n)
		for i := range out {
			out[i] = fmt.Sprint(100 + r.Intn(900))
		}
		return out
	}
	nfam := r.Range(1, maxFam)
	for f := 0; f < nfam; f++ {
		base := fmt.Sprintf("%s/%s", host, prng.Pick(r, []string{"p", "users", "v1/items", "orders"}))
		switch r.Intn(5) {
		case 0: // below / exactly at / just over the threshold on one level
			for _, id := range ids(thr - 1 + r.Intn(3)) {
				pool = append(pool, base+"/"+id)
			}
		case 1: // two levels
			sub := prng.Pick(r, []string{"q", "posts"})
			for _, id := range ids(thr + r.Intn(2)) {
				for _, id2 := range ids(r.Range(1, thr+1)) {
					pool = append(pool, base+"/"+id+"/"+sub+"/"+id2)
				}
			}
		case 2: // ids followed by differing literal tails (they converge a second time)
			tails := []string{"a", "b", "c", "d", "e"}
			for _, id := range ids(thr + 1) {
				pool = append(pool, base+"/"+id+"/"+prng.Pick(r, tails))
			}
		case 3: // declared endpoints with a parameter and literal siblings
			*known = append(*known, base+"/{id}")
			if r.Bool() {
				*known = append(*known, base+"/me")
				pool = append(pool, base+"/me")
			}
			if r.Bool() {
				*known = append(*known, base+"/{id}/settings")
			}
			for _, id := range ids(thr + 1) {
				pool = append(pool, base+"/"+id)
				if r.Chance(30) {
					pool = append(pool, base+"/"+id+"/settings")
				}
			}
		default: // declared literals that alone reach the threshold, then ids
			for k := 0; k < thr; k++ {
				*known = append(*known, fmt.Sprintf("%s/lit%d", base, k))
			}
			if r.Bool() {
				*known = append(*known, base+"/{key}")
			}
			pool = append(pool, base+"/lit0")
			for _, id := range ids(2) {
				pool = append(pool, base+"/"+id)
			}
		}
	}
	if extras || len(pool) == 0 {
		pool = append(pool, host+"/health", host, host+"/static/app.js")
	}
	return pool
}

// properPrefixes returns host/p1, host/p1/p2, ... (without u itself).
func properPrefixes(u string) []string {
	parts := strings.Split(u, "/")
	var out []string
	for d := 2; d < len(parts); d++ {
		out = append(out, strings.Join(parts[:d], "/"))
	}
	return out
}

func closeKnown(known []string) []string {
	var out []string
	seen := map[string]bool{}
	for _, k := range known {
		for _, p := range append(properPrefixes(k), k) {
			if !seen[p] {
				seen[p] = true
				out = append(out, p)
			}
		}
	}
	return out
}

// genStream kinds:
//   multi  : several URL families + fixed URLs under one host; the stream is PREFIX-CLOSED (every URL is preceded by
//            its path prefixes, declared endpoints likewise) so that every constant tree node carries a value from
//            its creation — the real tree copies `nodes[0].Value` of a map-ordered slice when it merges nodes, and
//            mixed values would make the implementation's outcome depend on Go map iteration order (see notes)
//   single : one family, not prefix-closed, no fan-out above the family
//   stale  : fixed shape that deterministically leaves a stale key (finding F15c), random ids
//   template: declared endpoints base/v1/{id} … base/v<thr>/{id} (exactly at the split threshold), traffic below them, and
//            one traffic URL that still carries a template segment (base/v<thr+1>/{id}): its insert converges the tree
//            AND fails on the clashing parameter name — NormalizeTree must report (converged = true) with the error
//   down   : provider down — durations -1 (negative totals), one or two endpoints, so that the means are combined many times
//   bad    : single + one URL the tree refuses (regression for the repaired F15a: the batch is no longer dropped)
//   delim  : URLs containing the METHOD:::URL delimiter (regression for the repaired F15b)
//   weird  : no convergence; trimming, host/path confusion, trailing wildcard
func genStream(r *prng.R, maxLen int, kind string) stream {
	s := stream{thr: r.Range(2, 4)}
	if r.Chance(10) {
		s.thr = 1
	}
	if r.Chance(40) { // the host's local zone must not leak into the persisted (UTC) timestamps
		s.tz = prng.Pick(r, []int{3 * 3600, -(7*3600 + 1800), 5*3600 + 1800, -11 * 3600, 14 * 3600})
	}
	var pool []string
	closed := false
	down := kind == "down" // provider down: (almost) every duration is -1, few endpoints, many combines
	switch kind {
	case "down":
		s.thr = 50
		h := prng.Pick(r, hosts)
		pool = []string{h + "/orders", h + "/orders", h + "/health"}
	case "weird":
		s.thr = 50
		pool = []string{"a.com/x", "a/com/x", "a.com/x/*", "a.com/x/y", "a.com/x./", "/a.com/x/", "a.com/x/.", "a.com", "a.com/v1.2/z", "a.com/x/y/z"}
	case "multi":
		pool = urlPool(r, s.thr, &s.known, 3, true)
		s.known = closeKnown(s.known)
		closed = true
	case "template":
		s.thr = r.Range(2, 3)
		h := prng.Pick(r, []string{"api.com", "a.com", "api.b.io"})
		pname := prng.Pick(r, []string{"id", "key", "userId"})
		for k := 1; k <= s.thr; k++ {
			s.known = append(s.known, fmt.Sprintf("%s/v%d/{%s}", h, k, pname))
		}
		n := r.Range(4, min(maxLen, 14))
		tpl := r.Range(1, n-1) // position of the template-bearing record (never first: something must be re-keyed)
		ts := int64(1_700_000_000_000)
		for i := 0; i < n; i++ {
			ts += int64(r.Intn(2500))
			u := fmt.Sprintf("%s/v%d/%d", h, r.Range(1, s.thr), r.Range(1, 9))
			if i == tpl {
				u = fmt.Sprintf("%s/v%d/{%s}", h, s.thr+1, prng.Pick(r, []string{pname, "other"}))
			} else if i > tpl && r.Chance(30) {
				u = fmt.Sprintf("%s/v%d/%d", h, s.thr+1, r.Range(1, 9))
			}
			s.recs = append(s.recs, recLine(ts, r.Intn(5000), 5000+r.Intn(100), prng.Pick(r, statuses), prng.Pick(r, methods), u,
				prng.Pick(r, interceptors), prng.Pick(r, consumers), false))
		}
		s.n = len(s.recs)
		return s
	case "stale":
		s.thr = 2
		h := prng.Pick(r, hosts)
		id := func() string { return fmt.Sprint(100 + r.Intn(900)) }
		a, b := id(), id()
		for b == a {
			b = id()
		}
		pool = nil
		fixed := []string{h + "/p/" + id(), h + "/p/" + id() + "0", h + "/p/" + id() + "00", h + "/u/" + a + "/x", h + "/u/" + b + "/x", h + "/s/" + id() + "/y"}
		ts := int64(1_700_000_000_000)
		for _, u := range fixed {
			ts += int64(r.Intn(2500))
			s.recs = append(s.recs, recLine(ts, r.Intn(5000), 5000+r.Intn(100), prng.Pick(r, statuses), "GET", u,
				prng.Pick(r, interceptors), prng.Pick(r, consumers), false))
		}
		s.n = len(s.recs)
		return s
	default:
		pool = urlPool(r, s.thr, &s.known, 1, false)
	}
	if kind == "bad" { // URLs the tree refuses
		pool = append(pool, prng.Pick(r, []string{"a.com//x", "a.com/p/*/q", "a.com/p/{x}", "a.com/p//", "a..com/p"}))
	}
	n := r.Range(1, maxLen)
	ts := int64(1_700_000_000_000) + int64(r.Intn(1000))
	seen := map[string]bool{}
	emit := func(u string, internal bool) {
		switch r.Intn(4) {
		case 0:
			ts += int64(r.Intn(3000))
		case 1:
			ts -= int64(r.Intn(1500))
		case 2:
			ts += int64(r.Intn(5))
		}
		dur := r.Intn(5000)
		if r.Chance(10) {
			dur = r.Intn(3_000_000)
		}
		tot := dur + r.Intn(200)
		switch { // HAProxy logs -1 (%Tr) when the provider never answered; totals of both signs and zero must occur
		case down || r.Chance(12):
			dur, tot = -1, prng.Pick(r, []int{-1, -1, 0, 3})
		case r.Chance(5):
			dur, tot = r.Range(-5, 5), r.Range(-5, 5)
		}
		if down && r.Chance(15) {
			dur, tot = r.Range(0, 2), r.Range(0, 4)
		}
		s.recs = append(s.recs, recLine(ts, dur, tot, prng.Pick(r, statuses), prng.Pick(r, methods), u,
			prng.Pick(r, interceptors), prng.Pick(r, consumers), internal))
	}
	for len(s.recs) < n {
		u := prng.Pick(r, pool)
		internal := r.Chance(8)
		if closed && !internal {
			for _, p := range properPrefixes(u) {
				if !seen[p] {
					seen[p] = true
					emit(p, false)
				}
			}
			seen[u] = true
		}
		emit(u, internal)
	}
	if kind == "delim" { // URLs containing the key delimiter (used to collide after a restart)
		s.thr = 50
		for _, u := range []string{"a.com/d:::1", "a.com/d:::2"} {
			s.recs = append(s.recs, recLine(ts, 7, 9, 200, "GET", u, "lunar-py-interceptor/1.2.3", "alpha", false))
		}
	}
	s.n = len(s.recs)
	return s
}

func join(xs []int) string {
	if len(xs) == 0 {
		return "-"
	}
	ss := make([]string, len(xs))
	for i, x := range xs {
		ss[i] = fmt.Sprint(x)
	}
	return strings.Join(ss, ",")
}

func randomCuts(r *prng.R, n int) []int {
	var cuts []int
	k := r.Range(0, min(n, 8))
	for i := 0; i < k; i++ {
		cuts = append(cuts, r.Range(0, n))
	}
	sort.Ints(cuts)
	return cuts
}

// faultRun: a restart-free splitting whose last batch is non-empty (so the final flush succeeds and the file is
// complete) and in which the flushes of some earlier batches fail.
func faultRun(r *prng.R, n int) (string, bool) {
	if n < 2 {
		return "", false
	}
	var cuts []int
	k := r.Range(1, min(n-1, 6))
	for i := 0; i < k; i++ {
		cuts = append(cuts, r.Range(0, n-1))
	}
	sort.Ints(cuts)
	var fd []int
	seen := map[int]bool{}
	for _, c := range cuts {
		if !seen[c] && r.Chance(50) {
			fd = append(fd, c)
			seen[c] = true
		}
	}
	if len(fd) == 0 {
		fd = []int{cuts[r.Intn(len(cuts))]}
	}
	return fmt.Sprintf("run cuts=%s restarts=- faildumps=%s", join(cuts), join(fd)), true
}

// refreshRun: a splitting with refresh ticks of the plugin's background goroutine at some batch boundaries — policies
// file untouched (`ticks=`: nothing may change) or, with `reload`, rewritten at one boundary (`reloads=`: fresh tree,
// only totals are promised).
func refreshRun(r *prng.R, n int, reload bool) (string, bool) {
	if n < 2 {
		return "", false
	}
	var cuts []int
	k := r.Range(1, min(n-1, 4))
	for i := 0; i < k; i++ {
		cuts = append(cuts, r.Range(1, n-1))
	}
	sort.Ints(cuts)
	cuts = uniq(cuts)
	ticks := []int{cuts[len(cuts)-1]} // a tick late in the stream: after path parameters were inferred
	if len(cuts) > 1 && r.Bool() {
		ticks = append([]int{cuts[r.Intn(len(cuts)-1)]}, ticks...)
		ticks = uniq(ticks)
	}
	if reload {
		return fmt.Sprintf("run cuts=%s restarts=- reloads=%d", join(cuts), prng.Pick(r, cuts)), true
	}
	return fmt.Sprintf("run cuts=%s restarts=- ticks=%s", join(cuts), join(ticks)), true
}

func uniq(xs []int) []int {
	var out []int
	for i, x := range xs {
		if i == 0 || x != xs[i-1] {
			out = append(out, x)
		}
	}
	return out
}

func (s stream) header() []string {
	cfg := fmt.Sprintf("cfg thr=%d", s.thr)
	if s.tz != 0 {
		cfg += fmt.Sprintf(" tz=%d", s.tz)
	}
	ops := []string{cfg}
	for _, k := range s.known {
		ops = append(ops, "known u="+proto.Enc(k))
	}
	return append(ops, s.recs...)
}

// droppedNondet counts generated cases that were NOT emitted because the implementation itself answered them
// differently in repeated executions (finding F15c: the outcome can depend on Go map iteration order — the order in
// which ConvergeAggregation re-keys, `nodes[0]` in convergeNodesPaths).  Such a case cannot be compared line by line
// with a deterministic model; it is reported in stats.json instead of making the check flaky.
var droppedNondet int

// stable executes the case `reps` more times on the real code and tells whether every execution gave the same answers.
func stable(c proto.Case, reps int) bool {
	dir, err := os.MkdirTemp("", "c15-probe-")
	if err != nil {
		panic(err)
	}
	defer os.RemoveAll(dir)
	probe := proto.NewOut(dir)
	var first []string
	for k := 0; k < reps; k++ {
		outs := exec(c, probe)
		for _, a := range outs {
			if a == "nondet" {
				return false
			}
		}
		if k == 0 {
			first = outs
		} else if strings.Join(first, "\n") != strings.Join(outs, "\n") {
			return false
		}
	}
	return true
}

func gen(r *prng.R, f proto.Flags, emitAll func(proto.Case)) {
	reps := 2
	if f.Tier == "thorough" {
		reps = 1
	}
	emit := func(c proto.Case) {
		if stable(c, reps) {
			emitAll(c)
		} else {
			droppedNondet++
		}
	}
	id := 0
	if f.Tier == "thorough" {
		// every one of the 2^(n-1) splittings of streams of 8 records, plus restart runs
		n := 500 * f.Budget
		for k := 0; k < n; k++ {
			rr := r.Fork()
			kind := "multi"
			switch {
			case k%25 == 24:
				kind = "weird"
			case k%25 == 21 || k%25 == 20:
				kind = "down"
			case k%25 == 22:
				kind = "template"
			case k%25 == 23:
				kind = "stale"
			case k%2 == 1:
				kind = "single"
			}
			s := genStream(rr, 8, kind)
			s.recs = s.recs[:min(len(s.recs), 8)]
			for len(s.recs) < 8 {
				s.recs = append(s.recs, s.recs[rr.Intn(len(s.recs))])
			}
			s.n = len(s.recs)
			ops := s.header()
			for m := 0; m < 1<<(s.n-1); m++ {
				var cuts []int
				for b := 0; b < s.n-1; b++ {
					if m>>b&1 == 1 {
						cuts = append(cuts, b+1)
					}
				}
				ops = append(ops, fmt.Sprintf("run cuts=%s restarts=-", join(cuts)))
			}
			for j := 0; j < 4; j++ {
				cuts := randomCuts(rr, s.n)
				if len(cuts) == 0 {
					cuts = []int{rr.Range(0, s.n)}
				}
				ops = append(ops, fmt.Sprintf("run cuts=%s restarts=%d", join(cuts), prng.Pick(rr, cuts)))
			}
			for j := 0; j < 6; j++ {
				if op, ok := faultRun(rr, s.n); ok {
					ops = append(ops, op)
				}
			}
			if k%3 == 0 {
				if op, ok := refreshRun(rr, s.n, false); ok {
					ops = append(ops, op)
				}
			}
			id++
			emit(proto.Case{ID: fmt.Sprintf("t%d", id), Ops: ops})
		}
	}
	n := 300 * f.Budget
	for k := 0; k < n; k++ {
		rr := r.Fork()
		kind := "multi"
		switch {
		case k%20 < 7:
			kind = "single"
		case k%20 == 14 || k%20 == 13:
			kind = "down"
		case k%20 == 15:
			kind = "template"
		case k%20 == 16:
			kind = "stale"
		case k%20 == 17:
			kind = "bad"
		case k%20 == 18:
			kind = "delim"
		case k%20 == 19:
			kind = "weird"
		}
		maxLen := 60
		if rr.Chance(30) {
			maxLen = 12
		}
		s := genStream(rr, maxLen, kind)
		ops := s.header()
		ops = append(ops, "run cuts=- restarts=-")
		all := make([]int, 0, s.n)
		for i := 1; i < s.n; i++ {
			all = append(all, i)
		}
		ops = append(ops, fmt.Sprintf("run cuts=%s restarts=-", join(all)))
		for j := 0; j < 3; j++ {
			ops = append(ops, fmt.Sprintf("run cuts=%s restarts=-", join(randomCuts(rr, s.n))))
		}
		for j := 0; j < 2; j++ {
			cuts := randomCuts(rr, s.n)
			if len(cuts) == 0 {
				cuts = []int{rr.Range(0, s.n)}
			}
			rs := []int{prng.Pick(rr, cuts)}
			if rr.Chance(40) {
				rs = append(rs, prng.Pick(rr, cuts))
				sort.Ints(rs)
				if rs[0] == rs[1] {
					rs = rs[:1]
				}
			}
			ops = append(ops, fmt.Sprintf("run cuts=%s restarts=%s", join(cuts), join(rs)))
		}
		for j := 0; j < 2; j++ {
			if op, ok := faultRun(rr, s.n); ok {
				ops = append(ops, op)
			}
		}
		if k%2 == 0 {
			if op, ok := refreshRun(rr, s.n, false); ok {
				ops = append(ops, op)
			}
		}
		if k%10 == 5 {
			if op, ok := refreshRun(rr, s.n, true); ok {
				ops = append(ops, op)
			}
		}
		if k%4 == 1 { // in-memory observation with exact (millisecond) timestamps
			ops = append(ops, fmt.Sprintf("runmem cuts=%s", join(randomCuts(rr, s.n))))
		}
		id++
		emit(proto.Case{ID: fmt.Sprintf("g%d", id), Ops: ops})
		if k%12 == 7 {
			// nanosecond-resolution timestamps (> 2^53): only the in-memory path can show them (the persisted layout
			// cannot), every splitting must keep the exact extremes
			ns := genStream(rr, 14, "single")
			var nops []string
			for j, l := range ns.recs {
				w := strings.Fields(l)
				w[1] = fmt.Sprintf("ts=%d", int64(1_700_000_000_000_000_000)+int64(rr.Intn(2_000_000))*int64(1+j%3))
				nops = append(nops, strings.Join(w, " "))
			}
			ns.recs = nops
			nsOps := ns.header()
			nsOps = append(nsOps, "runmem cuts=-")
			all := make([]int, 0, ns.n)
			for i := 1; i < ns.n; i++ {
				all = append(all, i)
			}
			nsOps = append(nsOps, fmt.Sprintf("runmem cuts=%s", join(all)))
			nsOps = append(nsOps, fmt.Sprintf("runmem cuts=%s", join(randomCuts(rr, ns.n))))
			id++
			emit(proto.Case{ID: fmt.Sprintf("n%d", id), Ops: nsOps})
		}
	}
}
