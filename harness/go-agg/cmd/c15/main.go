// Harness for C15: drives the real discovery pipeline of the aggregation-output-plugin
// (discovery.Run = filterOutInternalRecords + GetUpdatedAggregations + State.UpdateAggregation, with trees
// built by common.BuildTree) over one record stream cut into batches in many ways, with optional restarts
// (new State read back from the state file + fresh tree), and reports the content of the state file.
//
// ops:  cfg thr=<n> [tz=<seconds east of UTC: time.Local of the process>] | known u=<enc> | rec ts= dur= tot= st= m= u= i= c= int= | run cuts=<..|-> restarts=<..|-> [faildumps=<..|->]
//       [ticks=<cuts>: refresh ticks of periodicallyUpdateTree with the policies file untouched] [reloads=<cuts>: policies file rewritten]
//       (faildumps: the flush of the batch ending at that cut cannot write the state file — transient fault)
// answer of `run`: full=<0|1> fail=<k> avg=<ok|off:..> ep <key> <count> <minS> <maxS> <st> ... ce <tag> <key> ... it <type> <ver> <tsS>
//
// Float means (TEST, not proof): every `run` is executed a second time with the status code of record j
// replaced by the unique tag 1000000+j; the status maps of that shadow run reveal exactly which records the
// implementation attributed to which entry, so the harness can compare AverageDuration / AverageTotalDuration
// with the exact mean of the attributed records (relative tolerance 1e-4, absolute 1e-4 near zero).
package main

import (
	"encoding/json"
	"fmt"
	"math"
	"os"
	"path/filepath"
	"sort"
	"strconv"
	"strings"
	"time"

	"lunar/aggregation-plugin/common"
	"lunar/aggregation-plugin/discovery"
	sharedDiscovery "lunar/shared-model/discovery"

	"github.com/rs/zerolog"

	"verif/harnessagg/internal/proto"
)

const rule = "record streams (path-parameter families crossing the split threshold, declared {param} endpoints, consumer tags, " +
	"interceptor headers, statuses, durations) x batch splittings x restarts; non-trivial = some run merged URLs under an " +
	"inferred path parameter and at least two different splittings were compared; distinct by (cfg, stream)"

const shadowBase = 1000000
const layout = "2006-01-02T15:04:05Z"

var worstRelPPB int64

func kvI(w []string, k string) int64 {
	s, ok := proto.KV(w, k)
	if !ok {
		panic("missing " + k)
	}
	n, err := strconv.ParseInt(s, 10, 64)
	if err != nil {
		panic(err)
	}
	return n
}

func kvS(w []string, k string) string {
	s, ok := proto.KV(w, k)
	if !ok {
		panic("missing " + k)
	}
	return proto.Dec(s)
}

func parseList(s string) []int {
	if s == "-" {
		return nil
	}
	var out []int
	for _, p := range strings.Split(s, ",") {
		n, err := strconv.Atoi(p)
		if err != nil {
			panic(err)
		}
		out = append(out, n)
	}
	return out
}

type seg struct {
	failDump bool // the state file cannot be written during this Run
	tick     bool // refresh ticks pass, policies file untouched
	reload   bool // policies file rewritten (newer mtime), wait for the refresh
	restart bool
	recs    []common.AccessLog
}

func takeOne(xs *[]int, c int) bool {
	for i, x := range *xs {
		if x == c {
			*xs = append((*xs)[:i], (*xs)[i+1:]...)
			return true
		}
	}
	return false
}

func segsOf(recs []common.AccessLog, cuts, restarts, faildumps, ticks, reloads []int) []seg {
	var out []seg
	rs := append([]int(nil), restarts...)
	fd := append([]int(nil), faildumps...)
	tk := append([]int(nil), ticks...)
	rl := append([]int(nil), reloads...)
	prev := 0
	clamp := func(x int) int {
		if x > len(recs) {
			return len(recs)
		}
		return x
	}
	for _, c := range cuts {
		lo := clamp(prev)
		hi := max(lo, clamp(c))
		fail := false
		for i, f := range fd {
			if f == c {
				fail = true
				fd = append(fd[:i], fd[i+1:]...)
				break
			}
		}
		out = append(out, seg{recs: recs[lo:hi], failDump: fail})
		for i, r := range rs {
			if r == c {
				out = append(out, seg{restart: true})
				rs = append(rs[:i], rs[i+1:]...)
				break
			}
		}
		if takeOne(&rl, c) {
			out = append(out, seg{reload: true})
		}
		if takeOne(&tk, c) {
			out = append(out, seg{tick: true})
		}
		prev = c
	}
	out = append(out, seg{recs: recs[clamp(prev):]})
	return out
}

type runner struct {
	thr   int
	known []string
	dir   string
	n     int
}

func (r *runner) tree() (*common.SimpleURLTree, error) {
	ke := sharedDiscovery.KnownEndpoints{}
	for _, u := range r.known {
		ke.Endpoints = append(ke.Endpoints, sharedDiscovery.Endpoint{Method: "GET", URL: u})
	}
	return common.BuildTree(ke, r.thr)
}

// once runs the stream through discovery.Run segment by segment and returns the final state file.
func (r *runner) once(segs []seg) (out sharedDiscovery.Output, fails int, buildErr bool) {
	r.n++
	path := filepath.Join(r.dir, fmt.Sprintf("state-%d.json", r.n))
	tree, err := r.tree()
	if err != nil {
		return out, 0, true
	}
	st := &discovery.State{DiscoverFilepath: path}
	if err := st.InitializeState(); err != nil {
		panic(err)
	}
	var rf *refresher
	for _, s := range segs {
		if s.tick || s.reload {
			rf = startRefresher(r.dir, r.n, r.known, r.thr)
			defer rf.stop()
			break
		}
	}
	for _, s := range segs {
		if s.tick || s.reload {
			// the plugin's own refresh loop decides whether the tree is swapped (for a tree built from the known endpoints)
			swapped := false
			if s.tick {
				swapped = rf.tick()
			} else {
				swapped = rf.reload()
			}
			if swapped {
				tree, err = r.tree()
				if err != nil {
					return out, 0, true
				}
			}
			continue
		}
		if s.restart {
			tree, err = r.tree()
			if err != nil {
				return out, 0, true
			}
			st = &discovery.State{DiscoverFilepath: path}
			if err := st.InitializeState(); err != nil {
				panic(err)
			}
			continue
		}
		if s.failDump {
			// transient write fault for exactly this flush: a directory sits at the state path, so os.WriteFile
			// fails; afterwards the old file is back (its content is what a failed write leaves behind)
			bak := path + ".bak"
			must(os.Rename(path, bak))
			must(os.Mkdir(path, 0o755))
			err := discovery.Run(st, s.recs, tree)
			must(os.Remove(path))
			must(os.Rename(bak, path))
			if len(s.recs) > 0 && err == nil {
				fails++ // the fault was not reported
			}
			continue
		}
		if err := discovery.Run(st, s.recs, tree); err != nil {
			fails++
		}
	}
	b, err := os.ReadFile(path)
	if err != nil {
		panic(err)
	}
	if err := json.Unmarshal(b, &out); err != nil {
		panic(err)
	}
	os.Remove(path)
	return out, fails, false
}

func must(err error) {
	if err != nil {
		panic(err)
	}
}

func secs(s string) int64 {
	t, err := time.Parse(layout, s)
	if err != nil || t.Format(layout) != s {
		return -1
	}
	return t.Unix()
}

type ent struct {
	count, min, max int64
	st              map[int]int64
}

func fromOut(e sharedDiscovery.EndpointOutput) ent {
	x := ent{count: int64(e.Count), min: secs(e.MinTime), max: secs(e.MaxTime), st: map[int]int64{}}
	for c, n := range e.StatusCodes {
		x.st[c] = int64(n)
	}
	return x
}

func (a ent) merge(b ent) ent {
	x := ent{count: a.count + b.count, min: min(a.min, b.min), max: max(a.max, b.max), st: map[int]int64{}}
	for c, n := range a.st {
		x.st[c] += n
	}
	for c, n := range b.st {
		x.st[c] += n
	}
	return x
}

func (a ent) String() string {
	codes := make([]int, 0, len(a.st))
	for c := range a.st {
		codes = append(codes, c)
	}
	sort.Ints(codes)
	var sb []string
	for _, c := range codes {
		sb = append(sb, fmt.Sprintf("%d:%d", c, a.st[c]))
	}
	s := "-"
	if len(sb) > 0 {
		s = strings.Join(sb, ",")
	}
	return fmt.Sprintf("%d %d %d %s", a.count, a.min, a.max, s)
}

func formatMem(agg discovery.Agg) string {
	conv := func(a sharedDiscovery.EndpointAgg) ent {
		x := ent{count: int64(a.Count), min: a.MinTime, max: a.MaxTime, st: map[int]int64{}}
		for c, n := range a.StatusCodes {
			x.st[c] = int64(n)
		}
		return x
	}
	var e, c, it []string
	for k, v := range agg.Endpoints {
		e = append(e, fmt.Sprintf("ep %s %s", proto.Enc(k.Method+":::"+k.URL), conv(v)))
	}
	for tag, m := range agg.Consumers {
		for k, v := range m {
			c = append(c, fmt.Sprintf("ce %s %s %s", proto.Enc(tag), proto.Enc(k.Method+":::"+k.URL), conv(v)))
		}
	}
	for k, v := range agg.Interceptors {
		it = append(it, fmt.Sprintf("it %s %s %d", proto.Enc(k.Type), proto.Enc(k.Version), v.Timestamp))
	}
	sort.Strings(e)
	sort.Strings(c)
	sort.Strings(it)
	parts := append([]string{"mem"}, e...)
	parts = append(parts, c...)
	parts = append(parts, it...)
	return strings.Join(parts, " ")
}

func methodOf(key string) string {
	if i := strings.Index(key, ":::"); i >= 0 {
		return key[:i]
	}
	return key
}

// checkAvg compares a float mean with the exact mean of the attributed records.
func checkAvg(avg float32, sum int64, count int) bool {
	if count == 0 {
		return avg == 0
	}
	ref := float64(sum) / float64(count)
	dev := math.Abs(float64(avg) - ref)
	rel := dev / math.Max(1, math.Abs(ref))
	if ppb := int64(rel * 1e9); ppb > worstRelPPB {
		worstRelPPB = ppb
	}
	return rel <= 1e-4
}

func format(full bool, fails int, avg string, out sharedDiscovery.Output) string {
	eps := map[string]ent{}
	for k, e := range out.Endpoints {
		if full {
			eps[k] = fromOut(e)
			continue
		}
		mk := methodOf(k) + ":::*"
		if old, ok := eps[mk]; ok {
			eps[mk] = old.merge(fromOut(e))
		} else {
			eps[mk] = fromOut(e)
		}
	}
	type ck struct{ tag, key string }
	ces := map[ck]ent{}
	for tag, m := range out.Consumers {
		for k, e := range m {
			if full {
				ces[ck{tag, k}] = fromOut(e)
				continue
			}
			mk := ck{tag, methodOf(k) + ":::*"}
			if old, ok := ces[mk]; ok {
				ces[mk] = old.merge(fromOut(e))
			} else {
				ces[mk] = fromOut(e)
			}
		}
	}
	var e, c, it []string
	for k, v := range eps {
		e = append(e, fmt.Sprintf("ep %s %s", proto.Enc(k), v))
	}
	for k, v := range ces {
		c = append(c, fmt.Sprintf("ce %s %s %s", proto.Enc(k.tag), proto.Enc(k.key), v))
	}
	for _, i := range out.Interceptors {
		it = append(it, fmt.Sprintf("it %s %s %d", proto.Enc(i.Type), proto.Enc(i.Version), secs(i.LastTransactionDate)))
	}
	sort.Strings(e)
	sort.Strings(c)
	sort.Strings(it)
	f := 0
	if full {
		f = 1
	}
	parts := []string{fmt.Sprintf("full=%d fail=%d avg=%s", f, fails, avg)}
	parts = append(parts, e...)
	parts = append(parts, c...)
	parts = append(parts, it...)
	return strings.Join(parts, " ")
}

// avgVerdict uses the shadow run (unique status tags) as the attribution oracle.
func avgVerdict(full bool, recs []common.AccessLog, real, shadow sharedDiscovery.Output) string {
	attributed := func(e sharedDiscovery.EndpointOutput) (sd, st int64, n int) {
		for c, k := range e.StatusCodes {
			j := c - shadowBase
			if j < 0 || j >= len(recs) || k != 1 {
				return 0, 0, -1
			}
			sd += int64(recs[j].Duration)
			st += int64(recs[j].TotalDuration)
			n++
		}
		return
	}
	if full {
		if len(real.Endpoints) != len(shadow.Endpoints) {
			return "nondet"
		}
		for k, e := range real.Endpoints {
			sd, st, n := attributed(shadow.Endpoints[k])
			if n != e.Count {
				return "nondet"
			}
			if !checkAvg(e.AverageDuration, sd, n) || !checkAvg(e.AverageTotalDuration, st, n) {
				return "off:" + proto.Enc(k)
			}
		}
		for tag, m := range real.Consumers {
			for k, e := range m {
				sd, st, n := attributed(shadow.Consumers[tag][k])
				if n != e.Count {
					return "off:shadow-mismatch"
				}
				if !checkAvg(e.AverageDuration, sd, n) || !checkAvg(e.AverageTotalDuration, st, n) {
					return "off:" + proto.Enc(tag+"/"+k)
				}
			}
		}
		return "ok"
	}
	// restart runs: keys may legitimately differ; compare per method the duration mass  Σ mean·count
	type acc struct {
		sd, st   int64
		n        int
		fsd, fst float64
		fn       int
	}
	per := map[string]*acc{}
	get := func(m string) *acc {
		if per[m] == nil {
			per[m] = &acc{}
		}
		return per[m]
	}
	for k, e := range shadow.Endpoints {
		sd, st, n := attributed(e)
		if n < 0 {
			return "off:shadow-mismatch"
		}
		a := get(methodOf(k))
		a.sd, a.st, a.n = a.sd+sd, a.st+st, a.n+n
	}
	for k, e := range real.Endpoints {
		a := get(methodOf(k))
		a.fsd += float64(e.AverageDuration) * float64(e.Count)
		a.fst += float64(e.AverageTotalDuration) * float64(e.Count)
		a.fn += e.Count
	}
	for m, a := range per {
		if a.n != a.fn {
			return "off:shadow-mismatch"
		}
		if a.n == 0 {
			continue
		}
		if !checkAvg(float32(a.fsd/float64(a.n)), a.sd, a.n) || !checkAvg(float32(a.fst/float64(a.n)), a.st, a.n) {
			return "off:" + proto.Enc(m)
		}
	}
	return "ok"
}

func exec(c proto.Case, o *proto.Out) []string {
	outs := make([]string, len(c.Ops))
	dir, err := os.MkdirTemp("", "c15-")
	if err != nil {
		panic(err)
	}
	defer os.RemoveAll(dir)
	time.Local = time.UTC
	defer func() { time.Local = time.UTC }()
	r := &runner{thr: 50, dir: dir}
	var recs []common.AccessLog
	converged, splits := false, map[string]bool{}
	for i, op := range c.Ops {
		w := strings.Fields(op)
		switch w[0] {
		case "cfg":
			r.thr = int(kvI(w, "thr"))
			if tz, ok := proto.KV(w, "tz"); ok {
				// local time zone of the plugin process for this case (seconds east of UTC): the persisted
				// timestamps are specified in UTC whatever the host's zone is, so the model ignores it
				off, err := strconv.Atoi(tz)
				if err != nil {
					panic(err)
				}
				time.Local = time.FixedZone(fmt.Sprintf("verif%+d", off), off)
				if off != 0 {
					o.Count("case-with-non-utc-local-zone")
				}
			}
			outs[i] = "ok"
		case "known":
			r.known = append(r.known, kvS(w, "u"))
			outs[i] = "ok"
		case "rec":
			recs = append(recs, common.AccessLog{
				Timestamp: kvI(w, "ts"), Duration: int(kvI(w, "dur")), TotalDuration: int(kvI(w, "tot")),
				StatusCode: int(kvI(w, "st")), Method: kvS(w, "m"), URL: kvS(w, "u"), Interceptor: kvS(w, "i"),
				ConsumerTag: kvS(w, "c"), Internal: kvI(w, "int") != 0, RequestID: fmt.Sprintf("r%d", len(recs)),
			})
			outs[i] = "ok"
		case "runmem":
			// in-memory path: GetUpdatedAggregations batch by batch, no state file; timestamps reported EXACTLY
			cs, _ := proto.KV(w, "cuts")
			tree, err := r.tree()
			if err != nil {
				outs[i] = "err:build"
				continue
			}
			agg := discovery.Agg{}
			for _, sg := range segsOf(recs, parseList(cs), nil, nil, nil, nil) {
				if len(sg.recs) == 0 {
					continue
				}
				var logs []discovery.AccessLog
				for _, rec := range sg.recs {
					if !rec.Internal {
						logs = append(logs, discovery.AccessLog(rec))
					}
				}
				agg, err = discovery.GetUpdatedAggregations(agg, logs, tree)
				if err != nil {
					panic(err)
				}
			}
			outs[i] = formatMem(agg)
			o.Count("run-in-memory")
		case "run":
			cs, _ := proto.KV(w, "cuts")
			rs, _ := proto.KV(w, "restarts")
			fds, ok := proto.KV(w, "faildumps")
			if !ok {
				fds = "-"
			}
			opt := func(k string) []int {
				if v, ok := proto.KV(w, k); ok {
					return parseList(v)
				}
				return nil
			}
			ticks, reloads := opt("ticks"), opt("reloads")
			if len(ticks) > 0 {
				o.Count("run-with-refresh-ticks")
			}
			if len(reloads) > 0 {
				o.Count("run-with-policies-reload")
			}
			cuts, restarts, faildumps := parseList(cs), parseList(rs), parseList(fds)
			if len(faildumps) > 0 {
				o.Count("run-with-failed-dump")
			}
			full := len(restarts) == 0 && len(reloads) == 0
			real, fails, berr := r.once(segsOf(recs, cuts, restarts, faildumps, ticks, reloads))
			if berr {
				outs[i] = "err:build"
				o.Count("build-error")
				continue
			}
			sh := make([]common.AccessLog, len(recs))
			for j := range recs {
				sh[j] = recs[j]
				sh[j].StatusCode = shadowBase + j
			}
			shadow, _, _ := r.once(segsOf(sh, cuts, restarts, faildumps, ticks, reloads))
			verdict := avgVerdict(full, recs, real, shadow)
			if verdict == "nondet" {
				// two executions of the same run (differing only in status codes) attributed records differently:
				// the implementation's outcome depends on Go map iteration order
				outs[i] = "nondet"
				o.Count("run-nondeterministic")
				continue
			}
			outs[i] = format(full, fails, verdict, real)
			for k := range real.Endpoints {
				if strings.Contains(k, "{_param_") {
					converged = true
				}
			}
			if full {
				splits[cs] = true
				o.Count("run-full")
			} else {
				o.Count("run-restart")
			}
			if fails > 0 {
				o.Count("run-with-rejected-batch")
			}
			o.Count(fmt.Sprintf("batches-%02d", min(len(cuts)+1, 20)))
		default:
			outs[i] = "bad-op"
		}
	}
	o.Extra["float_mean_worst_relative_deviation_ppb"] = worstRelPPB
	o.Extra["generated_cases_dropped_because_the_implementation_answered_nondeterministically"] = droppedNondet
	o.Extra["float_mean_tolerance"] = "relative 1e-4 of max(1, exact mean); labelled TEST"
	if converged {
		o.Count("case-converged")
	}
	if converged && len(splits) >= 2 {
		var key []string
		for _, op := range c.Ops {
			if !strings.HasPrefix(op, "run") {
				key = append(key, op)
			}
		}
		o.NonTrivial(strings.Join(key, "|"))
	}
	return outs
}

func main() {
	zerolog.SetGlobalLevel(zerolog.Disabled)
	defer cleanupHelper()
	proto.Main(proto.Harness{Rule: rule, Gen: gen, Exec: exec})
}
