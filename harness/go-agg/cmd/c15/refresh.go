package main

// The background tree refresh of the plugin (periodicallyUpdateTree, tree_update.go) lives in package main of the
// aggregation-output-plugin and cannot be imported.  The harness therefore builds, once per process, a small helper
// program = the REAL tree_update.go of $VERIF_REPO + the driver below, and talks to it over pipes: the helper runs the
// real refresh loop (real ticker, real GetPoliciesLastModifiedTime / ReadKnownEndpoints / BuildTree on a policies file
// the harness controls) and reports every call of the tree-swap callback.

import (
	"bufio"
	"fmt"
	"os"
	osexec "os/exec"
	"path/filepath"
	"strings"
	"sync"
	"sync/atomic"
	"time"
)

const helperSrc = `package main

import (
	"bufio"
	"fmt"
	"os"
	"strconv"
	"time"

	"lunar/aggregation-plugin/common"

	"github.com/rs/zerolog"
)

func main() {
	zerolog.SetGlobalLevel(zerolog.Disabled)
	thr, _ := strconv.Atoi(os.Args[1])
	ms, _ := strconv.Atoi(os.Args[2])
	lastModified, err := common.GetPoliciesLastModifiedTime()
	if err != nil {
		fmt.Println("error", err)
		return
	}
	known, err := common.ReadKnownEndpoints()
	if err != nil {
		fmt.Println("error", err)
		return
	}
	fmt.Println("ready", len(known.Endpoints))
	go periodicallyUpdateTree(func(tree *common.SimpleURLTree) {
		fmt.Println("swap")
	}, time.Duration(ms)*time.Millisecond, known, lastModified, thr)
	bufio.NewReader(os.Stdin).ReadString('\n') // until the harness closes the pipe
}
`

const (
	refreshIntervalMs = 2
	tickWait          = 14 * time.Millisecond // several refresh intervals
)

var (
	helperOnce sync.Once
	helperDir  string
	helperBin  string
	helperErr  error
)

func envOr(k, d string) string {
	if v := os.Getenv(k); v != "" {
		return v
	}
	return d
}

func buildHelper() {
	repo := envOr("VERIF_REPO", "/repo")
	root := envOr("VERIF_ROOT", "/verif")
	helperDir, helperErr = os.MkdirTemp("", "c15-refresh-")
	if helperErr != nil {
		return
	}
	fail := func(err error) { helperErr = err }
	mod, err := os.ReadFile(filepath.Join(root, "harness/go-agg/go.mod"))
	if err != nil {
		fail(err)
		return
	}
	rp, _ := filepath.EvalSymlinks(repo)
	modText := strings.ReplaceAll(string(mod), "=> /repo/", "=> "+rp+"/")
	sum, _ := os.ReadFile(filepath.Join(root, "harness/go-agg/go.sum"))
	src, err := os.ReadFile(filepath.Join(repo, "proxy/src/services/aggregation-output-plugin/tree_update.go"))
	if err != nil {
		fail(err)
		return
	}
	pkg := filepath.Join(helperDir, "cmd", "refresh")
	must(os.MkdirAll(pkg, 0o755))
	must(os.WriteFile(filepath.Join(helperDir, "go.mod"), []byte(modText), 0o644))
	must(os.WriteFile(filepath.Join(helperDir, "go.sum"), sum, 0o644))
	must(os.WriteFile(filepath.Join(pkg, "tree_update.go"), src, 0o644))
	must(os.WriteFile(filepath.Join(pkg, "helper_main.go"), []byte(helperSrc), 0o644))
	helperBin = filepath.Join(helperDir, "refresh")
	cmd := osexec.Command("go", "build", "-o", helperBin, "./cmd/refresh")
	cmd.Dir = helperDir
	cmd.Env = append(os.Environ(), "GOFLAGS=-mod=mod", "GOPROXY=off", "GOSUMDB=off", "GOTOOLCHAIN=local", "CGO_ENABLED=1")
	if out, err := cmd.CombinedOutput(); err != nil {
		fail(fmt.Errorf("building the refresh helper from %s failed: %v\n%s", repo, err, out))
	}
}

func cleanupHelper() {
	if helperDir != "" {
		os.RemoveAll(helperDir)
	}
}

// refresher = one running refresh loop (one plugin process) over a policies file.
type refresher struct {
	cmd      *osexec.Cmd
	stdin    interface{ Close() error }
	swaps    atomic.Int64
	seen     int64
	policies string
	mtime    time.Time
	known    []string
}

func policiesYAML(known []string) []byte {
	var b strings.Builder
	b.WriteString("endpoints:\n")
	for _, u := range known {
		fmt.Fprintf(&b, "- method: GET\n  url: %q\n", u)
	}
	return []byte(b.String())
}

func startRefresher(dir string, n int, known []string, thr int) *refresher {
	helperOnce.Do(buildHelper)
	if helperErr != nil {
		panic(helperErr)
	}
	r := &refresher{policies: filepath.Join(dir, fmt.Sprintf("policies-%d.yaml", n)), known: known,
		mtime: time.Unix(1_700_000_000, 0)}
	must(os.WriteFile(r.policies, policiesYAML(known), 0o644))
	must(os.Chtimes(r.policies, r.mtime, r.mtime))
	r.cmd = osexec.Command(helperBin, fmt.Sprint(thr), fmt.Sprint(refreshIntervalMs))
	r.cmd.Env = append(os.Environ(), "LUNAR_PROXY_POLICIES_CONFIG="+r.policies, "LUNAR_STREAMS_ENABLED=false")
	in, err := r.cmd.StdinPipe()
	must(err)
	r.stdin = in
	out, err := r.cmd.StdoutPipe()
	must(err)
	must(r.cmd.Start())
	sc := bufio.NewScanner(out)
	if !sc.Scan() || !strings.HasPrefix(sc.Text(), "ready") {
		panic("refresh helper did not start: " + sc.Text())
	}
	go func() {
		for sc.Scan() {
			if sc.Text() == "swap" {
				r.swaps.Add(1)
			}
		}
	}()
	return r
}

// tick lets several refresh intervals pass with the policies file untouched and reports whether the plugin swapped its
// tree since the harness last looked.
func (r *refresher) tick() bool {
	time.Sleep(tickWait)
	n := r.swaps.Load()
	swapped := n > r.seen
	r.seen = n
	return swapped
}

// reload rewrites the policies file (same endpoints, newer modification time) and waits for the swap.
func (r *refresher) reload() bool {
	r.seen = r.swaps.Load()
	r.mtime = r.mtime.Add(2 * time.Second)
	must(os.WriteFile(r.policies, policiesYAML(r.known), 0o644))
	must(os.Chtimes(r.policies, r.mtime, r.mtime))
	deadline := time.Now().Add(5 * time.Second)
	for time.Now().Before(deadline) {
		if n := r.swaps.Load(); n > r.seen {
			r.seen = n
			return true
		}
		time.Sleep(time.Millisecond)
	}
	return false
}

func (r *refresher) stop() {
	r.stdin.Close()
	r.cmd.Process.Kill()
	r.cmd.Wait()
	os.Remove(r.policies)
}
