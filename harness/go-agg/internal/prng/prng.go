// Package prng: splitmix64; every random choice of a harness derives from one state so that a
// disagreement replays exactly from VERIF_SEED.
package prng

type R struct{ s uint64 }

// New mixes the seed through the splitmix64 finaliser so that consecutive seeds give unrelated streams
// (a plain affine map would make New(s+1) equal to New(s) advanced by one draw).
func New(seed uint64) *R {
	z := seed + 0x632BE59BD9B4E019
	z = (z ^ (z >> 30)) * 0xBF58476D1CE4E5B9
	z = (z ^ (z >> 27)) * 0x94D049BB133111EB
	return &R{s: z ^ (z >> 31)}
}

func (r *R) U64() uint64 {
	r.s += 0x9E3779B97F4A7C15
	z := r.s
	z = (z ^ (z >> 30)) * 0xBF58476D1CE4E5B9
	z = (z ^ (z >> 27)) * 0x94D049BB133111EB
	return z ^ (z >> 31)
}

// Intn returns a value in [0,n).
func (r *R) Intn(n int) int {
	if n <= 0 {
		return 0
	}
	return int(r.U64() % uint64(n))
}

// Range returns a value in [lo,hi].
func (r *R) Range(lo, hi int) int { return lo + r.Intn(hi-lo+1) }

func (r *R) Bool() bool { return r.U64()&1 == 1 }

// Chance returns true with probability pct/100.
func (r *R) Chance(pct int) bool { return r.Intn(100) < pct }

func Pick[T any](r *R, xs []T) T { return xs[r.Intn(len(xs))] }

// Fork derives an independent generator (used per case so cases replay individually).
func (r *R) Fork() *R { return New(r.U64()) }

func Shuffle[T any](r *R, xs []T) {
	for i := len(xs) - 1; i > 0; i-- {
		j := r.Intn(i + 1)
		xs[i], xs[j] = xs[j], xs[i]
	}
}
