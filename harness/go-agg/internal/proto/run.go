package proto

import (
	"fmt"
	"os"
	"runtime/debug"
	"strings"

	"verif/harnessagg/internal/prng"
)

// Case is one independent scenario: its op lines (without the leading `case <id>` line).
type Case struct {
	ID  string
	Ops []string
}

// Harness: Gen produces cases from the PRNG; Exec runs one case against the real
// implementation and returns exactly one answer line per op line.
type Harness struct {
	Rule string
	Gen  func(r *prng.R, f Flags, emit func(Case))
	Exec func(c Case, o *Out) []string
}

// SplitCases turns a flat op-line list into cases.
func SplitCases(lines []string) []Case {
	var cs []Case
	for _, l := range lines {
		w := strings.Fields(l)
		if len(w) == 2 && w[0] == "case" {
			cs = append(cs, Case{ID: w[1]})
			continue
		}
		if len(cs) == 0 {
			cs = append(cs, Case{ID: "replay0"})
		}
		cs[len(cs)-1].Ops = append(cs[len(cs)-1].Ops, l)
	}
	return cs
}

// Main is the common entry point of every harness binary.
func Main(h Harness) {
	f := ParseFlags()
	o := NewOut(f.OutDir)
	run := func(c Case) {
		var outs []string
		func() {
			defer func() {
				if r := recover(); r != nil {
					// a panic of the implementation is an observable answer, not a harness failure
					o.Count("impl-panic")
					msg := Enc(fmt.Sprint(r))
					if len(msg) > 200 {
						msg = msg[:200]
					}
					outs = make([]string, len(c.Ops))
					for i := range outs {
						outs[i] = "panic " + msg
					}
					if os.Getenv("VERIF_DEBUG") != "" {
						fmt.Fprintf(os.Stderr, "panic in case %s: %v\n%s\n", c.ID, r, debug.Stack())
					}
				}
			}()
			outs = h.Exec(c, o)
		}()
		if len(outs) != len(c.Ops) {
			panic(fmt.Sprintf("harness bug: case %s: %d ops, %d answers", c.ID, len(c.Ops), len(outs)))
		}
		o.Case(c.ID)
		for i, op := range c.Ops {
			o.Emit(op, outs[i])
		}
	}
	if f.Replay != "" {
		for _, c := range SplitCases(ReadReplay(f.Replay)) {
			run(c)
		}
	} else {
		h.Gen(prng.New(f.Seed), f, run)
	}
	o.Close(h.Rule)
}
