// Package proto: writer for the line protocol shared with the Lean drivers
// (see lean/LunarVerif/Base/Proto.lean).  A harness emits, for every operation, one line to
// ops.txt and one line to impl.txt (the implementation's canonicalised answer).
package proto

import (
	"bufio"
	"encoding/json"
	"flag"
	"fmt"
	"os"
	"path/filepath"
	"sort"
	"strings"
)

type Out struct {
	Dir       string
	ops, impl *bufio.Writer
	fo, fi    *os.File
	Cases     int
	Ops       int
	nontriv   map[string]bool
	Dist      map[string]int
	Samples   []map[string]any
	curOps    []string
	curImpl   []string
	curID     string
	Extra     map[string]any
}

type Flags struct {
	Seed   uint64
	Tier   string
	OutDir string
	Replay string
	Budget int // multiplier, 1 = nominal (the orchestrator passes 10 for the widened search)
}

func ParseFlags() Flags {
	var f Flags
	flag.Uint64Var(&f.Seed, "seed", 1, "PRNG seed")
	flag.StringVar(&f.Tier, "tier", "quick", "quick|thorough")
	flag.StringVar(&f.OutDir, "out", "", "output directory")
	flag.StringVar(&f.Replay, "replay", "", "ops file to replay instead of generating")
	flag.IntVar(&f.Budget, "budget", 1, "case budget multiplier")
	flag.Parse()
	if f.OutDir == "" {
		fmt.Fprintln(os.Stderr, "-out required")
		os.Exit(2)
	}
	return f
}

func NewOut(dir string) *Out {
	must(os.MkdirAll(dir, 0o755))
	fo, err := os.Create(filepath.Join(dir, "ops.txt"))
	must(err)
	fi, err := os.Create(filepath.Join(dir, "impl.txt"))
	must(err)
	return &Out{Dir: dir, fo: fo, fi: fi, ops: bufio.NewWriterSize(fo, 1<<20), impl: bufio.NewWriterSize(fi, 1<<20),
		nontriv: map[string]bool{}, Dist: map[string]int{}, Extra: map[string]any{}}
}

func must(err error) {
	if err != nil {
		panic(err)
	}
}

// Case starts a new case; both sides answer `case <id>`.
func (o *Out) Case(id string) {
	o.flushSample()
	o.Cases++
	o.curID = id
	o.Emit("case "+id, "case "+id)
}

// Emit writes one operation and the implementation's answer to it.
func (o *Out) Emit(op, impl string) {
	if strings.ContainsAny(op, "\n\t") || strings.ContainsAny(impl, "\n\t") {
		panic("proto: newline/tab in line: " + op + " / " + impl)
	}
	o.ops.WriteString(op)
	o.ops.WriteByte('\n')
	o.impl.WriteString(impl)
	o.impl.WriteByte('\n')
	o.Ops++
	if len(o.Samples) < 3 && len(o.curOps) < 40 {
		o.curOps = append(o.curOps, op)
		o.curImpl = append(o.curImpl, impl)
	}
}

func (o *Out) flushSample() {
	if len(o.curOps) > 1 && len(o.Samples) < 3 {
		o.Samples = append(o.Samples, map[string]any{"case": o.curID, "ops": o.curOps, "impl": o.curImpl})
	}
	o.curOps, o.curImpl = nil, nil
}

// NonTrivial records the fingerprint of a case that is non-trivial by the harness's rule.
func (o *Out) NonTrivial(fingerprint string) { o.nontriv[fingerprint] = true }

// Count adds to the input-distribution histogram written to stats.json.
func (o *Out) Count(key string) { o.Dist[key]++ }

// Close flushes files and writes stats.json.
func (o *Out) Close(rule string) {
	o.flushSample()
	must(o.ops.Flush())
	must(o.impl.Flush())
	o.fo.Close()
	o.fi.Close()
	keys := make([]string, 0, len(o.Dist))
	for k := range o.Dist {
		keys = append(keys, k)
	}
	sort.Strings(keys)
	st := map[string]any{
		"evaluations":         o.Cases,
		"ops":                 o.Ops,
		"distinct_nontrivial": len(o.nontriv),
		"rule":                rule,
		"distribution":        o.Dist,
		"samples":             o.Samples,
	}
	for k, v := range o.Extra {
		st[k] = v
	}
	b, err := json.MarshalIndent(st, "", " ")
	must(err)
	must(os.WriteFile(filepath.Join(o.Dir, "stats.json"), b, 0o644))
}

// ReadReplay returns the op lines of a replay file (comment lines starting with '#' skipped).
func ReadReplay(path string) []string {
	b, err := os.ReadFile(path)
	must(err)
	var out []string
	for _, l := range strings.Split(string(b), "\n") {
		l = strings.TrimRight(l, "\r")
		if l == "" || strings.HasPrefix(l, "#") {
			continue
		}
		out = append(out, l)
	}
	return out
}

const safe = "._~:/{}*,=+@$-"

// Enc percent-encodes like Proto.pctEnc in Lean.
func Enc(s string) string {
	if s == "" {
		return "%e"
	}
	var b strings.Builder
	for i := 0; i < len(s); i++ {
		c := s[i]
		if c >= 'a' && c <= 'z' || c >= 'A' && c <= 'Z' || c >= '0' && c <= '9' || strings.IndexByte(safe, c) >= 0 {
			b.WriteByte(c)
		} else {
			fmt.Fprintf(&b, "%%%02X", c)
		}
	}
	return b.String()
}

// Dec inverts Enc.
func Dec(s string) string {
	if s == "%e" {
		return ""
	}
	var b strings.Builder
	for i := 0; i < len(s); i++ {
		if s[i] == '%' && i+2 < len(s)+0 && i+2 <= len(s)-1+0 {
			var v int
			if _, err := fmt.Sscanf(s[i+1:i+3], "%02X", &v); err == nil {
				b.WriteByte(byte(v))
				i += 2
				continue
			}
		}
		b.WriteByte(s[i])
	}
	return b.String()
}

// KV looks up `k=v` among words.
func KV(words []string, k string) (string, bool) {
	for _, w := range words {
		if strings.HasPrefix(w, k+"=") {
			return w[len(k)+1:], true
		}
	}
	return "", false
}
