module verif/harnessagg

go 1.22

require (
	github.com/fluent/fluent-bit-go v0.0.0-20230731091245-a7a013e2473c
	github.com/goccy/go-json v0.10.2
	github.com/rs/zerolog v1.31.0
	github.com/samber/lo v1.44.0
	github.com/stretchr/testify v1.9.0
	gopkg.in/yaml.v2 v2.4.0
	lunar/aggregation-plugin v0.0.0
	lunar/shared-model v0.0.0
	lunar/toolkit-core v0.0.0
)

require (
	github.com/davecgh/go-spew v1.1.2-0.20180830191138-d8f796af33cc // indirect
	github.com/gabriel-vasile/mimetype v1.4.3 // indirect
	github.com/go-playground/locales v0.14.1 // indirect
	github.com/go-playground/universal-translator v0.18.1 // indirect
	github.com/go-playground/validator/v10 v10.16.0 // indirect
	github.com/leodido/go-urn v1.2.4 // indirect
	github.com/mattn/go-colorable v0.1.13 // indirect
	github.com/mattn/go-isatty v0.0.20 // indirect
	github.com/pkg/errors v0.9.1 // indirect
	github.com/pmezard/go-difflib v1.0.1-0.20181226105442-5d4384ee4fb2 // indirect
	github.com/ugorji/go/codec v1.2.12 // indirect
	golang.org/x/crypto v0.24.0 // indirect
	golang.org/x/net v0.26.0 // indirect
	golang.org/x/sys v0.21.0 // indirect
	golang.org/x/text v0.16.0 // indirect
	gopkg.in/yaml.v3 v3.0.1 // indirect
)

replace lunar/aggregation-plugin v0.0.0 => /repo/proxy/src/services/aggregation-output-plugin

replace lunar/shared-model v0.0.0 => /repo/proxy/src/libs/shared-model

replace lunar/toolkit-core v0.0.0 => /repo/proxy/src/libs/toolkit-core
