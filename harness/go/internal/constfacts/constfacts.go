// Package constfacts: the second part of the regenerated fact base (DESIGN.md §4.5): named constants
// of /repo and the constant arguments of selected call sites, evaluated syntactically (go/ast only).
// Supported expression forms: integer literal, time unit (time.Second …), products of those,
// time.Duration(<expr>), and references to package-level constants of the same file set.
package constfacts

import (
	"fmt"
	"go/ast"
	"go/parser"
	"go/token"
	"os"
	"path/filepath"
	"strconv"
	"strings"
)

type Fact struct {
	Name  string `json:"name"`  // Lean identifier
	Value int64  `json:"value"` // integers; durations in nanoseconds
	Found bool   `json:"found"`
	Where string `json:"where"`
}

var units = map[string]int64{"Nanosecond": 1, "Microsecond": 1e3, "Millisecond": 1e6, "Second": 1e9, "Minute": 60e9, "Hour": 3600e9}

type pkg struct {
	files  []*ast.File
	consts map[string]ast.Expr
}

func load(dir string) (*pkg, error) {
	fset := token.NewFileSet()
	ents, err := os.ReadDir(dir)
	if err != nil {
		return nil, err
	}
	p := &pkg{consts: map[string]ast.Expr{}}
	for _, e := range ents {
		n := e.Name()
		if e.IsDir() || !strings.HasSuffix(n, ".go") || strings.HasSuffix(n, "_test.go") {
			continue
		}
		f, err := parser.ParseFile(fset, filepath.Join(dir, n), nil, parser.SkipObjectResolution)
		if err != nil {
			return nil, err
		}
		p.files = append(p.files, f)
		for _, d := range f.Decls {
			gd, ok := d.(*ast.GenDecl)
			if !ok || (gd.Tok != token.CONST && gd.Tok != token.VAR) {
				continue
			}
			for _, sp := range gd.Specs {
				vs := sp.(*ast.ValueSpec)
				for i, nm := range vs.Names {
					if i < len(vs.Values) {
						p.consts[nm.Name] = vs.Values[i]
					}
				}
			}
		}
	}
	return p, nil
}

func (p *pkg) eval(e ast.Expr, depth int) (int64, bool) {
	if depth > 8 {
		return 0, false
	}
	switch t := e.(type) {
	case *ast.BasicLit:
		if t.Kind == token.INT {
			v, err := strconv.ParseInt(strings.ReplaceAll(t.Value, "_", ""), 0, 64)
			return v, err == nil
		}
	case *ast.ParenExpr:
		return p.eval(t.X, depth+1)
	case *ast.SelectorExpr:
		if id, ok := t.X.(*ast.Ident); ok && id.Name == "time" {
			u, ok := units[t.Sel.Name]
			return u, ok
		}
	case *ast.Ident:
		if c, ok := p.consts[t.Name]; ok {
			return p.eval(c, depth+1)
		}
	case *ast.BinaryExpr:
		a, ok1 := p.eval(t.X, depth+1)
		b, ok2 := p.eval(t.Y, depth+1)
		if ok1 && ok2 {
			switch t.Op {
			case token.MUL:
				return a * b, true
			case token.ADD:
				return a + b, true
			case token.SUB:
				return a - b, true
			}
		}
	case *ast.CallExpr:
		// time.Duration(x), int64(x) …
		if len(t.Args) == 1 {
			return p.eval(t.Args[0], depth+1)
		}
	}
	return 0, false
}

// PyConst reads `NAME = <int>` at the start of a line of a Python source file.
func PyConst(repo, file, name, lean string) Fact {
	f := Fact{Name: lean, Where: file + ":" + name}
	b, err := os.ReadFile(filepath.Join(repo, file))
	if err != nil {
		return f
	}
	for _, l := range strings.Split(string(b), "\n") {
		t := strings.TrimSpace(l)
		if strings.HasPrefix(l, name) && strings.Contains(t, "=") {
			parts := strings.SplitN(t, "=", 2)
			if strings.TrimSpace(strings.Split(parts[0], ":")[0]) != name {
				continue
			}
			v, err := strconv.ParseInt(strings.TrimSpace(strings.Split(parts[1], "#")[0]), 10, 64)
			if err == nil {
				f.Value, f.Found = v, true
			}
		}
	}
	return f
}

// Const evaluates a package-level constant.
func Const(repo, dir, name, lean string) Fact {
	p, err := load(filepath.Join(repo, dir))
	f := Fact{Name: lean, Where: dir + ":" + name}
	if err != nil {
		return f
	}
	if c, ok := p.consts[name]; ok {
		f.Value, f.Found = p.eval(c, 0)
	}
	return f
}

// CallArg evaluates argument #arg of the call `callee(...)` whose argument #keyArg contains the
// string literal fragment keyFrag, inside function fn of the package in dir.
func CallArg(repo, dir, fn, callee string, keyArg int, keyFrag string, arg int, lean string) Fact {
	f := Fact{Name: lean, Where: fmt.Sprintf("%s:%s:%s(%q)#%d", dir, fn, callee, keyFrag, arg)}
	p, err := load(filepath.Join(repo, dir))
	if err != nil {
		return f
	}
	for _, file := range p.files {
		for _, d := range file.Decls {
			fd, ok := d.(*ast.FuncDecl)
			if !ok || fd.Name.Name != fn || fd.Body == nil {
				continue
			}
			ast.Inspect(fd.Body, func(n ast.Node) bool {
				c, ok := n.(*ast.CallExpr)
				if !ok || len(c.Args) <= arg || len(c.Args) <= keyArg {
					return true
				}
				name := ""
				switch t := c.Fun.(type) {
				case *ast.SelectorExpr:
					name = t.Sel.Name
				case *ast.Ident:
					name = t.Name
				case *ast.IndexExpr:
					if s, ok := t.X.(*ast.SelectorExpr); ok {
						name = s.Sel.Name
					}
				}
				if name != callee {
					return true
				}
				hit := false
				ast.Inspect(c.Args[keyArg], func(m ast.Node) bool {
					if bl, ok := m.(*ast.BasicLit); ok && bl.Kind == token.STRING && strings.Contains(bl.Value, keyFrag) {
						hit = true
					}
					return true
				})
				if hit {
					f.Value, f.Found = p.eval(c.Args[arg], 0)
				}
				return true
			})
		}
	}
	return f
}

// DockerEnv reads `ENV NAME=<int>` from a Dockerfile (shipped defaults that are not Go constants).
func DockerEnv(repo, file, name, lean string) Fact {
	f := Fact{Name: lean, Where: file + ":ENV " + name}
	b, err := os.ReadFile(filepath.Join(repo, file))
	if err != nil {
		return f
	}
	for _, l := range strings.Split(string(b), "\n") {
		w := strings.Fields(l)
		if len(w) == 2 && w[0] == "ENV" && strings.HasPrefix(w[1], name+"=") {
			if v, err := strconv.ParseInt(strings.TrimPrefix(w[1], name+"="), 10, 64); err == nil {
				f.Value, f.Found = v, true
			}
		}
	}
	return f
}
