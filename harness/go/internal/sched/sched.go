//go:build verif

// Package sched is the harness-side controller of the `verif` hook points compiled into /repo
// (lunar/toolkit-core/verifhook): goroutines of the implementation block at gated Yield points
// until the harness releases them, which makes an interleaving replayable; Fault rules make the
// n-th matching file-system operation fail.
package sched

import (
	"errors"
	"strings"
	"sync"
	"time"

	"lunar/toolkit-core/verifhook"
)

type waiter struct{ ch chan struct{} }

type FaultRule struct {
	Op        string // "store" | "remove" | "read" | "" (any)
	ArgSuffix string // matches when the operation's argument ends with this ("" = any)
	Nth       int    // fail the Nth matching call (1-based); 0 = every matching call
	seen      int
}

type Controller struct {
	mu      sync.Mutex
	gated   map[string]bool
	waiting map[string][]*waiter
	rules   []*FaultRule
	Log     []string // every Yield point reached / Fault consulted, in order
	cond    *sync.Cond
}

func New() *Controller {
	c := &Controller{gated: map[string]bool{}, waiting: map[string][]*waiter{}}
	c.cond = sync.NewCond(&c.mu)
	return c
}

// Install makes this controller the active one (nil to remove: use Uninstall).
func (c *Controller) Install() { verifhook.Install(c) }
func Uninstall()              { verifhook.Install(nil) }

// Gate makes goroutines block (on=true) or pass (on=false) at the named point.
func (c *Controller) Gate(point string, on bool) {
	c.mu.Lock()
	defer c.mu.Unlock()
	c.gated[point] = on
}

func (c *Controller) Yield(point string) {
	c.mu.Lock()
	c.Log = append(c.Log, "yield:"+point)
	if !c.gated[point] {
		c.mu.Unlock()
		return
	}
	w := &waiter{ch: make(chan struct{})}
	c.waiting[point] = append(c.waiting[point], w)
	c.cond.Broadcast()
	c.mu.Unlock()
	<-w.ch
}

// Waiting returns how many goroutines are blocked at the point.
func (c *Controller) Waiting(point string) int {
	c.mu.Lock()
	defer c.mu.Unlock()
	return len(c.waiting[point])
}

// WaitArrival blocks until at least n goroutines are blocked at the point (or the timeout).
func (c *Controller) WaitArrival(point string, n int, timeout time.Duration) bool {
	deadline := time.Now().Add(timeout)
	for {
		c.mu.Lock()
		ok := len(c.waiting[point]) >= n
		c.mu.Unlock()
		if ok {
			return true
		}
		if time.Now().After(deadline) {
			return false
		}
		time.Sleep(200 * time.Microsecond)
	}
}

// Release lets the oldest goroutine blocked at the point continue; false if none.
func (c *Controller) Release(point string) bool {
	c.mu.Lock()
	ws := c.waiting[point]
	if len(ws) == 0 {
		c.mu.Unlock()
		return false
	}
	w := ws[0]
	c.waiting[point] = ws[1:]
	c.mu.Unlock()
	close(w.ch)
	return true
}

// ReleaseAll opens every gate and releases everybody.
func (c *Controller) ReleaseAll() {
	c.mu.Lock()
	for p := range c.gated {
		c.gated[p] = false
	}
	var all []*waiter
	for p, ws := range c.waiting {
		all = append(all, ws...)
		c.waiting[p] = nil
	}
	c.mu.Unlock()
	for _, w := range all {
		close(w.ch)
	}
}

// AddFault registers a fault rule.
func (c *Controller) AddFault(r FaultRule) {
	c.mu.Lock()
	defer c.mu.Unlock()
	rr := r
	c.rules = append(c.rules, &rr)
}

func (c *Controller) ClearFaults() {
	c.mu.Lock()
	defer c.mu.Unlock()
	c.rules = nil
}

var ErrInjected = errors.New("verif: injected fault")

func (c *Controller) Fault(op, arg string) error {
	c.mu.Lock()
	defer c.mu.Unlock()
	c.Log = append(c.Log, "fault?:"+op+":"+arg)
	for _, r := range c.rules {
		if (r.Op == "" || r.Op == op) && strings.HasSuffix(arg, r.ArgSuffix) {
			r.seen++
			if r.Nth == 0 || r.seen == r.Nth {
				c.Log = append(c.Log, "fault!:"+op+":"+arg)
				return ErrInjected
			}
		}
	}
	return nil
}
