//go:build !verif

package engine

import (
	"lunar/engine/streams"
	"lunar/engine/streams/processors"
)

func setFactory(_ *streams.Stream, _ string, _ processors.ProcessorFactory) {
	panic("probe processors need the verif build tag")
}
