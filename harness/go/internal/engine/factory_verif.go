//go:build verif

package engine

import (
	"lunar/engine/streams"
	"lunar/engine/streams/processors"
)

func setFactory(s *streams.Stream, name string, f processors.ProcessorFactory) {
	s.VerifSetFactory(name, f)
}
