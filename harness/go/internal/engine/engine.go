// Package engine builds a real lunar flows engine (streams.Stream) from generated YAML in a temp dir.
package engine

import (
	"os"
	"path/filepath"
	"time"

	lunar_messages "lunar/engine/messages"
	"lunar/engine/streams"
	"lunar/engine/streams/processors"
	streamconfig "lunar/engine/streams/config"
	lunar_context "lunar/engine/streams/lunar-context"
	publictypes "lunar/engine/streams/public-types"
	stream_types "lunar/engine/streams/types"
	"lunar/engine/utils/environment"
	"lunar/toolkit-core/clock"
	context_manager "lunar/toolkit-core/context-manager"

	"github.com/rs/zerolog"
)

type Engine struct {
	Dir    string
	Stream *streams.Stream
	Clock  *clock.MockClock
	shared publictypes.SharedStateI[[]byte]
}

func repo() string {
	if r := os.Getenv("VERIF_REPO"); r != "" {
		return r
	}
	return "/repo"
}

// Options for probe processors: Defs maps a processor name to its definition YAML (written into a
// temp processors directory next to a copy of the repo's registry), Factories to its factory
// (registered through the verif-tagged hook Stream.VerifSetFactory).
type Options struct {
	MockClock bool
	Defs      map[string]string
	Factories map[string]processors.ProcessorFactory
}

// New: files maps relative paths ("flows/a.yaml", "quotas/q.yaml") to contents.
func New(files map[string]string, mockClock bool) (*Engine, error) {
	return NewWith(files, Options{MockClock: mockClock})
}

func NewWith(files map[string]string, opt Options) (*Engine, error) {
	mockClock := opt.MockClock
	zerolog.SetGlobalLevel(zerolog.Disabled)
	dir, err := os.MkdirTemp("", "verif-engine-")
	if err != nil {
		return nil, err
	}
	for _, d := range []string{"flows", "quotas", "path_params"} {
		if err := os.MkdirAll(filepath.Join(dir, d), 0o755); err != nil {
			return nil, err
		}
	}
	for rel, content := range files {
		p := filepath.Join(dir, rel)
		os.MkdirAll(filepath.Dir(p), 0o755)
		if err := os.WriteFile(p, []byte(content), 0o644); err != nil {
			return nil, err
		}
	}
	environment.SetStreamsFlowsDirectory(filepath.Join(dir, "flows"))
	os.Setenv("LUNAR_PROXY_QUOTAS_DIRECTORY", filepath.Join(dir, "quotas"))
	os.Setenv("LUNAR_FLOWS_PATH_PARAM_DIR", filepath.Join(dir, "path_params"))
	os.Setenv("LUNAR_FLOWS_PATH_PARAM_CONFIG", filepath.Join(dir, "path_param_conf.yaml"))
	if os.Getenv("LUNAR_SPOE_PROCESSING_TIMEOUT_SEC") == "" {
		os.Setenv("LUNAR_SPOE_PROCESSING_TIMEOUT_SEC", "60")
	}
	if os.Getenv("LUNAR_RETRY_REQUEST_TIMEOUT_SEC") == "" {
		os.Setenv("LUNAR_RETRY_REQUEST_TIMEOUT_SEC", "60")
	}
	registry := filepath.Join(repo(), "proxy/src/services/lunar-engine/streams/processors/registry")
	if len(opt.Defs) > 0 {
		pd := filepath.Join(dir, "processors")
		os.MkdirAll(pd, 0o755)
		ents, _ := os.ReadDir(registry)
		for _, en := range ents {
			if b, err := os.ReadFile(filepath.Join(registry, en.Name())); err == nil && !en.IsDir() {
				os.WriteFile(filepath.Join(pd, en.Name()), b, 0o644)
			}
		}
		for name, def := range opt.Defs {
			os.WriteFile(filepath.Join(pd, "verif_"+name+".yaml"), []byte(def), 0o644)
		}
		environment.SetProcessorsDirectory(pd)
	} else {
		environment.SetProcessorsDirectory(registry)
	}
	e := &Engine{Dir: dir, shared: lunar_context.NewMemoryState[[]byte]()}
	if mockClock {
		e.Clock = context_manager.Get().SetMockClock().GetClock().(*clock.MockClock)
	} else {
		context_manager.Get().SetRealClock()
	}
	s, err := streams.NewStream()
	if err != nil {
		return nil, err
	}
	for name, f := range opt.Factories {
		setFactory(s, name, f)
	}
	if err := s.Initialize(); err != nil {
		return nil, err
	}
	e.Stream = s
	return e, nil
}

func (e *Engine) Close() { os.RemoveAll(e.Dir) }

type Verdict struct {
	Early  bool
	Status int
	NAct   int
	Err    error
}

// Request runs a request through the engine.
func (e *Engine) Request(id, method, url string, headers map[string]string) Verdict {
	if headers == nil {
		headers = map[string]string{}
	}
	req := lunar_messages.OnRequest{ID: id, SequenceID: id, Method: method, Scheme: "https", URL: url,
		Headers: headers, Time: time.Now()}
	api := stream_types.NewRequestAPIStream(req, e.shared)
	acts := &streamconfig.StreamActions{Request: &streamconfig.RequestStream{}, Response: &streamconfig.ResponseStream{}}
	err := e.Stream.ExecuteFlow(api, acts)
	v := Verdict{Err: err, NAct: len(acts.Request.Actions)}
	for _, a := range acts.Request.Actions {
		if a.IsEarlyReturnType() {
			v.Early = true
		}
	}
	return v
}

// RequestStream builds a request API stream without executing it.
func (e *Engine) RequestStream(id, method, url string, headers map[string]string) publictypes.APIStreamI {
	if headers == nil {
		headers = map[string]string{}
	}
	req := lunar_messages.OnRequest{ID: id, SequenceID: id, Method: method, Scheme: "https", URL: url,
		Headers: headers, Time: time.Now()}
	return stream_types.NewRequestAPIStream(req, e.shared)
}

// Response runs a response through the engine.
func (e *Engine) Response(id, method, url string, status int, headers map[string]string) Verdict {
	if headers == nil {
		headers = map[string]string{}
	}
	res := lunar_messages.OnResponse{ID: id, SequenceID: id, Method: method, URL: url, Status: status,
		Headers: headers, Time: time.Now()}
	api := stream_types.NewResponseAPIStream(res, e.shared)
	acts := &streamconfig.StreamActions{Request: &streamconfig.RequestStream{}, Response: &streamconfig.ResponseStream{}}
	err := e.Stream.ExecuteFlow(api, acts)
	return Verdict{Err: err, NAct: len(acts.Response.Actions)}
}
