// Package detclock provides deterministic implementations of lunar/toolkit-core/clock.Clock
// whose virtual time is owned by the harness.
package detclock

import (
	"runtime"
	"sort"
	"sync"
	"time"
)

// Auto is a clock for code that runs in ONE goroutine: Sleep/After return at once after moving
// virtual time forward by the requested duration, i.e. exactly the requested time passes.
type Auto struct {
	mu  sync.Mutex
	now time.Time
}

func NewAuto(unixNano int64) *Auto { return &Auto{now: time.Unix(0, unixNano)} }

func (c *Auto) Now() time.Time {
	c.mu.Lock()
	defer c.mu.Unlock()
	return c.now
}

func (c *Auto) Advance(d time.Duration) {
	c.mu.Lock()
	defer c.mu.Unlock()
	if d > 0 {
		c.now = c.now.Add(d)
	}
}

func (c *Auto) Sleep(d time.Duration) { c.Advance(d) }

func (c *Auto) After(d time.Duration) <-chan time.Time {
	c.Advance(d)
	ch := make(chan time.Time, 1)
	ch <- c.Now()
	return ch
}

func (c *Auto) Since(t time.Time) time.Duration { return c.Now().Sub(t) }
func (c *Auto) Until(t time.Time) time.Duration { return t.Sub(c.Now()) }

// Manual is a clock for code with several goroutines: After/Sleep register a waiter; the harness
// fires due waiters one at a time, in timestamp order (ties: registration order), with
// Advance/FireNext.  After each firing Settle is called so the released goroutine can run to its
// next blocking point.
type Manual struct {
	mu      sync.Mutex
	now     time.Time
	seq     int
	waiters []*waiter
	Settle  func()
}

type waiter struct {
	due time.Time
	seq int
	ch  chan time.Time
}

func NewManual(unixNano int64) *Manual {
	return &Manual{now: time.Unix(0, unixNano), Settle: func() {
		for i := 0; i < 50; i++ {
			runtime.Gosched()
		}
		time.Sleep(300 * time.Microsecond)
	}}
}

func (c *Manual) Now() time.Time {
	c.mu.Lock()
	defer c.mu.Unlock()
	return c.now
}

func (c *Manual) After(d time.Duration) <-chan time.Time {
	c.mu.Lock()
	defer c.mu.Unlock()
	ch := make(chan time.Time, 1)
	if d <= 0 {
		ch <- c.now
		return ch
	}
	c.seq++
	c.waiters = append(c.waiters, &waiter{due: c.now.Add(d), seq: c.seq, ch: ch})
	return ch
}

func (c *Manual) Sleep(d time.Duration)             { <-c.After(d) }
func (c *Manual) Since(t time.Time) time.Duration { return c.Now().Sub(t) }
func (c *Manual) Until(t time.Time) time.Duration { return t.Sub(c.Now()) }

// Pending returns the due times (unix ns) of registered waiters, sorted.
func (c *Manual) Pending() []int64 {
	c.mu.Lock()
	defer c.mu.Unlock()
	c.sortLocked()
	out := make([]int64, len(c.waiters))
	for i, w := range c.waiters {
		out[i] = w.due.UnixNano()
	}
	return out
}

func (c *Manual) sortLocked() {
	sort.SliceStable(c.waiters, func(i, j int) bool {
		if !c.waiters[i].due.Equal(c.waiters[j].due) {
			return c.waiters[i].due.Before(c.waiters[j].due)
		}
		return c.waiters[i].seq < c.waiters[j].seq
	})
}

// Advance moves time forward by d, firing every waiter that becomes due, earliest first.
func (c *Manual) Advance(d time.Duration) {
	c.mu.Lock()
	target := c.now.Add(d)
	c.mu.Unlock()
	for {
		c.mu.Lock()
		c.sortLocked()
		if len(c.waiters) == 0 || c.waiters[0].due.After(target) {
			c.now = target
			c.mu.Unlock()
			return
		}
		w := c.waiters[0]
		c.waiters = c.waiters[1:]
		if w.due.After(c.now) {
			c.now = w.due
		}
		now := c.now
		c.mu.Unlock()
		w.ch <- now
		c.Settle()
	}
}

// SetNow moves time without firing anything (waiters stay registered, possibly overdue).
func (c *Manual) SetNow(unixNano int64) {
	c.mu.Lock()
	defer c.mu.Unlock()
	c.now = time.Unix(0, unixNano)
}

// FireIndex fires the i-th pending waiter (in Pending order) without changing the time:
// models a timer goroutine that is scheduled late.
func (c *Manual) FireIndex(i int) bool {
	c.mu.Lock()
	c.sortLocked()
	if i < 0 || i >= len(c.waiters) {
		c.mu.Unlock()
		return false
	}
	w := c.waiters[i]
	c.waiters = append(c.waiters[:i:i], c.waiters[i+1:]...)
	now := c.now
	c.mu.Unlock()
	w.ch <- now
	c.Settle()
	return true
}
