// Package bodyfacts extracts the body of a named function or method from the repo's source as a
// normalised string (statements printed by go/printer without comments, joined by "; ", white space
// collapsed).  Used for small dependencies whose exact behaviour the models assume — the production
// clock — so that ANY change to them breaks a kernel-checked obligation (Properties/Clock.lean).
package bodyfacts

import (
	"bytes"
	"fmt"
	"go/ast"
	"go/parser"
	"go/printer"
	"go/token"
	"os"
	"path/filepath"
	"strings"
)

type Target struct {
	Dir  string // relative to the repo root
	Recv string // receiver type name, "" for a plain function
	Func string
}

func (t Target) Name() string {
	if t.Recv == "" {
		return t.Func
	}
	return t.Recv + "." + t.Func
}

func recvName(fd *ast.FuncDecl) string {
	if fd.Recv == nil || len(fd.Recv.List) == 0 {
		return ""
	}
	e := fd.Recv.List[0].Type
	for {
		switch x := e.(type) {
		case *ast.StarExpr:
			e = x.X
		case *ast.IndexExpr:
			e = x.X
		case *ast.IndexListExpr:
			e = x.X
		case *ast.Ident:
			return x.Name
		default:
			return ""
		}
	}
}

// Body returns "<params> => <stmt>; <stmt>; …" of the target.
func Body(repo string, t Target) (string, error) {
	dir := filepath.Join(repo, t.Dir)
	ents, err := os.ReadDir(dir)
	if err != nil {
		return "", err
	}
	fset := token.NewFileSet()
	for _, e := range ents {
		n := e.Name()
		if e.IsDir() || !strings.HasSuffix(n, ".go") || strings.HasSuffix(n, "_test.go") || strings.HasSuffix(n, "_verif.go") {
			continue
		}
		f, err := parser.ParseFile(fset, filepath.Join(dir, n), nil, 0) // comments dropped
		if err != nil {
			return "", err
		}
		for _, d := range f.Decls {
			fd, ok := d.(*ast.FuncDecl)
			if !ok || fd.Body == nil || fd.Name.Name != t.Func || recvName(fd) != t.Recv {
				continue
			}
			var parts []string
			for _, s := range fd.Body.List {
				var b bytes.Buffer
				if err := printer.Fprint(&b, fset, s); err != nil {
					return "", err
				}
				parts = append(parts, strings.Join(strings.Fields(b.String()), " "))
			}
			var sig bytes.Buffer
			if err := printer.Fprint(&sig, fset, fd.Type); err != nil {
				return "", err
			}
			return strings.Join(strings.Fields(sig.String()), " ") + " => " + strings.Join(parts, "; "), nil
		}
	}
	return "", fmt.Errorf("%s not found in %s", t.Name(), t.Dir)
}
