package lockfacts

const eng = "proxy/src/services/lunar-engine/"
const tk = "proxy/src/libs/toolkit-core/"

// Targets: the structs named in the anchors of C18 (and the lock-protected cores of C01, C02, C06,
// C09, C10, C11, C12).  Init = functions that run before the object is shared between goroutines.
var Targets = []Target{
	{Dir: eng + "streams", Type: "Stream", Pkg: "streams",
		Init: []string{"Initialize", "WithHub", "WithValidationMode", "WithValidationPath", "createFlows",
			"InitializeHubCommunication", "getFlows", "attachSystemFlows", "loadSupportedFilters", "initializeSupportedFilters"}},
	{Dir: eng + "streams", Type: "flowMetricsData", Pkg: "streams"},
	{Dir: eng + "streams", Type: "processorMetricsData", Pkg: "streams"},
	{Dir: eng + "streams/flow", Type: "Flow", Pkg: "streamflow"},
	{Dir: eng + "streams/lunar-context", Type: "lunarContext", Pkg: "lunarcontext", Init: []string{"SetFlowContext"}},
	{Dir: eng + "streams/lunar-context", Type: "memoryState", Pkg: "lunarcontext"},
	{Dir: tk + "vacuum", Type: "MapVacuum", Pkg: "vacuum"},
	{Dir: eng + "streams/resources/quota", Type: "quota", Pkg: "quotaresource", Init: []string{"init"}},
	{Dir: eng + "streams/resources/quota", Type: "fixedWindow", Pkg: "quotaresource", Init: []string{"init"}},
	{Dir: eng + "streams/resources/quota", Type: "concurrentStrategy", Pkg: "quotaresource", Init: []string{"init"}},
	{Dir: eng + "streams/resources", Type: "ResourceManagement", Pkg: "resources", Init: []string{"init", "WithQuotaData"}},
	{Dir: eng + "utils", Type: "MemoryCache", Pkg: "utils", Init: []string{"WithMaxCacheSize"}},
	{Dir: eng + "streams/processors/queue", Type: "RequestWatcher", Pkg: "processorqueue"},
	{Dir: eng + "streams/processors/queue", Type: "Request", Pkg: "processorqueue"},
	{Dir: eng + "streams/processors/queue", Type: "queueProcessor", Pkg: "processorqueue", Init: []string{"init", "initializeMetrics", "validateProcessingTimeoutIsGreaterTheTTL"}},
	{Dir: eng + "routing", Type: "HandlingDataManager", Pkg: "routing",
		Init: []string{"Setup", "initializeOtel", "initializeDoctor", "SetHandleRoutes", "RunDiagnosisWorker"},
		Only: []string{"stream"}},
	{Dir: eng + "routing", Type: "StreamsData", Pkg: "routing", Only: []string{"stream"}},
	{Dir: eng + "config", Type: "TxnPoliciesAccessor", Pkg: "config"},
	{Dir: eng + "utils/queue", Type: "DelayedPriorityQueue", Pkg: "queue", Init: []string{"NewInMemoryDelayedPriorityQueue"}},
	{Dir: eng + "utils/limit", Type: "singleRateLimitState", Pkg: "limit"},
	{Dir: eng + "services/remedies", Type: "StrategyBasedQueuePlugin", Pkg: "remedies", Only: []string{"queues"}},
	{Dir: eng + "services/remedies", Type: "StrategyBasedThrottlingPlugin", Pkg: "remedies"},
	{Dir: eng + "utils/limit", Type: "RateLimitState", Pkg: "limit"},
	// get-or-create of the per-endpoint limiter (concurrency-based throttling) and other shared maps
	{Dir: tk + "concurrentmap", Type: "ConcurrentMap", Pkg: "concurrentmap"},
}
