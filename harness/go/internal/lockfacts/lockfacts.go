// Package lockfacts is the regenerated "atomicity fact base" of DESIGN.md §4.4: a purely syntactic
// (go/ast) lockset walk over declared struct types of /repo.  For every read/write of a field of a
// target struct inside a method of that struct it records the set of the struct's own mutexes that
// are syntactically held at that point.  The rules (documented, trusted, deliberately small):
//
//   - recv.mu.Lock()/RLock() adds mu (exclusive/shared); recv.mu.Unlock()/RUnlock() removes it;
//     `defer recv.mu.Unlock()` keeps it to the end of the function; TryLock() inside an `if !…{return}`
//     guard counts as Lock() for the code after the guard.
//   - a nested block is walked with a copy of the lockset; if it ends in return/panic/continue/break its
//     lockset does not flow to the code after it; otherwise the locksets of the paths are intersected.
//   - a function literal is walked with the current lockset when it is called/deferred in place or bound
//     to a variable, with the EMPTY lockset when started with `go`.
//   - an unexported method inherits the intersection of the locksets held at all its call sites
//     `recv.m(...)` in methods of the same type (fix-point); any other call site in the package
//     (`x.m(...)` with x not the receiver) or an exported method contributes the empty lockset.
//   - functions named in Target.Init (constructors, one-time initialisation) are "init-only":
//     accesses there are not concurrent with anything.
//   - &recv.f passed to sync/atomic functions is an atomic access.
//   - `x := recv.f` where f has MAP type makes x an alias of the shared map: every later use of x in
//     the method (range, index, len, passing it on) is a read of f, `x[k] = v` / delete(x, k) a write,
//     under the lockset held at THAT point (copying the reference under a lock protects nothing).
package lockfacts

import (
	"fmt"
	"go/ast"
	"go/parser"
	"go/token"
	"os"
	"path/filepath"
	"sort"
	"strconv"
	"strings"
)

type Target struct {
	Dir  string   // directory relative to the repo root
	Type string   // struct type name
	Pkg  string   // short label used in output ("streams")
	Init []string // method/function names that run before the object is shared
	Skip []string // fields not tracked (immutable after construction by inspection, documented)
	Only []string // if non-empty: track only these fields
}

type Lock struct {
	Name string `json:"name"`
	Excl bool   `json:"excl"`
}

type Access struct {
	Struct string `json:"struct"` // "<pkg>.<Type>"
	Field  string `json:"field"`
	Func   string `json:"func"`
	Write  bool   `json:"write"`
	Locks  []Lock `json:"locks"`
	Atomic bool   `json:"atomic"`
	Init   bool   `json:"init"`
	Region int    `json:"region"` // critical section number inside Func (0 = no lock held); distinct Lock() calls open distinct regions
	Via    string `json:"via"`    // non-empty: the access happens inside this callee (a method of the same receiver called from Func)
	Pos    string `json:"pos"`
}

type lockset map[string]bool // name -> exclusive; the key "\x00r<n>" marks the critical-section number n

const regionPrefix = "\x00r"

func (l lockset) region() int {
	for k := range l {
		if strings.HasPrefix(k, regionPrefix) {
			n, _ := strconv.Atoi(k[len(regionPrefix):])
			return n
		}
	}
	return 0
}

func (l lockset) setRegion(n int) {
	for k := range l {
		if strings.HasPrefix(k, regionPrefix) {
			delete(l, k)
		}
	}
	if n > 0 {
		l[regionPrefix+strconv.Itoa(n)] = true
	}
}

func (l lockset) nLocks() int {
	n := 0
	for k := range l {
		if !strings.HasPrefix(k, "\x00") {
			n++
		}
	}
	return n
}

func (l lockset) clone() lockset {
	c := lockset{}
	for k, v := range l {
		c[k] = v
	}
	return c
}

func intersect(a, b lockset) lockset {
	c := lockset{}
	for k, v := range a {
		if w, ok := b[k]; ok {
			c[k] = v && w
		}
	}
	return c
}

func (l lockset) list() []Lock {
	out := []Lock{}
	for k, v := range l {
		if strings.HasPrefix(k, "\x00") {
			continue
		}
		out = append(out, Lock{k, v})
	}
	sort.Slice(out, func(i, j int) bool { return out[i].Name < out[j].Name })
	return out
}

type rawAccess struct {
	field    string
	write    bool
	atomic   bool
	locks    lockset
	pos      token.Pos
	detached bool // inside a `go func(){…}` body: does not inherit the enclosing method's callers' locks
}

type callSite struct {
	callee   string
	locks    lockset
	detached bool
}

type methodInfo struct {
	name     string
	exported bool
	accesses []rawAccess
	calls    []callSite
}

type walker struct {
	recv       string
	fields     map[string]bool
	mutexes    map[string]bool
	m          *methodInfo
	detached   int
	subs       *[]*methodInfo // closures that outlive / run apart from the method: walked as pseudo-methods
	mapFlds    map[string]bool
	nextRegion int
	alias      map[string]string // local variable -> map-typed field it was assigned from (`x := recv.f`)
}

// closure walks a function literal that escapes the method (returned, or started with `go`) as a
// separate pseudo-method `<method>$<kind>`: never init-only, inherits no locks.
func (w *walker) closure(kind string, body *ast.BlockStmt) {
	base := w.m.name
	if i := strings.Index(base, "$"); i >= 0 {
		base = base[:i]
	}
	sub := &methodInfo{name: base + "$" + kind, exported: true}
	*w.subs = append(*w.subs, sub)
	saved := w.m
	w.m = sub
	w.block(body, lockset{})
	w.m = saved
}

func baseTypeName(e ast.Expr) string {
	switch t := e.(type) {
	case *ast.StarExpr:
		return baseTypeName(t.X)
	case *ast.Ident:
		return t.Name
	case *ast.IndexExpr:
		return baseTypeName(t.X)
	case *ast.IndexListExpr:
		return baseTypeName(t.X)
	case *ast.SelectorExpr:
		return t.Sel.Name
	}
	return ""
}

func isMutexType(e ast.Expr) bool {
	switch t := e.(type) {
	case *ast.StarExpr:
		return isMutexType(t.X)
	case *ast.SelectorExpr:
		if id, ok := t.X.(*ast.Ident); ok && id.Name == "sync" {
			return t.Sel.Name == "Mutex" || t.Sel.Name == "RWMutex"
		}
	}
	return false
}

// recvField returns f if e is `recv.f` (possibly deeper: recv.f.g -> f).
func (w *walker) recvField(e ast.Expr) (string, bool) {
	for {
		switch t := e.(type) {
		case *ast.SelectorExpr:
			if id, ok := t.X.(*ast.Ident); ok && id.Name == w.recv && id.Obj != nil || ok && id.Name == w.recv {
				return t.Sel.Name, true
			}
			e = t.X
		case *ast.IndexExpr:
			e = t.X
		case *ast.SliceExpr:
			e = t.X
		case *ast.StarExpr:
			e = t.X
		case *ast.ParenExpr:
			e = t.X
		default:
			return "", false
		}
	}
}

func (w *walker) record(field string, write, atomic bool, ls lockset, pos token.Pos) {
	if !w.fields[field] {
		return
	}
	w.m.accesses = append(w.m.accesses, rawAccess{field, write, atomic, ls.clone(), pos, w.detached > 0})
}

// lockOp recognises recv.mu.Lock() etc.; returns (mutex, op).
func (w *walker) lockOp(call *ast.CallExpr) (string, string, bool) {
	sel, ok := call.Fun.(*ast.SelectorExpr)
	if !ok {
		return "", "", false
	}
	switch sel.Sel.Name {
	case "Lock", "Unlock", "RLock", "RUnlock", "TryLock":
	default:
		return "", "", false
	}
	f, ok := w.recvField(sel.X)
	if !ok || !w.mutexes[f] {
		return "", "", false
	}
	// only direct recv.mu (not recv.other.mu)
	if inner, ok := sel.X.(*ast.SelectorExpr); ok {
		if id, ok := inner.X.(*ast.Ident); !ok || id.Name != w.recv {
			return "", "", false
		}
	}
	return f, sel.Sel.Name, true
}

// expr walks an expression recording reads; write targets are handled by the statement walker.
func (w *walker) expr(e ast.Expr, ls lockset) {
	if e == nil {
		return
	}
	switch t := e.(type) {
	case *ast.CallExpr:
		if mu, op, ok := w.lockOp(t); ok {
			switch op {
			case "Lock", "TryLock":
				if ls.nLocks() == 0 {
					w.nextRegion++
					ls.setRegion(w.nextRegion)
				}
				ls[mu] = true
			case "RLock":
				if ls.nLocks() == 0 {
					w.nextRegion++
					ls.setRegion(w.nextRegion)
				}
				if _, held := ls[mu]; !held {
					ls[mu] = false
				}
			case "Unlock", "RUnlock":
				delete(ls, mu)
				if ls.nLocks() == 0 {
					ls.setRegion(0)
				}
			}
			return
		}
		// atomic.X(&recv.f, ...)
		if sel, ok := t.Fun.(*ast.SelectorExpr); ok {
			if id, ok := sel.X.(*ast.Ident); ok && id.Name == "atomic" && len(t.Args) > 0 {
				if u, ok := t.Args[0].(*ast.UnaryExpr); ok && u.Op == token.AND {
					if f, ok := w.recvField(u.X); ok {
						wr := !strings.HasPrefix(sel.Sel.Name, "Load")
						w.record(f, wr, true, ls, t.Pos())
						for _, a := range t.Args[1:] {
							w.expr(a, ls)
						}
						return
					}
				}
			}
			// recv.method(...)
			if id, ok := sel.X.(*ast.Ident); ok && id.Name == w.recv {
				w.m.calls = append(w.m.calls, callSite{sel.Sel.Name, ls.clone(), w.detached > 0})
			}
		}
		// delete(recv.f, k) / clear(recv.f)
		if id, ok := t.Fun.(*ast.Ident); ok && (id.Name == "delete" || id.Name == "clear") && len(t.Args) > 0 {
			if f, ok := w.recvField(t.Args[0]); ok {
				w.record(f, true, false, ls, t.Pos())
			} else if aid, ok := t.Args[0].(*ast.Ident); ok {
				if f, ok := w.alias[aid.Name]; ok {
					w.record(f, true, false, ls, t.Pos())
				}
			}
		}
		if fl, ok := t.Fun.(*ast.FuncLit); ok {
			w.block(fl.Body, ls.clone())
		} else {
			w.expr(t.Fun, ls)
		}
		for _, a := range t.Args {
			w.expr(a, ls)
		}
	case *ast.SelectorExpr:
		if f, ok := w.recvField(t); ok {
			w.record(f, false, false, ls, t.Pos())
			return
		}
		w.expr(t.X, ls)
	case *ast.FuncLit:
		w.block(t.Body, ls.clone())
	case *ast.Ident:
		if f, ok := w.alias[t.Name]; ok {
			w.record(f, false, false, ls, t.Pos())
		}
	case *ast.BinaryExpr:
		w.expr(t.X, ls)
		w.expr(t.Y, ls)
	case *ast.UnaryExpr:
		w.expr(t.X, ls)
	case *ast.StarExpr:
		w.expr(t.X, ls)
	case *ast.ParenExpr:
		w.expr(t.X, ls)
	case *ast.IndexExpr:
		w.expr(t.X, ls)
		w.expr(t.Index, ls)
	case *ast.SliceExpr:
		w.expr(t.X, ls)
		w.expr(t.Low, ls)
		w.expr(t.High, ls)
		w.expr(t.Max, ls)
	case *ast.TypeAssertExpr:
		w.expr(t.X, ls)
	case *ast.CompositeLit:
		for _, el := range t.Elts {
			w.expr(el, ls)
		}
	case *ast.KeyValueExpr:
		w.expr(t.Key, ls)
		w.expr(t.Value, ls)
	}
}

func (w *walker) lhs(e ast.Expr, ls lockset) {
	// recv.f = …, recv.f[k] = …, recv.f.g = … (the last is a read of f)
	switch t := e.(type) {
	case *ast.SelectorExpr:
		if id, ok := t.X.(*ast.Ident); ok && id.Name == w.recv {
			w.record(t.Sel.Name, true, false, ls, t.Pos())
			return
		}
		w.expr(t.X, ls)
	case *ast.IndexExpr:
		if id, ok := t.X.(*ast.Ident); ok {
			if f, ok := w.alias[id.Name]; ok {
				w.record(f, true, false, ls, t.Pos())
				w.expr(t.Index, ls)
				return
			}
		}
		if f, ok := w.recvField(t.X); ok {
			if sel, ok := t.X.(*ast.SelectorExpr); ok {
				if id, ok := sel.X.(*ast.Ident); ok && id.Name == w.recv {
					w.record(f, true, false, ls, t.Pos())
					w.expr(t.Index, ls)
					return
				}
			}
		}
		w.expr(t.X, ls)
		w.expr(t.Index, ls)
	case *ast.StarExpr:
		w.expr(t.X, ls)
	default:
		w.expr(e, ls)
	}
}

func terminates(b *ast.BlockStmt) bool {
	if b == nil || len(b.List) == 0 {
		return false
	}
	switch s := b.List[len(b.List)-1].(type) {
	case *ast.ReturnStmt:
		return true
	case *ast.BranchStmt:
		return s.Tok == token.BREAK || s.Tok == token.CONTINUE || s.Tok == token.GOTO
	case *ast.ExprStmt:
		if c, ok := s.X.(*ast.CallExpr); ok {
			if id, ok := c.Fun.(*ast.Ident); ok && id.Name == "panic" {
				return true
			}
			if sel, ok := c.Fun.(*ast.SelectorExpr); ok && (sel.Sel.Name == "Fatal" || sel.Sel.Name == "Exit" || sel.Sel.Name == "Goexit") {
				return true
			}
		}
	}
	return false
}

// block walks statements, mutating ls; returns the lockset at the end.
func (w *walker) block(b *ast.BlockStmt, ls lockset) lockset {
	if b == nil {
		return ls
	}
	for _, s := range b.List {
		ls = w.stmt(s, ls)
	}
	return ls
}

func (w *walker) stmt(s ast.Stmt, ls lockset) lockset {
	switch t := s.(type) {
	case *ast.ExprStmt:
		w.expr(t.X, ls)
	case *ast.AssignStmt:
		for _, r := range t.Rhs {
			w.expr(r, ls)
		}
		for i, l := range t.Lhs {
			// `x := recv.f` with f a map: x aliases the shared map; later uses of x are uses of f
			if id, ok := l.(*ast.Ident); ok && len(t.Lhs) == len(t.Rhs) {
				if sel, ok := t.Rhs[i].(*ast.SelectorExpr); ok {
					if rid, ok := sel.X.(*ast.Ident); ok && rid.Name == w.recv && w.mapFlds[sel.Sel.Name] {
						w.alias[id.Name] = sel.Sel.Name
						continue
					}
				}
				delete(w.alias, id.Name)
			}
			w.lhs(l, ls)
		}
	case *ast.IncDecStmt:
		w.lhs(t.X, ls)
	case *ast.DeclStmt:
		if gd, ok := t.Decl.(*ast.GenDecl); ok {
			for _, sp := range gd.Specs {
				if vs, ok := sp.(*ast.ValueSpec); ok {
					for _, v := range vs.Values {
						w.expr(v, ls)
					}
				}
			}
		}
	case *ast.ReturnStmt:
		for _, r := range t.Results {
			if fl, ok := r.(*ast.FuncLit); ok {
				w.closure("returned", fl.Body)
				continue
			}
			w.expr(r, ls)
		}
	case *ast.DeferStmt:
		if mu, op, ok := w.lockOp(t.Call); ok && (op == "Unlock" || op == "RUnlock") {
			_ = mu // stays held to the end of the function
			return ls
		}
		if fl, ok := t.Call.Fun.(*ast.FuncLit); ok {
			// deferred closure: runs at function end; unlocks inside it are ignored (they keep the lock held)
			w.deferredBody(fl.Body, ls.clone())
		} else {
			w.expr(t.Call, ls.clone())
		}
	case *ast.GoStmt:
		if fl, ok := t.Call.Fun.(*ast.FuncLit); ok {
			w.closure("go", fl.Body)
			for _, a := range t.Call.Args {
				w.expr(a, ls)
			}
		} else {
			// go recv.m(): call site with empty lockset
			if sel, ok := t.Call.Fun.(*ast.SelectorExpr); ok {
				if id, ok := sel.X.(*ast.Ident); ok && id.Name == w.recv {
					w.m.calls = append(w.m.calls, callSite{sel.Sel.Name, lockset{}, true})
				}
			}
			for _, a := range t.Call.Args {
				w.expr(a, ls)
			}
		}
	case *ast.BlockStmt:
		return w.block(t, ls)
	case *ast.IfStmt:
		if t.Init != nil {
			ls = w.stmt(t.Init, ls)
		}
		// `if !recv.mu.TryLock() { …return }` : lock held afterwards
		tryMu := ""
		if u, ok := t.Cond.(*ast.UnaryExpr); ok && u.Op == token.NOT {
			if c, ok := u.X.(*ast.CallExpr); ok {
				if mu, op, ok := w.lockOp(c); ok && op == "TryLock" {
					tryMu = mu
				}
			}
		}
		if tryMu == "" {
			w.expr(t.Cond, ls)
		}
		thenLs := w.block(t.Body, ls.clone())
		var paths []lockset
		if !terminates(t.Body) {
			paths = append(paths, thenLs)
		}
		if t.Else != nil {
			var elseLs lockset
			var elseTerm bool
			switch e := t.Else.(type) {
			case *ast.BlockStmt:
				elseLs = w.block(e, ls.clone())
				elseTerm = terminates(e)
			default:
				elseLs = w.stmt(e, ls.clone())
			}
			if !elseTerm {
				paths = append(paths, elseLs)
			}
		} else {
			after := ls.clone()
			if tryMu != "" {
				if after.nLocks() == 0 {
					w.nextRegion++
					after.setRegion(w.nextRegion)
				}
				after[tryMu] = true
			}
			paths = append(paths, after)
		}
		if len(paths) == 0 {
			return ls
		}
		out := paths[0]
		for _, p := range paths[1:] {
			out = intersect(out, p)
		}
		return out
	case *ast.ForStmt:
		if t.Init != nil {
			ls = w.stmt(t.Init, ls)
		}
		w.expr(t.Cond, ls)
		end := w.block(t.Body, ls.clone())
		if t.Post != nil {
			w.stmt(t.Post, end.clone())
		}
		return intersect(ls, end)
	case *ast.RangeStmt:
		w.expr(t.X, ls)
		end := w.block(t.Body, ls.clone())
		return intersect(ls, end)
	case *ast.SwitchStmt:
		if t.Init != nil {
			ls = w.stmt(t.Init, ls)
		}
		w.expr(t.Tag, ls)
		return w.cases(t.Body, ls)
	case *ast.TypeSwitchStmt:
		return w.cases(t.Body, ls)
	case *ast.SelectStmt:
		return w.cases(t.Body, ls)
	case *ast.LabeledStmt:
		return w.stmt(t.Stmt, ls)
	case *ast.SendStmt:
		w.expr(t.Chan, ls)
		w.expr(t.Value, ls)
	}
	return ls
}

func (w *walker) cases(body *ast.BlockStmt, ls lockset) lockset {
	out := ls.clone()
	for _, c := range body.List {
		var stmts []ast.Stmt
		switch cc := c.(type) {
		case *ast.CaseClause:
			for _, e := range cc.List {
				w.expr(e, ls)
			}
			stmts = cc.Body
		case *ast.CommClause:
			if cc.Comm != nil {
				w.stmt(cc.Comm, ls.clone())
			}
			stmts = cc.Body
		}
		blk := &ast.BlockStmt{List: stmts}
		end := w.block(blk, ls.clone())
		if !terminates(blk) {
			out = intersect(out, end)
		}
	}
	return out
}

// deferredBody: like block but Unlock calls do not release (the closure runs at function exit).
func (w *walker) deferredBody(b *ast.BlockStmt, ls lockset) {
	for _, s := range b.List {
		if es, ok := s.(*ast.ExprStmt); ok {
			if c, ok := es.X.(*ast.CallExpr); ok {
				if _, op, ok := w.lockOp(c); ok && (op == "Unlock" || op == "RUnlock") {
					continue
				}
			}
		}
		ls = w.stmt(s, ls)
	}
}

type structInfo struct {
	fields    map[string]bool
	mutexes   map[string]bool
	mapFields map[string]bool // fields of map type: a local alias of them shares the mutable contents
	embeds    []string
}

func collectStruct(files []*ast.File, name string) *structInfo {
	for _, f := range files {
		for _, d := range f.Decls {
			gd, ok := d.(*ast.GenDecl)
			if !ok || gd.Tok != token.TYPE {
				continue
			}
			for _, sp := range gd.Specs {
				ts := sp.(*ast.TypeSpec)
				st, ok := ts.Type.(*ast.StructType)
				if !ok || ts.Name.Name != name {
					continue
				}
				si := &structInfo{fields: map[string]bool{}, mutexes: map[string]bool{}, mapFields: map[string]bool{}}
				for _, fld := range st.Fields.List {
					if len(fld.Names) == 0 {
						si.embeds = append(si.embeds, baseTypeName(fld.Type))
						if isMutexType(fld.Type) {
							si.mutexes[baseTypeName(fld.Type)] = true
						}
						continue
					}
					for _, n := range fld.Names {
						if isMutexType(fld.Type) {
							si.mutexes[n.Name] = true
						} else {
							si.fields[n.Name] = true
							if _, ok := fld.Type.(*ast.MapType); ok {
								si.mapFields[n.Name] = true
							}
						}
					}
				}
				return si
			}
		}
	}
	return nil
}

// Extract runs the walk for one target.
func Extract(repo string, t Target) ([]Access, error) {
	dir := filepath.Join(repo, t.Dir)
	fset := token.NewFileSet()
	ents, err := os.ReadDir(dir)
	if err != nil {
		return nil, err
	}
	var files []*ast.File
	for _, e := range ents {
		n := e.Name()
		if e.IsDir() || !strings.HasSuffix(n, ".go") || strings.HasSuffix(n, "_test.go") || strings.HasSuffix(n, "_verif.go") {
			continue
		}
		f, err := parser.ParseFile(fset, filepath.Join(dir, n), nil, parser.SkipObjectResolution)
		if err != nil {
			return nil, err
		}
		files = append(files, f)
	}
	si := collectStruct(files, t.Type)
	if si == nil {
		return nil, fmt.Errorf("struct %s not found in %s", t.Type, t.Dir)
	}
	for _, emb := range si.embeds {
		if es := collectStruct(files, emb); es != nil {
			for f := range es.fields {
				si.fields[f] = true
			}
			for f := range es.mapFields {
				si.mapFields[f] = true
			}
			for m := range es.mutexes {
				si.mutexes[m] = true
			}
		}
	}
	for _, s := range t.Skip {
		delete(si.fields, s)
	}
	if len(t.Only) > 0 {
		only := map[string]bool{}
		for _, f := range t.Only {
			if si.fields[f] {
				only[f] = true
			}
		}
		si.fields = only
	}
	initSet := map[string]bool{}
	for _, n := range t.Init {
		initSet[n] = true
	}
	methods := map[string]*methodInfo{}
	foreignCalls := map[string]bool{} // unexported method names called on something that is not the receiver
	for _, f := range files {
		for _, d := range f.Decls {
			fd, ok := d.(*ast.FuncDecl)
			if !ok || fd.Body == nil {
				continue
			}
			isMethod := fd.Recv != nil && len(fd.Recv.List) == 1 && baseTypeName(fd.Recv.List[0].Type) == t.Type
			recvName := ""
			if isMethod && len(fd.Recv.List[0].Names) == 1 {
				recvName = fd.Recv.List[0].Names[0].Name
			}
			// a plain (possibly generic) function whose FIRST parameter is a pointer to the target struct is a
			// method in all but syntax (utils/cache.go: clearKey(cache *MemoryCache[K, V], key K)): walk it with
			// that parameter as the receiver.  It has no receiver call sites, so it inherits no lockset.
			if fd.Recv == nil && fd.Type.Params != nil && len(fd.Type.Params.List) > 0 {
				p0 := fd.Type.Params.List[0]
				if _, ptr := p0.Type.(*ast.StarExpr); ptr && len(p0.Names) == 1 && baseTypeName(p0.Type) == t.Type &&
					!initSet[fd.Name.Name] {
					isMethod = true
					recvName = p0.Names[0].Name
				}
			}
			anyRecv := ""
			if fd.Recv != nil && len(fd.Recv.List) == 1 && len(fd.Recv.List[0].Names) == 1 {
				anyRecv = fd.Recv.List[0].Names[0].Name
			}
			// note foreign call sites of method names everywhere in the package (not inside init-only functions)
			if !initSet[fd.Name.Name] || (fd.Recv != nil && !isMethod) {
				ast.Inspect(fd.Body, func(n ast.Node) bool {
					if c, ok := n.(*ast.CallExpr); ok {
						if sel, ok := c.Fun.(*ast.SelectorExpr); ok {
							if id, ok := sel.X.(*ast.Ident); !(ok && anyRecv != "" && id.Name == anyRecv) {
								foreignCalls[sel.Sel.Name] = true
							}
						}
					}
					return true
				})
			}
			if !isMethod || recvName == "" || recvName == "_" {
				continue
			}
			mi := &methodInfo{name: fd.Name.Name, exported: fd.Name.IsExported()}
			var subs []*methodInfo
			w := &walker{recv: recvName, fields: si.fields, mutexes: si.mutexes, m: mi, subs: &subs,
				mapFlds: si.mapFields, alias: map[string]string{}}
			w.block(fd.Body, lockset{})
			methods[mi.name] = mi
			for _, sub := range subs {
				if old, ok := methods[sub.name]; ok {
					old.accesses = append(old.accesses, sub.accesses...)
					old.calls = append(old.calls, sub.calls...)
				} else {
					methods[sub.name] = sub
				}
			}
		}
	}
	// inherited locksets of unexported methods: fix-point over call sites
	inherited := map[string]lockset{}
	const top = "\x00top"
	for n := range methods {
		inherited[n] = lockset{top: true}
	}
	type callerT struct {
		caller   string
		locks    lockset
		detached bool
	}
	callers := map[string][]callerT{}
	for _, mi := range methods {
		for _, c := range mi.calls {
			if _, ok := methods[c.callee]; ok {
				callers[c.callee] = append(callers[c.callee], callerT{mi.name, c.locks, c.detached})
			}
		}
	}
	// init closure: an unexported method all of whose call sites are in init-only functions is init-only
	for changed := true; changed; {
		changed = false
		for n, mi := range methods {
			if initSet[n] || mi.exported || foreignCalls[n] || len(callers[n]) == 0 {
				continue
			}
			all := true
			for _, c := range callers[n] {
				if !initSet[c.caller] {
					all = false
				}
			}
			if all {
				initSet[n] = true
				changed = true
			}
		}
	}
	// call sites inside init-only functions do not count for inheritance
	for n, cs := range callers {
		kept := cs[:0]
		for _, c := range cs {
			if !initSet[c.caller] {
				kept = append(kept, c)
			}
		}
		callers[n] = kept
	}
	for n, mi := range methods {
		if mi.exported || foreignCalls[n] || len(callers[n]) == 0 {
			inherited[n] = lockset{}
		}
	}
	for iter := 0; iter < 20; iter++ {
		changed := false
		for n := range methods {
			if _, isTop := inherited[n][top]; !isTop && len(inherited[n]) == 0 {
				continue
			}
			var acc lockset
			first := true
			for _, c := range callers[n] {
				eff := c.locks.clone()
				inh := inherited[c.caller]
				if c.detached {
					inh = lockset{}
				}
				if _, isTop := inh[top]; !isTop {
					for k, v := range inh {
						if _, ok := eff[k]; !ok {
							eff[k] = v
						}
					}
				} else {
					continue // caller not resolved yet
				}
				if first {
					acc = eff
					first = false
				} else {
					acc = intersect(acc, eff)
				}
			}
			if first {
				continue
			}
			old := inherited[n]
			if _, isTop := old[top]; isTop || len(old) != len(acc) {
				inherited[n] = acc
				changed = true
			}
		}
		if !changed {
			break
		}
	}
	// call-through accesses: a call recv.c() inside method m makes c's direct accesses part of m's
	// behaviour; they get the locks of c's own access plus the call site's, and — when the call site
	// holds no lock — a critical-section number of their own (1000+i): c locks for itself.
	type extra struct {
		a   rawAccess
		via string
	}
	extras := map[string][]extra{}
	for _, mi := range methods {
		for i, c := range mi.calls {
			callee, ok := methods[c.callee]
			if !ok || callee == mi {
				continue
			}
			for _, ca := range callee.accesses {
				ls := ca.locks.clone()
				for k, v := range c.locks {
					if !strings.HasPrefix(k, "\x00") {
						if _, has := ls[k]; !has {
							ls[k] = v
						}
					}
				}
				if c.locks.nLocks() > 0 {
					ls.setRegion(c.locks.region())
				} else {
					ls.setRegion(1000 + i)
				}
				extras[mi.name] = append(extras[mi.name], extra{rawAccess{ca.field, ca.write, ca.atomic, ls, ca.pos, false}, c.callee})
			}
		}
	}
	var out []Access
	names := make([]string, 0, len(methods))
	for n := range methods {
		names = append(names, n)
	}
	sort.Strings(names)
	for _, n := range names {
		mi := methods[n]
		inh := inherited[n]
		if _, isTop := inh[top]; isTop {
			inh = lockset{}
		}
		// init-only also when every caller chain starts in init functions: keep simple — by name only
		for _, a := range mi.accesses {
			eff := a.locks.clone()
			if !a.detached {
				for k, v := range inh {
					if _, ok := eff[k]; !ok {
						eff[k] = v
					}
				}
			}
			p := fset.Position(a.pos)
			out = append(out, Access{
				Struct: t.Pkg + "." + t.Type, Field: a.field, Func: n, Write: a.write, Locks: eff.list(),
				Atomic: a.atomic, Init: initSet[n], Region: a.locks.region(),
				Pos: fmt.Sprintf("%s:%d", filepath.Join(t.Dir, filepath.Base(p.Filename)), p.Line),
			})
		}
		for _, e := range extras[n] {
			a := e.a
			eff := a.locks.clone()
			for k, v := range inh {
				if _, ok := eff[k]; !ok {
					eff[k] = v
				}
			}
			p := fset.Position(a.pos)
			out = append(out, Access{
				Struct: t.Pkg + "." + t.Type, Field: a.field, Func: n, Write: a.write, Locks: eff.list(),
				Atomic: a.atomic, Init: initSet[n], Region: a.locks.region(), Via: e.via,
				Pos: fmt.Sprintf("%s:%d", filepath.Join(t.Dir, filepath.Base(p.Filename)), p.Line),
			})
		}
	}
	return out, nil
}
