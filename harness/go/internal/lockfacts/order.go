package lockfacts

// Call-order facts: for a named function, the sequence of calls to a small set of method names in
// the order in which the calls COMPLETE along the source text (position of the closing parenthesis,
// so that in `a.F(b.G())` G comes before F).  Control flow is ignored: the sequence is the order of
// the call sites in the text, which for the straight-line publish/register code these facts are
// about is the order of execution on every path that reaches both calls.

import (
	"fmt"
	"go/ast"
	"go/parser"
	"go/token"
	"os"
	"path/filepath"
	"sort"
	"strings"
)

type OrderTarget struct {
	Dir   string   // directory relative to the repo root
	Pkg   string   // short package label used in the fact's name
	Recv  string   // receiver type name ("" for a plain function)
	Func  string   // function name
	Names []string // method names whose call sites are recorded
}

type OrderFact struct {
	Func  string   `json:"func"` // pkg.Recv.Func
	Calls []string `json:"calls"`
}

var OrderTargets = []OrderTarget{
	// the id of a queued request becomes visible to the background loop with Enqueue; the loop looks
	// the Request up in the watcher (AddRequest) and forgets ids it does not find
	{Dir: eng + "streams/processors/queue", Pkg: "processorqueue", Recv: "queueProcessor", Func: "enqueueIfSlotAvailable",
		Names: []string{"ReserveSlot", "ReleaseSlot", "AddRequest", "Enqueue"}},
	// the loop side: pop, look up, take the processing state, and only then test the quota
	{Dir: eng + "streams/processors/queue", Pkg: "processorqueue", Recv: "queueProcessor", Func: "tryProcessQueueItems",
		Names: []string{"DequeueIfValueRelevant", "GetRequest", "processQueueItem", "Enqueue"}},
}

func recvName(fd *ast.FuncDecl) string {
	if fd.Recv == nil || len(fd.Recv.List) == 0 {
		return ""
	}
	return baseTypeName(fd.Recv.List[0].Type)
}

func ExtractOrder(repo string, t OrderTarget) (OrderFact, error) {
	name := t.Pkg + "." + t.Func
	if t.Recv != "" {
		name = t.Pkg + "." + t.Recv + "." + t.Func
	}
	fact := OrderFact{Func: name}
	dir := filepath.Join(repo, t.Dir)
	ents, err := os.ReadDir(dir)
	if err != nil {
		return fact, err
	}
	fset := token.NewFileSet()
	want := map[string]bool{}
	for _, n := range t.Names {
		want[n] = true
	}
	for _, e := range ents {
		n := e.Name()
		if e.IsDir() || !strings.HasSuffix(n, ".go") || strings.HasSuffix(n, "_test.go") || strings.HasSuffix(n, "_verif.go") {
			continue
		}
		f, err := parser.ParseFile(fset, filepath.Join(dir, n), nil, parser.SkipObjectResolution)
		if err != nil {
			return fact, err
		}
		for _, d := range f.Decls {
			fd, ok := d.(*ast.FuncDecl)
			if !ok || fd.Body == nil || fd.Name.Name != t.Func || recvName(fd) != t.Recv {
				continue
			}
			type site struct {
				pos  token.Pos
				name string
			}
			var sites []site
			ast.Inspect(fd.Body, func(n ast.Node) bool {
				if c, ok := n.(*ast.CallExpr); ok {
					if s, ok := c.Fun.(*ast.SelectorExpr); ok && want[s.Sel.Name] {
						sites = append(sites, site{c.Rparen, s.Sel.Name})
					}
				}
				return true
			})
			sort.Slice(sites, func(i, j int) bool { return sites[i].pos < sites[j].pos })
			for _, s := range sites {
				fact.Calls = append(fact.Calls, s.name)
			}
			return fact, nil
		}
	}
	return fact, fmt.Errorf("function %s not found in %s", name, t.Dir)
}
